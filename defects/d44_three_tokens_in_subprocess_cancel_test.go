package bpmn_test

import (
	"context"
	"encoding/xml"
	"testing"
	"time"

	"github.com/olive-io/bpmn/schema"
	"github.com/olive-io/bpmn/v2"
	"github.com/olive-io/bpmn/v2/pkg/tracing"
)

const d44doc = `<?xml version="1.0" encoding="UTF-8"?>
<bpmn:definitions xmlns:bpmn="http://www.omg.org/spec/BPMN/20100524/MODEL" id="D" targetNamespace="x">
<bpmn:process id="P" isExecutable="true">
 <bpmn:startEvent id="start"><bpmn:outgoing>f1</bpmn:outgoing></bpmn:startEvent>
 <bpmn:parallelGateway id="fork"><bpmn:incoming>f1</bpmn:incoming><bpmn:outgoing>f2</bpmn:outgoing><bpmn:outgoing>f3</bpmn:outgoing><bpmn:outgoing>f3b</bpmn:outgoing></bpmn:parallelGateway>
 <bpmn:subProcess id="u"><bpmn:incoming>f2</bpmn:incoming><bpmn:incoming>f3</bpmn:incoming><bpmn:incoming>f3b</bpmn:incoming><bpmn:outgoing>f4</bpmn:outgoing>
   <bpmn:startEvent id="s"><bpmn:outgoing>g1</bpmn:outgoing></bpmn:startEvent>
   <bpmn:serviceTask id="inner" name="inner"><bpmn:incoming>g1</bpmn:incoming><bpmn:outgoing>g2</bpmn:outgoing></bpmn:serviceTask>
   <bpmn:endEvent id="e"><bpmn:incoming>g2</bpmn:incoming></bpmn:endEvent>
   <bpmn:sequenceFlow id="g1" sourceRef="s" targetRef="inner"/>
   <bpmn:sequenceFlow id="g2" sourceRef="inner" targetRef="e"/>
 </bpmn:subProcess>
 <bpmn:endEvent id="end"><bpmn:incoming>f4</bpmn:incoming></bpmn:endEvent>
 <bpmn:sequenceFlow id="f1" sourceRef="start" targetRef="fork"/>
 <bpmn:sequenceFlow id="f2" sourceRef="fork" targetRef="u"/>
 <bpmn:sequenceFlow id="f3" sourceRef="fork" targetRef="u"/>
 <bpmn:sequenceFlow id="f3b" sourceRef="fork" targetRef="u"/>
 <bpmn:sequenceFlow id="f4" sourceRef="u" targetRef="end"/>
</bpmn:process></bpmn:definitions>`

func TestD44(t *testing.T) {
	var defs schema.Definitions
	if err := xml.Unmarshal([]byte(d44doc), &defs); err != nil {
		t.Fatal(err)
	}
	ctx, cancel := context.WithCancel(context.Background())
	engine := bpmn.NewEngine(bpmn.WithEngineContext(ctx))
	inst, err := engine.NewProcess(&defs, bpmn.WithContext(ctx))
	if err != nil {
		t.Fatal(err)
	}
	traces := inst.Tracer().SubscribeChannel(make(chan tracing.ITrace, 4096))
	if err := inst.StartAll(ctx); err != nil {
		t.Fatal(err)
	}
	// wait for the inner task's request: the first token is inside, two wait for their turn
	deadline := time.After(5 * time.Second)
wait:
	for {
		select {
		case tr := <-traces:
			if _, ok := tracing.Unwrap(tr).(bpmn.TaskTrace); ok {
				break wait
			}
		case <-deadline:
			t.Fatal("no request")
		}
	}
	time.Sleep(200 * time.Millisecond)
	cancel()
	select {
	case <-inst.Tracer().Done():
	case <-time.After(5 * time.Second):
		t.Fatal("the instance's tracer does not terminate after the cancel: a waiting activation is stuck while registered as a sender")
	}
}
