package bpmn_test

import (
	"context"
	"encoding/xml"
	"testing"
	"time"

	"github.com/olive-io/bpmn/schema"
	"github.com/olive-io/bpmn/v2"
	"github.com/olive-io/bpmn/v2/pkg/tracing"
)

const d43doc = `<?xml version="1.0" encoding="UTF-8"?>
<bpmn:definitions xmlns:bpmn="http://www.omg.org/spec/BPMN/20100524/MODEL" id="D" targetNamespace="x">
<bpmn:process id="P" isExecutable="true">
 <bpmn:startEvent id="start"><bpmn:outgoing>f1</bpmn:outgoing></bpmn:startEvent>
 <bpmn:parallelGateway id="fork"><bpmn:incoming>f1</bpmn:incoming><bpmn:outgoing>f2</bpmn:outgoing><bpmn:outgoing>f3</bpmn:outgoing></bpmn:parallelGateway>
 <bpmn:subProcess id="u"><bpmn:incoming>f2</bpmn:incoming><bpmn:incoming>f3</bpmn:incoming><bpmn:outgoing>f4</bpmn:outgoing>
   <bpmn:startEvent id="s"><bpmn:outgoing>g1</bpmn:outgoing></bpmn:startEvent>
   <bpmn:serviceTask id="inner" name="inner"><bpmn:incoming>g1</bpmn:incoming><bpmn:outgoing>g2</bpmn:outgoing></bpmn:serviceTask>
   <bpmn:endEvent id="e"><bpmn:incoming>g2</bpmn:incoming></bpmn:endEvent>
   <bpmn:sequenceFlow id="g1" sourceRef="s" targetRef="inner"/>
   <bpmn:sequenceFlow id="g2" sourceRef="inner" targetRef="e"/>
 </bpmn:subProcess>
 <bpmn:serviceTask id="after" name="after"><bpmn:incoming>f4</bpmn:incoming><bpmn:outgoing>f5</bpmn:outgoing></bpmn:serviceTask>
 <bpmn:endEvent id="end"><bpmn:incoming>f5</bpmn:incoming></bpmn:endEvent>
 <bpmn:sequenceFlow id="f1" sourceRef="start" targetRef="fork"/>
 <bpmn:sequenceFlow id="f2" sourceRef="fork" targetRef="u"/>
 <bpmn:sequenceFlow id="f3" sourceRef="fork" targetRef="u"/>
 <bpmn:sequenceFlow id="f4" sourceRef="u" targetRef="after"/>
 <bpmn:sequenceFlow id="f5" sourceRef="after" targetRef="end"/>
</bpmn:process></bpmn:definitions>`

func TestD43(t *testing.T) {
	var defs schema.Definitions
	if err := xml.Unmarshal([]byte(d43doc), &defs); err != nil {
		t.Fatal(err)
	}
	engine := bpmn.NewEngine()
	inst, err := engine.NewProcess(&defs)
	if err != nil {
		t.Fatal(err)
	}
	traces := inst.Tracer().SubscribeChannel(make(chan tracing.ITrace, 4096))
	if err := inst.StartAll(context.Background()); err != nil {
		t.Fatal(err)
	}
	req := map[string]int{}
	visits := map[string]int{}
	var held []bpmn.TaskTrace
	deadline := time.After(3 * time.Second)
	released := false
	ceased := false
loop:
	for {
		select {
		case tr := <-traces:
			tr = tracing.Unwrap(tr)
			switch x := tr.(type) {
			case bpmn.VisitTrace:
				if id, ok := x.Node.Id(); ok {
					visits[*id]++
				}
				// both tokens are inside the sub-process: let the inner task go
				if visits["u"] == 2 && !released {
					released = true
					go func() {
						time.Sleep(100 * time.Millisecond)
						inst.Tracer().Send(releaseTrace{})
					}()
				}
			case releaseTrace:
				for _, h := range held {
					h.Do()
				}
				held = nil
			case bpmn.TaskTrace:
				name, _ := x.GetActivity().Element().Name()
				req[*name]++
				if *name == "inner" && (visits["u"] < 2 || held != nil || req["inner"] == 1) && !ceased {
					if visits["u"] >= 2 && released && len(held) == 0 && req["inner"] > 1 {
						x.Do()
					} else {
						held = append(held, x)
					}
				} else {
					x.Do()
				}
			case bpmn.CeaseFlowTrace:
				ceased = true
				break loop
			}
		case <-deadline:
			break loop
		}
	}
	time.Sleep(300 * time.Millisecond)
drain:
	for {
		select {
		case tr := <-traces:
			if x, ok := tracing.Unwrap(tr).(bpmn.TaskTrace); ok {
				name, _ := x.GetActivity().Element().Name()
				req[*name]++
			}
		default:
			break drain
		}
	}
	t.Logf("ceased=%v requests=%v visits=%v", ceased, req, visits)
	if req["inner"] != 2 || req["after"] != 2 || visits["inner"] != 2 || visits["after"] != 2 {
		t.Fatalf("two tokens entered the sub-process: inner content must run twice and be seen twice, got requests=%v visits=%v", req, visits)
	}
}

type releaseTrace struct{}

func (releaseTrace) Unpack() any { return nil }
