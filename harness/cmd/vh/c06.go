package main

// C06 — event-based gateway: exactly one alternative wins and the instance completes.
//
// Programs: start → event-based gateway G → k ∈ {2,3} intermediate catch events C0..C(k-1) (signal sigA, message
// sigB, signal sigC) → one task T<j> per branch → end. Histories: every non-empty sequence of the competing events up
// to length 4, delivered (seq) one by one at quiescence, (nw) back to back without waiting, (conc) all at once from
// different goroutines; then the requested branch task(s) are answered, completion is awaited, and the losing events
// are delivered again ("late"). Every delivery runs under a deadline. Besides that: enforced replays of the two Lean
// witness schedules (`wit`: the winner is held before it notifies the loser while the loser's own event is delivered;
// `wit2`: two alternatives are held at the entry of the transformer and released together, racing the compare-and-swap;
// `wit0`: a forked flow is held before its first select while the winner runs the whole transformer) and, in the
// thorough tier, seeded perturbation of all schedule points.

import (
	"fmt"
	"runtime"
	"strconv"
	"strings"
	"sync"
	"time"

	bpmn "github.com/olive-io/bpmn/v2"
	"github.com/olive-io/bpmn/v2/pkg/event"

	"verifharness/internal/eng"
	"verifharness/internal/rec"
	"verifharness/internal/sched"
)

func init() {
	caseFamilies["c06"] = &caseFamily{
		Shard: 1, Par: 12,
		Count: func(tier string) int { return len(c06cases(tier)) },
		Run: func(out *rec.Out, idx int, rng *rec.Rng, tier string, stats map[string]int) {
			c06run(out, c06cases(tier)[idx], rng, stats)
		},
	}
}

var c06names = []string{"sigA", "sigB", "sigC"}
var c06kinds = []string{"signal", "message", "signal"}

type c06case struct {
	k       int
	mode    string // seq | nw | conc | wit | wit0
	seq     []int
	perturb int  // 0 none, 1 yields, 2 yields + micro-sleeps
	sub     bool // the gateway, its catch events and the branch tasks sit inside an embedded sub-process
	// forkdown: behind every catch event a parallel fork: one path straight to an end event (listed first), the task on the other
	forkdown bool
	// inclmerge: the alternatives' branches meet at an inclusive gateway in front of the end event
	inclmerge bool
}

func c06seqs(k, maxLen int) [][]int {
	var out [][]int
	var cur []int
	var rec func(n int)
	rec = func(n int) {
		if n == 0 {
			out = append(out, append([]int(nil), cur...))
			return
		}
		for e := 0; e < k; e++ {
			cur = append(cur, e)
			rec(n - 1)
			cur = cur[:len(cur)-1]
		}
	}
	for l := 1; l <= maxLen; l++ {
		rec(l)
	}
	return out
}

func c06cases(tier string) []c06case {
	var cs []c06case
	for k := 2; k <= 3; k++ {
		maxLen := 4
		if tier != "thorough" && k == 3 {
			maxLen = 3 // quick: 3 alternatives up to length 3 (thorough: 4)
		}
		for _, s := range c06seqs(k, maxLen) {
			for _, m := range []string{"seq", "nw", "conc"} {
				cs = append(cs, c06case{k: k, mode: m, seq: s})
			}
		}
		// enforced replays of the Lean witness schedules (winner = alternative w, loser = alternative l)
		for w := 0; w < k; w++ {
			for l := 0; l < k; l++ {
				if l != w {
					cs = append(cs, c06case{k: k, mode: "wit", seq: []int{w, l}})
					cs = append(cs, c06case{k: k, mode: "wit2", seq: []int{w, l}})
				}
			}
		}
		cs = append(cs, c06case{k: k, mode: "wit0", seq: []int{0}})
	}
	// the same gateway inside an embedded sub-process (events reach it through the sub-process)
	for _, s := range c06seqs(2, 2) {
		// (sequential deliveries only: inner termination traces are not relayed to the instance's tracer, so which way a
		// racing loser went cannot be read off the recorded history)
		cs = append(cs, c06case{k: 2, mode: "seq", seq: s, sub: true})
	}
	// the alternatives' branches fork behind their catch events (sequential deliveries, every alternative winning once)
	for k := 2; k <= 3; k++ {
		for _, s := range c06seqs(k, 2) {
			cs = append(cs, c06case{k: k, mode: "seq", seq: s, forkdown: true})
		}
	}
	// the alternatives' branches merged by an inclusive gateway: every pair of events, sequentially, back to back and
	// from two goroutines (a loser that takes its own event and loses the race is gone like a withdrawn one)
	for _, s := range c06seqs(3, 2) {
		for _, m := range []string{"seq", "nw", "conc"} {
			cs = append(cs, c06case{k: 3, mode: m, seq: s, inclmerge: true})
		}
	}
	// … and the enforced schedules in which the loser has taken its own event when the winner is determined
	for w := 0; w < 3; w++ {
		for l := 0; l < 3; l++ {
			if l != w {
				cs = append(cs, c06case{k: 3, mode: "wit", seq: []int{w, l}, inclmerge: true})
				cs = append(cs, c06case{k: 3, mode: "wit2", seq: []int{w, l}, inclmerge: true})
			}
		}
	}
	if tier == "thorough" {
		// seeded perturbation of every schedule point, for the racy delivery modes
		for k := 2; k <= 3; k++ {
			for _, s := range c06seqs(k, 3) {
				if len(s) < 2 {
					continue
				}
				for _, m := range []string{"nw", "conc"} {
					for p := 1; p <= 2; p++ {
						cs = append(cs, c06case{k: k, mode: m, seq: s, perturb: p})
					}
				}
			}
		}
	}
	return cs
}

func c06seqString(s []int) string {
	p := make([]string, len(s))
	for i, e := range s {
		p[i] = strconv.Itoa(e)
	}
	return strings.Join(p, ".")
}

// goroutine id of the caller (only used to tell flows apart inside the wit0 hook)
func c06gid() string {
	var b [64]byte
	n := runtime.Stack(b[:], false)
	f := strings.Fields(string(b[:n]))
	if len(f) >= 2 {
		return f[1]
	}
	return "?"
}

const (
	c06deliverDeadline = 300 * time.Millisecond
	c06completeWait    = 300 * time.Millisecond
	c06lateDeliveries  = 6
)

func c06run(out *rec.Out, c c06case, rng *rec.Rng, stats map[string]int) {
	c06runAs(out, "c06", c, rng, stats)
}

func c06runAs(out *rec.Out, fam string, c c06case, rng *rec.Rng, stats map[string]int) {
	g := eng.NewGraph()
	par := ""
	var subNode *eng.Node
	if c.sub {
		subNode = g.SubBegin("")
		par = subNode.ID
	}
	gw := g.Add("eventBasedGateway", "G", par)
	st := g.Add("startEvent", "start", par)
	en := g.Add("endEvent", "end", par)
	g.Connect(st, gw, nil)
	if c.inclmerge {
		// the branches of the alternatives are merged by an INCLUSIVE gateway: it must let the winner's token through
		// although the other alternatives' tokens never arrive (they were withdrawn — they are gone, not late)
		ij := g.Add("inclusiveGateway", "IJ", par)
		g.Connect(ij, en, nil)
	}
	for j := 0; j < c.k; j++ {
		ce := g.Add("intermediateCatchEvent", fmt.Sprintf("C%d", j), par)
		ce.Defs = []eng.EventDef{{Kind: c06kinds[j], Name: c06names[j]}}
		t := g.Add("task", fmt.Sprintf("T%d", j), par)
		g.Connect(gw, ce, nil)
		if c.forkdown {
			// the branch of every alternative FORKS behind its catch event: the path the winning token continues on ends
			// at once, the task sits on the forked sibling path (the winner's branch is all of it, not just its first path)
			f := g.Add("parallelGateway", fmt.Sprintf("F%d", j), par)
			es := g.Add("endEvent", fmt.Sprintf("es%d", j), par)
			g.Connect(ce, f, nil)
			g.Connect(f, es, nil)
			g.Connect(f, t, nil)
		} else {
			g.Connect(ce, t, nil)
		}
		if c.inclmerge {
			g.Connect(t, g.Node("IJ"), nil)
		} else {
			g.Connect(t, en, nil)
		}
	}
	if c.inclmerge {
		stats["alternatives_merged_by_an_inclusive_gateway"]++
	}
	if c.forkdown {
		stats["alternatives_whose_branch_forks"]++
	}
	if c.sub {
		ost := g.Add("startEvent", "ostart", "")
		oen := g.Add("endEvent", "oend", "")
		g.Connect(ost, subNode, nil)
		g.Connect(subNode, oen, nil)
		stats["gateway_inside_a_sub_process"]++
	}
	out.Begin(fam, c.k, c.mode, c06seqString(c.seq), c.perturb, rec.B(c.sub), rec.B(c.forkdown), rec.B(c.inclmerge))
	defer out.End()

	var ctl *sched.Controller
	// wit0: a hand-made handler that parks every flow goroutine other than the first one at its `flow.await`
	var w0mu sync.Mutex
	w0first := ""
	w0gate := make(chan struct{})
	w0parked := 0
	switch {
	case c.mode == "wit0":
		bpmn.VerifSetHook(func(p string) {
			if p != "flow.await" {
				return
			}
			id := c06gid()
			w0mu.Lock()
			if w0first == "" {
				w0first = id
			}
			park := id != w0first
			if park {
				w0parked++
			}
			w0mu.Unlock()
			if park {
				<-w0gate
			}
		})
		defer bpmn.VerifSetHook(nil)
	case c.mode == "wit" || c.mode == "wit2" || c.perturb > 0:
		ctl = sched.Install()
		defer ctl.Remove()
	}

	in, defs, err := eng.Start(g.XML(), nil)
	if err != nil {
		out.Line("harness-error %v", err)
		return
	}
	for _, l := range eng.ProgLines(&(*defs.Processes())[0], g.CondRPN) {
		out.Line("prog %s", l)
	}
	for j := 0; j < c.k; j++ {
		out.Line("alt %d C%d T%d %s %s", j, j, j, c06kinds[j], c06names[j])
	}
	stats["cases"]++
	stats[fmt.Sprintf("k%d_%s_len%d_p%d", c.k, c.mode, len(c.seq), c.perturb)]++

	quiesce := func() bool {
		if !in.Quiesce(4 * timeSecond) {
			in.Note("obs noquiesce")
			return false
		}
		return true
	}
	// A delivery counts as blocked only if it has not returned although the whole process is quiescent (then nothing
	// can ever unblock it); the deadline alone just bounds how long the fast path waits, so a loaded machine cannot
	// turn a slow call into a "blocked" one.
	var qmu sync.Mutex
	deliver := func(e int) bool {
		var ev event.IEvent
		if c06kinds[e] == "message" {
			ev = event.NewMessageEvent(c06names[e], nil)
		} else {
			ev = event.NewSignalEvent(c06names[e])
		}
		in.Op("deliver %s %s", c06kinds[e], c06names[e])
		done := make(chan struct{})
		go func() {
			defer func() {
				if r := recover(); r != nil {
					in.Note("obs panic %v", r)
				}
				close(done)
			}()
			in.Proc.ConsumeEvent(ev)
		}()
		select {
		case <-done:
			in.Note("obs ret deliver %s returned", c06names[e])
			return true
		case <-time.After(c06deliverDeadline):
		}
		qmu.Lock() // Quiesce is not reentrant (conc mode delivers from several goroutines)
		in.Quiesce(4 * timeSecond)
		qmu.Unlock()
		select {
		case <-done:
			in.Note("obs ret deliver %s returned", c06names[e])
			return true
		default:
			in.Note("obs ret deliver %s blocked", c06names[e])
			return false
		}
	}

	quiesce()
	if c.mode == "wit0" {
		// the forked flows are parked before their first select; only the first alternative listens
		w0mu.Lock()
		in.Note("note wit0 parked=%d", w0parked)
		w0mu.Unlock()
	}
	if c.perturb > 0 {
		// perturbation starts only now: the start-up of the instance (monitor subscription against the start event,
		// property C02) is not what this family explores
		ctl.Perturb(rng.U64(), c.perturb)
	}
	in.Note("phase compete")
	switch c.mode {
	case "seq":
		for _, e := range c.seq {
			quiesce()
			deliver(e)
		}
	case "nw":
		in.NoWait = true
		for _, e := range c.seq {
			deliver(e)
		}
		in.NoWait = false
	case "conc":
		in.NoWait = true
		var wg sync.WaitGroup
		start := make(chan struct{})
		for _, e := range c.seq {
			wg.Add(1)
			go func(e int) {
				defer wg.Done()
				<-start
				deliver(e)
			}(e)
		}
		close(start)
		wg.Wait()
		in.NoWait = false
	case "wit":
		// Lean witness `deadlockSched`: the winner passes the CAS and is held before it notifies; the loser's own
		// event is delivered and handled to the end; then the winner is released.
		arrived := ctl.Hold("ebg.transformer.before_notify")
		deliver(c.seq[0])
		held := sched.WaitArrived(arrived, 2*timeSecond)
		in.Note("note wit held=%d", rec.B(held))
		quiesce()
		deliver(c.seq[1])
		quiesce()
		ctl.Release("ebg.transformer.before_notify")
	case "wit2":
		// both alternatives are held at the entry of the transformer (`ebg.transformer.enter`) and released together:
		// the compare-and-swap itself is raced
		ctl.Hold("ebg.transformer.enter")
		in.NoWait = true
		deliver(c.seq[0])
		deliver(c.seq[1])
		in.NoWait = false
		for i := 0; i < 400 && ctl.Hits("ebg.transformer.enter") < 2; i++ {
			time.Sleep(5 * time.Millisecond)
		}
		in.Note("note wit2 held=%d", ctl.Hits("ebg.transformer.enter"))
		quiesce()
		ctl.Release("ebg.transformer.enter")
	case "wit0":
		// Lean witness `lateSelectSched`: alternative 0's event is delivered and its flow runs the whole transformer
		// while the other flows have not evaluated their select yet; then they are released.
		deliver(0)
		quiesce()
		close(w0gate)
	}
	quiesce()
	in.Note("phase settle")
	pend := in.Pending()
	requested := map[string]bool{}
	for _, q := range pend {
		requested[q.Node] = true
	}
	for _, q := range pend {
		in.AnswerOK(q, nil)
		quiesce()
	}
	// completion: WaitUntilComplete under a timeout, or the CeaseFlowTrace already recorded at quiescence
	complete := in.WaitComplete(c06completeWait)
	in.Note("obs waitcomplete %d", rec.B(complete))
	quiesce()
	for _, l := range in.Lines() {
		if l == "obs cease" {
			complete = true
		}
	}

	in.Note("phase late")
	var losers []int
	for j := 0; j < c.k; j++ {
		if !requested[fmt.Sprintf("T%d", j)] {
			losers = append(losers, j)
		}
	}
	if len(losers) == 0 {
		for j := 0; j < c.k; j++ {
			losers = append(losers, j)
		}
	}
	// A stuck catch node only shows once its inbox is full: the single-event cases probe that (6 late deliveries);
	// the others stay below the inbox capacity (4 deliveries after the first one in total).
	late := 5 - len(c.seq)
	if len(c.seq) == 1 {
		late = c06lateDeliveries
	}
	for i := 0; i < late; i++ {
		quiesce()
		if !deliver(losers[i%len(losers)]) {
			break
		}
	}
	quiesce()
	for _, l := range in.Lines() {
		out.Line("%s", l)
	}
	for _, p := range in.Panics {
		out.Line("obs panic %s", strings.ReplaceAll(p, "\n", " "))
	}
	out.Line("obs final complete=%d", rec.B(complete))
	in.Stop(1 * timeSecond)
}

// Family c05ebg (C05): the c06 cases in which the alternatives' branches are MERGED BY AN INCLUSIVE GATEWAY — the tokens the
// event-based gateway withdraws have ended: the inclusive join behind them must not wait for them.
func init() {
	sel := func(tier string) []c06case {
		var cs []c06case
		for _, c := range c06cases(tier) {
			if c.inclmerge && c.perturb == 0 && (c.mode == "seq" || c.mode == "wit" || c.mode == "wit2") {
				cs = append(cs, c)
			}
		}
		return cs
	}
	caseFamilies["c05ebg"] = &caseFamily{
		Shard: 1, Par: 12,
		Count: func(tier string) int { return len(sel(tier)) },
		Run: func(out *rec.Out, idx int, rng *rec.Rng, tier string, stats map[string]int) {
			c06runAs(out, "c05ebg", sel(tier)[idx], rng, stats)
		},
	}
}
