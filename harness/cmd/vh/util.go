package main

import "time"

const (
	timeSecond      = time.Second
	timeMillisecond = time.Millisecond
)
