package main

import (
	"fmt"
	"strings"

	"verifharness/internal/eng"
	"verifharness/internal/rec"
)

// Family c10noexc: boundary events WITHOUT an exception flow (no outgoing sequence flow: an event used only to abort or to
// observe the activity). Host: a task or an embedded sub-process, with a normal flow to the task N. Scripts over
// {p = answer the task in front, d<k> = deliver the signal of boundary event k, a = answer the host}. Judged by the plain
// statement of C10 for the NORMAL flow: it is taken only by the host's own completion — never before the host was answered,
// at most once (what an interrupting event does to a host that is already waiting is the known finding of family c10).
//
//	start -> P -> H -> N -> endN ; boundary(H, sig1) ; [boundary(H, sig2)]
func init() {
	caseFamilies["c10noexc"] = &caseFamily{
		Shard: 1, Par: 8,
		Count: func(tier string) int { return len(c10noexcCases()) },
		Run: func(out *rec.Out, idx int, rng *rec.Rng, tier string, stats map[string]int) {
			c10noexcRun(out, c10noexcCases()[idx], stats)
		},
	}
}

func c10noexcCases() []c10case {
	var cs []c10case
	for _, host := range []string{"task", "sub"} {
		for _, kinds := range []string{"i", "n", "in", "ni"} {
			scripts := [][]string{{"p", "d1"}, {"p", "d1", "a"}, {"p", "d1", "d1", "a"}, {"p", "a", "d1"}, {"d1", "p", "a"}}
			if len(kinds) == 2 {
				scripts = append(scripts, []string{"p", "d2", "d1", "a"}, []string{"p", "d2"}, []string{"p", "d1", "d2", "a", "d1"})
			}
			for _, s := range scripts {
				cs = append(cs, c10case{host, kinds, s, "wait"})
			}
		}
	}
	return cs
}

func c10noexcRun(out *rec.Out, c c10case, stats map[string]int) {
	g := eng.NewGraph()
	st := g.Add("startEvent", "start", "")
	p := g.Add("task", "P", "")
	var h *eng.Node
	hostTask := "H"
	if c.host == "task" {
		h = g.Add("task", "H", "")
	} else {
		h = g.Add("subProcess", "H", "")
		inner := g.Task("task", "HI", "H")
		g.SubEnd(h, inner)
		hostTask = "HI"
	}
	n := g.Add("task", "N", "")
	en := g.Add("endEvent", "endN", "")
	g.Connect(st, p, nil)
	g.Connect(p, h, nil)
	g.Connect(h, n, nil)
	g.Connect(n, en, nil)
	for i, k := range c.kinds {
		b := g.Add("boundaryEvent", fmt.Sprintf("B%d", i+1), "")
		b.Attached = "H"
		b.Interrupting = k == 'i'
		b.Defs = []eng.EventDef{{Kind: "signal", Name: fmt.Sprintf("sig%d", i+1)}}
		// no outgoing sequence flow
	}
	out.Begin("c10noexc", c.host, c.kinds, strings.Join(c.acts, ","))
	defer out.End()
	in, _, err := eng.Start(g.XML(), nil)
	if err != nil {
		out.Line("harness-error %v", err)
		return
	}
	stats["cases"]++
	stats["host_"+c.host]++
	stats["kinds_"+c.kinds]++
	for _, a := range c.acts {
		if !in.Quiesce(6 * timeSecond) {
			in.Note("obs noquiesce")
			break
		}
		switch {
		case a == "p" || a == "a":
			node := "P"
			if a == "a" {
				node = hostTask
			}
			done := false
			for _, q := range in.Pending() {
				if q.Node == node {
					in.AnswerOK(q, nil)
					done = true
					break
				}
			}
			if !done {
				in.Note("obs norequest %s", node)
			}
		default:
			in.Deliver("signal", "sig"+a[1:], 6*timeSecond)
		}
	}
	in.Quiesce(6 * timeSecond)
	for _, l := range in.Lines() {
		out.Line("%s", l)
	}
	in.Stop(2 * timeSecond)
}
