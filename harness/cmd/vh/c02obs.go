package main

import (
	"context"
	"fmt"
	"sync/atomic"
	"time"

	"github.com/olive-io/bpmn/schema"
	bpmn "github.com/olive-io/bpmn/v2"
	"github.com/olive-io/bpmn/v2/pkg/tracing"

	"verifharness/internal/eng"
	"verifharness/internal/rec"
)

// Family c02obs: completion is reported whether or not an OBSERVER of the instance's tracer keeps up. A worker subscribes to
// the instance's tracer with a small buffer (0..6), reads until it has answered the last task, then stops reading and asks
// WaitUntilComplete itself (the single-goroutine worker everybody writes first); a second, independent waiter asks too.
// The last token's remaining traces are few (the engine is not stopped by back-pressure), every start event has fired
// and the last token is gone: both waits report completion within the bound, and when the observer reads on it finds the
// cease-flow trace, once.
//
//	s -> T1 -> … -> Tk -> e          (k = 1..2), observer buffer b
func init() {
	caseFamilies["c02obs"] = &caseFamily{
		Shard: 1, Par: 6,
		Count: func(tier string) int { return 10 },
		Run: func(out *rec.Out, idx int, rng *rec.Rng, tier string, stats map[string]int) {
			c02obsRun(out, 1+idx/5, []int{0, 1, 2, 4, 6}[idx%5], stats)
		},
	}
}

func c02obsRun(out *rec.Out, k, buf int, stats map[string]int) {
	g := eng.NewGraph()
	frs := make([]eng.Frag, k)
	for i := range frs {
		frs[i] = g.Task("task", fmt.Sprintf("T%d", i+1), "")
	}
	g.Wrap(g.Seq(frs...))
	out.Begin("c02obs", k, buf)
	defer out.End()
	defs, err := schema.Parse([]byte(g.XML()))
	if err != nil {
		out.Line("harness-error %v", err)
		return
	}
	ctx, cancel := context.WithCancel(context.Background())
	defer cancel()
	proc, err := bpmn.NewEngine(bpmn.WithEngineContext(ctx)).NewProcess(defs, bpmn.WithContext(ctx))
	if err != nil {
		out.Line("harness-error %v", err)
		return
	}
	stats["cases"]++
	stats[fmt.Sprintf("observer_buffer_%d", buf)]++
	ch := proc.Tracer().SubscribeChannel(make(chan tracing.ITrace, buf))
	if err := proc.StartAll(ctx); err != nil {
		out.Line("harness-error %v", err)
		return
	}
	answered := 0
	deadline := time.After(8 * time.Second)
	for answered < k {
		select {
		case tr := <-ch:
			if tt, ok := tracing.Unwrap(tr).(bpmn.TaskTrace); ok {
				tt.Do()
				answered++
			}
		case <-deadline:
			out.Line("obs answered %d of %d", answered, k)
			return
		}
	}
	// the observer stops reading here
	wait := func() bool {
		c, cc := context.WithTimeout(ctx, 4*time.Second)
		defer cc()
		return proc.WaitUntilComplete(c)
	}
	var second atomic.Int32
	done := make(chan struct{})
	go func() {
		defer close(done)
		if wait() {
			second.Store(1)
		}
	}()
	first := wait()
	<-done
	out.Line("obs wait worker=%d other=%d", rec.B(first), second.Load())
	// … and reads on
	cease := 0
	idle := time.After(1500 * time.Millisecond)
read:
	for {
		select {
		case tr := <-ch:
			if _, ok := tracing.Unwrap(tr).(bpmn.CeaseFlowTrace); ok {
				cease++
			}
		case <-idle:
			break read
		}
	}
	out.Line("obs cease %d", cease)
}
