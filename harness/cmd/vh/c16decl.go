package main

// Family c16decl — DECLARED data objects of a process: every data object starts with its OWN declared body (or the empty
// object when it declares none), whatever its neighbours declare; a value handed in with WithDataObjects replaces exactly
// that object; instances are isolated from each other.
//
//	process: 1..4 <dataObject id=d<i> name=d<i>> each with / without an olive:dataObjectBody (a flat JSON object with keys of
//	its own), optionally inside a process that also has an embedded sub-process declaring a further data object;
//	start → task (data inputs for all of them) → end; two instances, the second with one object overridden.
//
//	decl <inst> <name> <canonical JSON of what the object must hold>
//	seen <inst> <name> <canonical JSON the task was handed>        (TaskTrace.GetDataObjects)
//	fobj <inst> <name> <canonical JSON in Locator().CloneItems(".")>

import (
	"context"
	"encoding/json"
	"fmt"
	"sort"
	"strings"
	"time"

	"github.com/olive-io/bpmn/schema"
	bpmn "github.com/olive-io/bpmn/v2"
	"github.com/olive-io/bpmn/v2/pkg/tracing"

	"verifharness/internal/rec"
)

func init() { families["c16decl"] = c16decl }

func c16canon(v any) string {
	b, err := json.Marshal(v)
	if err != nil {
		return "!" + strings.ReplaceAll(err.Error(), " ", "_")
	}
	var x any
	if json.Unmarshal(b, &x) == nil {
		b, _ = json.Marshal(x)
	}
	return strings.ReplaceAll(string(b), " ", "")
}

func c16decl(out *rec.Out, rng *rec.Rng, tier string, stats map[string]int) {
	n := 60
	if tier == "thorough" {
		n = 1200
	}
	for c := 0; c < n; c++ {
		k := 1 + rng.Intn(4)
		withSub := rng.Intn(3) == 0
		bodies := make([]map[string]any, k)
		var sb strings.Builder
		sb.WriteString(`<?xml version="1.0" encoding="UTF-8"?>
<bpmn:definitions xmlns:bpmn="http://www.omg.org/spec/BPMN/20100524/MODEL" xmlns:olive="http://olive.io/spec/BPMN/MODEL" id="defs" targetNamespace="http://bpmn.io/schema/bpmn">
<bpmn:process id="proc" isExecutable="true">
`)
		for i := 0; i < k; i++ {
			if rng.Intn(4) > 0 {
				m := map[string]any{fmt.Sprintf("k%d", i): i + 1}
				if rng.Bool() {
					m["common"] = fmt.Sprintf("v%d", i)
				}
				if rng.Intn(3) == 0 {
					m[fmt.Sprintf("n%d", i)] = map[string]any{"x": i}
				}
				bodies[i] = m
				b, _ := json.Marshal(m)
				fmt.Fprintf(&sb, "<bpmn:dataObject id=\"d%d\" name=\"d%d\"><bpmn:extensionElements><olive:dataObjectBody><![CDATA[%s]]></olive:dataObjectBody></bpmn:extensionElements></bpmn:dataObject>\n", i, i, b)
				stats["objects_with_body"]++
			} else {
				fmt.Fprintf(&sb, "<bpmn:dataObject id=\"d%d\" name=\"d%d\"/>\n", i, i)
				stats["objects_without_body"]++
			}
		}
		sb.WriteString(`<bpmn:startEvent id="start"><bpmn:outgoing>f1</bpmn:outgoing></bpmn:startEvent>
<bpmn:serviceTask id="task"><bpmn:extensionElements><olive:taskDefinition type="service"/>
`)
		for i := 0; i < k; i++ {
			fmt.Fprintf(&sb, "<olive:dataInput name=\"d%d\" targetRef=\"d%d\"/>\n", i, i)
		}
		sb.WriteString(`</bpmn:extensionElements><bpmn:incoming>f1</bpmn:incoming><bpmn:outgoing>f2</bpmn:outgoing></bpmn:serviceTask>
<bpmn:endEvent id="end"><bpmn:incoming>f2</bpmn:incoming></bpmn:endEvent>
<bpmn:sequenceFlow id="f1" sourceRef="start" targetRef="task"/>
<bpmn:sequenceFlow id="f2" sourceRef="task" targetRef="end"/>
`)
		if withSub {
			sb.WriteString(`<bpmn:subProcess id="sub"><bpmn:dataObject id="ds" name="ds"><bpmn:extensionElements><olive:dataObjectBody><![CDATA[{"inner":1}]]></olive:dataObjectBody></bpmn:extensionElements></bpmn:dataObject>
<bpmn:startEvent id="ss"><bpmn:outgoing>g1</bpmn:outgoing></bpmn:startEvent><bpmn:endEvent id="se"><bpmn:incoming>g1</bpmn:incoming></bpmn:endEvent>
<bpmn:sequenceFlow id="g1" sourceRef="ss" targetRef="se"/></bpmn:subProcess>
`)
			stats["with_subprocess"]++
		}
		sb.WriteString("</bpmn:process></bpmn:definitions>\n")
		out.Begin("c16decl", k, rec.B(withSub))
		func() {
			defer func() {
				if r := recover(); r != nil {
					out.Line("panic %s", strings.ReplaceAll(fmt.Sprint(r), " ", "_"))
				}
			}()
			defs, err := schema.Parse([]byte(sb.String()))
			if err != nil {
				out.Line("harness-error parse %v", err)
				return
			}
			over := rng.Intn(k)
			for inst := 0; inst < 2; inst++ {
				var opts []bpmn.Option
				want := make([]any, k)
				for i := 0; i < k; i++ {
					if bodies[i] != nil {
						want[i] = bodies[i]
					} else {
						want[i] = map[string]any{}
					}
				}
				if inst == 1 {
					ov := map[string]any{"over": inst}
					opts = append(opts, bpmn.WithDataObjects(map[string]any{fmt.Sprintf("d%d", over): ov}))
					want[over] = ov
				}
				for i := 0; i < k; i++ {
					out.Line("decl %d d%d %s", inst, i, c16canon(want[i]))
				}
				engine := bpmn.NewEngine()
				ctx, cancel := context.WithTimeout(context.Background(), 5*time.Second)
				proc, err := engine.NewProcess(defs, opts...)
				if err != nil {
					out.Line("harness-error newprocess %v", err)
					cancel()
					return
				}
				traces := proc.Tracer().Subscribe()
				if err := proc.StartAll(ctx); err != nil {
					out.Line("harness-error start %v", err)
					cancel()
					return
				}
				done := false
				for !done {
					select {
					case tr := <-traces:
						switch v := tracing.Unwrap(tr).(type) {
						case bpmn.TaskTrace:
							objs := v.GetDataObjects()
							names := make([]string, 0, len(objs))
							for nme := range objs {
								names = append(names, nme)
							}
							sort.Strings(names)
							for _, nme := range names {
								if objs[nme] != nil {
									out.Line("seen %d %s %s", inst, nme, c16canon(objs[nme].Value()))
								}
							}
							v.Do()
						case bpmn.CeaseFlowTrace:
							done = true
						}
					case <-ctx.Done():
						out.Line("timeout %d", inst)
						done = true
					}
				}
				items := proc.Locator().CloneItems(".")
				names := make([]string, 0, len(items))
				for nme := range items {
					names = append(names, nme)
				}
				sort.Strings(names)
				for _, nme := range names {
					if items[nme] != nil {
						out.Line("fobj %d %s %s", inst, nme, c16canon(items[nme].Value()))
					}
				}
				cancel()
			}
		}()
		out.End()
		stats["cases"]++
		stats[fmt.Sprintf("objects_%d", k)]++
	}
}
