package main

import (
	"fmt"

	"verifharness/internal/eng"
	"verifharness/internal/rec"
)

// Family c01re (used by C01 and C05): RE-ENTRY with a different decision in every round.

func init() {
	// re-entry: the same inclusive fork / join pair activated again and again in a loop, with a DIFFERENT truth assignment
	// in every round (whatever a gateway keeps between two activations must not leak from one decision into the next)
	caseFamilies["c01re"] = &caseFamily{
		Shard: 1, Par: 12,
		Count: func(tier string) int { return len(c01reCases(tier)) },
		Run: func(out *rec.Out, idx int, rng *rec.Rng, tier string, stats map[string]int) {
			c01re(out, c01reCases(tier)[idx], rng, stats)
		},
	}
}

type c01reCase struct {
	c      int   // conditional branches
	defPos int   // -1 none, else list position of the default flow
	truths []int // per round: bit i = condition i true
	rev    bool  // answer the pending branch tasks in reverse order
}

func c01reCases(tier string) []c01reCase {
	var cs []c01reCase
	k := 0
	for c := 2; c <= 3; c++ {
		for _, d := range []int{-1, 0, c} {
			for t1 := 0; t1 < 1<<c; t1++ {
				for t2 := 0; t2 < 1<<c; t2++ {
					if d < 0 && t1 == 0 {
						continue // round 1 would stop at the fork (no effective flow): no re-entry
					}
					k++
					if c == 3 && tier != "thorough" && k%3 != 0 {
						continue
					}
					truths := []int{t1, t2}
					if (t1+t2+d)%4 == 0 {
						truths = append(truths, (t1*5+t2+1)%(1<<c)) // some cases go round three times
					}
					cs = append(cs, c01reCase{c, d, truths, k%2 == 1})
				}
			}
		}
	}
	return cs
}

// start -> X1 (merge) -> inclusive fork I (c conditions `b_i == 1` [+ default]) -> one task per branch -> inclusive join J
// -> C (writes b_0.. and the round counter) -> X2 (round < rounds: back to X1 | default: end)
func c01re(out *rec.Out, c c01reCase, rng *rec.Rng, stats map[string]int) {
	g := eng.NewGraph()
	st := g.Add("startEvent", "start", "")
	x1 := g.Add("exclusiveGateway", "X1", "")
	fork := g.Add("inclusiveGateway", "I", "")
	join := g.Add("inclusiveGateway", "J", "")
	ct := g.Add("task", "C", "")
	x2 := g.Add("exclusiveGateway", "X2", "")
	en := g.Add("endEvent", "end", "")
	g.Connect(st, x1, nil)
	g.Connect(x1, fork, nil)
	nOut := c.c
	if c.defPos >= 0 {
		nOut++
	}
	vars := map[string]int{"rnd": 1}
	ct.Results = []string{"rnd"}
	ci := 0
	for j := 0; j < nOut; j++ {
		b := g.Add("task", fmt.Sprintf("B%d", j), "")
		if j == c.defPos {
			f := g.Connect(fork, b, nil)
			fork.Default = f.ID
		} else {
			v := fmt.Sprintf("b%d", ci)
			vars[v] = (c.truths[0] >> ci) & 1
			ct.Results = append(ct.Results, v)
			g.Connect(fork, b, &eng.Cond{Op: "eq", Var: v, K: 1})
			ci++
		}
		g.Connect(b, join, nil)
	}
	g.Connect(join, ct, nil)
	g.Connect(ct, x2, nil)
	g.Connect(x2, x1, &eng.Cond{Op: "lt", Var: "rnd", K: len(c.truths) + 1})
	fe := g.Connect(x2, en, nil)
	x2.Default = fe.ID

	out.Begin("c01re", c.c, c.defPos, fmt.Sprint(c.truths), rec.B(c.rev))
	defer out.End()
	anyVars := map[string]any{}
	for k, v := range vars {
		anyVars[k] = v
	}
	if sh := rng.Fork(); sh.Intn(2) == 0 {
		g.ShuffleDecl(sh.Intn)
		stats["shuffled_declaration_order"]++
	}
	in, defs, err := eng.Start(g.XML(), anyVars)
	if err != nil {
		out.Line("harness-error %v", err)
		return
	}
	for _, l := range eng.ProgLines(&(*defs.Processes())[0], g.CondRPN) {
		out.Line("prog %s", l)
	}
	out.Line("prog vars %s", fmtVars(vars))
	stats["cases"]++
	stats[fmt.Sprintf("re_branches%d_def%d_rounds%d", c.c, rec.B(c.defPos >= 0), len(c.truths))]++
	round := 1
	for steps := 0; steps < 40; steps++ {
		if !in.Quiesce(4 * timeSecond) {
			in.Note("obs noquiesce")
			break
		}
		p := in.Pending()
		if len(p) == 0 {
			break
		}
		q := p[0]
		if c.rev {
			q = p[len(p)-1]
		}
		if q.Node == "C" {
			// the answer of C sets up the NEXT round's truth assignment
			round++
			res := map[string]int{"rnd": round}
			if round <= len(c.truths) {
				for i := 0; i < c.c; i++ {
					res[fmt.Sprintf("b%d", i)] = (c.truths[round-1] >> i) & 1
				}
			}
			in.AnswerOK(q, res)
			continue
		}
		in.AnswerOK(q, nil)
	}
	complete := in.WaitComplete(300 * timeMillisecond)
	in.Quiesce(2 * timeSecond)
	for _, l := range in.Lines() {
		out.Line("%s", l)
	}
	out.Line("obs final complete=%d vars=%s", rec.B(complete), in.Vars())
	in.Stop(2 * timeSecond)
}
