package main

import (
	"fmt"

	"verifharness/internal/eng"
	"verifharness/internal/rec"
)

// Family c03bnd: a parallel block INSIDE an embedded sub-process that carries a boundary event, and the boundary event's
// signal arriving while the join has some but not all of its tokens. Whatever the boundary event does with the sub-process
// (the engine refuses to cancel a sub-process that is busy — C10's matter), the join is a join: once a token has arrived on
// every incoming flow it releases, once. Judged by that predicate alone (the engine model has no boundary events).
//
//	start -> SP[ sps -> fork -> {U0 .. U(n-1)} -> join -> D0 -> spe ] -> Z -> end ;  boundary(SP, signal stop) -> X -> endx
func init() {
	caseFamilies["c03bnd"] = &caseFamily{
		Shard: 1, Par: 8,
		Count: func(tier string) int { return len(c03bndCases()) },
		Run: func(out *rec.Out, idx int, rng *rec.Rng, tier string, stats map[string]int) {
			c03bndRun(out, c03bndCases()[idx], stats)
		},
	}
}

type c03bndCase struct {
	n            int  // incoming flows of the join
	after        int  // the signal is delivered after this many upstream tasks have been answered (0 .. n)
	interrupting bool // cancelActivity of the boundary event
}

func c03bndCases() []c03bndCase {
	var cs []c03bndCase
	for n := 2; n <= 3; n++ {
		for after := 0; after <= n; after++ {
			for _, in := range []bool{true, false} {
				cs = append(cs, c03bndCase{n, after, in})
			}
		}
	}
	return cs
}

func c03bndRun(out *rec.Out, c c03bndCase, stats map[string]int) {
	g := eng.NewGraph()
	st := g.Add("startEvent", "start", "")
	sp := g.Add("subProcess", "SP", "")
	fork := g.Add("parallelGateway", "fork", sp.ID)
	join := g.Add("parallelGateway", "join", sp.ID)
	for i := 0; i < c.n; i++ {
		u := g.Add("task", fmt.Sprintf("U%d", i), sp.ID)
		g.Connect(fork, u, nil)
		g.Connect(u, join, nil)
	}
	d := g.Add("task", "D0", sp.ID)
	g.Connect(join, d, nil)
	spf := g.SubEnd(sp, eng.Frag{Entry: fork, Exit: d})
	z := g.Add("task", "Z", "")
	en := g.Add("endEvent", "end", "")
	g.Connect(st, spf.Entry, nil)
	g.Connect(spf.Exit, z, nil)
	g.Connect(z, en, nil)
	b := g.Add("boundaryEvent", "B", "")
	b.Attached = spf.Entry.ID
	b.Interrupting = c.interrupting
	b.Defs = []eng.EventDef{{Kind: "signal", Name: "stop"}}
	x := g.Add("task", "X", "")
	ex := g.Add("endEvent", "endx", "")
	g.Connect(b, x, nil)
	g.Connect(x, ex, nil)

	out.Begin("c03bnd", c.n, c.after, rec.B(c.interrupting))
	defer out.End()
	in, _, err := eng.Start(g.XML(), nil)
	if err != nil {
		out.Line("harness-error %v", err)
		return
	}
	stats["cases"]++
	stats[fmt.Sprintf("signal_after_%d_of_%d", c.after, c.n)]++
	answered := 0
	answer := func(node string) bool {
		if !in.Quiesce(4 * timeSecond) {
			in.Note("obs noquiesce")
			return false
		}
		for _, q := range in.Pending() {
			if q.Node == node {
				in.AnswerOK(q, nil)
				return true
			}
		}
		in.Note("obs norequest %s", node)
		return false
	}
	deliver := func() {
		in.Quiesce(4 * timeSecond)
		in.Deliver("signal", "stop", 3*timeSecond)
	}
	for i := 0; i <= c.n; i++ {
		if i == c.after {
			deliver()
		}
		if i < c.n {
			if answer(fmt.Sprintf("U%d", i)) {
				answered++
			}
		}
	}
	in.Quiesce(4 * timeSecond)
	for _, l := range in.Lines() {
		out.Line("%s", l)
	}
	out.Line("c03bnd answered %d of %d", answered, c.n)
	in.Stop(2 * timeSecond)
}
