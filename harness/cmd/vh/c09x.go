package main

import (
	"context"
	"fmt"
	"strings"
	"sync"
	"time"

	"github.com/olive-io/bpmn/v2/pkg/tracing"

	"verifharness/internal/rec"
)

// Family c09x: the SHUTDOWN phase of a tracer. Registered senders keep sending after the tracer's context has been
// cancelled (that is what flows and nodes do when they report their cancellation); the tracer serves them until the last
// one is done and then closes the subscriber channels. All subscribers — a fast one and slow ones with buffers 0..2 and
// pacing consumers — were subscribed before the first send and never unsubscribe: each must have received EVERY trace,
// in one common order that respects each sender's program order, when its channel is closed.
func init() {
	caseFamilies["c09x"] = &caseFamily{
		Shard: 1, Par: 12,
		Count: func(tier string) int {
			if tier == "thorough" {
				return 600
			}
			return 60
		},
		Run: c09shutdown,
	}
}

func c09shutdown(out *rec.Out, idx int, rng *rec.Rng, tier string, stats map[string]int) {
	nSend := 1 + idx%3
	per := 6 + rng.Intn(20)
	cancelAt := rng.Intn(nSend*per + 1) // position in the global send order after which the context is cancelled
	nSub := 2 + rng.Intn(2)
	caps := make([]int, nSub)
	paces := make([]int, nSub)
	caps[0], paces[0] = nSend*per+8, 0 // the fast one
	for i := 1; i < nSub; i++ {
		caps[i], paces[i] = rng.Intn(3), 1+rng.Intn(3)
	}
	out.Begin("c09x", nSend, per, cancelAt, nSub)
	defer out.End()
	stats["cases"]++
	stats[fmt.Sprintf("senders_%d", nSend)]++
	ctx, cancel := context.WithCancel(context.Background())
	defer cancel()
	tr := tracing.NewTracer(ctx)
	recv := make([][]c09msg, nSub)
	var wgSub sync.WaitGroup
	for i := 0; i < nSub; i++ {
		ch := tr.SubscribeChannel(make(chan tracing.ITrace, caps[i]))
		wgSub.Add(1)
		go func(i int, ch chan tracing.ITrace) {
			defer wgSub.Done()
			for t := range ch {
				recv[i] = append(recv[i], t.(c09msg))
				c09pace(paces[i], len(recv[i]))
			}
		}(i, ch)
	}
	var mu sync.Mutex
	pos := 0
	var wgSend sync.WaitGroup
	for s := 0; s < nSend; s++ {
		h := tr.RegisterSender()
		wgSend.Add(1)
		go func(s int) {
			defer wgSend.Done()
			defer h.Done()
			for q := 0; q < per; q++ {
				mu.Lock()
				if pos == cancelAt {
					cancel()
				}
				pos++
				mu.Unlock()
				tr.Send(c09msg{s, q})
			}
		}(s)
	}
	sent := make(chan struct{})
	go func() { wgSend.Wait(); close(sent) }()
	blocked := ""
	select {
	case <-sent:
	case <-time.After(20 * time.Second): // (generous: the machine may be busy; a deadlock stays one)
		blocked = "senders"
	}
	if cancelAt >= nSend*per {
		cancel()
	}
	if blocked == "" {
		closed := make(chan struct{})
		go func() { wgSub.Wait(); close(closed) }()
		select {
		case <-closed:
		case <-time.After(20 * time.Second):
			blocked = "subscribers"
		}
	}
	if blocked != "" {
		out.Line("blocked %s", blocked)
		stats["blocked"]++
		return
	}
	for i := 0; i < nSub; i++ {
		parts := make([]string, len(recv[i]))
		for k, m := range recv[i] {
			parts[k] = fmt.Sprintf("%d:%d", m.s, m.q)
		}
		r := "-"
		if len(parts) > 0 {
			r = strings.Join(parts, ",")
		}
		out.Line("sub %d cap=%d pace=%d recv=%s", i, caps[i], paces[i], r)
	}
	stats["traces_sent"] += nSend * per
	if cancelAt < nSend*per {
		stats["cancelled_while_senders_still_send"]++
	}
}
