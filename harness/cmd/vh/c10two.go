package main

import (
	"verifharness/internal/eng"
	"verifharness/internal/rec"
)

// Family c10two: TWO tokens waiting in ONE host activity at the same time (a parallel split whose branches both lead into
// the task H, no join), H carrying a non-interrupting boundary event. One matching event delivered while both wait: the
// exception flow continues (X is requested); both answers then take the normal flow, once each. (What the boundary events do
// after the FIRST of the two answers is not judged: the engine keeps one `active` flag per activity.)
//
//	start -> F ; F -> H ; F -> H ; H -> N -> endN ; boundary(H, sig1, non-interrupting) -> X -> endX
func init() {
	caseFamilies["c10two"] = &caseFamily{
		Shard: 1, Par: 4,
		Count: func(tier string) int { return 2 },
		Run: func(out *rec.Out, idx int, rng *rec.Rng, tier string, stats map[string]int) {
			c10twoRun(out, idx == 1, stats)
		},
	}
}

func c10twoRun(out *rec.Out, viaTasks bool, stats map[string]int) {
	g := eng.NewGraph()
	st := g.Add("startEvent", "start", "")
	f := g.Add("parallelGateway", "F", "")
	h := g.Add("task", "H", "")
	n := g.Add("task", "N", "")
	en := g.Add("endEvent", "endN", "")
	g.Connect(st, f, nil)
	if viaTasks {
		// each branch through a task of its own first (the two tokens reach H at moments the driver chooses)
		p1, p2 := g.Add("task", "P1", ""), g.Add("task", "P2", "")
		g.Connect(f, p1, nil)
		g.Connect(f, p2, nil)
		g.Connect(p1, h, nil)
		g.Connect(p2, h, nil)
	} else {
		g.Connect(f, h, nil)
		g.Connect(f, h, nil)
	}
	g.Connect(h, n, nil)
	g.Connect(n, en, nil)
	b := g.Add("boundaryEvent", "B1", "")
	b.Attached = "H"
	b.Interrupting = false
	b.Defs = []eng.EventDef{{Kind: "signal", Name: "sig1"}}
	x := g.Add("task", "X", "")
	ex := g.Add("endEvent", "endX", "")
	g.Connect(b, x, nil)
	g.Connect(x, ex, nil)
	out.Begin("c10two", rec.B(viaTasks))
	defer out.End()
	in, _, err := eng.Start(g.XML(), nil)
	if err != nil {
		out.Line("harness-error %v", err)
		return
	}
	stats["cases"]++
	answerAll := func(node string) int {
		k := 0
		for {
			if !in.Quiesce(6 * timeSecond) {
				in.Note("obs noquiesce")
				return k
			}
			done := false
			for _, q := range in.Pending() {
				if q.Node == node {
					in.AnswerOK(q, nil)
					k++
					done = true
					break
				}
			}
			if !done {
				return k
			}
		}
	}
	if viaTasks {
		answerAll("P1")
		answerAll("P2")
	}
	in.Quiesce(6 * timeSecond)
	waiting := 0
	for _, q := range in.Pending() {
		if q.Node == "H" {
			waiting++
		}
	}
	in.Note("c10two waiting %d", waiting)
	in.Deliver("signal", "sig1", 6*timeSecond)
	in.Quiesce(6 * timeSecond)
	in.Note("c10two delivered")
	answerAll("H")
	answerAll("X")
	answerAll("N")
	in.Quiesce(6 * timeSecond)
	for _, l := range in.Lines() {
		out.Line("%s", l)
	}
	in.Stop(2 * timeSecond)
}
