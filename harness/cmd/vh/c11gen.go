package main

import (
	"fmt"

	"verifharness/internal/eng"
	"verifharness/internal/rec"
)

// Generated C11 shapes: block-structured programs (tasks, sequences, exclusive and parallel blocks, at most one loop) with
// intermediate catch events for signals and messages scattered over them — in sequences, on parallel branches (the same
// event possibly awaited on several branches at once), on untaken exclusive branches, inside the loop (refire). They are
// appended to c11shapes and driven by seeded scripts only (deliveries of matching / non-matching events interleaved with
// answers), judged like every other C11 case: replay through the engine model composed with the inbox model, and the
// C11 predicate on the implementation's own traces.

const c11genShapes = 48

func init() {
	for k := 0; k < c11genShapes; k++ {
		k := k
		c11shapes = append(c11shapes, c11shape{
			name: fmt.Sprintf("gen%02d", k), par: true, genOnly: true,
			evs:   []c11ev{sigA, msgB, sigC, sigZ, msgA},
			build: func(g *eng.Graph) map[string]int { return c11genBuild(g, uint64(k)) },
		})
	}
}

type c11gen struct {
	par    string // enclosing sub-process id ("" = the process)
	g      *eng.Graph
	rng    *rec.Rng
	nt, nc int
	budget int
	loop   bool
}

func (ge *c11gen) task() eng.Frag {
	ge.nt++
	ge.budget--
	return ge.g.Task("task", fmt.Sprintf("T%02d", ge.nt), ge.par)
}

func (ge *c11gen) catch() eng.Frag {
	ge.nc++
	ge.budget--
	e := []c11ev{sigA, msgB, sigC, sigA, msgB}[ge.rng.Intn(5)]
	id := fmt.Sprintf("C%d", ge.nc)
	n := ge.g.Add("intermediateCatchEvent", id, ge.par)
	n.Defs = []eng.EventDef{{Kind: e.kind, Name: e.name}}
	if ge.rng.Intn(6) == 0 {
		// a multiple catch event: either definition fires it
		other := []c11ev{sigA, msgB, sigC}[ge.rng.Intn(3)]
		if other != e {
			n.Defs = append(n.Defs, eng.EventDef{Kind: other.kind, Name: other.name})
		}
	}
	return eng.Frag{Entry: n, Exit: n}
}

func (ge *c11gen) block(depth int) eng.Frag {
	kinds := []string{"task", "catch", "catch", "seq", "seq", "par", "xor", "loop", "sub"}
	k := "task"
	if depth < 3 && ge.budget > 2 {
		k = kinds[ge.rng.Intn(len(kinds))]
	} else if ge.rng.Intn(2) == 0 {
		k = "catch"
	}
	switch k {
	case "catch":
		return ge.catch()
	case "seq":
		n := 2 + ge.rng.Intn(2)
		fr := make([]eng.Frag, n)
		for i := range fr {
			fr[i] = ge.block(depth + 1)
		}
		return ge.g.Seq(fr...)
	case "par":
		ge.budget -= 2
		n := 2 + ge.rng.Intn(2)
		br := make([]eng.Frag, n)
		for i := range br {
			// a task first, so that the driver decides when each branch's listener arms
			br[i] = ge.g.Seq(ge.task(), ge.block(depth+1))
		}
		return ge.g.Split("parallelGateway", "parallelGateway", ge.par, br, nil, -1)
	case "xor":
		ge.budget -= 2
		br := []eng.Frag{ge.block(depth + 1), ge.block(depth + 1)}
		v := []string{"v", "w"}[ge.rng.Intn(2)]
		return ge.g.Split("exclusiveGateway", "exclusiveGateway", ge.par, br, []*eng.Cond{{Op: "eq", Var: v, K: 1}, nil}, 1)
	case "sub":
		// an embedded sub-process whose content waits for events like everything else
		ge.budget -= 3
		outer := ge.par
		sub := ge.g.SubBegin(outer)
		ge.par = sub.ID
		inner := ge.g.Seq(ge.task(), ge.block(depth+1))
		ge.par = outer
		return ge.g.SubEnd(sub, inner)
	case "loop":
		if ge.loop || ge.par != "" {
			return ge.task()
		}
		ge.loop = true
		ge.budget -= 3
		body := ge.g.Seq(ge.block(depth+1), ge.g.Task("task", "L", "", "c1"))
		return ge.g.Loop("", body, &eng.Cond{Op: "lt", Var: "c1", K: 2 + ge.rng.Intn(2)})
	}
	return ge.task()
}

func c11genBuild(g *eng.Graph, k uint64) map[string]int {
	rng := rec.NewRng(0x9e3779b97f4a7c15 ^ (k+1)*0x2545F4914F6CDD1D)
	ge := &c11gen{g: g, rng: rng, budget: 6 + rng.Intn(7)}
	body := ge.block(0)
	if ge.nc == 0 {
		body = g.Seq(body, ge.catch())
	}
	g.Wrap(g.Seq(ge.task(), body, ge.task()))
	return map[string]int{"v": rng.Intn(2), "w": rng.Intn(2), "c1": 0}
}
