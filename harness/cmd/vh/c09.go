package main

import (
	"context"
	"fmt"
	"runtime"
	"strings"
	"sync"
	"sync/atomic"
	"time"

	"github.com/olive-io/bpmn/v2/pkg/tracing"

	"verifharness/internal/eng"
	"verifharness/internal/rec"
	"verifharness/internal/sched"
)

// C09 — the trace stream is one causally consistent total order, the same for all subscribers.
//
// family c09  : actor differential of the REAL tracer (pkg/tracing). 1..8 sender goroutines each send a numbered
//               sequence, 1..4 subscriber slots join and leave (1..3 episodes each, a fresh channel per episode) at
//               generated positions of the stream with buffer sizes 0..N and slow/fast consumers; one permanent
//               witness subscriber (index 0 of the broadcaster's list, buffer larger than the whole run) defines
//               the global order. Every call (Subscribe / Unsubscribe / Send) is watched by a deadline monitor: a
//               call that does not return becomes a `blocked` line, never a hung harness.
// family c09g : the causality grammar on engine histories: the programs of C01's generator run on the real engine,
//               half of them with the schedule points perturbed; the driver evaluates Spec.causal on the `obs` lines.
//
// Lines of a c09 case:
//   plan sender <i> count=<n> pace=<p>
//   plan sub <slot>.<episode> cap=<c> join=<J> take=<m|-1> pace=<p> quiet=<0|1>
//   w <sender>:<seq> …                  the witness order, 64 traces per line
//   sub <slot>.<episode> cap=<c> a=<A> b=<B> full=<0|1> unsub=<0|1> c=<C> recv=<sender:seq,…|->
//        A/B = traces the witness held just before / just after the SubscribeChannel call (the subscription took
//        effect at a position in [A,B]); full=1: the episode read until the stream had ended and was flushed, so it
//        must reach the end of the witness order; full=0: it stopped after exactly `take` traces and then called
//        Unsubscribe; C = traces the witness held after Unsubscribe returned.
//   blocked <actor> <call> <ms>           a call exceeded the deadline (the case is abandoned)
//   final sends=<n> witness=<n> flushed=<0|1> done=<0|1>

func init() {
	caseFamilies["c09"] = &caseFamily{
		Shard: 20, Par: 6,
		Count: func(tier string) int {
			if tier == "thorough" {
				return 2400
			}
			return 360
		},
		Run: func(out *rec.Out, idx int, rng *rec.Rng, tier string, stats map[string]int) {
			c09case(out, idx, rng, tier, stats)
		},
	}
	caseFamilies["c09g"] = &caseFamily{
		Shard: 1, Par: 12,
		Count: func(tier string) int {
			if tier == "thorough" {
				return 2400
			}
			return 240
		},
		Run: func(out *rec.Out, idx int, rng *rec.Rng, tier string, stats map[string]int) {
			// every second case runs with the engine's schedule points perturbed (yields; thorough: also
			// micro-sleeps), which moves the interleaving of the flows' sends away from the runtime's favourite
			if idx%2 == 1 {
				c := sched.Install()
				lvl := 1
				if tier == "thorough" && idx%4 == 3 {
					lvl = 2
				}
				c.Perturb(uint64(idx)+rng.U64()%1000, lvl)
				stats[fmt.Sprintf("perturb_level_%d", lvl)]++
				defer c.Remove()
			} else {
				stats["perturb_level_0"]++
			}
			if idx%3 == 0 {
				c09wideFork(out, idx, rng, tier, stats)
				return
			}
			// every second generated program also has a LAGGING subscriber: it keeps the trace values and reads them
			// only when the run is over; what it reads then must be what the prompt subscriber read on arrival
			o := genOptsC01(idx, tier)
			if idx%2 == 0 {
				eng.LagSubscriber = true
				defer func() { eng.LagSubscriber = false }()
				o.lagCheck = true
				stats["cases_with_lagging_subscriber"]++
			}
			runProgCase(out, "c09g", idx, rng, tier, stats, o)
		},
	}
}

// family c09c : the causality grammar under cancellation. C01-style programs (and wide forks) on the real engine; the
//
//	instance context is cancelled at a seeded moment: 0..300 µs after a task was answered (preferably
//	the last pending one, whose token then runs to an end event), or — with the `flow.action` schedule
//	point held — exactly between the moment a flow has taken its action and the moment it acts on it, or
//	under perturbation of all schedule points. Recording goes on until the tracer is done (deadline);
//	the grammar is evaluated with the cancellation traces: nothing of a flow may follow its
//	TerminationTrace / CancellationFlowTrace.
func init() {
	caseFamilies["c09c"] = &caseFamily{
		Shard: 1, Par: 12,
		Count: func(tier string) int {
			if tier == "thorough" {
				return 1800
			}
			return 240
		},
		Run: c09cancelCase,
	}
}

func c09cancelCase(out *rec.Out, idx int, rng *rec.Rng, tier string, stats map[string]int) {
	// the program
	var g *eng.Graph
	loopTask := map[string]string{}
	varsInt := map[string]int{}
	if idx%4 == 3 {
		g = eng.NewGraph()
		nt := 0
		k := 2 + rng.Intn(4)
		br := make([]eng.Frag, k)
		for i := range br {
			if rng.Intn(3) > 0 {
				nt++
				br[i] = g.Task("task", fmt.Sprintf("T%d", nt), "")
			}
		}
		nt++
		first := g.Task("task", fmt.Sprintf("T%d", nt), "")
		g.Wrap(g.Seq(first, g.Split("parallelGateway", "parallelGateway", "", br, nil, -1)))
		varsInt["v0"] = 0
		stats["program_fork"]++
	} else {
		o := genOptsC01(idx, tier)
		o.kinds = []string{"task", "task", "task", "seq", "seq", "xor", "par", "par", "loop", "sub"}
		o.tailCtask = false
		o.undeclared = false
		ge := &gen{g: eng.NewGraph(), rng: rng, o: o, budget: 2 + rng.Intn(o.maxNodes), vars: []string{"v0", "v1", "v2"},
			loopTask: loopTask, stats: stats}
		top := ge.block("", 0)
		ge.g.Wrap(top)
		g = ge.g
		for _, v := range ge.vars {
			varsInt[v] = rng.Intn(3)
		}
		for i := 1; i <= ge.nloop; i++ {
			varsInt[fmt.Sprintf("c%d", i)] = 0
		}
		stats["program_c01"]++
	}
	vars := map[string]any{}
	for k, v := range varsInt {
		vars[k] = v
	}
	mode := idx % 3 // 0: delay after the answer; 1: flow.action held; 2: perturbed + delay
	var ctl *sched.Controller
	if mode != 0 {
		ctl = sched.Install()
		defer ctl.Remove()
		if mode == 2 {
			ctl.Perturb(uint64(idx)*13+rng.U64()%991, 1+idx/3%2)
		}
	}
	stats[fmt.Sprintf("cancel_mode_%d", mode)]++
	out.Begin("c09c", fmt.Sprintf("mode=%d", mode))
	defer out.End()
	in, defs, err := eng.Start(g.XML(), vars)
	if err != nil {
		out.Line("harness-error %v", err)
		return
	}
	for _, l := range eng.ProgLines(&(*defs.Processes())[0], g.CondRPN) {
		out.Line("prog %s", l)
	}
	out.Line("prog vars %s", fmtVars(varsInt))
	stats["cases"]++
	cancelAt := rng.Intn(4)
	loopCount := map[string]int{}
	cancelled := false
	for steps := 0; steps < 60 && !cancelled; steps++ {
		if !in.Quiesce(4 * time.Second) {
			in.Note("obs noquiesce")
			break
		}
		p := in.Pending()
		if len(p) == 0 {
			break
		}
		q := p[rng.Intn(len(p))]
		res := map[string]int{}
		for _, r := range g.Node(q.Node).Results {
			res[r] = rng.Intn(3)
		}
		if cv, ok := loopTask[q.Node]; ok {
			loopCount[cv]++
			res[cv] = loopCount[cv]
		}
		// cancel with this answer: at the seeded step, or when it is the last pending request
		if steps == cancelAt || (len(p) == 1 && (steps > 0 || rng.Intn(3) > 0)) {
			cancelled = true
			if len(p) == 1 {
				stats["cancel_with_last_pending_answer"]++
			} else {
				stats["cancel_with_other_answer"]++
			}
			if mode == 1 {
				// park the flow that takes the answered task's action at `flow.action`; then let it (and whoever else
				// moves) advance `hops` actions further, one action at a time (`flow.await` is held while `flow.action`
				// is re-armed, so no action slips through), and cancel while a flow sits between having TAKEN an
				// action and acting on it — after hops=1 on a task → end event tail that is the end event's
				// completeAction, i.e. the flow's last action.
				hops := []int{0, 1, 1, 1, 2, 2, 3}[rng.Intn(7)]
				arrived := ctl.Hold("flow.action")
				in.NoWait = true
				in.AnswerOK(q, res)
				held := sched.WaitArrived(arrived, 2*time.Second)
				for h := 0; held && h < hops; h++ {
					atAwait := ctl.Hold("flow.await")
					ctl.Release("flow.action")
					sched.WaitArrived(atAwait, 200*time.Millisecond)
					next := ctl.Hold("flow.action")
					ctl.Release("flow.await")
					if !sched.WaitArrived(next, 200*time.Millisecond) {
						held = false
					}
				}
				if held {
					stats["cancel_while_action_held"]++
				}
				stats[fmt.Sprintf("cancel_hold_hops_%d", hops)]++
				in.Op("cancel")
				in.Cancel()
				time.Sleep(time.Duration(rng.Intn(100)) * time.Microsecond)
				ctl.Release("flow.action")
				ctl.Release("flow.await")
			} else {
				in.NoWait = true
				in.AnswerOK(q, res)
				d := time.Duration(rng.Intn(300)) * time.Microsecond
				if rng.Bool() {
					d = time.Duration(rng.Intn(80)) * time.Microsecond
				}
				for t0 := time.Now(); time.Since(t0) < d; {
				}
				in.Op("cancel")
				in.Cancel()
			}
			in.NoWait = false
			break
		}
		in.AnswerOK(q, res)
	}
	if !cancelled {
		// the run ended (or stalled) before the seeded moment: cancel at quiescence
		in.Quiesce(2 * time.Second)
		in.Op("cancel")
		stats["cancel_at_quiescence"]++
	}
	done := in.Stop(3 * time.Second)
	if !done {
		stats["tracer_not_done_after_cancel"]++
	}
	for _, l := range in.Lines() {
		out.Line("%s", l)
	}
	out.Line("obs final tracerdone=%d", rec.B(done))
}

// c09wideFork: a loop around a parallel fork with 3..7 outgoing flows (some branches empty, some a task, sometimes a
// nested fork): the flow that reaches the fork announces 2..6 new flows in ONE FlowTrace and starts them right after
// it, which is where an announcement could be overtaken by the first trace of a flow it announces.
func c09wideFork(out *rec.Out, idx int, rng *rec.Rng, tier string, stats map[string]int) {
	g := eng.NewGraph()
	ntask := 0
	task := func() eng.Frag {
		ntask++
		return g.Task("task", fmt.Sprintf("T%d", ntask), "")
	}
	var fork func(depth int) eng.Frag
	fork = func(depth int) eng.Frag {
		k := 3 + rng.Intn(5)
		br := make([]eng.Frag, k)
		for i := range br {
			switch r := rng.Intn(6); {
			case r < 3: // empty branch: straight to the join
			case r < 5 || depth > 0:
				br[i] = task()
			default:
				br[i] = fork(depth + 1)
			}
		}
		stats[fmt.Sprintf("widefork_width_%d", k)]++
		return g.Split("parallelGateway", "parallelGateway", "", br, nil, -1)
	}
	ntask++
	lt := g.Task("task", fmt.Sprintf("L%d", ntask), "", "c1")
	body := g.Seq(lt, fork(0))
	rounds := 2 + rng.Intn(3)
	g.Wrap(g.Loop("", body, &eng.Cond{Op: "lt", Var: "c1", K: rounds}))
	varsInt := map[string]int{"c1": 0, "v0": 0}
	vars := map[string]any{"c1": 0, "v0": 0}
	stats["widefork_cases"]++
	runGraphCase(out, "c09g", g, vars, varsInt, rng, stats, map[string]string{lt.Entry.ID: "c1"}, genOpts{})
}

type c09msg struct{ s, q int }

func (m c09msg) Unpack() any { return m }

// c09actor: what a goroutine of the case is doing right now, for the deadline monitor
type c09actor struct {
	name  string
	call  atomic.Value // string; "" = not inside a tracer call
	since atomic.Int64 // unix nanos when the call began
}

func (a *c09actor) enter(call string) { a.since.Store(time.Now().UnixNano()); a.call.Store(call) }
func (a *c09actor) leave()            { a.call.Store("") }

type c09episode struct {
	slot, ep          int
	capacity          int
	join              int // join once the witness holds this many traces (or the senders are done)
	take              int // leave after this many traces; -1 = stay to the end
	pace              int
	quiet             bool
	a, b, c           int
	full, unsub, done bool
	recv              []c09msg
	goCh              chan struct{} // closed by the sender that reaches position `join` (or when the senders are done)
	entered           chan struct{} // closed by the slot goroutine just before it calls SubscribeChannel
	subscribed        chan struct{} // closed after SubscribeChannel returned
	waiting           atomic.Bool   // the slot goroutine is parked on goCh
	once              sync.Once
}

func (e *c09episode) release() { e.once.Do(func() { close(e.goCh) }) }

func c09pace(p int, k int) {
	switch p {
	case 1:
		runtime.Gosched()
	case 2:
		if k%3 == 0 {
			time.Sleep(20 * time.Microsecond)
		} else {
			runtime.Gosched()
		}
	case 3:
		time.Sleep(time.Duration(50+k%5*40) * time.Microsecond)
	}
}

func c09case(out *rec.Out, idx int, rng *rec.Rng, tier string, stats map[string]int) {
	// ---- plan
	nSend := 1 + rng.Intn(8)
	nSlots := 1 + rng.Intn(4)
	maxPer := 40
	if tier == "thorough" {
		maxPer = 120
	}
	counts := make([]int, nSend)
	spaces := make([]int, nSend)
	total := 0
	for i := range counts {
		counts[i] = 1 + rng.Intn(maxPer)
		spaces[i] = rng.Intn(3)
		total += counts[i]
	}
	capChoices := []int{0, 0, 1, 1, 2, 3, 5, 10, 64}
	var eps [][]*c09episode
	for s := 0; s < nSlots; s++ {
		n := 1 + rng.Intn(3)
		pos := rng.Intn(total/2 + 1)
		var l []*c09episode
		for e := 0; e < n; e++ {
			ep := &c09episode{slot: s, ep: e, capacity: capChoices[rng.Intn(len(capChoices))], join: pos,
				pace: rng.Intn(4), quiet: rng.Intn(3) == 0, take: -1,
				goCh: make(chan struct{}), entered: make(chan struct{}), subscribed: make(chan struct{})}
			if e < n-1 || rng.Intn(3) > 0 {
				ep.take = rng.Intn(total/(n+1) + 2)
				pos += ep.take + rng.Intn(6)
			}
			l = append(l, ep)
		}
		eps = append(eps, l)
	}
	perturb := 0
	switch {
	case tier == "thorough" && idx%2 == 1:
		perturb = 1 + idx/2%2
	case tier != "thorough" && idx%4 == 3:
		perturb = 1
	}
	out.Begin("c09", fmt.Sprintf("senders=%d", nSend), fmt.Sprintf("slots=%d", nSlots), fmt.Sprintf("perturb=%d", perturb))
	defer out.End()
	for i := range counts {
		out.Line("plan sender %d count=%d pace=%d", i, counts[i], spaces[i])
	}
	for _, l := range eps {
		for _, e := range l {
			out.Line("plan sub %d.%d cap=%d join=%d take=%d pace=%d quiet=%d", e.slot, e.ep, e.capacity, e.join, e.take, e.pace, rec.B(e.quiet))
			stats[fmt.Sprintf("cap_%02d", e.capacity)]++
			stats[fmt.Sprintf("consumer_pace_%d", e.pace)]++
			if e.quiet {
				stats["join_quiet"]++
			} else {
				stats["join_concurrent"]++
			}
			if e.take >= 0 {
				stats["episode_leaves_midstream"]++
			} else {
				stats["episode_stays"]++
			}
		}
	}
	stats["cases"]++
	stats[fmt.Sprintf("senders_%d", nSend)]++
	stats[fmt.Sprintf("slots_%d", nSlots)]++
	stats[fmt.Sprintf("perturb_%d", perturb)]++

	var ctl *sched.Controller
	if perturb > 0 {
		ctl = sched.Install()
		ctl.Perturb(uint64(idx)*31+rng.U64()%997, perturb)
		defer ctl.Remove()
	}

	// ---- run
	ctx, cancel := context.WithCancel(context.Background())
	tr := tracing.NewTracer(ctx)
	witness := make(chan tracing.ITrace, total+64)

	var actorsMu sync.Mutex
	var actors []*c09actor
	newActor := func(name string) *c09actor {
		a := &c09actor{name: name}
		a.call.Store("")
		actorsMu.Lock()
		actors = append(actors, a)
		actorsMu.Unlock()
		return a
	}
	const deadline = 4 * time.Second
	var blockedLines []string
	abandoned := make(chan struct{})
	allDone := make(chan struct{})
	// the deadline monitor
	monitorDone := make(chan struct{})
	go func() {
		defer close(monitorDone)
		tick := time.NewTicker(20 * time.Millisecond)
		defer tick.Stop()
		for {
			select {
			case <-allDone:
				return
			case <-tick.C:
				now := time.Now().UnixNano()
				actorsMu.Lock()
				for _, a := range actors {
					c, _ := a.call.Load().(string)
					if c != "" && now-a.since.Load() > int64(deadline) {
						blockedLines = append(blockedLines, fmt.Sprintf("blocked %s %s %d", a.name, c, (now-a.since.Load())/1e6))
					}
				}
				actorsMu.Unlock()
				if len(blockedLines) > 0 {
					close(abandoned)
					return
				}
			}
		}
	}()

	mainActor := newActor("main")
	mainActor.enter("subscribe-witness")
	tr.SubscribeChannel(witness)
	mainActor.leave()

	var position atomic.Int64
	triggers := map[int][]*c09episode{}
	for _, l := range eps {
		for _, e := range l {
			triggers[e.join] = append(triggers[e.join], e)
		}
	}
	var gate sync.RWMutex // senders hold it shared around each Send; a quiet join holds it exclusively
	var sendersDone atomic.Bool
	finish := make(chan struct{})
	var wgSend, wgSub sync.WaitGroup
	for _, l := range eps {
		wgSub.Add(1)
		a := newActor(fmt.Sprintf("slot%d", l[0].slot))
		go func(l []*c09episode, a *c09actor) {
			defer wgSub.Done()
			for _, e := range l {
				e.waiting.Store(true)
				<-e.goCh
				if e.quiet {
					gate.Lock()
				}
				e.a = len(witness)
				ch := make(chan tracing.ITrace, e.capacity)
				a.enter(fmt.Sprintf("subscribe:%d.%d", e.slot, e.ep))
				close(e.entered)
				tr.SubscribeChannel(ch)
				a.leave()
				e.b = len(witness)
				close(e.subscribed)
				if e.quiet {
					gate.Unlock()
				}
				finished := false
				for !finished && (e.take < 0 || len(e.recv) < e.take) {
					select {
					case t := <-ch:
						e.recv = append(e.recv, t.(c09msg))
						c09pace(e.pace, len(e.recv))
					case <-finish:
						finished = true
					}
				}
				if finished {
					// the stream has ended and was flushed: whatever is still to come sits in the buffer
					for more := true; more; {
						select {
						case t := <-ch:
							e.recv = append(e.recv, t.(c09msg))
						default:
							more = false
						}
					}
					e.full = true
				}
				a.enter(fmt.Sprintf("unsubscribe:%d.%d", e.slot, e.ep))
				tr.Unsubscribe(ch)
				a.leave()
				e.unsub = true
				e.c = len(witness)
				e.done = true
			}
		}(l, a)
	}
	// the senders start once every slot is parked at its first join position
	for _, l := range eps {
		for !l[0].waiting.Load() {
			runtime.Gosched()
		}
	}
	for i := 0; i < nSend; i++ {
		wgSend.Add(1)
		a := newActor(fmt.Sprintf("sender%d", i))
		go func(i int, a *c09actor) {
			defer wgSend.Done()
			for q := 0; q < counts[i]; q++ {
				// the sender that reaches a join position wakes the episode and, when the slot is parked there,
				// waits until it is inside (quiet: has returned from) its SubscribeChannel call, so that the
				// subscription races with the very next sends
				k := int(position.Add(1)) - 1
				for _, e := range triggers[k] {
					e.release()
					if e.waiting.Load() {
						a.enter(fmt.Sprintf("await-join:%d.%d", e.slot, e.ep))
						if e.quiet {
							<-e.subscribed
						} else {
							<-e.entered
						}
						a.leave()
					}
				}
				gate.RLock()
				a.enter(fmt.Sprintf("send:%d", q))
				tr.Send(c09msg{i, q})
				a.leave()
				gate.RUnlock()
				c09pace(spaces[i], q)
			}
		}(i, a)
	}
	var flushed atomic.Bool
	runDone := make(chan struct{})
	go func() {
		wgSend.Wait()
		sendersDone.Store(true)
		for _, l := range eps {
			for _, e := range l {
				e.release()
			}
		}
		// flush: a subscription is only taken by an idle broadcaster, so once this call has returned every trace
		// sent so far has been pushed to every subscriber
		dummy := make(chan tracing.ITrace, 1)
		mainActor.enter("subscribe-flush")
		tr.SubscribeChannel(dummy)
		mainActor.leave()
		mainActor.enter("unsubscribe-flush")
		tr.Unsubscribe(dummy)
		mainActor.leave()
		flushed.Store(true)
		close(finish)
		wgSub.Wait()
		close(runDone)
	}()
	ok := false
	select {
	case <-runDone:
		ok = true
	case <-abandoned:
	}
	close(allDone)
	<-monitorDone

	// ---- record
	var w []c09msg
	for more := true; more; {
		select {
		case t := <-witness:
			w = append(w, t.(c09msg))
		default:
			more = false
		}
	}
	for i := 0; i < len(w); i += 64 {
		j := i + 64
		if j > len(w) {
			j = len(w)
		}
		parts := make([]string, 0, 64)
		for _, m := range w[i:j] {
			parts = append(parts, fmt.Sprintf("%d:%d", m.s, m.q))
		}
		out.Line("w %s", strings.Join(parts, " "))
	}
	if ok {
		for _, l := range eps {
			for _, e := range l {
				parts := make([]string, len(e.recv))
				for i, m := range e.recv {
					parts[i] = fmt.Sprintf("%d:%d", m.s, m.q)
				}
				r := "-"
				if len(parts) > 0 {
					r = strings.Join(parts, ",")
				}
				out.Line("sub %d.%d cap=%d a=%d b=%d full=%d unsub=%d c=%d recv=%s", e.slot, e.ep, e.capacity, e.a, e.b,
					rec.B(e.full), rec.B(e.unsub), e.c, r)
				stats["episodes"]++
				stats["traces_received_by_subscribers"] += len(e.recv)
			}
		}
	}
	for _, b := range blockedLines {
		out.Line("%s", b)
		stats["blocked_calls"]++
	}
	cancel()
	done := false
	if ok {
		select {
		case <-tr.Done():
			done = true
		case <-time.After(2 * time.Second):
		}
	}
	out.Line("final sends=%d witness=%d flushed=%d done=%d", total, len(w), rec.B(flushed.Load()), rec.B(done))
	stats["traces_sent"] += total
}
