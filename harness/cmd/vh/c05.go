package main

import (
	"fmt"

	"verifharness/internal/eng"
	"verifharness/internal/rec"
	"verifharness/internal/sched"
)

func init() {
	caseFamilies["c05"] = &caseFamily{
		Shard: 1, Par: 12,
		Count: func(tier string) int { return len(c05cases(tier)) },
		Run: func(out *rec.Out, idx int, rng *rec.Rng, tier string, stats map[string]int) {
			c05run(out, c05cases(tier)[idx], rng, stats)
		},
	}
	// direct branches: activated branches run straight from the fork to the join with no activity in between, so the
	// join's first arrival races the tracker's processing of the fork's own flow trace; repeated runs, half perturbed
	caseFamilies["c05d"] = &caseFamily{
		Shard: 1, Par: 12,
		Count: func(tier string) int {
			if tier == "thorough" {
				return 600
			}
			return 60
		},
		Run: func(out *rec.Out, idx int, rng *rec.Rng, tier string, stats map[string]int) {
			c05direct(out, idx, rng, stats)
		},
	}
	// nested variants: forks inside inclusive branches and inclusive blocks inside parallel branches
	caseFamilies["c05n"] = &caseFamily{
		Shard: 1, Par: 12,
		Count: func(tier string) int {
			if tier == "thorough" {
				return 1500
			}
			return 120
		},
		Run: func(out *rec.Out, idx int, rng *rec.Rng, tier string, stats map[string]int) {
			o := genOpts{kinds: []string{"task", "task", "seq", "incl", "incl", "par", "xor"}, maxNodes: 12, maxDepth: 3}
			if tier == "thorough" {
				o.maxNodes = 18
			}
			runProgCase(out, "c05n", idx, rng, tier, stats, o)
		},
	}
}

type c05case struct {
	c      int // conditional branches
	defPos int // -1 none, else list position of the default flow
	truth  int // bit i: condition i true
	early  int // -1: every branch leads to the join; j: branch j ends at its own end event before the join
	order  int // which permutation of the activated branches' finishing order (index into perms)
	// premerge: the branches are merged by an exclusive gateway BEFORE the inclusive join, which therefore has ONE
	// incoming sequence flow carrying every token of the activation — it is still the join of that fork
	premerge bool
	// foreign: a parallel gateway in front of the inclusive fork sends a second token through a task Y straight to the
	// inclusive JOIN: a token the fork activation did not produce arrives there before / between / after the fork's
	// tokens (every order of answering Y and the branch tasks)
	foreign bool
	// seq2 > 0: TWO inclusive blocks in sequence; a branch task of the first block writes the variable the SECOND fork's
	// conditions read (the other branch writes nothing). seq2 = 1: the writing branch is listed first, 2: second;
	// `order` 0 / 1: the writer is answered first / last.
	seq2 int
	// errthen: the fork is reached TWICE by tokens of different origin (two start events): the first finds no true condition
	// and no default (the error outcome, its token stays there), the second — after a task has set the variable — finds the
	// condition true and must be routed as if it were the first
	errthen bool
}

func c05cases(tier string) []c05case {
	var cs []c05case
	for c := 1; c <= 4; c++ {
		for d := -1; d <= c; d++ {
			nOut := c
			if d >= 0 {
				nOut++
			}
			for tr := 0; tr < 1<<c; tr++ {
				for early := -1; early < nOut; early++ {
					if early > 0 && tier != "thorough" {
						continue // quick: only "none" and "branch 0 ends early"
					}
					// number of activated branches
					act := 0
					for i := 0; i < c; i++ {
						if tr>>i&1 == 1 {
							act++
						}
					}
					if act == 0 && d >= 0 {
						act = 1
					}
					np := 1
					for k := 2; k <= act; k++ {
						np *= k
					}
					for o := 0; o < np; o++ {
						if tier != "thorough" && np > 2 && o%3 != (tr+d+c)%3 {
							continue
						}
						cs = append(cs, c05case{c: c, defPos: d, truth: tr, early: early, order: o})
						if c >= 2 && c <= 3 && early <= 0 && o < 2 {
							cs = append(cs, c05case{c: c, defPos: d, truth: tr, early: early, order: o, premerge: true})
						}
						if c == 2 && early < 0 && act == 2 {
							// (with Y there is one more pending task: 3! orders; `order` selects among them)
							for o2 := 0; o2 < 6; o2++ {
								if o == 0 {
									cs = append(cs, c05case{c: c, defPos: d, truth: tr, early: early, order: o2, foreign: true})
								}
							}
						}
					}
				}
			}
		}
	}
	cs = append(cs, c05case{c: 1, defPos: -1, truth: 0, early: -1, errthen: true})
	for seq2 := 1; seq2 <= 2; seq2++ {
		for o := 0; o < 2; o++ {
			cs = append(cs, c05case{c: 2, defPos: -1, truth: 3, early: -1, order: o, seq2: seq2})
		}
	}
	return cs
}

// c05runSeq2: start -> A -> F1 -> {B0, B1} -> J1 -> F2 -> {C0 if w == 1, C1 if w == 0} -> J2 -> Z -> end. Both conditions of
// F1 are true; the WRITER branch stores w = 1 (w starts as 0), the other branch stores nothing.
func c05runSeq2(out *rec.Out, c c05case, rng *rec.Rng, stats map[string]int) {
	g := eng.NewGraph()
	st := g.Add("startEvent", "start", "")
	a := g.Add("task", "A", "")
	f1 := g.Add("inclusiveGateway", "I", "")
	j1 := g.Add("inclusiveGateway", "J", "")
	f2 := g.Add("inclusiveGateway", "I2", "")
	j2 := g.Add("inclusiveGateway", "J2", "")
	z := g.Add("task", "Z", "")
	en := g.Add("endEvent", "end", "")
	g.Connect(st, a, nil)
	g.Connect(a, f1, nil)
	writer := c.seq2 - 1 // index of the branch that writes w
	var bs []*eng.Node
	for j := 0; j < 2; j++ {
		b := g.Add("task", fmt.Sprintf("B%d", j), "")
		if j == writer {
			b.Results = []string{"w"}
		}
		g.Connect(f1, b, &eng.Cond{Op: "eq", Var: fmt.Sprintf("b%d", j), K: 1})
		g.Connect(b, j1, nil)
		bs = append(bs, b)
	}
	g.Connect(j1, f2, nil)
	c0 := g.Add("task", "C0", "")
	c1 := g.Add("task", "C1", "")
	g.Connect(f2, c0, &eng.Cond{Op: "eq", Var: "w", K: 1})
	g.Connect(f2, c1, &eng.Cond{Op: "eq", Var: "w", K: 0})
	g.Connect(c0, j2, nil)
	g.Connect(c1, j2, nil)
	g.Connect(j2, z, nil)
	g.Connect(z, en, nil)
	out.Begin("c05", c.c, c.defPos, c.truth, c.early, c.order, 0, 0, c.seq2)
	defer out.End()
	vars := map[string]int{"b0": 1, "b1": 1, "w": 0}
	in, defs, err := eng.Start(g.XML(), map[string]any{"b0": 1, "b1": 1, "w": 0})
	if err != nil {
		out.Line("harness-error %v", err)
		return
	}
	for _, l := range eng.ProgLines(&(*defs.Processes())[0], g.CondRPN) {
		out.Line("prog %s", l)
	}
	out.Line("prog vars %s", fmtVars(vars))
	stats["cases"]++
	stats["two_inclusive_blocks_in_sequence"]++
	answer := func(node string, res map[string]int) bool {
		if !in.Quiesce(4 * timeSecond) {
			in.Note("obs noquiesce")
			return false
		}
		for _, q := range in.Pending() {
			if q.Node == node {
				return in.AnswerOK(q, res)
			}
		}
		return false
	}
	answer("A", nil)
	wn, on := fmt.Sprintf("B%d", writer), fmt.Sprintf("B%d", 1-writer)
	if c.order == 0 {
		answer(wn, map[string]int{"w": 1})
		answer(on, nil)
	} else {
		answer(on, nil)
		answer(wn, map[string]int{"w": 1})
	}
	for steps := 0; steps < 6; steps++ {
		if !in.Quiesce(4 * timeSecond) {
			in.Note("obs noquiesce")
			break
		}
		rest := in.Pending()
		if len(rest) == 0 {
			break
		}
		in.AnswerOK(rest[0], nil)
	}
	complete := in.WaitComplete(300 * timeMillisecond)
	in.Quiesce(2 * timeSecond)
	for _, l := range in.Lines() {
		out.Line("%s", l)
	}
	out.Line("obs final complete=%d vars=%s", rec.B(complete), in.Vars())
	in.Stop(2 * timeSecond)
}

// c05runErrThen: s1 -> A1 -> M ; s2 -> A2 (stores ready) -> M ; M (exclusive merge) -> I ; I -(ready == 1)-> B0 [, I -(ready == 2)-> B1] -> J -> Z -> end
func c05runErrThen(out *rec.Out, c c05case, rng *rec.Rng, stats map[string]int) {
	g := eng.NewGraph()
	s1 := g.Add("startEvent", "start", "")
	s2 := g.Add("startEvent", "start2", "")
	a1 := g.Add("task", "A1", "")
	a2 := g.Add("task", "A2", "")
	a2.Results = []string{"ready"}
	fork := g.Add("inclusiveGateway", "I", "")
	join := g.Add("inclusiveGateway", "J", "")
	z := g.Add("task", "Z", "")
	en := g.Add("endEvent", "end", "")
	g.Connect(s1, a1, nil)
	g.Connect(s2, a2, nil)
	// (an exclusive merge in front of the fork: the fork has ONE incoming flow, it does not synchronise anything)
	mg := g.Add("exclusiveGateway", "M", "")
	g.Connect(a1, mg, nil)
	g.Connect(a2, mg, nil)
	g.Connect(mg, fork, nil)
	for j := 0; j < c.c; j++ {
		b := g.Add("task", fmt.Sprintf("B%d", j), "")
		g.Connect(fork, b, &eng.Cond{Op: "eq", Var: "ready", K: j + 1})
		g.Connect(b, join, nil)
	}
	g.Connect(join, z, nil)
	g.Connect(z, en, nil)
	out.Begin("c05", c.c, c.defPos, c.truth, c.early, c.order, 0, 0, 0, 1)
	defer out.End()
	vars := map[string]int{"ready": 0}
	in, defs, err := eng.Start(g.XML(), map[string]any{"ready": 0})
	if err != nil {
		out.Line("harness-error %v", err)
		return
	}
	for _, l := range eng.ProgLines(&(*defs.Processes())[0], g.CondRPN) {
		out.Line("prog %s", l)
	}
	out.Line("prog vars %s", fmtVars(vars))
	stats["cases"]++
	stats["fork_reached_again_after_an_error_outcome"]++
	answer := func(node string, res map[string]int) bool {
		if !in.Quiesce(4 * timeSecond) {
			in.Note("obs noquiesce")
			return false
		}
		for _, q := range in.Pending() {
			if q.Node == node {
				return in.AnswerOK(q, res)
			}
		}
		return false
	}
	answer("A1", nil)                         // the first token finds nothing to take
	answer("A2", map[string]int{"ready": 1}) // the second one finds `ready == 1` true
	for steps := 0; steps < 4; steps++ {
		if !in.Quiesce(4 * timeSecond) {
			in.Note("obs noquiesce")
			break
		}
		rest := in.Pending()
		if len(rest) == 0 {
			break
		}
		in.AnswerOK(rest[0], nil)
	}
	complete := in.WaitComplete(300 * timeMillisecond)
	in.Quiesce(2 * timeSecond)
	for _, l := range in.Lines() {
		out.Line("%s", l)
	}
	out.Line("obs final complete=%d vars=%s", rec.B(complete), in.Vars())
	in.Stop(2 * timeSecond)
}

func c05run(out *rec.Out, c c05case, rng *rec.Rng, stats map[string]int) {
	if c.errthen {
		c05runErrThen(out, c, rng, stats)
		return
	}
	if c.seq2 > 0 {
		c05runSeq2(out, c, rng, stats)
		return
	}
	g := eng.NewGraph()
	st := g.Add("startEvent", "start", "")
	a := g.Add("task", "A", "")
	fork := g.Add("inclusiveGateway", "I", "")
	join := g.Add("inclusiveGateway", "J", "")
	z := g.Add("task", "Z", "")
	en := g.Add("endEvent", "end", "")
	g.Connect(st, a, nil)
	if c.foreign {
		pf := g.Add("parallelGateway", "P", "")
		y := g.Add("task", "Y", "")
		g.Connect(a, pf, nil)
		g.Connect(pf, fork, nil)
		g.Connect(pf, y, nil)
		g.Connect(y, join, nil)
	} else {
		g.Connect(a, fork, nil)
	}
	into := join
	if c.premerge {
		into = g.Add("exclusiveGateway", "M", "")
		g.Connect(into, join, nil)
	}
	nOut := c.c
	if c.defPos >= 0 {
		nOut++
	}
	vars := map[string]int{}
	ci := 0
	for j := 0; j < nOut; j++ {
		b := g.Add("task", fmt.Sprintf("B%d", j), "")
		if j == c.defPos {
			f := g.Connect(fork, b, nil)
			fork.Default = f.ID
		} else {
			v := fmt.Sprintf("b%d", ci)
			vars[v] = (c.truth >> ci) & 1
			g.Connect(fork, b, &eng.Cond{Op: "eq", Var: v, K: 1})
			ci++
		}
		if j == c.early {
			e := g.Add("endEvent", fmt.Sprintf("end%d", j), "")
			g.Connect(b, e, nil)
		} else {
			g.Connect(b, into, nil)
		}
	}
	g.Connect(join, z, nil)
	g.Connect(z, en, nil)

	out.Begin("c05", c.c, c.defPos, c.truth, c.early, c.order, rec.B(c.premerge), rec.B(c.foreign))
	if c.foreign {
		stats["foreign_token_at_the_join"]++
	}
	defer out.End()
	anyVars := map[string]any{}
	for k, v := range vars {
		anyVars[k] = v
	}
	if sh := rng.Fork(); sh.Intn(2) == 0 { // forked stream: one draw of the case's stream whatever the graph size
		g.ShuffleDecl(sh.Intn)
		stats["shuffled_declaration_order"]++
	}
	in, defs, err := eng.Start(g.XML(), anyVars)
	if err != nil {
		out.Line("harness-error %v", err)
		return
	}
	for _, l := range eng.ProgLines(&(*defs.Processes())[0], g.CondRPN) {
		out.Line("prog %s", l)
	}
	out.Line("prog vars %s", fmtVars(vars))
	stats["cases"]++
	stats[fmt.Sprintf("branches%d_def%d_early%d", c.c, rec.B(c.defPos >= 0), rec.B(c.early >= 0))]++
	in.Quiesce(4 * timeSecond)
	for _, q := range in.Pending() {
		if q.Node == "A" {
			in.AnswerOK(q, nil)
		}
	}
	in.Quiesce(4 * timeSecond)
	// finishing order of the activated branches: the c.order-th permutation of the pending B tasks
	p := in.Pending()
	ps := perms(len(p))
	ord := ps[0]
	if len(ps) > 0 {
		ord = ps[c.order%len(ps)]
	}
	for _, i := range ord {
		if !in.Quiesce(4 * timeSecond) {
			in.Note("obs noquiesce")
			break
		}
		in.AnswerOK(p[i], nil)
	}
	for steps := 0; steps < 10; steps++ {
		if !in.Quiesce(4 * timeSecond) {
			in.Note("obs noquiesce")
			break
		}
		rest := in.Pending()
		if len(rest) == 0 {
			break
		}
		in.AnswerOK(rest[0], nil)
	}
	complete := in.WaitComplete(300 * timeMillisecond)
	in.Quiesce(2 * timeSecond)
	for _, l := range in.Lines() {
		out.Line("%s", l)
	}
	out.Line("obs final complete=%d vars=%s", rec.B(complete), in.Vars())
	in.Stop(2 * timeSecond)
}

// start → A → inclusive fork I → c direct flows (all conditions true) [+ optionally one branch with a task] → join J → Z → end
func c05direct(out *rec.Out, idx int, rng *rec.Rng, stats map[string]int) {
	c := 2 + idx%3
	withTask := (idx/3)%3 == 0
	g := eng.NewGraph()
	st := g.Add("startEvent", "start", "")
	fork := g.Add("inclusiveGateway", "I", "")
	join := g.Add("inclusiveGateway", "J", "")
	z := g.Add("task", "Z", "")
	en := g.Add("endEvent", "end", "")
	g.Connect(st, fork, nil)
	for j := 0; j < c; j++ {
		g.Connect(fork, join, &eng.Cond{Op: "true"})
	}
	if withTask {
		b := g.Add("task", "B", "")
		g.Connect(fork, b, &eng.Cond{Op: "true"})
		g.Connect(b, join, nil)
	}
	g.Connect(join, z, nil)
	g.Connect(z, en, nil)
	if sh := rng.Fork(); sh.Intn(2) == 0 {
		g.ShuffleDecl(sh.Intn)
	}
	out.Begin("c05d", c, rec.B(withTask))
	defer out.End()
	if idx%2 == 1 {
		ctl := sched.Install()
		ctl.Perturb(rng.U64(), 1+(idx/2)%2)
		defer ctl.Remove()
		stats["perturbed_cases"]++
	}
	in, defs, err := eng.Start(g.XML(), nil)
	if err != nil {
		out.Line("harness-error %v", err)
		return
	}
	for _, l := range eng.ProgLines(&(*defs.Processes())[0], g.CondRPN) {
		out.Line("prog %s", l)
	}
	out.Line("prog vars -")
	stats["cases"]++
	for steps := 0; steps < 12; steps++ {
		if !in.Quiesce(4 * timeSecond) {
			in.Note("obs noquiesce")
			break
		}
		p := in.Pending()
		if len(p) == 0 {
			break
		}
		in.AnswerOK(p[0], nil)
	}
	complete := in.WaitComplete(300 * timeMillisecond)
	in.Quiesce(2 * timeSecond)
	for _, l := range in.Lines() {
		out.Line("%s", l)
	}
	out.Line("obs final complete=%d vars=%s", rec.B(complete), in.Vars())
	in.Stop(2 * timeSecond)
}
