package main

// C18 — process set: runs all executable processes, reports completion exactly once, message flows.
//
// Process tree: vh (framework) → child (one case, `-child`) → GRANDCHILD (this binary again, selected by the
// environment variable VH_C18_SUB). The real engine only ever runs in the grandchild: a second
// WaitUntilComplete closes a closed channel in an ENGINE goroutine, which no `recover` of ours can catch and
// which kills the whole OS process. The child reads the lines the grandchild printed before it died, and
// turns the crash into `obs panic <class>`.

import (
	"bytes"
	"encoding/json"
	"fmt"
	"github.com/olive-io/bpmn/v2/pkg/event"
	"os"
	"os/exec"
	"regexp"
	"sort"
	"strings"
	"sync"
	"time"

	"github.com/olive-io/bpmn/schema"
	bpmn "github.com/olive-io/bpmn/v2"

	"verifharness/internal/eng"
	"verifharness/internal/rec"
	"verifharness/internal/sched"
)

const c18env = "VH_C18_SUB"

func init() {
	if spec := os.Getenv(c18env); spec != "" {
		c18sub(spec)
		os.Exit(0)
	}
	caseFamilies["c18"] = &caseFamily{
		Shard: 1, Par: 12,
		Count: func(tier string) int { return len(c18cases(tier)) },
		Run: func(out *rec.Out, idx int, rng *rec.Rng, tier string, stats map[string]int) {
			c18run(out, c18cases(tier)[idx], rng, tier, stats)
		},
	}
}

// ---------------------------------------------------------------------------------------------- cases

type c18flow struct {
	From int    `json:"from"` // index of the process holding the throw event
	To   int    `json:"to"`   // index of the target process
	Kind string `json:"kind"` // start | catch
	Src  string `json:"src"`  // throw event of the source process: "" = h, "h2" = the second one (shape thr2)
}

type c18case struct {
	Execs []string  `json:"execs"` // shapes of the executable processes (1..3)
	Waits []string  `json:"waits"` // shapes of the waiting (non-executable) processes (0..2)
	Flows []c18flow `json:"flows"` // 0..2 message flows; process indices: executables first, then waiting
	Mode  string    `json:"mode"`  // single | seq | conc | early
	K     int       `json:"k"`     // number of waits (seq, conc)
	Sched string    `json:"sched"` // free | latefast | lateall | lateinst | holdinst
	Park  string    `json:"park"`  // mode park: task requests of this node ("w1_A") or node:occurrence ("w0_A:2") are withheld
	Order string    `json:"order"` // fwd | rev | "" (seeded): which pending request is answered next
	Pert  int       `json:"pert"`  // perturbation level
	Seed  uint64    `json:"seed"`
}

func (c c18case) params() []any {
	fl := make([]string, len(c.Flows))
	for i, f := range c.Flows {
		fl[i] = fmt.Sprintf("%d%s>%d:%s", f.From, f.Src, f.To, f.Kind)
	}
	return []any{dash(strings.Join(c.Execs, ",")), dash(strings.Join(c.Waits, ",")), dash(strings.Join(fl, ",")),
		c.Mode, c.K, c.Sched, c.Pert, dash(c.Park), dash(c.Order)}
}

func dash(s string) string {
	if s == "" {
		return "-"
	}
	return s
}

var c18execShapes = []string{"triv", "task", "xor", "par"}

func c18cases(tier string) []c18case {
	var cs []c18case
	add := func(c c18case) { cs = append(cs, c) }
	modes := []struct {
		m string
		k int
	}{{"single", 1}, {"seq", 2}, {"seq", 3}, {"conc", 2}, {"conc", 4}, {"early", 2}}
	// A. sets without message flows: every multiset of 1..3 executable shapes, idle waiting processes
	var sets [][]string
	for i, a := range c18execShapes {
		sets = append(sets, []string{a})
		for j, b := range c18execShapes {
			if j < i {
				continue
			}
			sets = append(sets, []string{a, b})
			for k, c := range c18execShapes {
				if k < j {
					continue
				}
				sets = append(sets, []string{a, b, c})
			}
		}
	}
	n := 0
	for _, s := range sets {
		for wi, w := range [][]string{nil, {"wtask"}, {"wtriv", "wtask"}} {
			for mi, m := range modes {
				n++
				if tier != "thorough" && (n+wi+mi)%7 != 0 && !(len(s) <= 2 && wi == 0 && mi <= 1) {
					continue
				}
				add(c18case{Execs: s, Waits: w, Mode: m.m, K: m.k, Sched: "free"})
			}
		}
	}
	// A'. two members that use the SAME variable name: one writes it, the other reads it afterwards in a condition (each
	//     behaves as it would alone: nothing one process stores is visible to another)
	for _, m := range modes {
		add(c18case{Execs: []string{"wv", "rv"}, Mode: m.m, K: m.k, Sched: "free"})
		add(c18case{Execs: []string{"rv", "wv", "xor"}, Mode: m.m, K: m.k, Sched: "free"})
	}
	// A''. a member with an embedded sub-process that ends while the member goes on: what ends inside a member is not the
	//      member's end (the set waits for the member's own last token)
	for _, m := range modes {
		add(c18case{Execs: []string{"sub"}, Mode: m.m, K: m.k, Sched: "free"})
		add(c18case{Execs: []string{"subt", "task"}, Mode: m.m, K: m.k, Sched: "free"})
		add(c18case{Execs: []string{"triv", "sub"}, Waits: []string{"wtask"}, Mode: m.m, K: m.k, Sched: "free"})
	}
	// B. the fast-process-missed witness, enforced: the watchers are held before they subscribe until the fast
	//    processes (latefast) / all processes (lateall) have finished
	for _, s := range [][]string{{"triv"}, {"triv", "triv"}, {"triv", "task"}, {"task"}, {"task", "xor"}, {"triv", "par", "task"}} {
		for _, sc := range []string{"latefast", "lateall"} {
			add(c18case{Execs: s, Mode: "single", K: 1, Sched: sc})
		}
	}
	add(c18case{Execs: []string{"triv", "triv"}, Waits: []string{"wtask"}, Mode: "single", K: 1, Sched: "latefast"})
	// B'. a slow starter: the goroutine running StartAll is kept for 40 ms between the start event's Trigger and its
	//     next statement while the started process runs on and emits well over ten traces (whoever reads the process's
	//     traces for the set must be reading by then — each process alone, with a reading subscriber, completes)
	for _, s := range [][]string{{"long"}, {"longtask"}, {"long", "task"}, {"task", "long", "longtask"}} {
		add(c18case{Execs: s, Mode: "single", K: 1, Sched: "slowstart"})
		add(c18case{Execs: s, Mode: "seq", K: 2, Sched: "free"})
	}
	// C. message flows
	type mf struct {
		e, w []string
		f    []c18flow
	}
	flowSets := []mf{
		{[]string{"thr1"}, []string{"wtask"}, []c18flow{{From: 0, To: 1, Kind: "start"}}},
		{[]string{"thr1"}, []string{"wtriv"}, []c18flow{{From: 0, To: 1, Kind: "start"}}},
		{[]string{"thr0"}, []string{"wtask"}, []c18flow{{From: 0, To: 1, Kind: "start"}}},
		{[]string{"thr0"}, []string{"wtriv"}, []c18flow{{From: 0, To: 1, Kind: "start"}}},
		{[]string{"thr1", "task"}, []string{"wtask", "wtriv"}, []c18flow{{From: 0, To: 2, Kind: "start"}}},
		{[]string{"thr1", "cat"}, nil, []c18flow{{From: 0, To: 1, Kind: "catch"}}},
		{[]string{"thr1", "cat", "triv"}, []string{"wtask"}, []c18flow{{From: 0, To: 1, Kind: "catch"}}},
		// the referenced catch event is not a top-level node of its member: it waits inside an embedded sub-process
		{[]string{"thr1", "subcat"}, nil, []c18flow{{From: 0, To: 1, Kind: "catch"}}},
		// … and its message definition carries an operationRef (the wake-up is the message AND the operation)
		{[]string{"thr1", "catop"}, nil, []c18flow{{From: 0, To: 1, Kind: "catch"}}},
		{[]string{"thr1", "catop", "triv"}, []string{"wtask"}, []c18flow{{From: 0, To: 1, Kind: "catch"}}},
		{[]string{"thr1", "subcat", "task"}, []string{"wtask"}, []c18flow{{From: 0, To: 1, Kind: "catch"}}},
		{[]string{"thr1", "thr1"}, []string{"wtask"}, []c18flow{{From: 0, To: 2, Kind: "start"}, {From: 1, To: 2, Kind: "start"}}},
		{[]string{"thr1", "thr1"}, []string{"wtask", "wtriv"}, []c18flow{{From: 0, To: 2, Kind: "start"}, {From: 1, To: 3, Kind: "start"}}},
		{[]string{"thr1", "thr1", "cat"}, []string{"wtask"}, []c18flow{{From: 0, To: 3, Kind: "start"}, {From: 1, To: 2, Kind: "catch"}}},
		{[]string{"sample"}, []string{"wthr"}, []c18flow{{From: 0, To: 1, Kind: "start"}, {From: 1, To: 0, Kind: "catch"}}},
		{[]string{"sample", "task"}, []string{"wthr", "wtriv"}, []c18flow{{From: 0, To: 2, Kind: "start"}, {From: 2, To: 0, Kind: "catch"}}},
		{[]string{"thr1"}, []string{"wtask"}, nil}, // a throw event without a message flow
		// a message flow whose throw event may not be reached at all (it sits on a conditional branch): the set is complete
		// when its started processes are, whether or not the waiting process was ever instantiated
		{[]string{"xthr"}, []string{"wtask"}, []c18flow{{From: 0, To: 1, Kind: "start"}}},
		{[]string{"xthr", "task"}, []string{"wtask"}, []c18flow{{From: 0, To: 2, Kind: "start"}}},
		{[]string{"xthr", "cat"}, nil, []c18flow{{From: 0, To: 1, Kind: "catch"}}},
		// the waiting process has a second start event the flow does not refer to: the instance is started at the
		// referenced one only (what the process does when it is started there by itself: `alone` uses StartWith)
		{[]string{"thr1"}, []string{"wtwo"}, []c18flow{{From: 0, To: 1, Kind: "start"}}},
		// the set is built with initial data (every set of this family is: iv = 1); a message-started process sees it like
		// an executable one, and like it does when it runs by itself with the same options
		{[]string{"thr1"}, []string{"wiv"}, []c18flow{{From: 0, To: 1, Kind: "start"}}},
		{[]string{"thr0", "rv"}, []string{"wiv", "wtask"}, []c18flow{{From: 0, To: 2, Kind: "start"}}},
		{[]string{"thr0", "task"}, []string{"wtwo"}, []c18flow{{From: 0, To: 2, Kind: "start"}}},
		// one throw event passed by two tokens: two throws, two instances of the waiting process
		{[]string{"thrtwo"}, []string{"wtask"}, []c18flow{{From: 0, To: 1, Kind: "start"}}},
		{[]string{"thrtwo"}, nil, nil},
		// one process listening TWICE, each catch event woken by its own message flow (the second throw only after the
		// driver answered the task in between): a wake-up must not carry over to the next catch event
		{[]string{"thr2t", "cat2"}, nil, []c18flow{{From: 0, To: 1, Kind: "catch"}, {From: 0, To: 1, Kind: "catch2", Src: "h2"}}},
		// (a throw event is the source of at most one message flow — BPMN 2.0 — so the instantiation comes from a third process)
		{[]string{"thr2t", "cat2", "thr1"}, []string{"wtask"}, []c18flow{{From: 0, To: 1, Kind: "catch"}, {From: 0, To: 1, Kind: "catch2", Src: "h2"}, {From: 2, To: 3, Kind: "start"}}},
	}
	for fi, fs := range flowSets {
		for mi, m := range modes {
			if tier != "thorough" && mi > 0 && (fi+mi)%3 != 0 {
				continue
			}
			add(c18case{Execs: fs.e, Waits: fs.w, Flows: fs.f, Mode: m.m, K: m.k, Sched: "free"})
		}
	}
	// D. completion racing with the delivery of a message flow, enforced: the run loop is held inside
	//    StartWith of the instantiated process until the throwing process has finished
	add(c18case{Execs: []string{"thr0"}, Waits: []string{"wtask"}, Flows: []c18flow{{From: 0, To: 1, Kind: "start"}}, Mode: "single", K: 1, Sched: "holdinst"})
	add(c18case{Execs: []string{"thr1"}, Waits: []string{"wtask"}, Flows: []c18flow{{From: 0, To: 1, Kind: "start"}}, Mode: "single", K: 1, Sched: "holdinst"})
	// D'. the same window in run: the watcher of an INSTANTIATED process is held before it subscribes until the
	//     instantiated process has finished (on a tree where run subscribes first, the held point precedes the start)
	for _, w := range []string{"wtriv", "wtask"} {
		add(c18case{Execs: []string{"thr1"}, Waits: []string{w}, Flows: []c18flow{{From: 0, To: 1, Kind: "start"}}, Mode: "single", K: 1, Sched: "lateinst"})
	}
	add(c18case{Execs: []string{"thr0"}, Waits: []string{"wtriv"}, Flows: []c18flow{{From: 0, To: 1, Kind: "start"}}, Mode: "single", K: 1, Sched: "lateinst"})
	add(c18case{Execs: []string{"thr1", "thr1"}, Waits: []string{"wtriv"}, Flows: []c18flow{{From: 0, To: 2, Kind: "start"}, {From: 1, To: 2, Kind: "start"}}, Mode: "single", K: 1, Sched: "lateinst"})
	// D''. two or more processes instantiated by message flows, each parking on its own task, finishing at different
	//      times: every message-started process in turn is kept parked while the others are released (both orders), a
	//      wait under a deadline is made (must be false), then the parked one is released and a second wait is made.
	//      Also a message-started process that itself throws while a sibling is alive.
	type pk struct {
		e, w  []string
		f     []c18flow
		parks []string
	}
	for _, x := range []pk{
		{[]string{"thr2"}, []string{"wtask", "wtask"}, []c18flow{{From: 0, To: 1, Kind: "start"}, {From: 0, To: 2, Kind: "start", Src: "h2"}},
			[]string{"w0_A", "w1_A", "e0_B"}},
		{[]string{"thr1", "thr1"}, []string{"wtask", "wtask"}, []c18flow{{From: 0, To: 2, Kind: "start"}, {From: 1, To: 3, Kind: "start"}},
			[]string{"w0_A", "w1_A"}},
		{[]string{"thr1", "thr1"}, []string{"wtask"}, []c18flow{{From: 0, To: 2, Kind: "start"}, {From: 1, To: 2, Kind: "start"}},
			[]string{"w0_A:1", "w0_A:2"}},
		{[]string{"thr1", "thr1"}, []string{"wthr", "wtask", "wtask"},
			[]c18flow{{From: 0, To: 2, Kind: "start"}, {From: 1, To: 4, Kind: "start"}, {From: 2, To: 3, Kind: "start"}},
			[]string{"w2_A", "w1_A"}},
	} {
		for _, park := range x.parks {
			for _, ord := range []string{"fwd", "rev"} {
				add(c18case{Execs: x.e, Waits: x.w, Flows: x.f, Mode: "park", K: 2, Sched: "free", Park: park, Order: ord})
			}
		}
	}
	// E. perturbed schedules (thorough)
	if tier == "thorough" {
		base := append([]c18case(nil), cs...)
		for i, c := range base {
			if c.Sched != "free" || i%2 == 1 {
				continue
			}
			c.Pert = 1 + i%2 + (i/2)%2
			add(c)
		}
	}
	return cs
}

// ---------------------------------------------------------------------------------------------- processes

// c18graph builds one member process. Returned ids are already prefixed.
func c18graph(id, shape string, executable bool) *eng.Graph {
	g := eng.NewGraph()
	g.ProcID = id
	g.Executable = executable
	st := g.Add("startEvent", "s", "")
	en := g.Add("endEvent", "e", "")
	task := func(n string, res ...string) *eng.Node {
		t := g.Add("task", n, "")
		t.Results = res
		return t
	}
	chain := func(ns ...*eng.Node) {
		for i := 0; i+1 < len(ns); i++ {
			g.Connect(ns[i], ns[i+1], nil)
		}
	}
	throwN := func(n string) *eng.Node {
		h := g.Add("intermediateThrowEvent", n, "")
		h.Defs = []eng.EventDef{{Kind: "message", Name: "msg_" + id + "_" + n}}
		return h
	}
	throw := func() *eng.Node { return throwN("h") }
	catchN := func(n string) *eng.Node {
		c := g.Add("intermediateCatchEvent", n, "")
		c.Defs = []eng.EventDef{{Kind: "message", Name: "msg_" + id + "_" + n}}
		return c
	}
	catch := func() *eng.Node { return catchN("c") }
	switch shape {
	case "triv", "wtriv":
		chain(st, en)
	case "task", "wtask":
		chain(st, task("A"), en)
	case "xor":
		a := task("A", "v")
		x := g.Add("exclusiveGateway", "x", "")
		b, c := task("B"), task("C")
		chain(st, a, x)
		g.Connect(x, b, &eng.Cond{Op: "eq", Var: "v", K: 1})
		d := g.Connect(x, c, nil)
		x.Default = d.ID
		chain(b, en)
		chain(c, en)
	case "par":
		f := g.Add("parallelGateway", "f", "")
		j := g.Add("parallelGateway", "j", "")
		a, b := task("A"), task("B")
		chain(st, f)
		chain(f, a, j)
		chain(f, b, j)
		chain(j, en)
	case "long": // five pass-through gateways: well over ten traces before anybody answers anything
		ns := []*eng.Node{st}
		for k := 1; k <= 5; k++ {
			ns = append(ns, g.Add("exclusiveGateway", fmt.Sprintf("x%d", k), ""))
		}
		chain(append(ns, en)...)
	case "longtask":
		ns := []*eng.Node{st}
		for k := 1; k <= 5; k++ {
			ns = append(ns, g.Add("exclusiveGateway", fmt.Sprintf("x%d", k), ""))
		}
		chain(append(ns, task("A"), en)...)
	case "thr0":
		chain(st, throw(), en)
	case "thr1":
		chain(st, task("A"), throw(), task("B"), en)
	case "thr2": // two throw events, one after the other
		chain(st, task("A"), throw(), throwN("h2"), task("B"), en)
	case "thr2t": // two throw events with a task in between (the second throw waits for the driver)
		chain(st, task("A"), throw(), task("B"), throwN("h2"), task("C"), en)
	case "cat2": // two catch events in sequence, each woken by its own message flow
		chain(st, catch(), catchN("c2"), task("A"), en)
	case "xthr": // the throw event sits on a CONDITIONAL branch: with v != 1 the token never reaches it
		a := task("A", "v")
		x := g.Add("exclusiveGateway", "x", "")
		h := throw()
		b, c := task("B"), task("C")
		chain(st, a, x)
		g.Connect(x, h, &eng.Cond{Op: "eq", Var: "v", K: 1})
		d := g.Connect(x, c, nil)
		x.Default = d.ID
		chain(h, b, en)
		chain(c, en)
	case "wv": // writes the variable v (a declared result of its task)
		chain(st, task("A", "v"), en)
	case "rv": // READS a variable v it never writes: alone v is undefined and the default branch is taken
		a := task("A")
		x := g.Add("exclusiveGateway", "x", "")
		b, c := task("B"), task("C")
		chain(st, a, x)
		g.Connect(x, b, &eng.Cond{Op: "eq", Var: "v", K: 1})
		d := g.Connect(x, c, nil)
		x.Default = d.ID
		chain(b, en)
		chain(c, en)
	case "thrtwo": // two tokens pass ONE throw event (a fork whose branches meet at the event without a join)
		f := g.Add("parallelGateway", "f", "")
		h := throw()
		chain(st, f)
		chain(f, task("A"), h)
		chain(f, task("B"), h)
		chain(h, task("C"), en)
	case "sub", "subt": // an EMBEDDED SUB-PROCESS (empty / one task inside) that the token leaves while the member goes on (task A)
		u := g.Add("subProcess", "U", "")
		us := g.Add("startEvent", "us", u.ID)
		ue := g.Add("endEvent", "ue", u.ID)
		if shape == "subt" {
			t := g.Add("task", "T", u.ID)
			chain(us, t, ue)
		} else {
			chain(us, ue)
		}
		chain(st, u, task("A"), en)
	case "catop": // the catch event's message definition names an OPERATION besides the message
		c := g.Add("intermediateCatchEvent", "c", "")
		c.Defs = []eng.EventDef{{Kind: "message", Name: "msg_" + id + "_c", Op: "op_" + id}}
		chain(st, c, task("A"), en)
	case "subcat": // the catch event a message flow refers to sits INSIDE an embedded sub-process of the member
		u := g.Add("subProcess", "U", "")
		us := g.Add("startEvent", "us", u.ID)
		ue := g.Add("endEvent", "ue", u.ID)
		c := g.Add("intermediateCatchEvent", "c", u.ID)
		c.Defs = []eng.EventDef{{Kind: "message", Name: "msg_" + id + "_c"}}
		chain(us, c, ue)
		chain(st, u, task("A"), en)
	case "wthr":
		chain(st, task("A"), throw(), en)
	case "wiv": // a waiting process that READS AN INITIAL VARIABLE of the set (iv = 1, given with the set's options)
		a := task("A")
		x := g.Add("exclusiveGateway", "x", "")
		b, c := task("B"), task("C")
		chain(st, a, x)
		g.Connect(x, b, &eng.Cond{Op: "eq", Var: "iv", K: 1})
		d := g.Connect(x, c, nil)
		x.Default = d.ID
		chain(b, en)
		chain(c, en)
	case "wtwo": // a waiting process with TWO start events: the message flow refers to `s`; `s2` (-> task W -> e2) is not its
		chain(st, en)
		chain(g.Add("startEvent", "s2", ""), task("W"), g.Add("endEvent", "e2", ""))
	case "cat":
		chain(st, catch(), task("A"), en)
	case "sample": // examples/multiprocess: throw, task, catch
		chain(st, throw(), task("A"), catch(), en)
	default:
		panic("c18 shape " + shape)
	}
	if shape[0] == 'w' {
		st.Defs = []eng.EventDef{{Kind: "message", Name: "msg_" + id + "_s"}}
	}
	g.PrefixIDs()
	return g
}

func (c c18case) graphs() ([]*eng.Graph, []eng.MsgFlow) {
	var gs []*eng.Graph
	for i, s := range c.Execs {
		gs = append(gs, c18graph(fmt.Sprintf("e%d", i), s, true))
	}
	for i, s := range c.Waits {
		gs = append(gs, c18graph(fmt.Sprintf("w%d", i), s, false))
	}
	var fl []eng.MsgFlow
	for i, f := range c.Flows {
		dst := gs[f.To].ProcID + "_s"
		if f.Kind == "catch" {
			dst = gs[f.To].ProcID + "_c"
		}
		if f.Kind == "catch2" {
			dst = gs[f.To].ProcID + "_c2"
		}
		src := f.Src
		if src == "" {
			src = "h"
		}
		fl = append(fl, eng.MsgFlow{ID: fmt.Sprintf("mf%d", i), Src: gs[f.From].ProcID + "_" + src, Dst: dst})
	}
	return gs, fl
}

// ---------------------------------------------------------------------------------------------- child

var c18panicRe = regexp.MustCompile(`(?m)^panic: (.*)$`)

func c18run(out *rec.Out, c c18case, rng *rec.Rng, tier string, stats map[string]int) {
	c.Seed = rng.U64()
	out.Begin("c18", c.params()...)
	defer out.End()
	stats["cases"]++
	stats[fmt.Sprintf("execs%d_waits%d_flows%d", len(c.Execs), len(c.Waits), len(c.Flows))]++
	stats["mode_"+c.Mode]++
	stats["sched_"+c.Sched]++
	if c.Pert > 0 {
		stats["perturbed"]++
	}
	for _, s := range append(append([]string{}, c.Execs...), c.Waits...) {
		stats["shape_"+s]++
	}
	spec, _ := json.Marshal(c)
	self, _ := os.Executable()
	cmd := exec.Command(self)
	cmd.Env = append(os.Environ(), c18env+"="+string(spec))
	var so, se bytes.Buffer
	cmd.Stdout = &so
	cmd.Stderr = &se
	done := make(chan error, 1)
	if err := cmd.Start(); err != nil {
		out.Line("harness-error start grandchild: %v", err)
		return
	}
	go func() { done <- cmd.Wait() }()
	var werr error
	timedOut := false
	select {
	case werr = <-done:
	case <-time.After(90 * time.Second):
		cmd.Process.Kill()
		<-done
		timedOut = true
	}
	var raw, procs []string
	for _, l := range strings.Split(strings.TrimRight(so.String(), "\n"), "\n") {
		if l != "" {
			raw = append(raw, l)
			if w := strings.Fields(l); len(w) == 4 && w[0] == "set" && w[1] == "proc" {
				procs = append(procs, w[2])
			}
		}
	}
	for _, l := range eng.ResolveLabels(raw, procs) {
		out.Line("%s", l)
	}
	switch {
	case timedOut:
		out.Line("obs subtimeout")
		stats["grandchild_timeout"]++
	case werr != nil:
		msg := "unknown " + strings.ReplaceAll(tail(strings.TrimSpace(se.String()), 200), "\n", " | ")
		if m := c18panicRe.FindStringSubmatch(se.String()); m != nil {
			msg = m[1]
		} else if strings.Contains(se.String(), "fatal error:") {
			i := strings.Index(se.String(), "fatal error:")
			msg = strings.SplitN(se.String()[i:], "\n", 2)[0]
		}
		class := "other"
		switch {
		case strings.Contains(msg, "close of closed channel"):
			class = "double_close"
		case strings.Contains(msg, "WaitGroup"):
			class = "waitgroup_misuse"
		}
		out.Line("obs panic %s %s", class, strings.Join(strings.Fields(msg), "_"))
		stats["grandchild_panic_"+class]++
	}
}

// ---------------------------------------------------------------------------------------------- grandchild

var c18mu sync.Mutex

func c18say(format string, a ...any) {
	c18mu.Lock()
	fmt.Fprintf(os.Stdout, format+"\n", a...)
	c18mu.Unlock()
}

// c18answer answers a task; only a task that declares the result field v (shape xor) gets a value
func c18answer(in *eng.Inst, q *eng.Req, withV map[string]bool, v int) {
	if withV[q.Node] {
		in.AnswerOK(q, map[string]int{"v": v})
		return
	}
	in.AnswerOK(q, nil)
}

func c18withV(gs ...*eng.Graph) map[string]bool {
	m := map[string]bool{}
	for _, g := range gs {
		for _, n := range g.Nodes {
			if len(n.Results) > 0 {
				m[n.ID] = true
			}
		}
	}
	return m
}

var c18flowNo = regexp.MustCompile(`\bF[0-9]+`)

// c18alone runs one process by itself (made executable) and returns its sorted canonical traces.
func c18alone(c c18case, idx int, shape string, v int) []string {
	id := fmt.Sprintf("e%d", idx)
	if idx >= len(c.Execs) {
		id = fmt.Sprintf("w%d", idx-len(c.Execs))
	}
	g := c18graph(id, shape, true)
	withV := c18withV(g)
	var in *eng.Inst
	var err error
	if shape == "wtwo" {
		// started at the referenced start event only, as the message flow does
		in, err = c18startAt(g, id+"_s")
	} else {
		in, _, err = eng.Start(g.XML(), map[string]any{"iv": 1})
	}
	if err != nil {
		return []string{"harness-error " + err.Error()}
	}
	for steps := 0; steps < 20; steps++ {
		if !in.Quiesce(4 * timeSecond) {
			break
		}
		p := in.Pending()
		if len(p) > 0 {
			c18answer(in, p[0], withV, v)
			continue
		}
		// a catch event that is listening and was not yet served: deliver its message
		delivered := false
		ls := in.Lines()
		for _, l := range ls {
			w := strings.Fields(l)
			if len(w) == 3 && w[0] == "obs" && w[1] == "listening" && !c18has(ls, "op deliver message msg_"+w[2]) {
				if shape == "catop" {
					// the message AND the operation the definition names (what the set's wake-up carries)
					op := "op_" + id
					in.DeliverEvent(event.NewMessageEvent("msg_"+w[2], &op), "message", "msg_"+w[2], 2*timeSecond)
				} else {
					in.Deliver("message", "msg_"+w[2], 2*timeSecond)
				}
				delivered = true
				break
			}
		}
		if !delivered {
			break
		}
	}
	in.Quiesce(2 * timeSecond)
	var outl []string
	for _, l := range in.Lines() {
		if strings.HasPrefix(l, "obs ") && !strings.HasPrefix(l, "obs ret") {
			t := c18flowNo.ReplaceAllString(strings.TrimPrefix(l, "obs "), "F")
			switch t {
			case "instantiation": // sent on the process's own tracer, not relayed per instance in a set
				continue
			case "cease":
				t = "cease " + id
			}
			outl = append(outl, t)
		}
	}
	sort.Strings(outl)
	return outl
}

// c18startAt: an instance of the document's process started at ONE start event (Process.StartWith)
func c18startAt(g *eng.Graph, startID string) (*eng.Inst, error) {
	defs, err := schema.Parse([]byte(g.XML()))
	if err != nil {
		return nil, err
	}
	in, err := eng.NewInst(defs, map[string]any{"iv": 1})
	if err != nil {
		return nil, err
	}
	for i := range *(*defs.Processes())[0].StartEvents() {
		se := &(*(*defs.Processes())[0].StartEvents())[i]
		if id, ok := se.Id(); ok && *id == startID {
			return in, in.Proc.StartWith(in.Ctx, se)
		}
	}
	return in, fmt.Errorf("no start event %s", startID)
}

func c18has(ls []string, s string) bool {
	for _, l := range ls {
		if l == s {
			return true
		}
	}
	return false
}

func c18sub(spec string) {
	var c c18case
	if err := json.Unmarshal([]byte(spec), &c); err != nil {
		c18say("harness-error spec %v", err)
		return
	}
	rng := rec.NewRng(c.Seed)
	v := rng.Intn(2)
	gs, flows := c.graphs()
	withV := c18withV(gs...)
	xmlText := eng.SetXML(gs, flows)
	defs, err := schema.Parse([]byte(xmlText))
	if err != nil {
		c18say("harness-error parse %v", err)
		return
	}
	// description of the PARSED definitions
	for i := range *defs.Processes() {
		p := &(*defs.Processes())[i]
		id, _ := p.Id()
		ex, ok := p.IsExecutable()
		c18say("set proc %s %d", *id, rec.B(ok && ex))
		for _, l := range eng.ProgLines(p, gs[i].CondRPN) {
			if strings.HasPrefix(l, "node ") {
				w := strings.Fields(l)
				c18say("set node %s %s %s", *id, w[1], w[2])
			}
		}
	}
	for _, col := range *defs.Collaborations() {
		for _, m := range *col.MessageFlows() {
			c18say("set flow %s %s", string(m.SourceRefField), string(m.TargetRefField))
		}
	}
	// each process by itself (before the set runs: quiescence detection is process-global)
	shapes := append(append([]string{}, c.Execs...), c.Waits...)
	for i, sh := range shapes {
		for _, l := range c18alone(c, i, sh, v) {
			c18say("alone %s %s", gs[i].ProcID, l)
		}
	}

	ctl := sched.Install()
	defer ctl.Remove()
	if c.Pert > 0 {
		ctl.Perturb(c.Seed, c.Pert)
		c18say("sched perturb %d", c.Pert)
	}
	const pSub = "processset.watcher.before_subscribe"
	const pInst = "process.startwith.before_trigger"
	held := ""
	switch c.Sched {
	case "latefast", "lateall":
		ctl.Hold(pSub)
		held = pSub
		c18say("sched hold %s %s", pSub, c.Sched)
	}
	if c.Sched == "slowstart" {
		const pAfter = "process.startwith.after_trigger"
		stop := make(chan struct{})
		var hw sync.WaitGroup
		hw.Add(1)
		go func() {
			defer hw.Done()
			for {
				a := ctl.Hold(pAfter)
				select {
				case <-a:
					time.Sleep(40 * time.Millisecond)
					ctl.Release(pAfter)
				case <-stop:
					ctl.Release(pAfter)
					return
				}
			}
		}()
		defer func() { close(stop); hw.Wait() }()
		c18say("sched slow %s 40ms", pAfter)
	}
	s, err := eng.NewSet(defs, func(l string) { c18say("%s", l) }, bpmn.WithVariables(map[string]any{"iv": 1}))
	if err != nil {
		c18say("harness-error %v", err)
		return
	}
	answer := func(q *eng.Req) {
		if withV[q.Node] {
			s.Answer(q, map[string]int{"v": v})
		} else {
			s.Answer(q, nil)
		}
	}
	release := func() {
		if held != "" {
			s.Say("op release %s", held)
			ctl.Release(held)
			held = ""
		}
	}
	nwait := 0
	wait := func(d time.Duration) {
		nwait++
		n := nwait
		if d < time.Second {
			s.Say("op wait %d short", n) // may expire although the set is complete (loaded machine): `false` proves nothing
		} else {
			s.Say("op wait %d", n)
		}
		r := s.Wait(d)
		// the set's watchers are one relay hop closer to the member processes than this recorder: let the traces
		// that caused the return arrive before the return is recorded
		s.Quiesce(2 * timeSecond)
		s.Say("obs wait %d %d", n, rec.B(r))
	}
	// concurrent waits report to the main goroutine, which records them at its next quiescent point
	type cres struct {
		i int
		r bool
	}
	concRes := make(chan cres, 16)
	recordWaits := func() {
		for {
			select {
			case x := <-concRes:
				s.Say("obs waitconc %d %d", x.i, rec.B(x.r))
			default:
				return
			}
		}
	}
	// StartAll (in a goroutine: with a repaired StartAll the held subscription point is inside StartAll itself)
	s.Say("op startall")
	started := make(chan error, 1)
	go func() { started <- s.PS.StartAll(s.Ctx) }()
	startReturned := false
	select {
	case err := <-started:
		startReturned = true
		if err != nil {
			s.Say("obs startall error")
		}
	case <-time.After(300 * time.Millisecond):
	}
	s.Quiesce(4 * timeSecond)
	if c.Sched == "latefast" {
		release()
		s.Quiesce(4 * timeSecond)
	}
	if !startReturned {
		release()
		select {
		case <-started:
			startReturned = true
		case <-time.After(3 * time.Second):
			s.Say("obs startall blocked")
		}
		s.Quiesce(4 * timeSecond)
	}
	if c.Sched == "lateinst" && startReturned {
		// from now on the only watchers that reach the point are those of instantiated processes
		ctl.Hold(pSub)
		held = pSub
		s.Say("op hold %s", pSub)
	}
	if c.Sched == "holdinst" {
		// from now on the only StartWith calls are the run loop's instantiations
		ctl.Hold(pInst)
		held = pInst
		s.Say("op hold %s", pInst)
	}
	if c.Mode == "early" {
		// a wait that expires while tasks are pending (or returns true if everything is already over)
		wait(60 * time.Millisecond)
		s.Quiesce(2 * timeSecond)
	}
	var cw sync.WaitGroup
	if c.Mode == "conc" {
		// concurrent waits issued BEFORE completion, from several goroutines
		s.Say("op waitconc %d", c.K)
		for i := 0; i < c.K; i++ {
			cw.Add(1)
			go func(i int) {
				defer cw.Done()
				concRes <- cres{i + 1, s.Wait(3 * time.Second)}
			}(i)
		}
		s.Quiesce(2 * timeSecond)
	}
	// drive: answer pending tasks one at a time at quiescence (seeded order, or first / last pending); in mode park
	// the requests of one node (or one occurrence of it) are withheld
	parked := func(q *eng.Req) bool {
		if c.Mode != "park" || c.Park == "" {
			return false
		}
		w := strings.SplitN(c.Park, ":", 2)
		if q.Node != w[0] {
			return false
		}
		return len(w) == 1 || fmt.Sprint(q.Occ) == w[1]
	}
	drive := func(withhold bool) {
		for steps := 0; steps < 60; steps++ {
			if !s.Quiesce(4 * timeSecond) {
				s.Say("obs noquiesce")
				break
			}
			recordWaits()
			var p []*eng.Req
			for _, q := range s.Pending() {
				if !(withhold && parked(q)) {
					p = append(p, q)
				}
			}
			if len(p) == 0 {
				break
			}
			switch c.Order {
			case "fwd":
				answer(p[0])
			case "rev":
				answer(p[len(p)-1])
			default:
				answer(p[rng.Intn(len(p))])
			}
		}
	}
	drive(true)
	if c.Mode == "park" {
		// one message-started process is still parked on its task: the set is not complete
		wait(1500 * time.Millisecond)
		s.Quiesce(2 * timeSecond)
		drive(false)
	}
	if c.Sched == "holdinst" {
		// the run loop is parked inside the instantiation; every process started so far has finished
		wait(2 * time.Second)
		s.Quiesce(2 * timeSecond)
	}
	release()
	s.Quiesce(4 * timeSecond)
	switch c.Mode {
	case "single", "early", "park":
		if c.Sched != "holdinst" {
			wait(2 * time.Second)
		}
	case "seq":
		for i := 0; i < c.K; i++ {
			wait(2 * time.Second)
			s.Quiesce(2 * timeSecond)
		}
	case "conc":
		cw.Wait()
	}
	s.Quiesce(3 * timeSecond)
	recordWaits()
	// a process instantiated late may have requested tasks after the wait returned
	for steps := 0; steps < 20; steps++ {
		p := s.Pending()
		if len(p) == 0 {
			break
		}
		answer(p[0])
		s.Quiesce(3 * timeSecond)
	}
	c18say("obs final hits_sub=%d hits_after_start=%d", ctl.Hits(pSub), ctl.Hits("processset.startall.after_process_start"))
}
