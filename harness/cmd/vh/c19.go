package main

// Family c19: builder output and auto layout (schema/builder.go).
//
// One `build` case = one script run on the REAL builders:
//
//	s newdb | s newpb | s act <kind> <presetId|-> | s out | s layout | s dbout
//
// followed by what the builders produced, as canonical lines (`d …`), the verdict of the XML round trip
// (`rt …`) and the engine runs (`run …`). Coordinates are printed as integers in units of 1/c19Scale
// (every configuration value of the grid is a multiple of 1/4, so nothing is rounded: the comparison with
// the Lean model is bit-exact). One `ids` case = a duplicate detector over consecutive schema.RandBytes
// calls and over the ids of many built definitions.

import (
	"context"
	"encoding/xml"
	"fmt"
	"math"
	"strings"
	"time"

	"github.com/olive-io/bpmn/schema"
	bpmn "github.com/olive-io/bpmn/v2"
	"github.com/olive-io/bpmn/v2/pkg/tracing"

	"verifharness/internal/rec"
)

func init() { families["c19"] = c19 }

const c19Scale = 8

// every type implementing schema.ActivityInterface; the first ten are the ones AddActivity stores
var c19Kinds = []string{"task", "businessRuleTask", "userTask", "callActivity", "manualTask", "sendTask",
	"scriptTask", "serviceTask", "receiveTask", "subProcess", "adHocSubProcess", "transaction", "activity"}

const c19Supported = 10

// the first nine are requested through bpmn.TaskTrace
const c19Tasks = 9

func c19NewAct(kind string) schema.ActivityInterface {
	switch kind {
	case "task":
		return &schema.Task{}
	case "businessRuleTask":
		return &schema.BusinessRuleTask{}
	case "userTask":
		return &schema.UserTask{}
	case "callActivity":
		return &schema.CallActivity{}
	case "manualTask":
		return &schema.ManualTask{}
	case "sendTask":
		return &schema.SendTask{}
	case "scriptTask":
		return &schema.ScriptTask{}
	case "serviceTask":
		return &schema.ServiceTask{}
	case "receiveTask":
		return &schema.ReceiveTask{}
	case "subProcess":
		return &schema.SubProcess{}
	case "adHocSubProcess":
		return &schema.AdHocSubProcess{}
	case "transaction":
		return &schema.Transaction{}
	default:
		return &schema.Activity{}
	}
}

func c19KindOf(e schema.FlowElementInterface) string {
	switch e.(type) {
	case *schema.StartEvent:
		return "startEvent"
	case *schema.EndEvent:
		return "endEvent"
	case *schema.Task:
		return "task"
	case *schema.BusinessRuleTask:
		return "businessRuleTask"
	case *schema.UserTask:
		return "userTask"
	case *schema.CallActivity:
		return "callActivity"
	case *schema.ManualTask:
		return "manualTask"
	case *schema.SendTask:
		return "sendTask"
	case *schema.ScriptTask:
		return "scriptTask"
	case *schema.ServiceTask:
		return "serviceTask"
	case *schema.ReceiveTask:
		return "receiveTask"
	case *schema.SubProcess:
		return "subProcess"
	case *schema.AdHocSubProcess:
		return "adHocSubProcess"
	case *schema.Transaction:
		return "transaction"
	default:
		return "other"
	}
}

type c19Act struct {
	kind   string
	preset string // "" = let the builder generate
	blank  bool   // no preset id, but the id field is SET to the empty string (the builder treats that as no id too)
}

type c19Cfg struct{ sx, sy, cg, rg, pg float64 }

type c19Script struct {
	procs  [][]c19Act
	reuse  bool // reuse one ProcessBuilder (Out resets it) instead of a fresh one per process
	layout bool
	cfg    c19Cfg
	run    string // "none" | "built" | "parsed"
	// again: after this definitions has been returned the same builder builds another one; the first is looked at again
	again bool
	// an EARLIER AutoLayout on the same builder (with this configuration), before the one with `cfg`: the diagram of the
	// result is the one of the last call
	first *c19Cfg
}

func c19Tok(s string) string {
	if s == "" {
		return "-"
	}
	s = strings.ReplaceAll(s, " ", "_")
	return s
}

func c19Ptr(p *string) string {
	if p == nil {
		return "-"
	}
	return c19Tok(*p)
}

func c19Q(p *schema.QName) string {
	if p == nil {
		return "-"
	}
	return c19Tok(string(*p))
}

func c19List(l []schema.QName) string {
	if len(l) == 0 {
		return "-"
	}
	s := make([]string, len(l))
	for i, q := range l {
		s[i] = c19Tok(string(q))
	}
	return strings.Join(s, ",")
}

// coordinate in units of 1/c19Scale; anything not finite or off the grid is printed symbolically
func c19U(v float64) string {
	if math.IsNaN(v) {
		return "nan"
	}
	if math.IsInf(v, 0) {
		return "inf"
	}
	u := v * c19Scale
	if u != math.Trunc(u) || math.Abs(u) > 1e15 {
		return fmt.Sprintf("off:%x", math.Float64bits(v))
	}
	return fmt.Sprintf("%d", int64(u))
}

// canonical description of a *schema.Definitions
func c19Describe(def *schema.Definitions) []string {
	var out []string
	out = append(out, "defs "+c19Ptr(def.IdField))
	for pi := range def.ProcessField {
		p := &def.ProcessField[pi]
		// (*Process).IsExecutable dereferences a nil field; read the field itself
		exec := "-"
		if p.IsExecutableField != nil {
			exec = fmt.Sprint(rec.B(*p.IsExecutableField))
		}
		out = append(out, fmt.Sprintf("proc %d %s %s", pi, c19Ptr(p.IdField), exec))
		for _, e := range p.FlowElements() {
			if n, ok := e.(schema.FlowNodeInterface); ok {
				id, _ := n.Id()
				out = append(out, fmt.Sprintf("node %d %s %s %s %s", pi, c19KindOf(e), c19Ptr(id),
					c19List(*n.Incomings()), c19List(*n.Outgoings())))
			}
		}
		for fi := range p.SequenceFlowField {
			f := &p.SequenceFlowField[fi]
			out = append(out, fmt.Sprintf("flow %d %s %s %s", pi, c19Ptr(f.IdField),
				c19Tok(string(f.SourceRefField)), c19Tok(string(f.TargetRefField))))
		}
	}
	for ci := range def.CollaborationField {
		c := &def.CollaborationField[ci]
		out = append(out, "collab "+c19Ptr(c.IdField))
		for i := range c.ParticipantField {
			pt := &c.ParticipantField[i]
			out = append(out, fmt.Sprintf("part %s %s", c19Ptr(pt.IdField), c19Q(pt.ProcessRefField)))
		}
	}
	if d := def.DiagramField; d != nil {
		pl := d.BPMNPlane()
		if pl == nil {
			out = append(out, fmt.Sprintf("diagram %s - -", c19Ptr(d.IdField)))
		} else {
			out = append(out, fmt.Sprintf("diagram %s %s %s", c19Ptr(d.IdField), c19Ptr(pl.IdField), c19Q(pl.BpmnElementField)))
			for i := range pl.BPMNShapeFields {
				s := &pl.BPMNShapeFields[i]
				b := s.Bounds()
				if b == nil {
					out = append(out, fmt.Sprintf("shape %s %s nobounds", c19Ptr(s.IdField), c19Q(s.BpmnElementField)))
					continue
				}
				out = append(out, fmt.Sprintf("shape %s %s %s %s %s %s", c19Ptr(s.IdField), c19Q(s.BpmnElementField),
					c19U(b.XField), c19U(b.YField), c19U(b.WidthField), c19U(b.HeightField)))
			}
			for i := range pl.BPMNEdgeFields {
				e := &pl.BPMNEdgeFields[i]
				wps := make([]string, len(e.WaypointField))
				for j, w := range e.WaypointField {
					wps[j] = c19U(w.XField) + "," + c19U(w.YField)
				}
				w := strings.Join(wps, ";")
				if w == "" {
					w = "-"
				}
				out = append(out, fmt.Sprintf("edge %s %s %s %s %s", c19Ptr(e.IdField), c19Q(e.BpmnElementField),
					c19Q(e.SourceElementField), c19Q(e.TargetElementField), w))
			}
		}
	}
	return out
}

// run one process of the definitions on the real engine, answering every task. A run that does not
// report CeaseFlowTrace within the deadline is repeated on a fresh instance (at most three attempts):
// the start/monitor race of C02 loses the cease trace once in a while and is not C19's subject; a
// process the engine cannot finish fails all three attempts.
func c19Run(out *rec.Out, def *schema.Definitions, pi int, mode string, stats map[string]int) {
	for attempt := 1; ; attempt++ {
		line, timeout := c19RunOnce(def, pi, mode)
		stats["engine_runs"]++
		if timeout {
			stats["engine_timeouts"]++
		}
		if !timeout || attempt == 3 {
			out.Line("%s attempts=%d", line, attempt)
			return
		}
	}
}

func c19RunOnce(def *schema.Definitions, pi int, mode string) (string, bool) {
	ctx, cancel := context.WithCancel(context.Background())
	defer cancel()
	var requested []string
	nerr, cease, complete, timeout, started := 0, false, false, false, ""
	func() {
		defer func() {
			if r := recover(); r != nil {
				started = "panic:" + c19Tok(fmt.Sprint(r))
			}
		}()
		var inst *bpmn.Process
		var err error
		if pi == 0 {
			inst, err = bpmn.NewEngine(bpmn.WithEngineContext(ctx)).NewProcess(def, bpmn.WithContext(ctx))
		} else {
			tracer := tracing.NewTracer(ctx)
			inst, err = bpmn.NewProcess(&def.ProcessField[pi], def, bpmn.WithContext(ctx), bpmn.WithTracer(tracer))
		}
		if err != nil {
			started = "newerr:" + c19Tok(err.Error())
			return
		}
		traces := inst.Tracer().Subscribe()
		defer inst.Tracer().Unsubscribe(traces)
		if err = inst.StartAll(ctx); err != nil {
			started = "starterr:" + c19Tok(err.Error())
			return
		}
		started = "ok"
		deadline := time.After(4 * time.Second)
	loop:
		for {
			select {
			case w, ok := <-traces:
				if !ok {
					break loop
				}
				switch tr := tracing.Unwrap(w).(type) {
				case bpmn.TaskTrace:
					id, _ := tr.GetActivity().Element().Id()
					requested = append(requested, c19Ptr(id))
					tr.Do()
				case bpmn.ErrorTrace:
					nerr++
				case bpmn.CeaseFlowTrace:
					if pe, ok := tr.Process.(*schema.Process); ok && pe.IdField != nil && def.ProcessField[pi].IdField != nil &&
						*pe.IdField == *def.ProcessField[pi].IdField {
						cease = true
						break loop
					}
				}
			case <-deadline:
				timeout = true
				break loop
			}
		}
		if cease {
			wctx, wcancel := context.WithTimeout(ctx, 2*time.Second)
			complete = inst.WaitUntilComplete(wctx)
			wcancel()
		}
	}()
	req := "-"
	if len(requested) > 0 {
		req = strings.Join(requested, ",")
	}
	return fmt.Sprintf("run %d %s %s requested=%s cease=%d complete=%d errors=%d timeout=%d", pi, mode, started, req,
		rec.B(cease), rec.B(complete), nerr, rec.B(timeout)), timeout
}

func c19Case(out *rec.Out, sc c19Script, stats map[string]int) {
	layout := 0
	if sc.layout {
		layout = 1
	}
	n := out.Begin("c19", "build", c19Scale, c19U(sc.cfg.sx), c19U(sc.cfg.sy), c19U(sc.cfg.cg), c19U(sc.cfg.rg),
		c19U(sc.cfg.pg), layout)
	_ = n
	var def *schema.Definitions
	var db *schema.DefinitionBuilder
	panicked := ""
	func() {
		defer func() {
			if r := recover(); r != nil {
				panicked = c19Tok(fmt.Sprint(r))
			}
		}()
		out.Line("s newdb")
		db = schema.NewDefinitionsBuilder()
		var pb *schema.ProcessBuilder
		for i, acts := range sc.procs {
			if i == 0 || !sc.reuse {
				out.Line("s newpb")
				pb = schema.NewProcessBuilder()
			}
			for _, a := range acts {
				act := c19NewAct(a.kind)
				if a.preset != "" {
					id := a.preset
					act.SetId(&id)
				} else if a.blank {
					id := ""
					act.SetId(&id)
					stats["blank_ids"]++
				}
				out.Line("s act %s %s", a.kind, c19Tok(a.preset))
				pb.AddActivity(act)
				stats["kind_"+a.kind]++
				if a.preset != "" {
					stats["preset_ids"]++
				} else {
					stats["generated_ids"]++
				}
			}
			out.Line("s out")
			db.AddProcess(*pb.Out())
			stats[fmt.Sprintf("activities_%02d", len(acts))]++
		}
		if sc.layout && sc.first != nil {
			f := *sc.first
			out.Line("s layoutwith %s %s %s %s %s", c19U(f.sx), c19U(f.sy), c19U(f.cg), c19U(f.rg), c19U(f.pg))
			db.AutoLayout(&schema.AutoLayoutConfig{StartX: f.sx, StartY: f.sy, ColumnGap: f.cg, RowGap: f.rg, ProcessGap: f.pg})
			stats["layout_twice"]++
		}
		if sc.layout {
			out.Line("s layout")
			db.AutoLayout(&schema.AutoLayoutConfig{StartX: sc.cfg.sx, StartY: sc.cfg.sy, ColumnGap: sc.cfg.cg,
				RowGap: sc.cfg.rg, ProcessGap: sc.cfg.pg})
		}
		out.Line("s dbout")
		def = db.Out()
	}()
	stats["cases"]++
	stats[fmt.Sprintf("processes_%d", len(sc.procs))]++
	if panicked != "" || def == nil {
		out.Line("panic build %s", panicked)
		out.End()
		return
	}
	desc := c19Describe(def)
	for _, l := range desc {
		out.Line("d %s", l)
	}
	if sc.again {
		// the SAME builder goes on to build another definitions (two processes of three tasks each, laid out): what it
		// returned before is a finished document and stays what it was
		func() {
			defer func() {
				if r := recover(); r != nil {
					out.Line("again panic %s", c19Tok(fmt.Sprint(r)))
				}
			}()
			for k := 0; k < 2; k++ {
				pb2 := schema.NewProcessBuilder()
				for a := 0; a < 3; a++ {
					pb2.AddActivity(c19NewAct("task"))
				}
				db.AddProcess(*pb2.Out())
			}
			db.AutoLayout(schema.DefaultAutoLayoutConfig())
			_ = db.Out()
		}()
		after := c19Describe(def)
		changed := len(after) != len(desc)
		if !changed {
			for i := range after {
				if after[i] != desc[i] {
					changed = true
				}
			}
		}
		out.Line("again changed %d", rec.B(changed))
		stats["builders_used_for_a_second_definitions"]++
	}
	// XML round trip, as the tests do: xml.Marshal then schema.Parse
	var parsed *schema.Definitions
	func() {
		defer func() {
			if r := recover(); r != nil {
				out.Line("rt panic %s", c19Tok(fmt.Sprint(r)))
				parsed = nil
			}
		}()
		data, err := xml.Marshal(def)
		if err != nil {
			out.Line("rt marshalerr %s", c19Tok(err.Error()))
			return
		}
		p, err := schema.Parse(data)
		if err != nil {
			out.Line("rt parseerr %s", c19Tok(err.Error()))
			return
		}
		parsed = p
		back := c19Describe(p)
		same := len(back) == len(desc)
		if same {
			for i := range back {
				if back[i] != desc[i] {
					same = false
				}
			}
		}
		if same {
			out.Line("rt same %d", len(back))
		} else {
			out.Line("rt differ %d %d", len(desc), len(back))
			for _, l := range back {
				out.Line("r %s", l)
			}
		}
	}()
	if sc.run != "none" {
		target := def
		if sc.run == "parsed" {
			target = parsed
		}
		if target != nil {
			for pi := range target.ProcessField {
				c19Run(out, target, pi, sc.run, stats)
			}
		}
	}
	out.End()
}

// ---- id stress: consecutive RandBytes calls, and ids inside many built definitions

func c19IdsCase(out *rec.Out, calls, builds int, stats map[string]int) {
	out.Begin("c19", "ids", calls, builds)
	seen := make(map[string]int, calls)
	dups, first := 0, ""
	for i := 0; i < calls; i++ {
		s := string(schema.RandBytes(7))
		if j, ok := seen[s]; ok {
			dups++
			if first == "" {
				first = fmt.Sprintf("%s@%d,%d", s, j, i)
			}
		} else {
			seen[s] = i
		}
	}
	if first == "" {
		first = "-"
	}
	out.Line("randbytes calls=%d dups=%d first=%s", calls, dups, first)
	stats["randbytes_calls"] += calls
	stats["randbytes_dups"] += dups
	// many builds: every id of every built definitions (with layout) must be unique inside it
	bad, total, firstB := 0, 0, "-"
	for b := 0; b < builds; b++ {
		db := schema.NewDefinitionsBuilder()
		for p := 0; p < 3; p++ {
			pb := schema.NewProcessBuilder()
			for a := 0; a < 12; a++ {
				pb.AddActivity(c19NewAct(c19Kinds[(a+b)%c19Supported]))
			}
			db.AddProcess(*pb.Out())
		}
		db.AutoLayout(schema.DefaultAutoLayoutConfig())
		def := db.Out()
		ids := map[string]int{}
		for _, l := range c19Describe(def) {
			w := strings.Split(l, " ")
			idx := 1
			if w[0] == "proc" || w[0] == "flow" {
				idx = 2
			} else if w[0] == "node" {
				idx = 3
			}
			ids[w[idx]]++
			total++
			if w[0] == "diagram" {
				ids[w[2]]++
				total++
			}
		}
		for id, c := range ids {
			if c > 1 {
				bad++
				if firstB == "-" {
					firstB = fmt.Sprintf("%s@build%d", id, b)
				}
			}
		}
	}
	out.Line("builds n=%d ids=%d dupids=%d first=%s", builds, total, bad, firstB)
	stats["stress_builds"] += builds
	stats["stress_build_dupids"] += bad
	out.End()
}

// ---- generation

var c19Grid = struct{ sx, sy, cg, rg, pg []float64 }{
	sx: []float64{96, 0, 40, 12.5, -20},
	sy: []float64{96, 0, 50, 7.25, -64},
	cg: []float64{180, 120, 240, 150.25, 100, 36},
	rg: []float64{120, 100, 140, 80.5, 30},
	pg: []float64{180, 0, 200, 100.75, 50, -80},
}

var c19Default = c19Cfg{96, 96, 180, 120, 180}

func c19RandCfg(rng *rec.Rng) c19Cfg {
	if rng.Intn(4) == 0 {
		return c19Default
	}
	g := c19Grid
	return c19Cfg{g.sx[rng.Intn(len(g.sx))], g.sy[rng.Intn(len(g.sy))], g.cg[rng.Intn(len(g.cg))],
		g.rg[rng.Intn(len(g.rg))], g.pg[rng.Intn(len(g.pg))]}
}

func c19(out *rec.Out, rng *rec.Rng, tier string, stats map[string]int) {
	presetN := 0
	// preset ids are the caller's: every second one is the one before it with a suffix a modeler (or a builder) would
	// derive for something else — `X_di` (the bpmn.io name of X's shape), `X_1` — they are still different ids
	preset := func() string {
		presetN++
		switch {
		case presetN%4 == 2:
			return fmt.Sprintf("P%d_di", presetN-1)
		case presetN%8 == 0:
			return fmt.Sprintf("P%d:c", presetN-1) // … or a colon, as in a qualified name: an id is an id
		case presetN%4 == 0:
			return fmt.Sprintf("P%d_1", presetN-1)
		}
		return fmt.Sprintf("P%d", presetN)
	}
	runMode := func(i int) string {
		if i%2 == 0 {
			return "built"
		}
		return "parsed"
	}
	// the engine is only asked to run definitions made of the nine task kinds: an activity kind that
	// AddActivity drops leaves a dangling flow (the definitions are already ill-formed), and a SubProcess
	// added through the builder has no content (the engine answers "subProcess … no start event or throw
	// event" with an ErrorTrace; what a sub-process does with its content is C12's subject)
	cnt := 0
	emit := func(sc c19Script) {
		presetN = 0
		cnt++
		c19Case(out, sc, stats)
	}
	// (1) systematic: every length 0..12, every kind (homogeneous chains), preset and generated ids,
	//     documented default configuration
	for L := 0; L <= 12; L++ {
		for ki, k := range c19Kinds {
			if L == 0 && ki > 0 {
				continue
			}
			for _, pre := range []bool{false, true} {
				if L == 0 && pre {
					continue
				}
				presetN = 0
				acts := make([]c19Act, L)
				for i := range acts {
					acts[i].kind = k
					if pre {
						acts[i].preset = preset()
					} else {
						acts[i].blank = (i+L+ki)%3 == 0
					}
				}
				run := "none"
				if ki < c19Tasks && (L <= 3 || L == 12 || tier == "thorough") {
					run = runMode(cnt)
				}
				emit(c19Script{procs: [][]c19Act{acts}, layout: true, cfg: c19Default, run: run})
			}
		}
	}
	// (2) exhaustive: every sequence of length ≤ 2 over every kind × preset/generated
	for L := 1; L <= 2; L++ {
		alpha := len(c19Kinds) * 2
		total := 1
		for i := 0; i < L; i++ {
			total *= alpha
		}
		for code := 0; code < total; code++ {
			presetN = 0
			acts := make([]c19Act, L)
			x := code
			eng := true
			for i := range acts {
				d := x % alpha
				x /= alpha
				acts[i].kind = c19Kinds[d/2]
				if d%2 == 1 {
					acts[i].preset = preset()
				} else {
					acts[i].blank = (code+i)%2 == 0
				}
				if d/2 >= c19Tasks {
					eng = false
				}
			}
			run := "none"
			if eng && (tier == "thorough" || code%7 == 0) {
				run = runMode(code)
			}
			emit(c19Script{procs: [][]c19Act{acts}, layout: code%3 != 2, cfg: c19RandCfg(rng), run: run})
		}
	}
	stats["exhaustive_cases"] = stats["cases"]
	// (3) the whole configuration grid on a fixed two-process script
	g := c19Grid
	for _, sx := range g.sx {
		for _, sy := range g.sy {
			for _, cg := range g.cg {
				for _, rg := range g.rg {
					for _, pg := range g.pg {
						if tier != "thorough" && rng.Intn(6) != 0 {
							continue
						}
						presetN = 0
						emit(c19Script{procs: [][]c19Act{
							{{kind: "task"}, {kind: "subProcess", preset: preset()}, {kind: "userTask", blank: true}},
							{{kind: "serviceTask"}},
						}, layout: true, cfg: c19Cfg{sx, sy, cg, rg, pg}, run: "none"})
					}
				}
			}
		}
	}
	stats["grid_cases"] = stats["cases"] - stats["exhaustive_cases"]
	// (4) random scripts: 1..3 processes, 0..12 activities each, any kind
	N := 700
	if tier == "thorough" {
		N = 12000
	}
	for c := 0; c < N; c++ {
		presetN = 0
		np := 1 + rng.Intn(3)
		procs := make([][]c19Act, np)
		eng := true
		unsupported := rng.Intn(10) == 0 // most scripts stay inside the ten kinds AddActivity stores
		for p := range procs {
			L := rng.Intn(13)
			procs[p] = make([]c19Act, L)
			for i := range procs[p] {
				nk := c19Supported
				if unsupported {
					nk = len(c19Kinds)
				}
				k := rng.Intn(nk)
				procs[p][i].kind = c19Kinds[k]
				if k >= c19Tasks {
					eng = false
				}
				if rng.Intn(3) == 0 {
					procs[p][i].preset = preset()
				}
			}
		}
		run := "none"
		if eng && (tier == "thorough" || c%3 == 0) {
			run = runMode(c)
		}
		sc := c19Script{procs: procs, reuse: rng.Bool(), layout: rng.Intn(8) != 0, cfg: c19RandCfg(rng), run: run}
		sc.again = c%4 == 2
		if c%3 == 1 {
			// the builder is laid out twice (README: lay out, look, change the spacing, lay out again)
			f := c19RandCfg(rng)
			sc.first = &f
		}
		emit(sc)
	}
	// (5) id stress
	calls, builds := 300000, 300
	if tier == "thorough" {
		calls, builds = 2000000, 3000
	}
	c19IdsCase(out, calls, builds, stats)
}
