package main

// Family c06loop — an event-based gateway RE-ENTERED through a loop: every activation must have exactly one winner.
//
//	start → M (exclusive merge) → G → C0 → T0 → back to M
//	                                  G → C1 → T1 → end          (k = 3: also G → C2 → T2 → back to M)
//
// Script: `rounds` times a looping alternative's event is delivered at quiescence and its task answered (the token
// returns to the gateway), then the leaving alternative's event is delivered, T1 answered, completion awaited. With
// `noise`, the events of the other alternatives are delivered (and must be inert) while nothing listens for them
// (between the answer and … never: they are delivered while the token is at the task).
//
// Lines: alt <j> C<j> T<j> <kind> <name> loop=<0|1>, op/obs lines of the instance, obs final complete=<0|1>.

import (
	"fmt"

	"github.com/olive-io/bpmn/v2/pkg/event"

	"verifharness/internal/eng"
	"verifharness/internal/rec"
)

type c06loopCase struct {
	k      int
	script []int // alternatives whose event is delivered, in order; the last one is alternative 1 (leaves the loop)
	noise  bool
}

func c06loopCases(tier string) []c06loopCase {
	var cs []c06loopCase
	for _, k := range []int{2, 3} {
		loops := []int{0}
		if k == 3 {
			loops = []int{0, 2}
		}
		maxR := 3
		if tier == "thorough" {
			maxR = 5
		}
		var rec func(cur []int, n int)
		rec = func(cur []int, n int) {
			if n == 0 {
				for _, noise := range []bool{false, true} {
					cs = append(cs, c06loopCase{k: k, script: append(append([]int(nil), cur...), 1), noise: noise})
				}
				return
			}
			for _, l := range loops {
				rec(append(cur, l), n-1)
			}
		}
		for r := 0; r <= maxR; r++ {
			rec(nil, r)
		}
	}
	return cs
}

func init() {
	caseFamilies["c06loop"] = &caseFamily{
		Shard: 1, Par: 12,
		Count: func(tier string) int { return len(c06loopCases(tier)) },
		Run: func(out *rec.Out, idx int, rng *rec.Rng, tier string, stats map[string]int) {
			c06loopRun(out, c06loopCases(tier)[idx], stats)
		},
	}
}

func c06loopRun(out *rec.Out, c c06loopCase, stats map[string]int) {
	g := eng.NewGraph()
	st := g.Add("startEvent", "start", "")
	m := g.Add("exclusiveGateway", "M", "")
	gw := g.Add("eventBasedGateway", "G", "")
	en := g.Add("endEvent", "end", "")
	g.Connect(st, m, nil)
	g.Connect(m, gw, nil)
	for j := 0; j < c.k; j++ {
		ce := g.Add("intermediateCatchEvent", fmt.Sprintf("C%d", j), "")
		ce.Defs = []eng.EventDef{{Kind: c06kinds[j], Name: c06names[j]}}
		t := g.Add("task", fmt.Sprintf("T%d", j), "")
		g.Connect(gw, ce, nil)
		g.Connect(ce, t, nil)
		if j == 1 {
			g.Connect(t, en, nil)
		} else {
			g.Connect(t, m, nil)
		}
	}
	out.Begin("c06loop", c.k, c06seqString(c.script), rec.B(c.noise))
	defer out.End()
	in, defs, err := eng.Start(g.XML(), nil)
	if err != nil {
		out.Line("harness-error %v", err)
		return
	}
	for _, l := range eng.ProgLines(&(*defs.Processes())[0], g.CondRPN) {
		out.Line("prog %s", l)
	}
	for j := 0; j < c.k; j++ {
		out.Line("alt %d C%d T%d %s %s loop=%d", j, j, j, c06kinds[j], c06names[j], rec.B(j != 1))
	}
	stats["cases"]++
	stats[fmt.Sprintf("k%d_rounds%d_noise%d", c.k, len(c.script)-1, rec.B(c.noise))]++
	mk := func(e int) event.IEvent {
		if c06kinds[e] == "message" {
			return event.NewMessageEvent(c06names[e], nil)
		}
		return event.NewSignalEvent(c06names[e])
	}
	_ = mk
	quiesce := func() bool {
		if !in.Quiesce(4 * timeSecond) {
			in.Note("obs noquiesce")
			return false
		}
		return true
	}
	for r, e := range c.script {
		if !quiesce() {
			break
		}
		in.Note("round %d %d", r, e)
		if !in.Deliver(c06kinds[e], c06names[e], 700*timeMillisecond) {
			break
		}
		if !quiesce() {
			break
		}
		p := in.Pending()
		if c.noise && len(p) > 0 {
			// the token is at a task: nobody listens; the other alternatives' events must change nothing
			for j := 0; j < c.k; j++ {
				if j != e {
					in.Deliver(c06kinds[j], c06names[j], 700*timeMillisecond)
					quiesce()
				}
			}
			p = in.Pending()
		}
		for _, q := range p {
			in.AnswerOK(q, nil)
			quiesce()
		}
	}
	quiesce()
	complete := in.WaitComplete(500 * timeMillisecond)
	quiesce()
	for _, l := range in.Lines() {
		out.Line("%s", l)
	}
	for _, p := range in.Panics {
		out.Line("obs panic %s", p)
	}
	out.Line("obs final complete=%d", rec.B(complete))
	in.Stop(1 * timeSecond)
}
