package main

// c13e2: SEVERAL instances of the same timer-bearing process (start → timer intermediate catch
// event → end), created from the same parsed definitions through ONE engine, ONE event fan-out and
// ONE timer definition-instance builder (the way /repo/model uses them), at different readings of
// the mock clock. Every instance has its own tracer. After every operation (create+start an
// instance, set the clock) the harness waits until no goroutine can run and records, per instance,
// what its catch event did. Each instance has its own timer: due = ITS arming time + duration.
// All due times are strictly ahead of the clock when the instance is created.

import (
	"context"
	"encoding/xml"
	"fmt"
	"runtime"
	"sort"
	"strings"
	"time"

	"github.com/olive-io/bpmn/schema"
	"github.com/olive-io/bpmn/v2"
	"github.com/olive-io/bpmn/v2/pkg/clock"
	"github.com/olive-io/bpmn/v2/pkg/event"
	"github.com/olive-io/bpmn/v2/pkg/timer"
	"github.com/olive-io/bpmn/v2/pkg/tracing"

	"verifharness/internal/rec"
)

func init() {
	caseFamilies["c13e2"] = &caseFamily{
		Count: func(tier string) int { return len(c13e2jobs(tier)) },
		Run: func(out *rec.Out, idx int, rng *rec.Rng, tier string, stats map[string]int) {
			runtime.GOMAXPROCS(2)
			j := c13e2jobs(tier)[idx]
			c13e2case(out, j.d, j.ops, stats)
		},
		Shard: 1,
		Par:   12,
	}
}

// ops: kind "inst" (create and start one more instance) | "set"
func c13e2jobs(tier string) []c13ejob {
	N := c13NoTime
	defs := []c13def{
		{via: "new", kind: "duration", interval: 10, start: N, end: N},
		{via: "new", kind: "cycle", reps: 2, start: N, interval: 10, end: N},
		{via: "new", kind: "date", start: 50, end: N},
	}
	maxLen := 2
	if tier == "thorough" {
		maxLen = 3
	}
	var jobs []c13ejob
	for _, d := range defs {
		// second instance created at clock reading a (before / just before / after the first
		// instance's due time), optionally a third one 4 s later
		for _, a := range []int64{3, 9, 15} {
			for _, third := range []bool{false, true} {
				prefix := []c13op{{"inst", 0}, {"set", a}, {"inst", 0}}
				arm := []int64{0, a}
				cur := a
				if third {
					prefix = append(prefix, c13op{"set", a + 4}, c13op{"inst", 0})
					arm = append(arm, a+4)
					cur = a + 4
				}
				// grid: just before / at every instance's own due time, and far beyond
				set := map[int64]bool{}
				for _, t := range arm {
					due := t + 10
					if d.kind == "date" {
						due = d.start
					}
					for _, x := range []int64{due - 1, due, due + 10} {
						if x > cur {
							set[x] = true
						}
					}
				}
				set[cur+500] = true
				grid := make([]int64, 0, len(set))
				for x := range set {
					grid = append(grid, x)
				}
				sort.Slice(grid, func(i, j int) bool { return grid[i] < grid[j] })
				var seq []int64
				var recur func(from int)
				recur = func(from int) {
					ops := append([]c13op{}, prefix...)
					for _, x := range seq {
						ops = append(ops, c13op{"set", x})
					}
					jobs = append(jobs, c13ejob{d: d, ops: ops})
					if len(seq) == maxLen {
						return
					}
					for i := from; i < len(grid); i++ {
						seq = append(seq, grid[i])
						recur(i + 1)
						seq = seq[:len(seq)-1]
					}
				}
				recur(0)
			}
		}
	}
	if tier != "thorough" {
		var thin []c13ejob
		for i, j := range jobs {
			if i%3 == 0 {
				thin = append(thin, j)
			}
		}
		jobs = thin
	}
	return jobs
}

func c13e2case(out *rec.Out, d c13def, ops []c13op, stats map[string]int) {
	out.Begin("c13e2", "sync", "engine", d.kind, d.reps, c13opt(d.start), d.interval, c13opt(d.end), 0)
	defer out.End()
	tag := map[string]string{"date": "timeDate", "duration": "timeDuration", "cycle": "timeCycle"}[d.kind]
	var defs schema.Definitions
	if err := xml.Unmarshal([]byte(fmt.Sprintf(c13procXML, tag, d.iso(), tag)), &defs); err != nil {
		out.Line("error parse %s", strings.ReplaceAll(err.Error(), " ", "_"))
		return
	}
	clk := clock.NewMockAt(c13T0)
	ctx, cancel := context.WithCancel(clock.ToContext(context.Background(), clk))
	defer cancel()
	engine := bpmn.NewEngine()
	fanOut := event.NewFanOut()
	builder := event.DefinitionInstanceBuildingChain(
		timer.EventDefinitionInstanceBuilder(ctx, fanOut, tracing.NewTracer(ctx)))
	var traces []chan tracing.ITrace
	conts := 0
	emit := func(name string, arg int64) {
		type cnt struct{ listen, observed, cont, done, errs int }
		cs := make([]cnt, len(traces))
		deadline := time.Now().Add(5 * time.Second)
		for i := 0; ; i++ {
			parked := c13allParked()
			got := false
			for k, ch := range traces {
			drain:
				for {
					select {
					case tr := <-ch:
						got = true
						switch t := tracing.Unwrap(tr).(type) {
						case bpmn.ActiveListeningTrace:
							cs[k].listen++
						case bpmn.EventObservedTrace:
							cs[k].observed++
						case bpmn.FlowTrace:
							if c13nodeID(t.Source) == "ev" {
								cs[k].cont++
							}
						case bpmn.CompletionTrace:
							if c13nodeID(t.Node) == "end" {
								cs[k].done++
							}
						case bpmn.ErrorTrace:
							cs[k].errs++
						}
					default:
						break drain
					}
				}
			}
			if parked && !got {
				break
			}
			if i > 100 && time.Now().After(deadline) {
				out.Line("stuck not-quiescent")
				break
			}
			runtime.Gosched()
		}
		ts := clk.VerifArmed()
		xs := make([]int64, len(ts))
		for i, t := range ts {
			xs[i] = c13sec(t)
		}
		sort.Slice(xs, func(i, j int) bool { return xs[i] < xs[j] })
		out.Line("n %s %d %s", name, arg, c13list(xs))
		for k, c := range cs {
			out.Line("i %d %d %d %d %d %d", k, c.listen, c.observed, c.cont, c.done, c.errs)
			conts += c.cont
		}
	}
	for _, o := range ops {
		switch o.kind {
		case "inst":
			tracer := tracing.NewTracer(ctx)
			ch := tracer.SubscribeChannel(make(chan tracing.ITrace, 4096))
			proc, err := engine.NewProcess(&defs, bpmn.WithTracer(tracer),
				bpmn.WithProcessEventDefinitionInstanceBuilder(builder),
				bpmn.WithEventEgress(fanOut), bpmn.WithEventIngress(fanOut))
			if err != nil {
				out.Line("error newprocess %s", strings.ReplaceAll(err.Error(), " ", "_"))
				return
			}
			if err = proc.StartAll(ctx); err != nil {
				out.Line("error start %s", strings.ReplaceAll(err.Error(), " ", "_"))
				return
			}
			traces = append(traces, ch)
		case "set":
			clk.Set(c13tm(o.arg))
		}
		emit(o.kind, o.arg)
	}
	stats["cases"]++
	stats["kind_"+d.kind]++
	stats[fmt.Sprintf("instances_%d", len(traces))]++
	stats[fmt.Sprintf("continued_%d", conts)]++
}
