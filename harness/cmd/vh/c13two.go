package main

import (
	"context"
	"encoding/xml"
	"fmt"
	"time"

	"github.com/olive-io/bpmn/schema"
	"github.com/olive-io/bpmn/v2"
	"github.com/olive-io/bpmn/v2/pkg/clock"
	"github.com/olive-io/bpmn/v2/pkg/event"
	"github.com/olive-io/bpmn/v2/pkg/timer"
	"github.com/olive-io/bpmn/v2/pkg/tracing"

	"verifharness/internal/rec"
)

// Family c13two: k TOKENS WAIT AT ONE TIMER CATCH EVENT (a parallel fork straight into it) when its timer fires, once, at
// its due time. Every one of them was listening for that firing: every one continues, exactly once.
//
//	start -> F(par) =k=> ev(timer PT10S / date) -> end
func init() {
	caseFamilies["c13two"] = &caseFamily{
		Shard: 1, Par: 4,
		Count: func(tier string) int { return 4 },
		Run: func(out *rec.Out, idx int, rng *rec.Rng, tier string, stats map[string]int) {
			c13twoRun(out, 2+idx%2, idx >= 2, stats)
		},
	}
}

func c13twoRun(out *rec.Out, k int, date bool, stats map[string]int) {
	out.Begin("c13two", k, rec.B(date))
	defer out.End()
	stats["cases"]++
	tag, iso := "timeDuration", "PT10S"
	if date {
		tag, iso = "timeDate", c13T0.Add(10*time.Second).Format(time.RFC3339)
	}
	flows, outs, ins := "", "", ""
	for i := 0; i < k; i++ {
		flows += fmt.Sprintf(`<bpmn:sequenceFlow id="g%d" sourceRef="F" targetRef="ev"/>`, i)
		outs += fmt.Sprintf(`<bpmn:outgoing>g%d</bpmn:outgoing>`, i)
		ins += fmt.Sprintf(`<bpmn:incoming>g%d</bpmn:incoming>`, i)
	}
	doc := `<?xml version="1.0" encoding="UTF-8"?>
<bpmn:definitions xmlns:bpmn="http://www.omg.org/spec/BPMN/20100524/MODEL" xmlns:xsi="http://www.w3.org/2001/XMLSchema-instance" id="defs" targetNamespace="http://bpmn.io/schema/bpmn">
<bpmn:process id="proc" isExecutable="true">
<bpmn:startEvent id="start"><bpmn:outgoing>f1</bpmn:outgoing></bpmn:startEvent>
<bpmn:parallelGateway id="F"><bpmn:incoming>f1</bpmn:incoming>` + outs + `</bpmn:parallelGateway>
<bpmn:intermediateCatchEvent id="ev">` + ins + `<bpmn:outgoing>f2</bpmn:outgoing>
<bpmn:timerEventDefinition id="td"><bpmn:` + tag + ` xsi:type="bpmn:tFormalExpression">` + iso + `</bpmn:` + tag + `></bpmn:timerEventDefinition></bpmn:intermediateCatchEvent>
<bpmn:endEvent id="end"><bpmn:incoming>f2</bpmn:incoming></bpmn:endEvent>
<bpmn:sequenceFlow id="f1" sourceRef="start" targetRef="F"/>` + flows + `
<bpmn:sequenceFlow id="f2" sourceRef="ev" targetRef="end"/>
</bpmn:process></bpmn:definitions>`
	var defs schema.Definitions
	if err := xml.Unmarshal([]byte(doc), &defs); err != nil {
		out.Line("harness-error %v", err)
		return
	}
	clk := clock.NewMockAt(c13T0)
	ctx, cancel := context.WithCancel(clock.ToContext(context.Background(), clk))
	defer cancel()
	tracer := tracing.NewTracer(ctx)
	fanOut := event.NewFanOut()
	builder := event.DefinitionInstanceBuildingChain(timer.EventDefinitionInstanceBuilder(ctx, fanOut, tracer))
	ch := tracer.SubscribeChannel(make(chan tracing.ITrace, 4096))
	proc, err := bpmn.NewEngine().NewProcess(&defs, bpmn.WithContext(ctx), bpmn.WithTracer(tracer),
		bpmn.WithProcessEventDefinitionInstanceBuilder(builder), bpmn.WithEventEgress(fanOut), bpmn.WithEventIngress(fanOut))
	if err != nil {
		out.Line("harness-error %v", err)
		return
	}
	if err := proc.StartAll(ctx); err != nil {
		out.Line("harness-error %v", err)
		return
	}
	listening, cont, done := 0, 0, 0
	drain := func(until func() bool, d time.Duration) {
		deadline := time.After(d)
		for !until() {
			select {
			case tr := <-ch:
				switch t := tracing.Unwrap(tr).(type) {
				case bpmn.ActiveListeningTrace:
					listening++
				case bpmn.FlowTrace:
					if c13nodeID(t.Source) == "ev" {
						cont++
					}
				case bpmn.CompletionTrace:
					if c13nodeID(t.Node) == "end" {
						done++
					}
				}
			case <-deadline:
				return
			}
		}
	}
	// all k tokens are at the catch event (k visits) and it listens
	visits := 0
	deadline := time.After(5 * time.Second)
wait:
	for visits < k || listening == 0 {
		select {
		case tr := <-ch:
			switch t := tracing.Unwrap(tr).(type) {
			case bpmn.VisitTrace:
				if c13nodeID(t.Node) == "ev" {
					visits++
				}
			case bpmn.ActiveListeningTrace:
				listening++
			}
		case <-deadline:
			break wait
		}
	}
	time.Sleep(100 * time.Millisecond)
	clk.Set(c13T0.Add(10 * time.Second))
	drain(func() bool { return done >= k }, 4*time.Second)
	drain(func() bool { return false }, 300*time.Millisecond) // … and nothing more
	out.Line("obs two tokens=%d visits=%d continued=%d ended=%d", k, visits, cont, done)
}
