package main

import (
	"fmt"

	"verifharness/internal/eng"
	"verifharness/internal/rec"
)

// Family c04again: ONE token passes ONE exclusive gateway again and again (a loop), and the data the conditions read change
// between the visits: every visit is decided on the values of that visit — a decision of an earlier visit must not be used
// again. Two shapes, in both expression languages:
//
//	count: start -> W -> X ; X -[n == K]-> D -> end ; X -default-> W         (W writes n = 1, 2, …, K: K visits)
//	three: start -> W -> X ; X -[n == 1]-> P -> W ; X -[n == 2]-> Q -> W ; X -default-> end
//	       (W writes a script of values: each visit takes the branch of ITS value; 0 leaves)
//
// Recorded like a C04 / C01 case and replayed through the engine model.
func init() {
	caseFamilies["c04again"] = &caseFamily{
		Shard: 1, Par: 8,
		Count: func(tier string) int { return len(c04againCases(tier)) },
		Run: func(out *rec.Out, idx int, rng *rec.Rng, tier string, stats map[string]int) {
			c04againRun(out, c04againCases(tier)[idx], stats)
		},
	}
}

type c04againCase struct {
	shape  string
	xpath  bool
	script []int // the values W writes, visit after visit
}

func c04againCases(tier string) []c04againCase {
	var cs []c04againCase
	for _, xp := range []bool{false, true} {
		for k := 1; k <= 4; k++ {
			s := make([]int, k)
			for i := range s {
				s[i] = i + 1
			}
			cs = append(cs, c04againCase{fmt.Sprintf("count%d", k), xp, s})
		}
		for _, s := range [][]int{{0}, {1, 0}, {2, 0}, {1, 2, 0}, {2, 1, 0}, {1, 1, 2, 0}, {2, 2, 1, 1, 0}, {1, 2, 1, 2, 0}} {
			cs = append(cs, c04againCase{"three", xp, s})
		}
	}
	return cs
}

func c04againRun(out *rec.Out, c c04againCase, stats map[string]int) {
	g := eng.NewGraph()
	g.XPath = c.xpath
	st := g.Add("startEvent", "start", "")
	w := g.Add("task", "W", "")
	w.Results = []string{"n"}
	x := g.Add("exclusiveGateway", "X", "")
	en := g.Add("endEvent", "end", "")
	g.Connect(st, w, nil)
	g.Connect(w, x, nil)
	if c.shape == "three" {
		p, q := g.Add("task", "P", ""), g.Add("task", "Q", "")
		g.Connect(x, p, &eng.Cond{Op: "eq", Var: "n", K: 1})
		g.Connect(x, q, &eng.Cond{Op: "eq", Var: "n", K: 2})
		x.Default = g.Connect(x, en, nil).ID
		g.Connect(p, w, nil)
		g.Connect(q, w, nil)
	} else {
		d := g.Add("task", "D", "")
		g.Connect(x, d, &eng.Cond{Op: "eq", Var: "n", K: len(c.script)})
		x.Default = g.Connect(x, w, nil).ID
		g.Connect(d, en, nil)
	}
	args := []any{c.shape, rec.B(c.xpath)}
	for _, v := range c.script {
		args = append(args, v)
	}
	out.Begin("c04again", args...)
	defer out.End()
	vars := map[string]int{"n": 0}
	in, defs, err := eng.Start(g.XML(), map[string]any{"n": 0})
	if err != nil {
		out.Line("harness-error %v", err)
		return
	}
	for _, l := range eng.ProgLines(&(*defs.Processes())[0], g.CondRPN) {
		out.Line("prog %s", l)
	}
	out.Line("prog vars %s", fmtVars(vars))
	stats["cases"]++
	stats["shape_"+c.shape]++
	stats[fmt.Sprintf("visits_%d", len(c.script))]++
	next := 0
	for steps := 0; steps < 30; steps++ {
		if !in.Quiesce(4 * timeSecond) {
			in.Note("obs noquiesce")
			break
		}
		p := in.Pending()
		if len(p) == 0 {
			break
		}
		q := p[0]
		if q.Node == "W" {
			v := 0
			if next < len(c.script) {
				v = c.script[next]
			}
			next++
			in.AnswerOK(q, map[string]int{"n": v})
			continue
		}
		in.AnswerOK(q, nil)
	}
	complete := in.WaitComplete(300 * timeMillisecond)
	in.Quiesce(2 * timeSecond)
	for _, l := range in.Lines() {
		out.Line("%s", l)
	}
	out.Line("obs final complete=%d vars=%s", rec.B(complete), in.Vars())
	in.Stop(2 * timeSecond)
}
