package main

import (
	"fmt"

	"verifharness/internal/eng"
	"verifharness/internal/rec"
)

// Family c01twins: SEVERAL TOKENS AT ONE NODE AT THE SAME TIME, for every node kind that keeps something per node (D43 was
// the sub-process; this is the same question asked of the others). A parallel fork sends k tokens straight into node X:
//
//	task    s -> F =k=> T -> C -> e
//	xor     s -> F =k=> X ; X -[c < 1]-> A -> e ; X -default-> B -> e
//	merge   s -> F =k=> M(xor, one outgoing) -> P(parallel, one incoming, two outgoing) -> A -> e , P -> B -> e
//	throw   s -> F =k=> H(signal throw) -> C -> e
//	end     s -> F =k=> e
//	subxor  s -> F =k=> U[ us -> X ; X -[c < 1]-> A -> ue ; X -default-> B -> ue ] -> C -> e
//
// Every token does what a single one would: k requests of each task on its path, the instance completes. Recorded like a
// C01 case and replayed through the engine model; `last`: the open request answered next is the last one.
func init() {
	caseFamilies["c01twins"] = &caseFamily{
		Shard: 1, Par: 6,
		Count: func(tier string) int { return len(c01twinsCases()) },
		Run: func(out *rec.Out, idx int, rng *rec.Rng, tier string, stats map[string]int) {
			c01twinsRun(out, c01twinsCases()[idx], stats)
		},
	}
}

type c01twinsCase struct {
	kind string
	k    int
	c    int // the value of variable c (the conditions read `c < 1`)
	last bool
}

func c01twinsCases() []c01twinsCase {
	var cs []c01twinsCase
	for _, kind := range []string{"task", "xor", "merge", "throw", "end", "subxor"} {
		for k := 2; k <= 3; k++ {
			for _, last := range []bool{false, true} {
				cs = append(cs, c01twinsCase{kind, k, 0, last})
				if kind == "xor" || kind == "subxor" {
					cs = append(cs, c01twinsCase{kind, k, 5, last})
				}
			}
		}
	}
	return cs
}

func c01twinsRun(out *rec.Out, c c01twinsCase, stats map[string]int) {
	g := eng.NewGraph()
	st := g.Add("startEvent", "s", "")
	f := g.Add("parallelGateway", "F", "")
	en := g.Add("endEvent", "e", "")
	g.Connect(st, f, nil)
	into := func(x *eng.Node) {
		for i := 0; i < c.k; i++ {
			g.Connect(f, x, nil)
		}
	}
	xorBlock := func(par string, end *eng.Node) *eng.Node {
		x := g.Add("exclusiveGateway", "X", par)
		a := g.Add("task", "A", par)
		b := g.Add("task", "B", par)
		g.Connect(x, a, &eng.Cond{Op: "lt", Var: "c", K: 1})
		x.Default = g.Connect(x, b, nil).ID
		g.Connect(a, end, nil)
		g.Connect(b, end, nil)
		return x
	}
	switch c.kind {
	case "task":
		t := g.Add("task", "T", "")
		cc := g.Add("task", "C", "")
		into(t)
		g.Connect(t, cc, nil)
		g.Connect(cc, en, nil)
	case "xor":
		into(xorBlock("", en))
	case "merge":
		m := g.Add("exclusiveGateway", "M", "")
		p := g.Add("parallelGateway", "P", "")
		a := g.Add("task", "A", "")
		b := g.Add("task", "B", "")
		into(m)
		g.Connect(m, p, nil)
		g.Connect(p, a, nil)
		g.Connect(p, b, nil)
		g.Connect(a, en, nil)
		g.Connect(b, en, nil)
	case "throw":
		h := g.Add("intermediateThrowEvent", "H", "")
		h.Defs = []eng.EventDef{{Kind: "signal", Name: "twins"}}
		cc := g.Add("task", "C", "")
		into(h)
		g.Connect(h, cc, nil)
		g.Connect(cc, en, nil)
	case "end":
		into(en)
	case "subxor":
		u := g.Add("subProcess", "U", "")
		us := g.Add("startEvent", "us", u.ID)
		ue := g.Add("endEvent", "ue", u.ID)
		g.Connect(us, xorBlock(u.ID, ue), nil)
		cc := g.Add("task", "C", "")
		into(u)
		g.Connect(u, cc, nil)
		g.Connect(cc, en, nil)
	}
	out.Begin("c01twins", c.kind, c.k, c.c, rec.B(c.last))
	defer out.End()
	vars := map[string]int{"c": c.c}
	in, defs, err := eng.Start(g.XML(), map[string]any{"c": c.c})
	if err != nil {
		out.Line("harness-error %v", err)
		return
	}
	for _, ln := range eng.ProgLines(&(*defs.Processes())[0], g.CondRPN) {
		out.Line("prog %s", ln)
	}
	out.Line("prog vars %s", fmtVars(vars))
	stats["cases"]++
	stats[fmt.Sprintf("tokens_at_one_%s", c.kind)]++
	for steps := 0; steps < 40; steps++ {
		if !in.Quiesce(4 * timeSecond) {
			in.Note("obs noquiesce")
			break
		}
		p := in.Pending()
		if len(p) == 0 {
			break
		}
		q := p[0]
		if c.last {
			q = p[len(p)-1]
		}
		in.AnswerOK(q, nil)
	}
	complete := in.WaitComplete(300 * timeMillisecond)
	in.Quiesce(2 * timeSecond)
	for _, ln := range in.Lines() {
		out.Line("%s", ln)
	}
	out.Line("obs final complete=%d vars=%s", rec.B(complete), in.Vars())
	in.Stop(2 * timeSecond)
}
