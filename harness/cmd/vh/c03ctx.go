package main

import (
	"context"
	"fmt"

	"github.com/olive-io/bpmn/schema"

	"verifharness/internal/eng"
	"verifharness/internal/rec"
)

// Family c03ctx: the tokens that meet at a parallel join were started under DIFFERENT (live) contexts — one instance with
// n start events, each started by its own Process.StartWith(ctx_i, s_i), ctx_i a WithCancel / WithValue child of the
// instance's context. The join does what it does for tokens of one context: it waits for all n, then puts one token on
// each of its m outgoing flows.
//
//	s_i -> A_i -> J (i < n) ; J -> C_j -> e_j (j < m)
func init() {
	caseFamilies["c03ctx"] = &caseFamily{
		Shard: 1, Par: 6,
		Count: func(tier string) int { return 8 },
		Run: func(out *rec.Out, idx int, rng *rec.Rng, tier string, stats map[string]int) {
			c03ctxRun(out, 2+idx%2, 1+idx/2%2, idx >= 4, stats)
		},
	}
}

type c03ctxKey struct{}

func c03ctxRun(out *rec.Out, n, m int, withValue bool, stats map[string]int) {
	g := eng.NewGraph()
	j := g.Add("parallelGateway", "J", "")
	for i := 0; i < n; i++ {
		s := g.Add("startEvent", fmt.Sprintf("s%d", i), "")
		a := g.Add("task", fmt.Sprintf("A%d", i), "")
		g.Connect(s, a, nil)
		g.Connect(a, j, nil)
	}
	for k := 0; k < m; k++ {
		c := g.Add("task", fmt.Sprintf("C%d", k), "")
		e := g.Add("endEvent", fmt.Sprintf("e%d", k), "")
		g.Connect(j, c, nil)
		g.Connect(c, e, nil)
	}
	out.Begin("c03ctx", n, m, rec.B(withValue))
	defer out.End()
	defs, err := schema.Parse([]byte(g.XML()))
	if err != nil {
		out.Line("harness-error %v", err)
		return
	}
	in, err := eng.NewInst(defs, map[string]any{})
	if err != nil {
		out.Line("harness-error %v", err)
		return
	}
	for _, ln := range eng.ProgLines(&(*defs.Processes())[0], g.CondRPN) {
		out.Line("prog %s", ln)
	}
	out.Line("prog vars %s", fmtVars(map[string]int{}))
	stats["cases"]++
	stats["start_events_started_under_their_own_context"] += n
	starts := *in.Proc.Element().StartEvents()
	for i := range starts {
		var ctx context.Context
		if withValue {
			ctx = context.WithValue(in.Ctx, c03ctxKey{}, i)
		} else {
			c, cancel := context.WithCancel(in.Ctx)
			defer cancel()
			ctx = c
		}
		if err := in.Proc.StartWith(ctx, &starts[i]); err != nil {
			out.Line("harness-error startwith %v", err)
			return
		}
	}
	for steps := 0; steps < 20; steps++ {
		if !in.Quiesce(4 * timeSecond) {
			in.Note("obs noquiesce")
			break
		}
		p := in.Pending()
		if len(p) == 0 {
			break
		}
		in.AnswerOK(p[0], nil)
	}
	complete := in.WaitComplete(300 * timeMillisecond)
	in.Quiesce(2 * timeSecond)
	for _, ln := range in.Lines() {
		out.Line("%s", ln)
	}
	out.Line("obs final complete=%d vars=%s", rec.B(complete), in.Vars())
	in.Stop(2 * timeSecond)
}
