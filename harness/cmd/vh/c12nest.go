package main

import (
	"fmt"
	"strings"

	"verifharness/internal/eng"
	"verifharness/internal/rec"
)

// Family c12nest: the program family of Props/C12Nest (`nestProc d K`: d sub-process levels around the chain of K tasks
// T -> Tx -> Txx …, the task C behind the outermost level), with the SAME element names, run by the real engine at depth
// 1..10 x chain length 1..4 (thorough: also depth 16, 24, 32 and length 8). The Lean driver runs `nestProc d K` — the very
// object of the theorems `nest_run` / `nestProc_run_current` — at the extracted configuration and compares step by step:
// what is requested, which inner end events complete and in which order, whether the instance ceases.
//
//	s -> U[ S -> Ux[ Sx -> ... T -> Tx ... -> Ex ] -> E ] -> C -> e
func init() {
	caseFamilies["c12nest"] = &caseFamily{
		Shard: 1, Par: 6,
		Count: func(tier string) int { return len(c12nestDepths(tier)) },
		Run: func(out *rec.Out, idx int, rng *rec.Rng, tier string, stats map[string]int) {
			c := c12nestDepths(tier)[idx]
			c12nestRun(out, c[0], c[1], stats)
		},
	}
}

func c12nestDepths(tier string) [][2]int {
	ds := []int{1, 2, 3, 4, 5, 6, 7, 8, 9, 10}
	ks := []int{1, 2, 3, 4}
	if tier == "thorough" {
		ds = append(ds, 16, 24, 32)
		ks = append(ks, 8)
	}
	var cs [][2]int
	for _, d := range ds {
		for _, k := range ks {
			if tier != "thorough" && k > 1 && (d+k)%3 != 0 {
				continue
			}
			cs = append(cs, [2]int{d, k})
		}
	}
	return cs
}

func c12nestRun(out *rec.Out, d, k int, stats map[string]int) {
	nm := func(c string, i int) string { return c + strings.Repeat("x", i) }
	g := eng.NewGraph()
	st := g.Add("startEvent", "s", "")
	c := g.Add("task", "C", "")
	en := g.Add("endEvent", "e", "")
	subs := make([]*eng.Node, d)
	for i := 0; i < d; i++ {
		parent := ""
		if i > 0 {
			parent = subs[i-1].ID
		}
		subs[i] = g.Add("subProcess", nm("U", i), parent)
	}
	ts := make([]*eng.Node, k)
	for i := 0; i < k; i++ {
		ts[i] = g.Add("task", nm("T", i), subs[d-1].ID)
		if i > 0 {
			g.Connect(ts[i-1], ts[i], nil)
		}
	}
	for i := 0; i < d; i++ {
		is := g.Add("startEvent", nm("S", i), subs[i].ID)
		ie := g.Add("endEvent", nm("E", i), subs[i].ID)
		if i+1 < d {
			g.Connect(is, subs[i+1], nil)
			g.Connect(subs[i+1], ie, nil)
		} else {
			g.Connect(is, ts[0], nil)
			g.Connect(ts[k-1], ie, nil)
		}
	}
	g.Connect(st, subs[0], nil)
	g.Connect(subs[0], c, nil)
	g.Connect(c, en, nil)

	out.Begin("c12nest", d, k)
	defer out.End()
	in, _, err := eng.Start(g.XML(), nil)
	if err != nil {
		out.Line("harness-error %v", err)
		return
	}
	stats["cases"]++
	stats[fmt.Sprintf("depth_%d", d)]++
	stats[fmt.Sprintf("chain_%d", k)]++
	answer := func(node string) {
		if !in.Quiesce(6 * timeSecond) {
			in.Note("obs noquiesce")
			return
		}
		in.Note("c12nest answer %s", node)
		for _, q := range in.Pending() {
			if q.Node == node {
				in.AnswerOK(q, nil)
				return
			}
		}
		in.Note("obs norequest %s", node)
	}
	for i := 0; i < k; i++ {
		answer(nm("T", i))
	}
	answer("C")
	in.Quiesce(6 * timeSecond)
	for _, l := range in.Lines() {
		out.Line("%s", l)
	}
	out.Line("c12nest done %d", rec.B(in.WaitComplete(3*timeSecond)))
	in.Stop(2 * timeSecond)
}
