package main

import (
	"fmt"
	"strings"

	"verifharness/internal/eng"
	"verifharness/internal/rec"
)

// Family c12nest: the program family of Props/C12Nest (`nestProc d`: d sub-process levels around the task T, the task C
// behind the outermost one), with the SAME element names, run by the real engine at depth 1..10 (thorough: also 16, 24,
// 32). The Lean driver runs `nestProc d` — the very object of the theorems `nest_run` / `nestProc_run_current` — at the
// extracted configuration and compares step by step: what is requested, how many inner end events complete and in which
// order, whether the instance ceases.
//
//	s -> U[ S -> Ux[ Sx -> ... T ... -> Ex ] -> E ] -> C -> e
func init() {
	caseFamilies["c12nest"] = &caseFamily{
		Shard: 1, Par: 6,
		Count: func(tier string) int { return len(c12nestDepths(tier)) },
		Run: func(out *rec.Out, idx int, rng *rec.Rng, tier string, stats map[string]int) {
			c12nestRun(out, c12nestDepths(tier)[idx], stats)
		},
	}
}

func c12nestDepths(tier string) []int {
	ds := []int{1, 2, 3, 4, 5, 6, 7, 8, 9, 10}
	if tier == "thorough" {
		ds = append(ds, 16, 24, 32)
	}
	return ds
}

func c12nestRun(out *rec.Out, d int, stats map[string]int) {
	nm := func(c string, i int) string { return c + strings.Repeat("x", i) }
	g := eng.NewGraph()
	st := g.Add("startEvent", "s", "")
	c := g.Add("task", "C", "")
	en := g.Add("endEvent", "e", "")
	subs := make([]*eng.Node, d)
	for i := 0; i < d; i++ {
		parent := ""
		if i > 0 {
			parent = subs[i-1].ID
		}
		subs[i] = g.Add("subProcess", nm("U", i), parent)
	}
	t := g.Add("task", "T", subs[d-1].ID)
	for i := 0; i < d; i++ {
		is := g.Add("startEvent", nm("S", i), subs[i].ID)
		ie := g.Add("endEvent", nm("E", i), subs[i].ID)
		if i+1 < d {
			g.Connect(is, subs[i+1], nil)
			g.Connect(subs[i+1], ie, nil)
		} else {
			g.Connect(is, t, nil)
			g.Connect(t, ie, nil)
		}
	}
	g.Connect(st, subs[0], nil)
	g.Connect(subs[0], c, nil)
	g.Connect(c, en, nil)

	out.Begin("c12nest", d)
	defer out.End()
	in, _, err := eng.Start(g.XML(), nil)
	if err != nil {
		out.Line("harness-error %v", err)
		return
	}
	stats["cases"]++
	stats[fmt.Sprintf("depth_%d", d)]++
	answer := func(node string) {
		if !in.Quiesce(6 * timeSecond) {
			in.Note("obs noquiesce")
			return
		}
		in.Note("c12nest answer %s", node)
		for _, q := range in.Pending() {
			if q.Node == node {
				in.AnswerOK(q, nil)
				return
			}
		}
		in.Note("obs norequest %s", node)
	}
	answer("T")
	answer("C")
	in.Quiesce(6 * timeSecond)
	for _, l := range in.Lines() {
		out.Line("%s", l)
	}
	out.Line("c12nest done %d", rec.B(in.WaitComplete(3*timeSecond)))
	in.Stop(2 * timeSecond)
}
