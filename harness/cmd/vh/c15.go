package main

// C15 — XML round trip. For every input model (generated definitions and every bundled .bpmn
// file) the real code is run: reflect the model (o), xml.Marshal it, reflect it again (m: did
// marshalling change the model?), tokenise the output (x), schema.Parse it and reflect the result
// (r); every id is looked up with FindBy(ExactId). A few processes with conditional flows are also
// run on the engine, original versus re-parsed.
//
// Lines (strings are escaped tokens starting with '='):
//   o|m|r n <depth> <Owner.Field|-> <GoType>      a node of the model (pre-order)
//   o|m|r a <Owner.Field> =<value>                a present attribute of the last node
//   o|m|r t <Owner.Field|-> =<text>               a non-nil chardata field of the last node / simple value
//   x e <depth> <prefix|-> <local> =<text>        an XML element with all its character data
//   x d <prefix|-> =<uri>                         namespace declaration on the last element
//   x a <prefix|-> <local> =<value>               attribute of the last element
//   f <GoType> <base|nonbase|di> <found> <GoType of result|-> =<id>
//   err <stage> =<message>
//   eo|er task <id> | end <id> | err =<msg> | done <ceased>       engine run on original / re-parsed

import (
	"bytes"
	"context"
	"encoding"
	"encoding/xml"
	"fmt"
	"io"
	"math/big"
	"os"
	"path/filepath"
	"reflect"
	"sort"
	"strconv"
	"strings"
	"time"

	"github.com/olive-io/bpmn/schema"
	bpmn "github.com/olive-io/bpmn/v2"
	"github.com/olive-io/bpmn/v2/pkg/tracing"

	_ "github.com/olive-io/bpmn/v2/pkg/expression/expr"

	"verifharness/internal/rec"
)

func init() { families["c15"] = c15 }

func c15esc(s string) string {
	var sb strings.Builder
	sb.WriteByte('=')
	for _, r := range s {
		if r > 0x20 && r < 0x7f && r != '%' {
			sb.WriteRune(r)
		} else {
			fmt.Fprintf(&sb, "%%%x;", r)
		}
	}
	return sb.String()
}

// ---------------------------------------------------------------- reflection of a model

type c15tag struct {
	kind      string // attr elem chardata omit embed
	omitempty bool
}

func c15parseTag(f reflect.StructField) c15tag {
	tag, ok := f.Tag.Lookup("xml")
	if tag == "-" {
		return c15tag{kind: "omit"}
	}
	if !ok || tag == "" {
		if f.Anonymous {
			return c15tag{kind: "embed"}
		}
		return c15tag{kind: "elem"}
	}
	if i := strings.Index(tag, " "); i >= 0 {
		tag = tag[i+1:]
	}
	t := c15tag{kind: "elem"}
	for _, fl := range strings.Split(tag, ",")[1:] {
		switch fl {
		case "attr":
			t.kind = "attr"
		case "chardata", "cdata":
			t.kind = "chardata"
		case "innerxml", "any", "comment":
			t.kind = "other"
		case "omitempty":
			t.omitempty = true
		}
	}
	return t
}

func c15scalar(v reflect.Value) (string, bool) {
	if v.CanInterface() {
		if v.Kind() != reflect.Pointer && v.CanAddr() {
			if tm, ok := v.Addr().Interface().(encoding.TextMarshaler); ok {
				b, err := tm.MarshalText()
				return string(b), err == nil
			}
		}
		if tm, ok := v.Interface().(encoding.TextMarshaler); ok {
			b, err := tm.MarshalText()
			return string(b), err == nil
		}
	}
	switch v.Kind() {
	case reflect.String:
		return v.String(), true
	case reflect.Bool:
		return strconv.FormatBool(v.Bool()), true
	case reflect.Int, reflect.Int8, reflect.Int16, reflect.Int32, reflect.Int64:
		return strconv.FormatInt(v.Int(), 10), true
	case reflect.Uint, reflect.Uint8, reflect.Uint16, reflect.Uint32, reflect.Uint64:
		return strconv.FormatUint(v.Uint(), 10), true
	case reflect.Float32, reflect.Float64:
		return strconv.FormatFloat(v.Float(), 'g', -1, v.Type().Bits()), true
	}
	return "", false
}

type c15idRec struct {
	typ   string
	class string
	id    string
}

type c15walker struct {
	out *rec.Out
	sec string
	n   int
}

// node dumps one element value (a struct, or a simple value) held by field `field`.
func (w *c15walker) node(depth int, field string, v reflect.Value) {
	for v.Kind() == reflect.Pointer || v.Kind() == reflect.Interface {
		if v.IsNil() {
			w.out.Line("%s n %d %s nil", w.sec, depth, field)
			return
		}
		v = v.Elem()
	}
	w.n++
	t := v.Type()
	if t == reflect.TypeOf(schema.AnExpression{}) {
		// the wrapper is elided: the child is the wrapped expression itself
		e := v.Field(0)
		if e.IsNil() {
			w.out.Line("%s n %d %s AnExpression", w.sec, depth, field)
			return
		}
		w.node(depth, field, e)
		return
	}
	if v.Kind() != reflect.Struct || t.PkgPath() == "math/big" {
		w.out.Line("%s n %d %s %s", w.sec, depth, field, c15typeName(t))
		if s, ok := c15scalar(v); ok {
			w.out.Line("%s t - %s", w.sec, c15esc(s))
		}
		return
	}
	w.out.Line("%s n %d %s %s", w.sec, depth, field, t.Name())
	w.scalars(t.Name(), v)
	w.kids(depth, v)
}

func c15typeName(t reflect.Type) string {
	if t.Name() != "" && t.PkgPath() != "" && !strings.HasSuffix(t.PkgPath(), "/schema") {
		return t.PkgPath()[strings.LastIndex(t.PkgPath(), "/")+1:] + "." + t.Name()
	}
	if t.Name() != "" {
		return t.Name()
	}
	return t.String()
}

// scalars: attributes and chardata of the struct, embedded structs included (owner-qualified).
func (w *c15walker) scalars(root string, v reflect.Value) {
	t := v.Type()
	for i := 0; i < t.NumField(); i++ {
		f := t.Field(i)
		tg := c15parseTag(f)
		fv := v.Field(i)
		key := t.Name() + "." + f.Name
		switch tg.kind {
		case "embed":
			if fv.Kind() == reflect.Struct {
				w.scalars(root, fv)
			}
		case "attr", "chardata":
			for fv.Kind() == reflect.Pointer {
				if fv.IsNil() {
					break
				}
				fv = fv.Elem()
			}
			if fv.Kind() == reflect.Pointer {
				continue // nil
			}
			if tg.kind == "attr" && tg.omitempty && v.Field(i).Kind() != reflect.Pointer && fv.IsZero() {
				continue
			}
			s, ok := c15scalar(fv)
			if !ok {
				w.out.Line("err reflect %s", c15esc("unsupported scalar "+key))
				continue
			}
			if tg.kind == "attr" {
				w.out.Line("%s a %s %s", w.sec, key, c15esc(s))
			} else {
				w.out.Line("%s t %s %s", w.sec, key, c15esc(s))
			}
		}
	}
}

func (w *c15walker) kids(depth int, v reflect.Value) {
	t := v.Type()
	for i := 0; i < t.NumField(); i++ {
		f := t.Field(i)
		tg := c15parseTag(f)
		fv := v.Field(i)
		key := t.Name() + "." + f.Name
		switch tg.kind {
		case "embed":
			if fv.Kind() == reflect.Struct {
				w.kids(depth, fv)
			}
		case "elem":
			switch fv.Kind() {
			case reflect.Slice:
				for j := 0; j < fv.Len(); j++ {
					w.node(depth+1, key, fv.Index(j))
				}
			case reflect.Pointer, reflect.Interface:
				if !fv.IsNil() {
					w.node(depth+1, key, fv)
				}
			default:
				w.node(depth+1, key, fv)
			}
		case "other":
			w.out.Line("err reflect %s", c15esc("unsupported tag on "+key))
		}
	}
}

// ids with their class: walk again with typed access (BaseElementInterface needs the pointer)
func c15collectIds(v reflect.Value, inDI bool, acc *[]c15idRec) {
	for v.Kind() == reflect.Pointer || v.Kind() == reflect.Interface {
		if v.IsNil() {
			return
		}
		v = v.Elem()
	}
	if v.Kind() != reflect.Struct || v.Type().PkgPath() == "math/big" {
		return
	}
	t := v.Type()
	if t.Name() == "BPMNDiagram" {
		inDI = true
	}
	if t != reflect.TypeOf(schema.AnExpression{}) && v.CanAddr() {
		if id := c15idOf(v); id != nil {
			class := "nonbase"
			if _, ok := v.Addr().Interface().(schema.BaseElementInterface); ok {
				class = "base"
			}
			if inDI {
				class = "di"
			}
			*acc = append(*acc, c15idRec{typ: t.Name(), class: class, id: *id})
		}
	}
	c15descend(v, inDI, acc)
}

// the id attribute of the element (through embedded structs, shallowest first as Go resolves it)
func c15idOf(v reflect.Value) *string {
	f := v.FieldByName("IdField")
	if f.IsValid() && f.Kind() == reflect.Pointer && !f.IsNil() && f.Elem().Kind() == reflect.String {
		s := f.Elem().String()
		return &s
	}
	return nil
}

func c15descend(v reflect.Value, inDI bool, acc *[]c15idRec) {
	t := v.Type()
	for i := 0; i < t.NumField(); i++ {
		f := t.Field(i)
		tg := c15parseTag(f)
		fv := v.Field(i)
		switch tg.kind {
		case "embed":
			if fv.Kind() == reflect.Struct {
				c15descend(fv, inDI, acc)
			}
		case "elem":
			if fv.Kind() == reflect.Slice {
				for j := 0; j < fv.Len(); j++ {
					c15collectIds(fv.Index(j), inDI, acc)
				}
			} else if fv.Kind() == reflect.Struct {
				c15collectIds(fv.Addr(), inDI, acc)
			} else {
				c15collectIds(fv, inDI, acc)
			}
		}
	}
}

func c15dump(out *rec.Out, sec string, d *schema.Definitions) int {
	w := &c15walker{out: out, sec: sec}
	w.node(0, "-", reflect.ValueOf(d))
	return w.n
}

// ---------------------------------------------------------------- tokeniser of the XML output

type c15el struct {
	pfx, local string
	decls      [][2]string
	attrs      [][3]string
	kids       []*c15el
	text       strings.Builder
}

func c15split(n xml.Name) (string, string) {
	// RawToken leaves the prefix in Space; a literal "p:local" written by the marshalers is in Local
	if n.Space != "" {
		return n.Space, n.Local
	}
	if i := strings.Index(n.Local, ":"); i >= 0 {
		return n.Local[:i], n.Local[i+1:]
	}
	return "", n.Local
}

func c15tokenise(data []byte) (*c15el, error) {
	dec := xml.NewDecoder(bytes.NewReader(data))
	var stack []*c15el
	var root *c15el
	for {
		tok, err := dec.RawToken()
		if err == io.EOF {
			break
		}
		if err != nil {
			return nil, err
		}
		switch t := tok.(type) {
		case xml.StartElement:
			e := &c15el{}
			e.pfx, e.local = c15split(t.Name)
			for _, a := range t.Attr {
				p, l := c15split(a.Name)
				switch {
				case p == "xmlns":
					e.decls = append(e.decls, [2]string{l, a.Value})
				case p == "" && l == "xmlns":
					e.decls = append(e.decls, [2]string{"", a.Value})
				default:
					e.attrs = append(e.attrs, [3]string{p, l, a.Value})
				}
			}
			if len(stack) > 0 {
				stack[len(stack)-1].kids = append(stack[len(stack)-1].kids, e)
			} else if root == nil {
				root = e
			}
			stack = append(stack, e)
		case xml.EndElement:
			if len(stack) > 0 {
				stack = stack[:len(stack)-1]
			}
		case xml.CharData:
			if len(stack) > 0 {
				stack[len(stack)-1].text.Write(t)
			}
		}
	}
	if root == nil {
		return nil, fmt.Errorf("no root element")
	}
	return root, nil
}

func c15dash(s string) string {
	if s == "" {
		return "-"
	}
	return s
}

func c15dumpXml(out *rec.Out, e *c15el, depth int) {
	out.Line("x e %d %s %s %s", depth, c15dash(e.pfx), e.local, c15esc(e.text.String()))
	for _, d := range e.decls {
		out.Line("x d %s %s", c15dash(d[0]), c15esc(d[1]))
	}
	for _, a := range e.attrs {
		out.Line("x a %s %s %s", c15dash(a[0]), a[1], c15esc(a[2]))
	}
	for _, k := range e.kids {
		c15dumpXml(out, k, depth+1)
	}
}

// ---------------------------------------------------------------- one round-trip case

func c15safe(stage string, out *rec.Out, f func() error) (ok bool) {
	defer func() {
		if r := recover(); r != nil {
			out.Line("err %s %s", stage, c15esc(fmt.Sprintf("panic: %v", r)))
			ok = false
		}
	}()
	if err := f(); err != nil {
		out.Line("err %s %s", stage, c15esc(err.Error()))
		return false
	}
	return true
}

func c15roundtrip(out *rec.Out, source, name string, d *schema.Definitions, stats map[string]int) (*schema.Definitions, []byte) {
	out.Begin("c15", "rt", source, name)
	defer out.End()
	stats["cases"]++
	stats["source_"+source]++
	var data []byte
	var d2 *schema.Definitions
	if !c15safe("reflect", out, func() error { stats["nodes"] += c15dump(out, "o", d); return nil }) {
		return nil, nil
	}
	var ids []c15idRec
	c15safe("ids", out, func() error { c15collectIds(reflect.ValueOf(d), false, &ids); return nil })
	if !c15safe("marshal", out, func() error {
		var err error
		data, err = xml.Marshal(d)
		return err
	}) {
		return nil, nil
	}
	c15safe("reflect", out, func() error { c15dump(out, "m", d); return nil })
	c15safe("tokenise", out, func() error {
		root, err := c15tokenise(data)
		if err != nil {
			return err
		}
		c15dumpXml(out, root, 0)
		return nil
	})
	if !c15safe("parse", out, func() error {
		var err error
		d2, err = schema.Parse(data)
		return err
	}) {
		return nil, data
	}
	c15safe("reflect", out, func() error { c15dump(out, "r", d2); return nil })
	// every id must be retrievable: a case of its own, so that a retrieval failure does not hide
	// whether the round trip itself was clean
	out.End()
	out.Begin("c15", "ids", source, name)
	seen := map[string]bool{}
	for _, r := range ids {
		if seen[r.id] {
			continue // duplicate id: only the first occurrence can be retrieved
		}
		seen[r.id] = true
		r := r
		c15safe("findby", out, func() error {
			el, found := d.FindBy(schema.ExactId(r.id))
			ft := "-"
			if found && el != nil {
				ft = reflect.TypeOf(el).Elem().Name()
			}
			out.Line("f %s %s %d %s %s", r.typ, r.class, rec.B(found), ft, c15esc(r.id))
			stats["ids_"+r.class]++
			return nil
		})
	}
	return d2, data
}

// ---------------------------------------------------------------- generated definitions

var c15strings = []string{"a", "Flow_1", "x > 1", "a&b", "<tag>", "q\"uote'", "  padded  ", "line\nbreak", "tab\there", "ünï©ode", "]]>", "", "http://example.org/ns#x", "a:b", "{\"k\":1}", " nbsp", "&amp;",
	// carriage returns: a parser normalises a RAW \r\n or \r to \n, so a writer has to escape them (&#xD;)
	"cr\rmid", "{\"note\":\"x\r\ny\"}\r\n", "\rlead",
	// variable references as the olive items write them ($name.path): an item may carry a literal value AND a reference
	"$c.name", "$a.x.0", "$v"}

func c15str(rng *rec.Rng) string { return c15strings[rng.Intn(len(c15strings))] }

// c15fill fills a value of any schema type by reflection: every struct of the package can be
// reached, so every row of the schema table is exercised. Go-shadowed fields are left alone (they
// cannot be reached through the accessors either).
var c15budget int

func c15fill(v reflect.Value, rng *rec.Rng, depth int, stats map[string]int) {
	t := v.Type()
	if c15budget <= 0 {
		depth = 0
	}
	switch v.Kind() {
	case reflect.Pointer:
		if t.Elem().PkgPath() == "math/big" {
			if rng.Intn(2) == 0 {
				v.Set(reflect.ValueOf(big.NewInt(int64(rng.Intn(5)))))
			}
			return
		}
		if depth <= 0 && t.Elem().Kind() == reflect.Struct {
			return
		}
		if rng.Intn(3) > 0 && t.Elem().Kind() == reflect.Struct {
			return
		}
		if rng.Intn(3) == 0 {
			return
		}
		n := reflect.New(t.Elem())
		c15fill(n.Elem(), rng, depth, stats)
		v.Set(n)
	case reflect.Slice:
		if depth <= 0 && t.Elem().Kind() == reflect.Struct {
			return
		}
		k := 0
		switch rng.Intn(8) {
		case 0, 1:
			k = 1
		case 2:
			k = 2
		}
		if k == 0 {
			return
		}
		s := reflect.MakeSlice(t, k, k)
		for i := 0; i < k; i++ {
			c15fill(s.Index(i), rng, depth-1, stats)
		}
		v.Set(s)
	case reflect.Interface:
		if t == reflect.TypeOf((*schema.ExpressionInterface)(nil)).Elem() {
			if rng.Bool() {
				e := &schema.FormalExpression{}
				c15fill(reflect.ValueOf(e).Elem(), rng, depth-1, stats)
				v.Set(reflect.ValueOf(e))
				stats["gen_formal"]++
			} else {
				e := &schema.Expression{}
				c15fill(reflect.ValueOf(e).Elem(), rng, depth-1, stats)
				v.Set(reflect.ValueOf(e))
				stats["gen_informal"]++
			}
		}
	case reflect.Struct:
		if t.PkgPath() == "math/big" {
			return
		}
		stats["gen_type_"+t.Name()]++
		c15budget--
		c15fillStruct(v, rng, depth, stats, t.Name(), map[string]bool{})
	case reflect.String:
		s := c15str(rng)
		if t.Name() == "ItemType" {
			s = []string{"string", "integer", "boolean", "object", ""}[rng.Intn(5)]
		}
		v.SetString(s)
	case reflect.Bool:
		v.SetBool(rng.Bool())
	case reflect.Int, reflect.Int32, reflect.Int64:
		v.SetInt(int64(rng.Intn(7)) - 2)
	case reflect.Float64, reflect.Float32:
		v.SetFloat([]float64{0, 1, 36, 100.5, -3.25, 1e6, 0.1}[rng.Intn(7)])
	}
}

// fields of the struct and of its embedded structs; a name already set at a shallower level is
// Go-shadowed and skipped.
func c15fillStruct(v reflect.Value, rng *rec.Rng, depth int, stats map[string]int, root string, taken map[string]bool) {
	t := v.Type()
	var embedded []int
	// own fields first (they shadow embedded ones), in a random order so that the node budget is
	// spread over all fields
	order := make([]int, t.NumField())
	for i := range order {
		order[i] = i
	}
	for i := len(order) - 1; i > 0; i-- {
		j := rng.Intn(i + 1)
		order[i], order[j] = order[j], order[i]
	}
	for _, i := range order {
		f := t.Field(i)
		if f.Anonymous && f.Type.Kind() == reflect.Struct {
			embedded = append(embedded, i)
			continue
		}
		if !f.IsExported() || taken[f.Name] {
			continue
		}
		taken[f.Name] = true
		tg := c15parseTag(f)
		if tg.kind == "chardata" {
			// text: whitespace-only for containers that are not text carriers in practice
			fv := v.Field(i)
			txt := c15str(rng)
			if root == "ExtensionElements" || root == "ExtensionElementsType" || root == "Definitions" {
				txt = []string{"", "\n  ", " "}[rng.Intn(3)]
			}
			if fv.Kind() == reflect.Pointer {
				if rng.Intn(3) > 0 {
					n := reflect.New(fv.Type().Elem())
					n.Elem().SetString(txt)
					fv.Set(n)
				}
			} else if fv.Kind() == reflect.String {
				fv.SetString(txt)
			}
			continue
		}
		if f.Name == "IdField" && v.Field(i).Kind() == reflect.Pointer {
			if rng.Intn(4) > 0 {
				id := fmt.Sprintf("id%d", rng.Intn(1<<30))
				v.Field(i).Set(reflect.ValueOf(&id))
			}
			continue
		}
		c15fill(v.Field(i), rng, depth, stats)
	}
	for _, i := range embedded {
		c15fillStruct(v.Field(i), rng, depth, stats, root, taken)
	}
}

func c15random(rng *rec.Rng, depth int, stats map[string]int) *schema.Definitions {
	d := &schema.Definitions{}
	c15budget = 40 + rng.Intn(160)
	c15fill(reflect.ValueOf(d).Elem(), rng, depth, stats)
	return d
}

// ---------------------------------------------------------------- hand-made definitions

func sp(s string) *string { return &s }

func c15qn(s ...string) []schema.QName {
	out := make([]schema.QName, len(s))
	for i, x := range s {
		out[i] = schema.QName(x)
	}
	return out
}

func c15formal(text string, lang *string) *schema.AnExpression {
	e := schema.DefaultFormalExpression()
	e.SetTextPayload(text)
	e.LanguageField = lang
	return &schema.AnExpression{Expression: &e}
}

func c15informal(text string) *schema.AnExpression {
	e := schema.DefaultExpression()
	e.SetTextPayload(text)
	return &schema.AnExpression{Expression: &e}
}

func c15flow(id, src, dst string, cond *schema.AnExpression) schema.SequenceFlow {
	f := schema.DefaultSequenceFlow()
	f.IdField = sp(id)
	f.SourceRefField = src
	f.TargetRefField = dst
	f.ConditionExpressionField = cond
	return f
}

func c15ext() *schema.ExtensionElements {
	return &schema.ExtensionElements{ExtensionElementsType: schema.ExtensionElementsType{
		TaskDefinitionField: &schema.TaskDefinition{Type: "service", Timeout: "30s", Retries: 3, Target: "t", Metadata: `{"a":"b"}`},
		TaskHeaderField:     &schema.TaskHeader{Header: []*schema.Item{{Name: "Content-Type", Value: "application/json", Type: schema.ItemTypeString}}},
		PropertiesField: &schema.Properties{Property: []*schema.Item{{Name: "a", Value: "1", Type: schema.ItemTypeInteger},
			{Name: "o", Value: `{"k":"v"}`, Type: schema.ItemTypeObject, Ref: "r"}}},
		ResultsField:   &schema.Result{Field: []*schema.Item{{Name: "out", Value: "", Type: schema.ItemTypeString}}},
		ScriptField:    &schema.ExtensionScript{Expression: "a + 1", Result: "b", ResultType: schema.ItemTypeInteger},
		CalledElement:  &schema.ExtensionCalledElement{DefinitionId: "d", ProcessId: "p", PropagateAllChildVariables: true},
		CalledDecision: &schema.ExtensionCalledDecision{DecisionId: "dec", Result: "res"},
		DataInput:      []schema.ExtensionAssociation{{Name: "in", TargetRef: "do1"}},
		DataOutput:     []schema.ExtensionAssociation{{Name: "out", TargetRef: "do1"}, {Name: "out2", TargetRef: "do1"}},
		DataObjectBody: &schema.ExtensionDataObjectBody{Body: `{"x":1}`},
	}}
}

// kinds: every flow-node kind the engine supports, wired start → … → end, one at a time.
var c15kinds = []string{"task", "serviceTask", "userTask", "scriptTask", "sendTask", "receiveTask", "manualTask", "businessRuleTask",
	"callActivity", "subProcess", "exclusiveGateway", "inclusiveGateway", "parallelGateway", "eventBasedGateway",
	"intermediateCatchEvent", "intermediateThrowEvent", "boundaryEvent"}

// c15proc builds start → xor(default) → {A if cond, B default} → end with a node of the given kind
// between the gateway and A. condKind: formal | formalLang | formalXPath | informal | none.
func c15proc(kind, condKind string, withDI, withCollab bool) *schema.Definitions {
	d := schema.DefaultDefinitions()
	d.IdField = sp("Definitions_1")
	d.TargetNamespaceField = "http://bpmn.io/schema/bpmn"
	lang := "https://github.com/expr-lang/expr"
	d.ExpressionLanguageField = &lang
	p := schema.DefaultProcess()
	p.IdField = sp("proc")
	tr := true
	p.IsExecutableField = &tr
	st := schema.DefaultStartEvent()
	st.IdField = sp("start")
	st.OutgoingField = c15qn("f0")
	p.StartEventField = []schema.StartEvent{st}
	g := schema.DefaultExclusiveGateway()
	g.IdField = sp("xor")
	g.NameField = sp("choice")
	g.DefaultField = sp("fB")
	g.IncomingField = c15qn("f0")
	g.OutgoingField = c15qn("fA", "fB")
	p.ExclusiveGatewayField = []schema.ExclusiveGateway{g}
	var cond *schema.AnExpression
	switch condKind {
	case "formal":
		cond = c15formal("x > 1", nil)
	case "formalLang":
		cond = c15formal("  x > 1\n", &lang)
	case "formalXPath":
		// an explicit language that happens to be the SCHEMA default while the document's default is another one
		xl := "http://www.w3.org/1999/XPath"
		cond = c15formal("x > 1", &xl)
	case "informal":
		cond = c15informal("whenever")
	}
	mid := "A"
	ta := schema.DefaultServiceTask()
	ta.IdField = sp("A")
	ta.IncomingField = c15qn("fM")
	ta.OutgoingField = c15qn("fEa")
	ta.ExtensionElementsField = c15ext()
	tb := schema.DefaultTask()
	tb.IdField = sp("B")
	tb.IncomingField = c15qn("fB")
	tb.OutgoingField = c15qn("fEb")
	doc := schema.Documentation{IdField: sp("doc_B"), TextFormatField: sp("text/plain")}
	doc.SetTextPayload("the default branch")
	tb.DocumentationField = []schema.Documentation{doc}
	p.TaskField = []schema.Task{tb}
	p.ServiceTaskField = []schema.ServiceTask{ta}
	en := schema.DefaultEndEvent()
	en.IdField = sp("end")
	en.IncomingField = c15qn("fEa", "fEb")
	p.EndEventField = []schema.EndEvent{en}
	flows := []schema.SequenceFlow{c15flow("f0", "start", "xor", nil), c15flow("fB", "xor", "B", nil),
		c15flow("fEa", "A", "end", nil), c15flow("fEb", "B", "end", nil)}
	// the node of the requested kind sits between the gateway and A
	in, outq := c15qn("fA"), c15qn("fM")
	sigName := schema.QName("sig1")
	msgName := schema.QName("msg1")
	timer := schema.DefaultTimerEventDefinition()
	timer.IdField = sp("timer1")
	timer.TimeDurationField = c15formal("PT1S", nil)
	sigDef := schema.DefaultSignalEventDefinition()
	sigDef.IdField = sp("sigdef1")
	sigDef.SignalRefField = &sigName
	msgDef := schema.DefaultMessageEventDefinition()
	msgDef.IdField = sp("msgdef1")
	msgDef.MessageRefField = &msgName
	switch kind {
	case "task":
		n := schema.DefaultTask()
		n.IdField, n.IncomingField, n.OutgoingField = sp("M"), in, outq
		p.TaskField = append(p.TaskField, n)
	case "serviceTask":
		n := schema.DefaultServiceTask()
		n.IdField, n.IncomingField, n.OutgoingField = sp("M"), in, outq
		n.ExtensionElementsField = c15ext()
		p.ServiceTaskField = append(p.ServiceTaskField, n)
	case "userTask":
		n := schema.DefaultUserTask()
		n.IdField, n.IncomingField, n.OutgoingField = sp("M"), in, outq
		p.UserTaskField = append(p.UserTaskField, n)
	case "scriptTask":
		n := schema.DefaultScriptTask()
		n.IdField, n.IncomingField, n.OutgoingField = sp("M"), in, outq
		n.ExtensionElementsField = c15ext()
		p.ScriptTaskField = append(p.ScriptTaskField, n)
	case "sendTask":
		n := schema.DefaultSendTask()
		n.IdField, n.IncomingField, n.OutgoingField = sp("M"), in, outq
		p.SendTaskField = append(p.SendTaskField, n)
	case "receiveTask":
		n := schema.DefaultReceiveTask()
		n.IdField, n.IncomingField, n.OutgoingField = sp("M"), in, outq
		p.ReceiveTaskField = append(p.ReceiveTaskField, n)
	case "manualTask":
		n := schema.DefaultManualTask()
		n.IdField, n.IncomingField, n.OutgoingField = sp("M"), in, outq
		p.ManualTaskField = append(p.ManualTaskField, n)
	case "businessRuleTask":
		n := schema.DefaultBusinessRuleTask()
		n.IdField, n.IncomingField, n.OutgoingField = sp("M"), in, outq
		p.BusinessRuleTaskField = append(p.BusinessRuleTaskField, n)
	case "callActivity":
		n := schema.DefaultCallActivity()
		n.IdField, n.IncomingField, n.OutgoingField = sp("M"), in, outq
		called := schema.QName("other")
		n.CalledElementField = &called
		n.ExtensionElementsField = c15ext()
		p.CallActivityField = append(p.CallActivityField, n)
	case "subProcess":
		n := schema.DefaultSubProcess()
		n.IdField, n.IncomingField, n.OutgoingField = sp("M"), in, outq
		s2 := schema.DefaultStartEvent()
		s2.IdField, s2.OutgoingField = sp("sub_start"), c15qn("sub_f")
		e2 := schema.DefaultEndEvent()
		e2.IdField, e2.IncomingField = sp("sub_end"), c15qn("sub_f")
		n.StartEventField = []schema.StartEvent{s2}
		n.EndEventField = []schema.EndEvent{e2}
		n.SequenceFlowField = []schema.SequenceFlow{c15flow("sub_f", "sub_start", "sub_end", nil)}
		p.SubProcessField = append(p.SubProcessField, n)
	case "exclusiveGateway":
		n := schema.DefaultExclusiveGateway()
		n.IdField, n.IncomingField, n.OutgoingField = sp("M"), in, outq
		p.ExclusiveGatewayField = append(p.ExclusiveGatewayField, n)
	case "inclusiveGateway":
		n := schema.DefaultInclusiveGateway()
		n.IdField, n.IncomingField, n.OutgoingField = sp("M"), in, outq
		n.DefaultField = sp("fM")
		p.InclusiveGatewayField = append(p.InclusiveGatewayField, n)
	case "parallelGateway":
		n := schema.DefaultParallelGateway()
		n.IdField, n.IncomingField, n.OutgoingField = sp("M"), in, outq
		p.ParallelGatewayField = append(p.ParallelGatewayField, n)
	case "eventBasedGateway":
		n := schema.DefaultEventBasedGateway()
		n.IdField, n.IncomingField, n.OutgoingField = sp("M"), in, outq
		p.EventBasedGatewayField = append(p.EventBasedGatewayField, n)
	case "intermediateCatchEvent":
		n := schema.DefaultIntermediateCatchEvent()
		n.IdField, n.IncomingField, n.OutgoingField = sp("M"), in, outq
		n.TimerEventDefinitionField = []schema.TimerEventDefinition{timer}
		n.SignalEventDefinitionField = []schema.SignalEventDefinition{sigDef}
		n.MessageEventDefinitionField = []schema.MessageEventDefinition{msgDef}
		pm := true
		n.ParallelMultipleField = &pm
		p.IntermediateCatchEventField = append(p.IntermediateCatchEventField, n)
	case "intermediateThrowEvent":
		n := schema.DefaultIntermediateThrowEvent()
		n.IdField, n.IncomingField, n.OutgoingField = sp("M"), in, outq
		n.SignalEventDefinitionField = []schema.SignalEventDefinition{sigDef}
		p.IntermediateThrowEventField = append(p.IntermediateThrowEventField, n)
	case "boundaryEvent":
		n := schema.DefaultTask()
		n.IdField, n.IncomingField, n.OutgoingField = sp("M"), in, outq
		p.TaskField = append(p.TaskField, n)
		b := schema.DefaultBoundaryEvent()
		b.IdField = sp("bnd")
		b.AttachedToRefField = schema.QName("M")
		ca := false
		b.CancelActivityField = &ca
		b.TimerEventDefinitionField = []schema.TimerEventDefinition{timer}
		b.OutgoingField = c15qn("fBnd")
		p.BoundaryEventField = append(p.BoundaryEventField, b)
		flows = append(flows, c15flow("fBnd", "bnd", "end", nil))
	}
	flows = append(flows, c15flow("fA", "xor", "M", cond), c15flow("fM", "M", mid, nil))
	p.SequenceFlowField = flows
	// data objects
	do := schema.DefaultDataObject()
	do.IdField = sp("do1")
	do.NameField = sp("order")
	do.ExtensionElementsField = &schema.ExtensionElements{ExtensionElementsType: schema.ExtensionElementsType{
		DataObjectBody: &schema.ExtensionDataObjectBody{Body: `{"n":1}`}}}
	p.DataObjectField = []schema.DataObject{do}
	dor := schema.DefaultDataObjectReference()
	dor.IdField = sp("dor1")
	dor.DataObjectRefField = sp("do1")
	p.DataObjectReferenceField = []schema.DataObjectReference{dor}
	d.ProcessField = []schema.Process{p}
	sg := schema.DefaultSignal()
	sg.IdField, sg.NameField = sp("sig1"), sp("sig1")
	d.SignalField = []schema.Signal{sg}
	mg := schema.DefaultMessage()
	mg.IdField, mg.NameField = sp("msg1"), sp("msg1")
	d.MessageField = []schema.Message{mg}
	if withCollab {
		c := schema.DefaultCollaboration()
		c.IdField = sp("collab")
		pa := schema.DefaultParticipant()
		pa.IdField, pa.NameField = sp("part1"), sp("Pool")
		pr := schema.QName("proc")
		pa.ProcessRefField = &pr
		pb := schema.DefaultParticipant()
		pb.IdField, pb.NameField = sp("part2"), sp("Other")
		c.ParticipantField = []schema.Participant{pa, pb}
		mf := schema.DefaultMessageFlow()
		mf.IdField = sp("mf1")
		mf.SourceRefField = schema.QName("part1")
		mf.TargetRefField = schema.QName("part2")
		c.MessageFlowField = []schema.MessageFlow{mf}
		d.CollaborationField = []schema.Collaboration{c}
	}
	if withDI {
		dg := schema.DefaultBPMNDiagram()
		dg.IdField = sp("BPMNDiagram_1")
		pl := schema.DefaultBPMNPlane()
		pl.IdField = sp("BPMNPlane_1")
		be := schema.QName("proc")
		pl.BpmnElementField = &be
		for i, id := range []string{"start", "xor", "A", "B", "end"} {
			sh := schema.DefaultBPMNShape()
			sh.IdField = sp(id + "_di")
			q := schema.QName(id)
			sh.BpmnElementField = &q
			sh.BoundsField = &schema.Bounds{XField: float64(100 + 150*i), YField: 80.5, WidthField: 100, HeightField: 80}
			if id == "xor" {
				mv := true
				sh.IsMarkerVisibleField = &mv
				lb := schema.DefaultBPMNLabel()
				lb.BoundsField = &schema.Bounds{XField: 10, YField: 0, WidthField: 30, HeightField: 14}
				sh.BPMNLabelField = &lb
			}
			pl.BPMNShapeFields = append(pl.BPMNShapeFields, sh)
		}
		for _, f := range flows {
			ed := schema.DefaultBPMNEdge()
			ed.IdField = sp(*f.IdField + "_di")
			q := schema.QName(*f.IdField)
			ed.BpmnElementField = &q
			ed.WaypointField = []schema.Point{{XField: 1, YField: 2}, {XField: 3.5, YField: 0}}
			pl.BPMNEdgeFields = append(pl.BPMNEdgeFields, ed)
		}
		dg.BPMNPlaneField = &pl
		d.DiagramField = &dg
	}
	return &d
}

// ---------------------------------------------------------------- engine, original vs re-parsed

func c15engine(out *rec.Out, sec string, d *schema.Definitions, vars map[string]any) {
	defer func() {
		if r := recover(); r != nil {
			out.Line("%s err %s", sec, c15esc(fmt.Sprintf("panic: %v", r)))
		}
	}()
	engine := bpmn.NewEngine()
	ctx, cancel := context.WithTimeout(context.Background(), 3*time.Second)
	defer cancel()
	ins, err := engine.NewProcess(d, bpmn.WithVariables(vars), bpmn.WithContext(ctx))
	if err != nil {
		out.Line("%s err %s", sec, c15esc("new: "+err.Error()))
		return
	}
	traces := ins.Tracer().Subscribe()
	if err = ins.StartAll(ctx); err != nil {
		out.Line("%s err %s", sec, c15esc("start: "+err.Error()))
		return
	}
	var tasks, ends []string
	ceased := false
	deadline := time.After(1500 * time.Millisecond)
loop:
	for {
		select {
		case tr := <-traces:
			tr = tracing.Unwrap(tr)
			switch t := tr.(type) {
			case bpmn.TaskTrace:
				if id, ok := t.GetActivity().Element().Id(); ok {
					tasks = append(tasks, *id)
				}
				t.Do()
			case bpmn.CompletionTrace:
				if _, isEnd := t.Node.(*schema.EndEvent); isEnd {
					if id, ok := t.Node.Id(); ok {
						ends = append(ends, *id)
					}
				}
			case bpmn.ErrorTrace:
				out.Line("%s err %s", sec, c15esc(fmt.Sprintf("%v", t.Error)))
			case bpmn.CeaseFlowTrace:
				ceased = true
				break loop
			}
		case <-deadline:
			break loop
		}
	}
	ins.Tracer().Unsubscribe(traces)
	cancel()
	sort.Strings(tasks)
	sort.Strings(ends)
	for _, t := range tasks {
		out.Line("%s task %s", sec, t)
	}
	for _, e := range ends {
		out.Line("%s end %s", sec, e)
	}
	out.Line("%s done %d", sec, rec.B(ceased))
}

// ---------------------------------------------------------------- the family

func c15bundled() []string {
	repo := os.Getenv("VERIF_REPO")
	if repo == "" {
		repo = "/repo"
	}
	var files []string
	filepath.Walk(repo, func(path string, info os.FileInfo, err error) error {
		if err == nil && !info.IsDir() && strings.HasSuffix(path, ".bpmn") {
			rel, _ := filepath.Rel(repo, path)
			files = append(files, rel)
		}
		return nil
	})
	sort.Strings(files)
	return files
}

func c15(out *rec.Out, rng *rec.Rng, tier string, stats map[string]int) {
	repo := os.Getenv("VERIF_REPO")
	if repo == "" {
		repo = "/repo"
	}
	// 1. every bundled .bpmn file: parse → marshal → parse
	for _, rel := range c15bundled() {
		data, err := os.ReadFile(filepath.Join(repo, rel))
		if err != nil {
			continue
		}
		var d *schema.Definitions
		out.Begin("c15", "load", "bundled", rel)
		ok := c15safe("load", out, func() error {
			var err error
			d, err = schema.Parse(data)
			return err
		})
		out.End()
		if ok {
			c15roundtrip(out, "bundled", rel, d, stats)
		}
	}
	// 2. hand-made definitions: every flow-node kind × condition kind
	conds := []string{"formal", "formalLang", "formalXPath", "informal", "none"}
	for i, k := range c15kinds {
		for j, c := range conds {
			d := c15proc(k, c, (i+j)%2 == 0, (i+j)%3 == 0)
			c15roundtrip(out, "kinds", k+"/"+c, d, stats)
			stats["kind_"+k]++
			stats["cond_"+c]++
		}
	}
	// 3. engine behaviour on original vs re-parsed, conditional flows with data on both sides
	for _, c := range conds {
		for _, x := range []int{0, 5} {
			d := c15proc("task", c, false, false)
			out.Begin("c15", "engine", c, x)
			var d2 *schema.Definitions
			okp := c15safe("roundtrip", out, func() error {
				data, err := xml.Marshal(d)
				if err != nil {
					return err
				}
				d2, err = schema.Parse(data)
				return err
			})
			if okp {
				c15dump(out, "o", d)
				c15dump(out, "r", d2)
				c15engine(out, "eo", d, map[string]any{"x": x})
				c15engine(out, "er", d2, map[string]any{"x": x})
			}
			out.End()
			stats["engine_cases"]++
		}
	}
	// 4. random definitions over the whole schema (every struct type reachable by reflection)
	n := 120
	if tier == "thorough" {
		n = 1500
	}
	for i := 0; i < n; i++ {
		r := rng.Fork()
		d := c15random(r, 3+r.Intn(3), stats)
		c15roundtrip(out, "random", strconv.Itoa(i), d, stats)
	}
}
