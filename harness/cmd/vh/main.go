// Command vh is the correspondence harness: it runs the real olive-io/bpmn code (built from
// /repo's working tree with -tags verif) on generated cases and prints canonical lines which the
// Lean driver replays through the model.
package main

import (
	"bytes"
	"encoding/json"
	"flag"
	"fmt"
	"os"
	"os/exec"
	"sort"
	"strings"
	"sync"
	"time"

	"verifharness/internal/rec"
)

// family: a generator that runs in one process and numbers its own cases.
type family func(out *rec.Out, rng *rec.Rng, tier string, stats map[string]int)

var families = map[string]family{}

// caseFamily: cases are indexed; case i depends only on (seed, i), so the framework can shard them
// over child processes (isolation from goroutine leaks / spinning tracers of earlier cases, and
// parallelism over the 16 cores). Case numbers in the output are idx+1.
type caseFamily struct {
	Count func(tier string) int
	Run   func(out *rec.Out, idx int, rng *rec.Rng, tier string, stats map[string]int)
	Shard int // cases per child process (default 25)
	Par   int // child processes in flight (default 8)
}

var caseFamilies = map[string]*caseFamily{}

func caseRng(seed uint64, idx int) *rec.Rng {
	return rec.NewRng(seed*1000003 + uint64(idx)*7919 + 17)
}

func writeStats(path string, stats map[string]int) {
	if path == "" {
		return
	}
	keys := make([]string, 0, len(stats))
	for k := range stats {
		keys = append(keys, k)
	}
	sort.Strings(keys)
	var b bytes.Buffer
	b.WriteString("{")
	for i, k := range keys {
		if i > 0 {
			b.WriteString(",")
		}
		fmt.Fprintf(&b, "%q:%d", k, stats[k])
	}
	b.WriteString("}\n")
	os.WriteFile(path, b.Bytes(), 0o644)
}

func main() {
	seed := flag.Uint64("seed", 1, "PRNG seed")
	tier := flag.String("tier", "quick", "quick|thorough")
	only := flag.Int("only", 0, "emit only this case number (replay)")
	statsPath := flag.String("stats", "", "write generator statistics (input distribution) here")
	child := flag.Bool("child", false, "internal: run cases [from,to) in this process")
	from := flag.Int("from", 0, "internal")
	to := flag.Int("to", 0, "internal")
	flag.Parse()
	if flag.NArg() < 1 {
		fmt.Fprintln(os.Stderr, "usage: vh [-seed n] [-tier t] <family>")
		os.Exit(2)
	}
	name := flag.Arg(0)
	stats := map[string]int{}
	if cf, ok := caseFamilies[name]; ok {
		if *child {
			out := rec.NewOut()
			for i := *from; i < *to; i++ {
				out.SetNext(i + 1)
				cf.Run(out, i, caseRng(*seed, i), *tier, stats)
			}
			out.Flush()
			writeStats(*statsPath, stats)
			return
		}
		runSharded(name, cf, *seed, *tier, *only, stats)
		writeStats(*statsPath, stats)
		return
	}
	f, ok := families[name]
	if !ok {
		fmt.Fprintln(os.Stderr, "unknown family", name)
		os.Exit(2)
	}
	out := rec.NewOut()
	out.Only = *only
	f(out, rec.NewRng(*seed), *tier, stats)
	out.Flush()
	writeStats(*statsPath, stats)
}

func runSharded(name string, cf *caseFamily, seed uint64, tier string, only int, stats map[string]int) {
	n := cf.Count(tier)
	shard := cf.Shard
	if shard <= 0 {
		shard = 25
	}
	par := cf.Par
	if par <= 0 {
		par = 8
	}
	type job struct {
		from, to int
		out      []byte
		err      string
	}
	var jobs []*job
	if only > 0 {
		jobs = append(jobs, &job{from: only - 1, to: only})
	} else {
		for a := 0; a < n; a += shard {
			b := a + shard
			if b > n {
				b = n
			}
			jobs = append(jobs, &job{from: a, to: b})
		}
	}
	self, _ := os.Executable()
	sem := make(chan struct{}, par)
	var wg sync.WaitGroup
	var mu sync.Mutex
	tmpdir, _ := os.MkdirTemp("", "vhstats")
	defer os.RemoveAll(tmpdir)
	for k, j := range jobs {
		wg.Add(1)
		sem <- struct{}{}
		go func(k int, j *job) {
			defer wg.Done()
			defer func() { <-sem }()
			sp := fmt.Sprintf("%s/%d.json", tmpdir, k)
			cmd := exec.Command(self, "-child", "-seed", fmt.Sprint(seed), "-tier", tier,
				"-from", fmt.Sprint(j.from), "-to", fmt.Sprint(j.to), "-stats", sp, name)
			var so, se bytes.Buffer
			cmd.Stdout = &so
			cmd.Stderr = &se
			done := make(chan error, 1)
			cmd.Start()
			go func() { done <- cmd.Wait() }()
			select {
			case err := <-done:
				if err != nil {
					// the crash message stands at the head of the dump, the goroutines at its tail: both are kept
					head := ""
					for _, ln := range strings.Split(se.String(), "\n") {
						if strings.HasPrefix(ln, "panic:") || strings.HasPrefix(ln, "fatal error:") || strings.HasPrefix(ln, "runtime:") {
							head = ln
							break
						}
					}
					j.err = fmt.Sprintf("child %d-%d: %v: %s … %s", j.from, j.to, err, head, tail(se.String(), 2600))
				}
			case <-time.After(20 * time.Minute):
				cmd.Process.Kill()
				j.err = fmt.Sprintf("child %d-%d: timeout", j.from, j.to)
			}
			j.out = so.Bytes()
			if b, err := os.ReadFile(sp); err == nil {
				m := map[string]int{}
				if json.Unmarshal(b, &m) == nil {
					mu.Lock()
					for k, v := range m {
						stats[k] += v
					}
					mu.Unlock()
				}
			}
		}(k, j)
	}
	wg.Wait()
	failed := false
	for _, j := range jobs {
		os.Stdout.Write(j.out)
		if j.err != "" {
			fmt.Fprintln(os.Stderr, j.err)
			failed = true
		}
	}
	if failed {
		os.Exit(1)
	}
}

func tail(s string, n int) string {
	if len(s) > n {
		return s[len(s)-n:]
	}
	return s
}
