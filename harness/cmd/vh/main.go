// Command vh is the correspondence harness: it runs the real olive-io/bpmn code (built from
// /repo's working tree with -tags verif) on generated cases and prints canonical lines which the
// Lean driver replays through the model.
package main

import (
	"flag"
	"fmt"
	"os"
	"sort"

	"verifharness/internal/rec"
)

type family func(out *rec.Out, rng *rec.Rng, tier string, stats map[string]int)

var families = map[string]family{}

func main() {
	seed := flag.Uint64("seed", 1, "PRNG seed")
	tier := flag.String("tier", "quick", "quick|thorough")
	only := flag.Int("only", 0, "emit only this case number (replay)")
	statsPath := flag.String("stats", "", "write generator statistics (input distribution) here")
	flag.Parse()
	if flag.NArg() < 1 {
		fmt.Fprintln(os.Stderr, "usage: vh [-seed n] [-tier t] <family>")
		os.Exit(2)
	}
	f, ok := families[flag.Arg(0)]
	if !ok {
		fmt.Fprintln(os.Stderr, "unknown family", flag.Arg(0))
		os.Exit(2)
	}
	out := rec.NewOut()
	out.Only = *only
	stats := map[string]int{}
	f(out, rec.NewRng(*seed), *tier, stats)
	out.Flush()
	if *statsPath != "" {
		keys := make([]string, 0, len(stats))
		for k := range stats {
			keys = append(keys, k)
		}
		sort.Strings(keys)
		fh, err := os.Create(*statsPath)
		if err == nil {
			fmt.Fprint(fh, "{")
			for i, k := range keys {
				if i > 0 {
					fmt.Fprint(fh, ",")
				}
				fmt.Fprintf(fh, "%q:%d", k, stats[k])
			}
			fmt.Fprintln(fh, "}")
			fh.Close()
		}
	}
}
