package main

// Family c05trk: function differential of the inclusive gateway's FLOW TRACKER (gateway_inclusive.go handleTrace /
// activeFlowsInCohort, through bpmn.VerifTrackerRun) against the Lean port Bpmn.Model.InclTracker (`step`, `cohort`,
// `reached`): seeded sequences of FlowTraces (source inclusive or not, 1..3 listed tokens each on a flow into some
// node) and TerminationTraces over tokens 1..4 and nodes 5..8, gateway = node 7; after every event the cohort of every
// token and the `reachedNode` flag are compared.
//
//	e flow <src> <incl> <tok>:<dst>,…  |  e term <tok>
//	r <reached> <cohort of 1>|<cohort of 2>|<cohort of 3>|<cohort of 4>      (cohort: comma list, "-" = empty)
//	batch <pre> <changed> <notify>      the events after the first <pre> handled as one batch (bpmn.VerifTrackerBatch)

import (
	"fmt"
	"strings"

	bpmn "github.com/olive-io/bpmn/v2"

	"verifharness/internal/rec"
)

func init() { families["c05trk"] = c05trk }

func c05trk(out *rec.Out, rng *rec.Rng, tier string, stats map[string]int) {
	n := 1500
	if tier == "thorough" {
		n = 40000
	}
	query := []int{1, 2, 3, 4}
	for c := 0; c < n; c++ {
		l := 1 + rng.Intn(8)
		evs := make([]bpmn.VerifTrackerEv, l)
		lines := make([]string, l)
		for i := range evs {
			if rng.Intn(4) == 0 {
				t := 1 + rng.Intn(4)
				evs[i] = bpmn.VerifTrackerEv{Term: true, Tok: t}
				lines[i] = fmt.Sprintf("e term %d", t)
				stats["ev_term"]++
				continue
			}
			src := 5 + rng.Intn(4)
			incl := rng.Intn(2) == 0
			k := 1 + rng.Intn(3)
			ev := bpmn.VerifTrackerEv{Src: fmt.Sprint(src), SrcIncl: incl}
			var ps []string
			for j := 0; j < k; j++ {
				t, d := 1+rng.Intn(4), 5+rng.Intn(4)
				ev.Toks = append(ev.Toks, t)
				ev.Dsts = append(ev.Dsts, fmt.Sprint(d))
				ps = append(ps, fmt.Sprintf("%d:%d", t, d))
			}
			evs[i] = ev
			lines[i] = fmt.Sprintf("e flow %d %d %s", src, rec.B(incl), strings.Join(ps, ","))
			stats[fmt.Sprintf("ev_flow_incl%d", rec.B(incl))]++
		}
		out.Begin("c05trk", l)
		func() {
			defer func() {
				if r := recover(); r != nil {
					out.Line("panic %s", strings.ReplaceAll(fmt.Sprint(r), " ", "_"))
				}
			}()
			reached, cohorts := bpmn.VerifTrackerRun("7", evs, query)
			for i := range evs {
				out.Line("%s", lines[i])
				cs := make([]string, len(query))
				for q := range query {
					var p []string
					for _, t := range cohorts[i][q] {
						p = append(p, fmt.Sprint(t))
					}
					cs[q] = "-"
					if len(p) > 0 {
						cs[q] = strings.Join(p, ",")
						stats["nonempty_cohorts"]++
					}
				}
				out.Line("r %d %s", rec.B(reached[i]), strings.Join(cs, "|"))
			}
			// the same events again, the last 2..l of them as ONE BATCH (what the tracker drains without seeing its channel
			// empty in between): whenever the batch changes the tracker's records the node is woken after it
			if l >= 2 {
				pre := rng.Intn(l - 1)
				changed, notify := bpmn.VerifTrackerBatch("7", evs, pre)
				out.Line("batch %d %d %d", pre, rec.B(changed), rec.B(notify))
				stats["batches"]++
				if changed {
					stats["batches_that_change_the_records"]++
				}
			}
		}()
		out.End()
		stats["cases"]++
	}
}
