package main

import (
	"fmt"
	"strings"
	"time"

	"github.com/olive-io/bpmn/schema"
	"github.com/olive-io/bpmn/v2/pkg/event"

	"verifharness/internal/eng"
	"verifharness/internal/rec"
)

// Engine-level C14: a (parallel-)multiple intermediate catch event inside a loop, so that the node is
// re-entered and its satisfier lives across activations. start → C → T → X ─(c1 < K)→ C … else → end.
func init() {
	caseFamilies["c14eng"] = &caseFamily{
		Shard: 1, Par: 12,
		Count: func(tier string) int {
			if tier == "thorough" {
				return 1200
			}
			return 600
		},
		Run: c14engRun,
	}
}

func c14engRun(out *rec.Out, idx int, rng *rec.Rng, tier string, stats map[string]int) {
	d := 1 + rng.Intn(3)
	par := rng.Intn(4) > 0
	rounds := 2 + rng.Intn(3)
	g := eng.NewGraph()
	st := g.Add("startEvent", "start", "")
	m := g.Add("exclusiveGateway", "M", "")
	// a third of the cases put the catch event ALONE into an embedded sub-process (start -> C -> end inside): in that scope
	// it is the only node besides the inner start event — the last one the scope registered as an event consumer
	insub := idx%3 == 2
	cpar := ""
	var u *eng.Node
	if insub {
		u = g.Add("subProcess", "U", "")
		cpar = u.ID
		stats["catch_event_alone_in_a_sub_process"]++
	}
	c := g.Add("intermediateCatchEvent", "C", cpar)
	c.ParallelMultiple = par
	for i := 0; i < d; i++ {
		c.Defs = append(c.Defs, eng.EventDef{Kind: "signal", Name: fmt.Sprintf("sig%d", i)})
	}
	t := g.Add("task", "T", "")
	t.Results = []string{"c1"}
	x := g.Add("exclusiveGateway", "X", "")
	en := g.Add("endEvent", "end", "")
	g.Connect(st, m, nil)
	if insub {
		us := g.Add("startEvent", "us", u.ID)
		ue := g.Add("endEvent", "ue", u.ID)
		g.Connect(m, u, nil)
		g.Connect(us, c, nil)
		g.Connect(c, ue, nil)
		g.Connect(u, t, nil)
	} else {
		g.Connect(m, c, nil)
		g.Connect(c, t, nil)
	}
	g.Connect(t, x, nil)
	g.Connect(x, m, &eng.Cond{Op: "lt", Var: "c1", K: rounds})
	df := g.Connect(x, en, nil)
	x.Default = df.ID

	out.Begin("c14eng", rec.B(par), d, rounds)
	defer out.End()
	in, _, err := eng.Start(g.XML(), map[string]any{"c1": 0})
	if err != nil {
		out.Line("harness-error %v", err)
		return
	}
	stats["cases"]++
	stats[fmt.Sprintf("defs%d_par%d", d, rec.B(par))]++
	answered := 0
	nEvents := 4 + rng.Intn(10)
	if tier == "thorough" {
		nEvents = 6 + rng.Intn(16)
	}
	for k := 0; k < nEvents+rounds; k++ {
		if !in.Quiesce(4 * timeSecond) {
			in.Note("obs noquiesce")
			break
		}
		// answer T when it is pending (the token returns to the catch event), sometimes after extra events
		p := in.Pending()
		if len(p) > 0 && (rng.Intn(3) > 0 || k >= nEvents) {
			answered++
			in.AnswerOK(p[0], map[string]int{"c1": answered})
			continue
		}
		if k >= nEvents {
			break
		}
		pick := func() string {
			if rng.Intn(7) > 0 {
				return fmt.Sprintf("sig%d", rng.Intn(d))
			}
			return "other"
		}
		if rng.Intn(4) == 0 {
			// a burst: 5..9 events handed in back to back by one sender, nobody waits for the node in between (the node
			// is still busy with an earlier one when the later ones arrive); mostly non-matching ones in front
			nb := 5 + rng.Intn(5)
			names := make([]string, nb)
			for i := range names {
				names[i] = "other"
				if i >= nb-2 || rng.Intn(3) == 0 {
					names[i] = pick()
				}
			}
			in.Op("burst %s", strings.Join(names, ","))
			done := make(chan struct{})
			go func() {
				defer close(done)
				for _, nm := range names {
					in.Proc.ConsumeEvent(event.NewSignalEvent(nm))
				}
			}()
			select {
			case <-done:
			case <-time.After(3 * timeSecond):
				in.Note("obs ret burst - blocked")
			}
			stats["bursts"]++
			stats["deliveries"] += nb
			continue
		}
		if nm := pick(); nm == "other" {
			// an event that matches no definition — of ANY kind the library knows, not only a foreign signal: it changes nothing
			ev, kind := c14engOther(rng.Intn(9))
			in.DeliverEvent(ev, "signal", "other", 2*timeSecond)
			stats["nonmatching_"+kind]++
		} else {
			in.Deliver("signal", nm, 2*timeSecond)
		}
		stats["deliveries"]++
	}
	in.Quiesce(2 * timeSecond)
	for _, l := range in.Lines() {
		out.Line("%s", l)
	}
	in.Stop(2 * timeSecond)
}

// c14engOther: events that match no signal definition, one per kind of event value
func c14engOther(k int) (event.IEvent, string) {
	switch k {
	case 0:
		ee := schema.DefaultEndEvent()
		return event.MakeEndEvent(&ee), "end"
	case 1:
		return event.MakeNoneEvent(), "none"
	case 2:
		return event.MakeCancelEvent(), "cancel"
	case 3:
		return event.MakeTerminateEvent(), "terminate"
	case 4:
		ev := event.MakeCompensationEvent("x")
		return &ev, "compensation"
	case 5:
		return event.NewMessageEvent("other", nil), "message"
	case 6:
		ev := event.MakeEscalationEvent("esc")
		return &ev, "escalation"
	case 7:
		ev := event.MakeErrorEvent("err")
		return &ev, "error"
	}
	return event.NewSignalEvent("other"), "signal"
}
