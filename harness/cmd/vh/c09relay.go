package main

import (
	"context"
	"fmt"
	"strings"
	"time"

	"github.com/olive-io/bpmn/schema"
	bpmn "github.com/olive-io/bpmn/v2"
	"github.com/olive-io/bpmn/v2/pkg/tracing"

	"verifharness/internal/eng"
	"verifharness/internal/rec"
)

// Family c09relay: the instance's tracer (Process.Tracer(): the relay in front of the process's own tracer) when the context
// the PROCESS was created with is cancelled while the context it was STARTED with stays alive — the tokens go on running
// and sending. Whatever they send after that moment still reaches every subscriber of the instance's tracer, in order: the
// request of the next task, the completion of the end event, the cease-flow trace. Also: a second subscriber joining after
// the cancellation, and a late Unsubscribe, return.
//
//	start -> T1 -> T2 -> … -> Tk -> end ; the process context is cancelled after `when` of the k tasks have been answered
func init() {
	caseFamilies["c09relay"] = &caseFamily{
		Shard: 1, Par: 6,
		Count: func(tier string) int { return 6 },
		Run: func(out *rec.Out, idx int, rng *rec.Rng, tier string, stats map[string]int) {
			c09relayRun(out, 2+idx/3*10, idx%3, stats)
		},
	}
}

func c09relayRun(out *rec.Out, k, when int, stats map[string]int) {
	g := eng.NewGraph()
	frs := make([]eng.Frag, k)
	for i := range frs {
		frs[i] = g.Task("task", fmt.Sprintf("T%d", i+1), "")
	}
	g.Wrap(g.Seq(frs...))
	out.Begin("c09relay", k, when)
	defer out.End()
	defs, err := schema.Parse([]byte(g.XML()))
	if err != nil {
		out.Line("harness-error %v", err)
		return
	}
	pctx, pcancel := context.WithCancel(context.Background())
	runCtx, runCancel := context.WithCancel(context.Background())
	defer pcancel()
	defer runCancel()
	e := bpmn.NewEngine(bpmn.WithEngineContext(runCtx))
	proc, err := e.NewProcess(defs, bpmn.WithContext(pctx))
	if err != nil {
		out.Line("harness-error %v", err)
		return
	}
	stats["cases"]++
	sub := proc.Tracer().SubscribeChannel(make(chan tracing.ITrace, 1024))
	if err := proc.StartAll(runCtx); err != nil {
		out.Line("harness-error %v", err)
		return
	}
	answered, tasks, cease, completeEnd := 0, 0, false, false
	cancelled := false
	deadline := time.After(8 * time.Second)
loop:
	for {
		if !cancelled && answered == when {
			pcancel()
			cancelled = true
			out.Line("relay cancelled-process-context after %d answers", answered)
		}
		select {
		case tr := <-sub:
			switch x := tracing.Unwrap(tr).(type) {
			case bpmn.TaskTrace:
				tasks++
				id, _ := x.GetActivity().Element().Id()
				out.Line("relay task %s", *id)
				x.Do()
				answered++
			case bpmn.CompletionTrace:
				if id, ok := x.Node.Id(); ok && *id == "end" {
					completeEnd = true
				}
			case bpmn.CeaseFlowTrace:
				cease = true
				break loop
			}
		case <-deadline:
			break loop
		}
	}
	// a subscriber joining now, and leaving again, under deadlines
	joined, left := false, false
	done := make(chan struct{})
	var late chan tracing.ITrace
	go func() { late = proc.Tracer().SubscribeChannel(make(chan tracing.ITrace, 16)); close(done) }()
	select {
	case <-done:
		joined = true
		d2 := make(chan struct{})
		go func() { proc.Tracer().Unsubscribe(late); close(d2) }()
		select {
		case <-d2:
			left = true
		case <-time.After(3 * time.Second):
		}
	case <-time.After(3 * time.Second):
	}
	out.Line("relay final tasks=%d of=%d endcomplete=%d cease=%d joined=%d left=%d", tasks, k, rec.B(completeEnd), rec.B(cease), rec.B(joined), rec.B(left))
	runCancel()
	_ = strings.TrimSpace
}
