package main

import (
	"bytes"
	"context"
	"encoding/xml"
	"fmt"
	"time"

	"github.com/olive-io/bpmn/schema"
	"github.com/olive-io/bpmn/v2/pkg/clock"
	"github.com/olive-io/bpmn/v2/pkg/timer"

	"verifharness/internal/rec"
)

// Family c13many: a cycle timer with an END BOUND on a clock that holds MANY other pending wake-ups (a model with many
// timers on one clock). One clock change passes the due time of the next repetition, the end bound and all the other
// wake-ups: the repetition is not delivered — when the timer is woken the clock reads beyond the bound, however long
// that one change takes to deliver everything that became due.
//
//	R3/PT10S/<25s> created at 0 ; set 10 (first repetition) ; n other wake-ups due at 40s.. ; set 60
func init() {
	caseFamilies["c13many"] = &caseFamily{
		Shard: 1, Par: 4,
		Count: func(tier string) int { return 4 },
		Run: func(out *rec.Out, idx int, rng *rec.Rng, tier string, stats map[string]int) {
			c13manyRun(out, []int{0, 500, 30000, 50000}[idx], stats)
		},
	}
}

func c13manyRun(out *rec.Out, others int, stats map[string]int) {
	out.Begin("c13many", others)
	defer out.End()
	stats["cases"]++
	epoch := time.Unix(0, 0).UTC()
	end := epoch.Add(25 * time.Second)
	definition := schema.DefaultTimerEventDefinition()
	cycle := schema.AnExpression{}
	iso := "R3/PT10S/" + end.Format(time.RFC3339)
	if err := xml.NewDecoder(bytes.NewBufferString(fmt.Sprintf(`<bpmn:expression>%s</bpmn:expression>`, iso))).Decode(&cycle); err != nil {
		out.Line("harness-error %v", err)
		return
	}
	definition.SetTimeCycle(&cycle)
	late, first := 0, 0
	for attempt := 0; attempt < 3; attempt++ {
		c := clock.NewMockAt(epoch)
		ctx, cancel := context.WithCancel(context.Background())
		firings, err := timer.New(ctx, c, definition)
		if err != nil {
			cancel()
			out.Line("harness-error %v", err)
			return
		}
		c.Set(epoch.Add(10 * time.Second))
		select {
		case _, ok := <-firings:
			if ok {
				first++
			}
		case <-time.After(10 * time.Second):
		}
		time.Sleep(30 * time.Millisecond) // the timer arms its second repetition and its end bound
		for i := 0; i < others; i++ {
			c.Until(epoch.Add(40*time.Second + time.Duration(i)*time.Microsecond))
		}
		c.Set(epoch.Add(60 * time.Second))
		select {
		case _, ok := <-firings:
			if ok {
				late++
			}
		case <-time.After(20 * time.Second):
			out.Line("obs stuck attempt %d", attempt)
		}
		cancel()
	}
	out.Line("obs first %d late %d of 3", first, late)
}
