package main

// Engine-level part of family c16: real process instances (start → service task → end) with olive
// taskDefinition / taskHeaders / properties / results / dataOutput extension elements.
//
//   engine case : `inst <i>`                       the lines that follow belong to instance i
//                 `var <k> G` `obj <id> G`         bpmn.WithVariables / bpmn.WithDataObjects
//                 `propdecl <name> <type> v:<value> r:<ref>`  `hdrdecl <name> v:<value> r:<ref>`  `resdecl <name>` `outdecl <name>`
//                 `result <k> G` `dobj <k> G`      bpmn.DoWithResults / bpmn.DoWithObjects
//                 `tprop <name> <stored value>` `thdr <name> v:<cps>`   what the TaskTrace carried
//                 `fvar <k> <stored value>` + `fback <k> R`             Locator().CloneVariables() after completion
//                 `fobj <k> <stored value>` + `foback <k> R`            Locator().CloneItems(".") after completion
//                 `done <0|1>`                     instance completed within the deadline
//   shared case : params `engine shared`: every instance is created from ONE `[]bpmn.Option{WithVariables(m), WithDataObjects(o)}`
//                 slice; additionally `setvar <k> G` (Locator().SetVariable on a created instance) and
//                 `gvar <k>` → `got 0` | `got 1 R` (Locator().GetVariable at the end); instance 2 is created after
//                 instance 0 ran and instance 1 was written to
//   crash case  : `crash <scenario> <0|1>`         the scenario run in a child process: did the process die of a panic

import (
	"context"
	"encoding/xml"
	"fmt"
	"html"
	"os"
	"os/exec"
	"sort"
	"strings"
	"time"

	"github.com/olive-io/bpmn/schema"
	bpmn "github.com/olive-io/bpmn/v2"
	"github.com/olive-io/bpmn/v2/pkg/data"
	"github.com/olive-io/bpmn/v2/pkg/tracing"

	"verifharness/internal/rec"
)

type c16item struct{ name, typ, value, ref string }

type c16proc struct {
	props, headers []c16item
	results, outs  []string
	// declared type of a result field (absent: "string", what the schema gives an undeclared one). The declaration of a
	// RESULT field does not convert anything: whatever the handler answers is stored as it is.
	resTypes map[string]string
}

func (p c16proc) xml() string {
	var sb strings.Builder
	sb.WriteString(`<?xml version="1.0" encoding="UTF-8"?>
<bpmn:definitions xmlns:bpmn="http://www.omg.org/spec/BPMN/20100524/MODEL" xmlns:olive="http://olive.io/spec/BPMN/MODEL" id="defs" targetNamespace="http://bpmn.io/schema/bpmn">
 <bpmn:process id="proc" isExecutable="true">
  <bpmn:startEvent id="start"><bpmn:outgoing>f1</bpmn:outgoing></bpmn:startEvent>
  <bpmn:serviceTask id="task"><bpmn:incoming>f1</bpmn:incoming><bpmn:outgoing>f2</bpmn:outgoing>
   <bpmn:extensionElements>
    <olive:taskDefinition type="service" timeout="30s" retries="1"/>
`)
	if len(p.headers) > 0 {
		sb.WriteString("    <olive:taskHeaders>\n")
		for _, h := range p.headers {
			fmt.Fprintf(&sb, "     <olive:header name=\"%s\" value=\"%s\" type=\"string\" ref=\"%s\"/>\n", html.EscapeString(h.name), html.EscapeString(h.value), html.EscapeString(h.ref))
		}
		sb.WriteString("    </olive:taskHeaders>\n")
	}
	if len(p.props) > 0 {
		sb.WriteString("    <olive:properties>\n")
		for _, h := range p.props {
			fmt.Fprintf(&sb, "     <olive:property name=\"%s\" value=\"%s\" type=\"%s\" ref=\"%s\"/>\n", html.EscapeString(h.name), html.EscapeString(h.value), h.typ, html.EscapeString(h.ref))
		}
		sb.WriteString("    </olive:properties>\n")
	}
	if len(p.results) > 0 {
		sb.WriteString("    <olive:results>\n")
		for _, r := range p.results {
			ty := p.resTypes[r]
			if ty == "" {
				ty = "string"
			}
			fmt.Fprintf(&sb, "     <olive:field name=\"%s\" type=\"%s\"/>\n", html.EscapeString(r), ty)
		}
		sb.WriteString("    </olive:results>\n")
	}
	for _, o := range p.outs {
		fmt.Fprintf(&sb, "    <olive:dataOutput name=\"%s\" targetRef=\"%s\"/>\n", html.EscapeString(o), html.EscapeString(o))
	}
	sb.WriteString(`   </bpmn:extensionElements>
  </bpmn:serviceTask>
  <bpmn:endEvent id="end"><bpmn:incoming>f2</bpmn:incoming></bpmn:endEvent>
  <bpmn:sequenceFlow id="f1" sourceRef="start" targetRef="task"/>
  <bpmn:sequenceFlow id="f2" sourceRef="task" targetRef="end"/>
 </bpmn:process>
</bpmn:definitions>`)
	return sb.String()
}

type c16instIn struct {
	vars, objs, results, dobjs []c16kv
}

type c16running struct {
	ins    *bpmn.Process
	traces chan tracing.ITrace
}

func c16sortedKeys[V any](m map[string]V) []string {
	ks := make([]string, 0, len(m))
	for k := range m {
		ks = append(ks, k)
	}
	sort.Strings(ks)
	return ks
}

func c16toMap(kvs []c16kv) map[string]any {
	m := map[string]any{}
	for _, kv := range kvs {
		m[kv.k] = kv.v.v
	}
	return m
}

func c16itemLine(out *rec.Out, tag, k string, it data.IItem, backTag string) {
	v, ok := it.(*schema.Value)
	if !ok || v == nil {
		out.Line("%s %s other", tag, "k:"+c16cps(k))
		return
	}
	out.Line("%s %s %s", tag, "k:"+c16cps(k), c16outValue(v))
	if backTag != "" {
		out.Line("%s %s %s", backTag, "k:"+c16cps(k), c16back(v.Value()))
	}
}

// c16runEngine runs the instances of one engine case. It does NOT recover: a panic inside an engine
// goroutine cannot be recovered anyway; inputs known to crash the process are run through c16crash.
func c16runEngine(out *rec.Out, p c16proc, insts []c16instIn, stats map[string]int) {
	var defs schema.Definitions
	if err := xml.Unmarshal([]byte(p.xml()), &defs); err != nil {
		out.Line("xmlerror %s", c16cps(err.Error()))
		return
	}
	for _, it := range p.props {
		out.Line("propdecl %s %s %s %s", "k:"+c16cps(it.name), c16cps(it.typ), "v:"+c16cps(it.value), "r:"+c16cps(it.ref))
	}
	for _, it := range p.headers {
		out.Line("hdrdecl %s %s %s", "k:"+c16cps(it.name), "v:"+c16cps(it.value), "r:"+c16cps(it.ref))
	}
	for _, r := range p.results {
		out.Line("resdecl %s", "k:"+c16cps(r))
	}
	for _, r := range p.outs {
		out.Line("outdecl %s", "k:"+c16cps(r))
	}
	engine := bpmn.NewEngine()
	ctx, cancel := context.WithTimeout(context.Background(), 10*time.Second)
	defer cancel()
	var run []c16running
	for i, in := range insts {
		out.Line("inst %d", i)
		for _, kv := range in.vars {
			out.Line("var %s %s", "k:"+c16cps(kv.k), strings.Join(kv.v.d, " "))
		}
		for _, kv := range in.objs {
			out.Line("obj %s %s", "k:"+c16cps(kv.k), strings.Join(kv.v.d, " "))
		}
		for _, kv := range in.results {
			out.Line("result %s %s", "k:"+c16cps(kv.k), strings.Join(kv.v.d, " "))
		}
		for _, kv := range in.dobjs {
			out.Line("dobj %s %s", "k:"+c16cps(kv.k), strings.Join(kv.v.d, " "))
		}
		opts := []bpmn.Option{bpmn.WithVariables(c16toMap(in.vars))}
		if len(in.objs) > 0 {
			opts = append(opts, bpmn.WithDataObjects(c16toMap(in.objs)))
		}
		ins, err := engine.NewProcess(&defs, opts...)
		if err != nil {
			out.Line("newerror %s", c16cps(err.Error()))
			return
		}
		run = append(run, c16running{ins, ins.Tracer().Subscribe()})
	}
	for _, r := range run {
		if err := r.ins.StartAll(ctx); err != nil {
			out.Line("starterror %s", c16cps(err.Error()))
			return
		}
	}
	for i, r := range run {
		out.Line("inst %d", i)
		done := false
	loop:
		for {
			select {
			case tr := <-r.traces:
				switch t := tracing.Unwrap(tr).(type) {
				case bpmn.TaskTrace:
					props := t.GetProperties()
					for _, k := range c16sortedKeys(props) {
						c16itemLine(out, "tprop", k, props[k], "")
					}
					hs := t.GetHeaders()
					for _, k := range c16sortedKeys(hs) {
						out.Line("thdr %s %s", "k:"+c16cps(k), "v:"+c16cps(hs[k]))
					}
					t.Do(bpmn.DoWithResults(c16toMap(insts[i].results)), bpmn.DoWithObjects(c16toMap(insts[i].dobjs)))
					stats["engine_tasks"]++
				case bpmn.CeaseFlowTrace:
					done = true
					break loop
				}
			case <-ctx.Done():
				break loop
			}
		}
		out.Line("done %d", rec.B(done))
		r.ins.Tracer().Unsubscribe(r.traces)
	}
	for i, r := range run {
		out.Line("inst %d", i)
		vars := r.ins.Locator().CloneVariables()
		for _, k := range c16sortedKeys(vars) {
			c16itemLine(out, "fvar", k, vars[k], "fback")
		}
		objs := r.ins.Locator().CloneItems(data.LocatorObject)
		for _, k := range c16sortedKeys(objs) {
			c16itemLine(out, "fobj", k, objs[k], "foback")
		}
	}
	stats["engine_instances"] += len(insts)
}

// c16declLines prints the declarations of the process.
func c16declLines(out *rec.Out, p c16proc) {
	for _, it := range p.props {
		out.Line("propdecl %s %s %s %s", "k:"+c16cps(it.name), c16cps(it.typ), "v:"+c16cps(it.value), "r:"+c16cps(it.ref))
	}
	for _, it := range p.headers {
		out.Line("hdrdecl %s %s %s", "k:"+c16cps(it.name), "v:"+c16cps(it.value), "r:"+c16cps(it.ref))
	}
	for _, r := range p.results {
		out.Line("resdecl %s", "k:"+c16cps(r))
	}
	for _, r := range p.outs {
		out.Line("outdecl %s", "k:"+c16cps(r))
	}
}

// c16sharedCase: instances created from ONE shared option slice must still own their variables and data
// objects. Instance 0 runs its task (declared results / data outputs), instance 1 is written to through
// Locator().SetVariable, instance 2 is created afterwards; then every instance is read.
func c16sharedCase(out *rec.Out, p c16proc, vars, objs, results0, dobjs0, setvar1 []c16kv, probe []string, stats map[string]int) {
	out.Begin("c16", "engine", "shared")
	defer func() {
		out.End()
		stats["cases"]++
		stats["engine_shared_option_cases"]++
	}()
	var defs schema.Definitions
	if err := xml.Unmarshal([]byte(p.xml()), &defs); err != nil {
		out.Line("xmlerror %s", c16cps(err.Error()))
		return
	}
	c16declLines(out, p)
	shared := []bpmn.Option{bpmn.WithVariables(c16toMap(vars)), bpmn.WithDataObjects(c16toMap(objs))}
	engine := bpmn.NewEngine()
	ctx, cancel := context.WithTimeout(context.Background(), 10*time.Second)
	defer cancel()
	var run []*bpmn.Process
	create := func(i int) bool {
		out.Line("inst %d", i)
		for _, kv := range vars {
			out.Line("var %s %s", "k:"+c16cps(kv.k), strings.Join(kv.v.d, " "))
		}
		for _, kv := range objs {
			out.Line("obj %s %s", "k:"+c16cps(kv.k), strings.Join(kv.v.d, " "))
		}
		// the slice is handed over with exact capacity, so that an append inside the engine cannot alias it
		ins, err := engine.NewProcess(&defs, shared[:len(shared):len(shared)]...)
		if err != nil {
			out.Line("newerror %s", c16cps(err.Error()))
			return false
		}
		run = append(run, ins)
		return true
	}
	if !create(0) || !create(1) {
		return
	}
	// instance 0 runs
	out.Line("inst 0")
	for _, kv := range results0 {
		out.Line("result %s %s", "k:"+c16cps(kv.k), strings.Join(kv.v.d, " "))
	}
	for _, kv := range dobjs0 {
		out.Line("dobj %s %s", "k:"+c16cps(kv.k), strings.Join(kv.v.d, " "))
	}
	traces := run[0].Tracer().Subscribe()
	if err := run[0].StartAll(ctx); err != nil {
		out.Line("starterror %s", c16cps(err.Error()))
		return
	}
	done := false
loop:
	for {
		select {
		case tr := <-traces:
			switch t := tracing.Unwrap(tr).(type) {
			case bpmn.TaskTrace:
				props := t.GetProperties()
				for _, k := range c16sortedKeys(props) {
					c16itemLine(out, "tprop", k, props[k], "")
				}
				hs := t.GetHeaders()
				for _, k := range c16sortedKeys(hs) {
					out.Line("thdr %s %s", "k:"+c16cps(k), "v:"+c16cps(hs[k]))
				}
				t.Do(bpmn.DoWithResults(c16toMap(results0)), bpmn.DoWithObjects(c16toMap(dobjs0)))
				stats["engine_tasks"]++
			case bpmn.CeaseFlowTrace:
				done = true
				break loop
			}
		case <-ctx.Done():
			break loop
		}
	}
	out.Line("done %d", rec.B(done))
	run[0].Tracer().Unsubscribe(traces)
	// instance 1 is written to directly
	out.Line("inst 1")
	for _, kv := range setvar1 {
		out.Line("setvar %s %s", "k:"+c16cps(kv.k), strings.Join(kv.v.d, " "))
		run[1].Locator().SetVariable(kv.k, kv.v.v)
	}
	// instance 2 is created after the others were used
	if !create(2) {
		return
	}
	for i, ins := range run {
		out.Line("inst %d", i)
		vs := ins.Locator().CloneVariables()
		for _, k := range c16sortedKeys(vs) {
			c16itemLine(out, "fvar", k, vs[k], "fback")
		}
		os := ins.Locator().CloneItems(data.LocatorObject)
		for _, k := range c16sortedKeys(os) {
			c16itemLine(out, "fobj", k, os[k], "foback")
		}
		for _, k := range probe {
			k, ins := k, ins
			out.Line("gvar %s", "k:"+c16cps(k))
			c16getLine(out, func() (any, bool) { return ins.Locator().GetVariable(k) })
		}
	}
	stats["engine_instances"] += len(run)
}

func c16engineCase(out *rec.Out, p c16proc, insts []c16instIn, stats map[string]int) {
	out.Begin("c16", "engine")
	c16runEngine(out, p, insts, stats)
	out.End()
	stats["cases"]++
	stats["engine_cases"]++
}

// ---- scenarios whose input kills the process when the value layer panics inside an engine goroutine

var c16crashScenarios = map[string]func() (c16proc, []c16instIn){
	"result_uint": func() (c16proc, []c16instIn) {
		return c16proc{results: []string{"r"}}, []c16instIn{{results: []c16kv{{"r", c16int("uint8", 0, 7)}}}}
	},
	"property_ref_nil_array": func() (c16proc, []c16instIn) {
		return c16proc{props: []c16item{{"p", "array", "", "$a.missing"}}},
			[]c16instIn{{vars: []c16kv{{"a", c16map(c16kv{"x", c16int("int", 1, 0)})}}}}
	},
	"property_ref_nil_object": func() (c16proc, []c16instIn) {
		return c16proc{props: []c16item{{"p", "object", "", "$a.missing"}}},
			[]c16instIn{{vars: []c16kv{{"a", c16map(c16kv{"x", c16int("int", 1, 0)})}}}}
	},
	"control_plain": func() (c16proc, []c16instIn) { // a scenario that must NOT crash
		return c16proc{results: []string{"r"}, props: []c16item{{"p", "string", "", "$a.x"}}},
			[]c16instIn{{vars: []c16kv{{"a", c16map(c16kv{"x", c16str("v")})}}, results: []c16kv{{"r", c16int("int", 7, 0)}}}}
	},
}

// c16childMain: when re-executed with VH_C16_CHILD=<scenario>, run that scenario and exit.
func c16childMain(out *rec.Out) bool {
	name := os.Getenv("VH_C16_CHILD")
	if name == "" {
		return false
	}
	sc, ok := c16crashScenarios[name]
	if !ok {
		os.Exit(3)
	}
	out.Only = 1 << 30 // mute
	p, insts := sc()
	out.Begin("c16", "engine")
	c16runEngine(out, p, insts, map[string]int{})
	out.End()
	os.Exit(0)
	return true
}

func c16crashCase(out *rec.Out, name string, stats map[string]int) {
	out.Begin("c16", "crash")
	p, insts := c16crashScenarios[name]()
	for _, it := range p.props {
		out.Line("propdecl %s %s %s %s", "k:"+c16cps(it.name), c16cps(it.typ), "v:"+c16cps(it.value), "r:"+c16cps(it.ref))
	}
	for _, r := range p.results {
		out.Line("resdecl %s", "k:"+c16cps(r))
	}
	out.Line("inst 0")
	for _, kv := range insts[0].vars {
		out.Line("var %s %s", "k:"+c16cps(kv.k), strings.Join(kv.v.d, " "))
	}
	for _, kv := range insts[0].results {
		out.Line("result %s %s", "k:"+c16cps(kv.k), strings.Join(kv.v.d, " "))
	}
	exe, err := os.Executable()
	crashed, why := 0, "-"
	if err != nil {
		why = "noexe"
	} else {
		cmd := exec.Command(exe, "c16")
		cmd.Env = append(os.Environ(), "VH_C16_CHILD="+name)
		outb, err := cmd.CombinedOutput()
		if err != nil {
			s := string(outb)
			if strings.Contains(s, "panic:") || strings.Contains(s, "goroutine ") {
				crashed = 1
				why = c16panicKind(s)
			} else {
				why = "exit_without_panic"
			}
		}
	}
	out.Line("crash %s %d %s", name, crashed, why)
	out.End()
	stats["cases"]++
	stats["engine_crash_scenarios"]++
	if crashed == 1 {
		stats["engine_crashes"]++
	}
}

// values the value layer accepts without a panic on the unchanged tree as well as after the repairs
func c16engineValue(rng *rec.Rng) c16gv {
	switch rng.Intn(9) {
	case 0:
		return c16int([]string{"int", "int8", "int16", "int32", "int64"}[rng.Intn(5)], int64(rng.U64()>>uint(rng.Intn(64)))-int64(rng.Intn(2000)), 0)
	case 1:
		return c16str([]string{"", "plain", "héllo ✓ 日本語 🎉", "q\"uo\\te\nnl", "12", "true", "[1]"}[rng.Intn(7)])
	case 2:
		return c16bool(rng.Bool())
	case 3:
		return c16f64([]float64{0, 1.5, -2.25, 1e-7, 0.1, 1e21, 123456.789, 1.5e300}[rng.Intn(8)])
	case 4:
		return c16struct(rng.Intn(100), "s", nil, int64(rng.Intn(9)), 0.5, []c16gv{c16str("x")}, uint16(rng.Intn(9)), rng.Bool())
	case 5:
		return c16ptr(c16int("int", int64(rng.Intn(100)), 0))
	default:
		return c16safeTree(rng, 1+rng.Intn(4))
	}
}

// random composite without top-level nil (nested nils are fine)
func c16safeTree(rng *rec.Rng, depth int) c16gv {
	for {
		g := c16randTree(rng, depth)
		if g.v != nil && g.d[0] != "nil" && !strings.HasPrefix(g.d[0], "i:uint") && !(g.d[0] == "p" && strings.HasPrefix(g.d[1], "i:uint")) {
			return g
		}
	}
}

func c16engine(out *rec.Out, rng *rec.Rng, tier string, stats map[string]int) {
	// a fixed, readable case first: variables of every kind, properties by value / by name / by reference
	// (present and absent paths), headers, declared and undeclared results, data objects, two instances
	p := c16proc{
		props: []c16item{
			{"lit", "integer", "41", ""}, {"byname", "string", "", ""}, {"bynameObj", "object", "", ""},
			{"present", "string", "", "$cfg.name"}, {"presentBool", "boolean", "", "$cfg.on"},
			{"presentArr", "array", "", "$cfg.list"}, {"presentObj", "object", "", "$cfg.sub"},
			{"absentVar", "string", "", "$nope.x"}, {"absentPath", "string", "", "$cfg.nope"},
			{"absentPathInt", "integer", "", "$cfg.nope.deeper"}, {"absentPathBool", "boolean", "", "$cfg.list.9"},
			{"malformed", "string", "", "cfg.name"},
		},
		headers: []c16item{{"h1", "string", "lit", ""}, {"h2", "string", "dflt", "$cfg.name"}, {"h3", "string", "dflt", "$cfg.nope"},
			{"h4", "string", "dflt", "$nope.x"}, {"h5", "string", "dflt", "$cfg.on"}},
		results: []string{"r1", "r2", "r3", "shared"},
		outs:    []string{"out1"},
	}
	cfgv := func(name string) c16gv {
		return c16map(c16kv{"name", c16str(name)}, c16kv{"on", c16bool(true)}, c16kv{"list", c16slice(c16str("l0"), c16int("int", 1, 0))},
			c16kv{"sub", c16map(c16kv{"k", c16str("v")})})
	}
	one := 1
	insts := []c16instIn{
		{vars: []c16kv{{"cfg", cfgv("alice")}, {"byname", c16str("from variable")}, {"bynameObj", c16map(c16kv{"m", c16int("int", 1, 0)})},
			{"shared", c16str("A")}, {"n8", c16int("int8", -128, 0)}, {"big", c16int("int64", 9223372036854775807, 0)},
			{"f", c16f64(1e-7)}, {"u", c16str("héllo ✓ 日本語 🎉")}, {"st", c16struct(1, "x", &one, 7, 0.25, []c16gv{c16nil()}, 9, true)},
			{"deep", c16nest(12, c16str("leaf"), true)}, {"pt", c16ptr(c16f64(2.5))}},
			objs: []c16kv{{"do1", c16map(c16kv{"a", c16str("ac")})}, {"do2", c16slice(c16int("int", 1, 0))}},
			results: []c16kv{{"r1", c16int("int", 1, 0)}, {"r2", c16map(c16kv{"z", c16slice(c16bool(false))})}, {"undeclared", c16str("dropped")},
				{"shared", c16str("A2")}},
			dobjs: []c16kv{{"out1", c16map(c16kv{"o", c16str("oo")})}, {"undeclaredOut", c16str("dropped")}}},
		{vars: []c16kv{{"cfg", cfgv("bob")}, {"shared", c16str("B")}, {"onlyB", c16int("int", 2, 0)}},
			results: []c16kv{{"r3", c16f64(0.1)}}},
	}
	c16engineCase(out, p, insts, stats)
	c16engineCase(out, p, insts[:1], stats)

	// instances created from one shared option slice (a reused []bpmn.Option; ProcessSet hands the same options
	// to every process it creates in the same way)
	sp := c16proc{props: []c16item{{"present", "string", "", "$cfg.name"}}, results: []string{"r1", "shared"}, outs: []string{"out1"}}
	c16sharedCase(out, sp,
		[]c16kv{{"cfg", cfgv("alice")}, {"shared", c16str("initial")}, {"n", c16int("int", 5, 0)}},
		[]c16kv{{"do1", c16map(c16kv{"a", c16str("ac")})}},
		[]c16kv{{"r1", c16int("int", 1, 0)}, {"shared", c16str("written by instance 0")}},
		[]c16kv{{"out1", c16map(c16kv{"o", c16str("oo")})}},
		[]c16kv{{"direct", c16str("written into instance 1")}, {"n", c16int("int", 6, 0)}},
		[]string{"cfg", "shared", "n", "r1", "direct", "absent"}, stats)
	c16sharedCase(out, c16proc{results: []string{"r"}}, []c16kv{{"v", c16bool(true)}}, nil,
		[]c16kv{{"r", c16str("x")}}, nil, []c16kv{{"w", c16bool(false)}}, []string{"v", "r", "w"}, stats)

	n := 12
	if tier == "thorough" {
		n = 150
	}
	names := []string{"a", "b", "cfg", "é", "v1", "shared"}
	for i := 0; i < n; i++ {
		var q c16proc
		q.results = []string{"a", "r", "shared"}
		// all declared item types x all supplied dynamic types: half of the cases declare their result fields with a type
		// drawn from every item type (the value answered is drawn independently of it)
		if i%2 == 1 {
			q.resTypes = map[string]string{}
			for _, r := range q.results {
				q.resTypes[r] = []string{"string", "integer", "float", "boolean", "array", "object"}[rng.Intn(6)]
				stats["result_field_type_"+q.resTypes[r]]++
			}
		}
		q.outs = []string{"o"}
		refs := []string{"$a.x", "$a.y.0", "$cfg.k", "$b.zz", "$é.k", "$missing.x", "$a", "a.x", "$v1.deep.k"}
		for j := 0; j < 1+rng.Intn(4); j++ {
			ty := []string{"string", "boolean", "integer"}[rng.Intn(3)]
			q.props = append(q.props, c16item{fmt.Sprintf("p%d", j), ty, "", refs[rng.Intn(len(refs))]})
		}
		for j := 0; j < rng.Intn(3); j++ {
			q.headers = append(q.headers, c16item{fmt.Sprintf("h%d", j), "string", "d", refs[rng.Intn(len(refs))]})
		}
		var is []c16instIn
		for k := 0; k < 1+rng.Intn(2); k++ {
			var in c16instIn
			seen := map[string]bool{}
			for j := 0; j < 1+rng.Intn(4); j++ {
				nm := names[rng.Intn(len(names))]
				if seen[nm] {
					continue
				}
				seen[nm] = true
				if rng.Intn(3) == 0 {
					in.vars = append(in.vars, c16kv{nm, c16refTree(rng, 3, []string{"x", "y", "0", "k", "deep", "zz"})})
				} else {
					in.vars = append(in.vars, c16kv{nm, c16engineValue(rng)})
				}
			}
			for _, r := range q.results {
				if rng.Bool() {
					in.results = append(in.results, c16kv{r, c16engineValue(rng)})
				}
			}
			if rng.Bool() {
				in.dobjs = append(in.dobjs, c16kv{"o", c16engineValue(rng)})
			}
			if rng.Bool() {
				in.objs = append(in.objs, c16kv{"d0", c16engineValue(rng)})
			}
			is = append(is, in)
		}
		c16engineCase(out, q, is, stats)
	}
	ns := 6
	if tier == "thorough" {
		ns = 60
	}
	for i := 0; i < ns; i++ {
		keys := []string{"a", "b", "é", "shared", "r", "w"}
		pick := func(n int) []c16kv {
			var kvs []c16kv
			seen := map[string]bool{}
			for j := 0; j < n; j++ {
				k := keys[rng.Intn(len(keys))]
				if !seen[k] {
					seen[k] = true
					kvs = append(kvs, c16kv{k, c16engineValue(rng)})
				}
			}
			return kvs
		}
		var objs, dobjs []c16kv
		if rng.Bool() {
			objs = []c16kv{{"d0", c16engineValue(rng)}}
		}
		if rng.Bool() {
			dobjs = []c16kv{{"o", c16engineValue(rng)}}
		}
		c16sharedCase(out, c16proc{results: []string{"a", "r", "shared"}, outs: []string{"o"}}, pick(1+rng.Intn(3)), objs,
			pick(1+rng.Intn(3)), dobjs, pick(1+rng.Intn(2)), keys, stats)
	}
	for _, name := range []string{"control_plain", "result_uint", "property_ref_nil_array", "property_ref_nil_object"} {
		c16crashCase(out, name, stats)
	}
}
