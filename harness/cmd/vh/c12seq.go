package main

import (
	"fmt"

	bpmn "github.com/olive-io/bpmn/v2"
	"github.com/olive-io/bpmn/v2/pkg/event"

	"verifharness/internal/eng"
	"verifharness/internal/rec"
)

// Family c12seq: several embedded sub-processes in ONE program, some of them not entered yet (or never) while end events
// elsewhere are reached — with the instance's events looped back to it (event ingress and egress on one fan-out: what
// model.New and an event-wired process set do) and without. A sub-process that has not been entered is not listening to
// anything: the events other parts of the instance raise must not touch it.
//
//	seq3    : s -> U0[T0] -> U1[T1] -> U2[T2] -> e
//	nest2   : s -> V[ U0[T0] ] -> U1[T1] -> e
//	choice  : s -> X ; X -[v == 1]-> U0[T0] -> M ; X -default-> U1[T1] -> M ; M -> Z -> e
//
// Recorded like a C01 case and replayed through the engine model.
func init() {
	caseFamilies["c12seq"] = &caseFamily{
		Shard: 1, Par: 6,
		Count: func(tier string) int { return 6 },
		Run: func(out *rec.Out, idx int, rng *rec.Rng, tier string, stats map[string]int) {
			c12seqRun(out, []string{"seq3", "nest2", "choice"}[idx/2], idx%2 == 0, stats)
		},
	}
}

func c12seqRun(out *rec.Out, shape string, loop bool, stats map[string]int) {
	g := eng.NewGraph()
	st := g.Add("startEvent", "s", "")
	en := g.Add("endEvent", "e", "")
	// wrapped: a sub-process around one task
	wrapped := func(id, task, parent string) *eng.Node {
		u := g.Add("subProcess", id, parent)
		us := g.Add("startEvent", id+"s", u.ID)
		t := g.Add("task", task, u.ID)
		ue := g.Add("endEvent", id+"e", u.ID)
		g.Connect(us, t, nil)
		g.Connect(t, ue, nil)
		return u
	}
	vars := map[string]int{"v": 1}
	switch shape {
	case "seq3":
		u0, u1, u2 := wrapped("U0", "T0", ""), wrapped("U1", "T1", ""), wrapped("U2", "T2", "")
		g.Connect(st, u0, nil)
		g.Connect(u0, u1, nil)
		g.Connect(u1, u2, nil)
		g.Connect(u2, en, nil)
	case "nest2":
		v := g.Add("subProcess", "V", "")
		vs := g.Add("startEvent", "Vs", v.ID)
		ve := g.Add("endEvent", "Ve", v.ID)
		u0 := wrapped("U0", "T0", v.ID)
		g.Connect(vs, u0, nil)
		g.Connect(u0, ve, nil)
		u1 := wrapped("U1", "T1", "")
		g.Connect(st, v, nil)
		g.Connect(v, u1, nil)
		g.Connect(u1, en, nil)
	default:
		x := g.Add("exclusiveGateway", "X", "")
		m := g.Add("exclusiveGateway", "M", "")
		z := g.Add("task", "Z", "")
		u0, u1 := wrapped("U0", "T0", ""), wrapped("U1", "T1", "")
		g.Connect(st, x, nil)
		g.Connect(x, u0, &eng.Cond{Op: "eq", Var: "v", K: 1})
		x.Default = g.Connect(x, u1, nil).ID
		g.Connect(u0, m, nil)
		g.Connect(u1, m, nil)
		g.Connect(m, z, nil)
		g.Connect(z, en, nil)
	}
	out.Begin("c12seq", shape, rec.B(loop))
	defer out.End()
	var opts []bpmn.Option
	if loop {
		fan := event.NewFanOut()
		opts = append(opts, bpmn.WithEventIngress(fan), bpmn.WithEventEgress(fan))
		stats["instances_with_their_events_looped_back"]++
	}
	in, defs, err := eng.Start(g.XML(), map[string]any{"v": 1}, opts...)
	if err != nil {
		out.Line("harness-error %v", err)
		return
	}
	for _, l := range eng.ProgLines(&(*defs.Processes())[0], g.CondRPN) {
		out.Line("prog %s", l)
	}
	out.Line("prog vars %s", fmtVars(vars))
	stats["cases"]++
	stats["shape_"+shape]++
	for steps := 0; steps < 12; steps++ {
		if !in.Quiesce(4 * timeSecond) {
			in.Note("obs noquiesce")
			break
		}
		p := in.Pending()
		if len(p) == 0 {
			break
		}
		in.AnswerOK(p[0], nil)
	}
	complete := in.WaitComplete(1500 * timeMillisecond)
	in.Quiesce(2 * timeSecond)
	for _, l := range in.Lines() {
		out.Line("%s", l)
	}
	out.Line("obs final complete=%d vars=%s", rec.B(complete), in.VarsAndObjects())
	in.Stop(2 * timeSecond)
	_ = fmt.Sprint
}
