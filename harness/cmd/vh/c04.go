package main

import (
	"context"
	"fmt"
	"reflect"

	"github.com/olive-io/bpmn/v2/pkg/expression"
	_ "github.com/olive-io/bpmn/v2/pkg/expression/expr"
	_ "github.com/olive-io/bpmn/v2/pkg/expression/xpath"

	"verifharness/internal/eng"
	"verifharness/internal/rec"
	"verifharness/internal/sched"
)

func init() {
	families["c04cond"] = c04cond
	caseFamilies["c04"] = &caseFamily{
		Shard: 1, Par: 12,
		Count: func(tier string) int { return len(c04cases(tier)) },
		Run: func(out *rec.Out, idx int, rng *rec.Rng, tier string, stats map[string]int) {
			c04run(out, c04cases(tier)[idx], rng, stats)
		},
	}
}

// c04host: ONE token decides at two exclusive gateways in a row; between the two decisions the HOST changes the variable
// the second decision reads (Process.Locator().SetVariable) — or a variable the first one reads, before it. "For the
// current variable values": each decision sees the values of the moment it is made.
func init() {
	caseFamilies["c04host"] = &caseFamily{
		Shard: 1, Par: 12,
		Count: func(tier string) int { return 16 },
		Run: func(out *rec.Out, idx int, rng *rec.Rng, tier string, stats map[string]int) {
			c04host(out, idx, rng, stats)
		},
	}
}

func c04host(out *rec.Out, idx int, rng *rec.Rng, stats map[string]int) {
	w0, w1 := idx&1, (idx>>1)&1 // value of w at the start / set by the host
	when := (idx >> 2) & 1      // 0: host writes while the token waits at R (right before the second decision); 1: while it waits at B
	early := (idx >> 3) & 1     // 1: the host also flips b before the FIRST decision
	g := eng.NewGraph()
	st := g.Add("startEvent", "start", "")
	a := g.Add("task", "A", "")
	x1 := g.Add("exclusiveGateway", "X1", "")
	b0, b1 := g.Add("task", "B0", ""), g.Add("task", "B1", "")
	m := g.Add("exclusiveGateway", "M", "")
	r := g.Add("task", "R", "")
	x2 := g.Add("exclusiveGateway", "X2", "")
	c0, c1 := g.Add("task", "C0", ""), g.Add("task", "C1", "")
	en := g.Add("endEvent", "end", "")
	g.Connect(st, a, nil)
	g.Connect(a, x1, nil)
	g.Connect(x1, b0, &eng.Cond{Op: "eq", Var: "b", K: 1})
	x1.Default = g.Connect(x1, b1, nil).ID
	g.Connect(b0, m, nil)
	g.Connect(b1, m, nil)
	g.Connect(m, r, nil)
	g.Connect(r, x2, nil)
	g.Connect(x2, c0, &eng.Cond{Op: "eq", Var: "w", K: 1})
	x2.Default = g.Connect(x2, c1, nil).ID
	g.Connect(c0, en, nil)
	g.Connect(c1, en, nil)
	out.Begin("c04host", w0, w1, when, early)
	defer out.End()
	vars := map[string]int{"b": 0, "w": w0}
	in, defs, err := eng.Start(g.XML(), map[string]any{"b": 0, "w": w0})
	if err != nil {
		out.Line("harness-error %v", err)
		return
	}
	for _, l := range eng.ProgLines(&(*defs.Processes())[0], g.CondRPN) {
		out.Line("prog %s", l)
	}
	out.Line("prog vars %s", fmtVars(vars))
	stats["cases"]++
	for steps := 0; steps < 12; steps++ {
		if !in.Quiesce(4 * timeSecond) {
			in.Note("obs noquiesce")
			break
		}
		p := in.Pending()
		if len(p) == 0 {
			break
		}
		q := p[0]
		switch {
		case q.Node == "A" && early == 1:
			in.SetVar("b", 1)
			stats["host_writes"]++
		case (q.Node == "B0" || q.Node == "B1") && when == 1, q.Node == "R" && when == 0:
			in.SetVar("w", w1)
			stats["host_writes"]++
		}
		in.AnswerOK(q, nil)
	}
	complete := in.WaitComplete(300 * timeMillisecond)
	in.Quiesce(2 * timeSecond)
	for _, l := range in.Lines() {
		out.Line("%s", l)
	}
	out.Line("obs final complete=%d vars=%s", rec.B(complete), in.Vars())
	in.Stop(2 * timeSecond)
}

type c04case struct {
	c      int // conditional flows
	defPos int // -1 none, else position of the default flow in the outgoing list (0..c)
	truth  int // bit i = condition i true
	toks   int // tokens arriving concurrently
	conc   int // 0: the upstream tasks are answered one at a time; 1: all at once; 2: all at once, schedule points perturbed
}

func c04cases(tier string) []c04case {
	var cs []c04case
	for c := 1; c <= 4; c++ {
		for d := -1; d <= c; d++ {
			for tr := 0; tr < 1<<c; tr++ {
				for k := 1; k <= 3; k++ {
					if tier != "thorough" && c == 4 && (tr+d+k)%3 != 0 {
						continue
					}
					if k == 1 {
						cs = append(cs, c04case{c, d, tr, k, 0})
						continue
					}
					// several tokens: one at a time, all at once, and all at once under perturbation (the probing report of
					// one token racing the next-action message of another)
					cs = append(cs, c04case{c, d, tr, k, 0}, c04case{c, d, tr, k, 1}, c04case{c, d, tr, k, 2})
				}
			}
		}
	}
	return cs
}

func c04run(out *rec.Out, c c04case, rng *rec.Rng, stats map[string]int) {
	g := eng.NewGraph()
	x := g.Add("exclusiveGateway", "X", "")
	vars := map[string]int{}
	ci := 0
	nOut := c.c
	if c.defPos >= 0 {
		nOut++
	}
	en := g.Add("endEvent", "end", "")
	drng := rng.Fork()
	if (c.c+c.truth)%4 == 0 {
		// first in the list: a flow whose condition reads a variable that no instance of this document defines — false
		bu := g.Add("task", "BU", "")
		g.Connect(x, bu, &eng.Cond{Op: "eq", Var: "vu", K: 1})
		g.Connect(bu, en, nil)
		stats["conditions_on_an_undefined_variable"]++
	}
	for j := 0; j < nOut; j++ {
		b := g.Add("task", fmt.Sprintf("B%d", j), "")
		if j == c.defPos {
			// a default flow may carry a condition of its own; it is ignored (the flow is taken because it is the default)
			var dc *eng.Cond
			switch drng.Intn(3) {
			case 1:
				vars["bd"] = 0
				dc = &eng.Cond{Op: "eq", Var: "bd", K: 1}
				stats["default_with_false_condition"]++
			case 2:
				vars["bd"] = 1
				dc = &eng.Cond{Op: "eq", Var: "bd", K: 1}
				stats["default_with_true_condition"]++
			}
			f := g.Connect(x, b, dc)
			x.Default = f.ID
		} else {
			v := fmt.Sprintf("b%d", ci)
			if (c.c+c.truth+c.toks)%2 == 0 {
				vars[v] = (c.truth >> ci) & 1
				g.Connect(x, b, &eng.Cond{Op: "eq", Var: v, K: 1})
			} else {
				// `b < 1`: the same source text in the expr language and in XPath
				vars[v] = 1 - (c.truth>>ci)&1
				g.Connect(x, b, &eng.Cond{Op: "lt", Var: v, K: 1})
			}
			ci++
		}
		g.Connect(b, en, nil)
	}
	st := g.Add("startEvent", "start", "")
	if c.toks == 1 {
		a := g.Add("task", "A0", "")
		g.Connect(st, a, nil)
		g.Connect(a, x, nil)
	} else {
		f := g.Add("parallelGateway", "fork", "")
		g.Connect(st, f, nil)
		// half of the concurrent cases: the tokens meet in a MERGING exclusive gateway first and reach the gateway under
		// test over ONE incoming flow — more tokens probing it at once than it has incoming flows
		into := x
		if c.conc > 0 && (c.c+c.toks+c.truth)%2 == 1 {
			m := g.Add("exclusiveGateway", "M", "")
			g.Connect(m, x, nil)
			into = m
			stats["tokens_over_one_incoming_flow"]++
		}
		for i := 0; i < c.toks; i++ {
			a := g.Add("task", fmt.Sprintf("A%d", i), "")
			g.Connect(f, a, nil)
			g.Connect(a, into, nil)
		}
	}
	// a third of the single-token cases are written in XPath (the definitions' expression language and every condition)
	g.XPath = c.toks == 1 && (c.c+c.defPos+c.truth)%3 == 0
	if g.XPath {
		stats["xpath_definitions"]++
	}
	// a quarter of the single-token cases with several conditions MIX the languages inside one gateway: every second
	// condition names the other language in its own `language` attribute (each condition is evaluated in ITS language)
	if c.toks == 1 && c.c >= 2 && (c.c+c.truth+c.defPos)%4 == 1 {
		k := 0
		for _, fl := range g.Flows {
			if fl.Src == x.ID && fl.Cond != nil && fl.ID != x.Default {
				if k%2 == 1 {
					if g.XPath {
						fl.Cond.Lang = "expr"
					} else {
						fl.Cond.Lang = "xpath"
					}
				}
				k++
			}
		}
		stats["gateways_mixing_expression_languages"]++
	}
	out.Begin("c04", c.c, c.defPos, c.truth, c.toks, c.conc, rec.B(g.XPath))
	defer out.End()
	if c.conc == 2 {
		ctl := sched.Install()
		ctl.Perturb(rng.Fork().U64(), 2)
		defer ctl.Remove()
		stats["perturbed"]++
	}
	anyVars := map[string]any{}
	for k, v := range vars {
		anyVars[k] = v
	}
	if sh := rng.Fork(); sh.Intn(2) == 0 { // forked stream: one draw of the case's stream whatever the graph size
		g.ShuffleDecl(sh.Intn)
		stats["shuffled_declaration_order"]++
	}
	if c.toks == 1 && (c.c+c.defPos)%2 == 0 {
		// the SAME document in the OTHER expression language ran earlier in this program (same ids, and for the `<`
		// conditions the same source text): nothing of it may be left when the document under test runs
		// … in both languages, with one more variable (`vu`) that no instance of the document under test defines
		earlier := map[string]any{"vu": 1}
		for k, v := range anyVars {
			earlier[k] = v
		}
		for pass := 0; pass < 2; pass++ {
			g.XPath = !g.XPath
			decoy := g.XML()
			if in0, _, err := eng.Start(decoy, earlier); err == nil {
				for k := 0; k < 4 && in0.Quiesce(2*timeSecond); k++ {
					p0 := in0.Pending()
					if len(p0) == 0 {
						break
					}
					in0.AnswerOK(p0[0], nil)
				}
				in0.Stop(2 * timeSecond)
			}
		}
		stats["cases_after_the_same_document_in_the_other_language"]++
	}
	in, defs, err := eng.Start(g.XML(), anyVars)
	if err != nil {
		out.Line("harness-error %v", err)
		return
	}
	for _, l := range eng.ProgLines(&(*defs.Processes())[0], g.CondRPN) {
		out.Line("prog %s", l)
	}
	out.Line("prog vars %s", fmtVars(vars))
	stats["cases"]++
	stats[fmt.Sprintf("flows%d_def%d_toks%d", c.c, rec.B(c.defPos >= 0), c.toks)]++
	// answer the upstream tasks: either one at a time at quiescence, or all at once (concurrent arrival)
	in.Quiesce(4 * timeSecond)
	concurrent := c.conc > 0 && c.toks > 1
	if concurrent {
		stats["concurrent_arrival"]++
		ps := in.Pending()
		for i, q := range ps {
			in.NoWait = i < len(ps)-1
			in.AnswerOK(q, nil)
		}
		in.NoWait = false
	}
	for steps := 0; steps < 40; steps++ {
		if !in.Quiesce(4 * timeSecond) {
			in.Note("obs noquiesce")
			break
		}
		p := in.Pending()
		if len(p) == 0 {
			break
		}
		in.AnswerOK(p[rng.Intn(len(p))], nil)
	}
	complete := in.WaitComplete(300 * timeMillisecond)
	in.Quiesce(2 * timeSecond)
	for _, l := range in.Lines() {
		out.Line("%s", l)
	}
	out.Line("obs final complete=%d vars=%s", rec.B(complete), in.Vars())
	in.Stop(2 * timeSecond)
}

// ---- condition differential: the two printers of eng.Cond against both expression engines

func xpathExpr(c *eng.Cond) string {
	switch c.Op {
	case "true":
		return "true()"
	case "false":
		return "false()"
	case "eq":
		return fmt.Sprintf("%s = %d", c.Var, c.K)
	case "ne":
		return fmt.Sprintf("%s != %d", c.Var, c.K)
	case "lt":
		return fmt.Sprintf("%s < %d", c.Var, c.K)
	case "and":
		return "(" + xpathExpr(c.L) + ") and (" + xpathExpr(c.R) + ")"
	case "or":
		return "(" + xpathExpr(c.L) + ") or (" + xpathExpr(c.R) + ")"
	case "not":
		return "not(" + xpathExpr(c.L) + ")"
	case "nonbool":
		return fmt.Sprintf("%s + %d", c.Var, c.K)
	}
	return "true()"
}

func randCond(rng *rec.Rng, depth int, vars []string) *eng.Cond {
	v := vars[rng.Intn(len(vars))]
	k := rng.Intn(4)
	if depth > 0 && rng.Intn(3) == 0 {
		switch rng.Intn(3) {
		case 0:
			return &eng.Cond{Op: "and", L: randCond(rng, depth-1, vars), R: randCond(rng, depth-1, vars)}
		case 1:
			return &eng.Cond{Op: "or", L: randCond(rng, depth-1, vars), R: randCond(rng, depth-1, vars)}
		default:
			return &eng.Cond{Op: "not", L: randCond(rng, depth-1, vars)}
		}
	}
	top := depth == 3
	nk := 8
	if top {
		nk = 9
	}
	switch rng.Intn(nk) {
	case 0:
		return &eng.Cond{Op: "true"}
	case 1:
		return &eng.Cond{Op: "false"}
	case 2, 3:
		return &eng.Cond{Op: "eq", Var: v, K: k}
	case 4, 5:
		return &eng.Cond{Op: "ne", Var: v, K: k}
	case 6, 7:
		return &eng.Cond{Op: "lt", Var: v, K: k}
	default:
		return &eng.Cond{Op: "nonbool", Var: v, K: k}
	}
}

func evalWith(lang, src string, vars map[string]any) (res string) {
	defer func() {
		if r := recover(); r != nil {
			res = "panic"
		}
	}()
	e := expression.GetEngine(context.Background(), lang)
	compiled, err := e.CompileExpression(src)
	if err != nil {
		return "error"
	}
	r, err := e.EvaluateExpression(compiled, vars)
	if err != nil {
		return "error"
	}
	if b, ok := r.(bool); ok {
		if b {
			return "yes"
		}
		return "no"
	}
	_ = reflect.TypeOf(r)
	return "nonbool"
}

func c04cond(out *rec.Out, rng *rec.Rng, tier string, stats map[string]int) {
	n := 3000
	if tier == "thorough" {
		n = 40000
	}
	names := []string{"v0", "v1", "v2"}
	for i := 0; i < n; i++ {
		use := names
		if i%2 == 1 { // a single variable: the configuration in which the XPath engine sees its variable
			use = names[:1]
		}
		c := randCond(rng, 3, use)
		vars := map[string]int{}
		anyVars := map[string]any{}
		for _, v := range use {
			vars[v] = rng.Intn(4)
			anyVars[v] = vars[v]
		}
		out.Begin("c04cond")
		out.Line("cond %s", c.RPN())
		out.Line("vars %s", fmtVars(vars))
		r1 := evalWith("https://github.com/expr-lang/expr", c.Expr(), anyVars)
		r2 := evalWith("http://www.w3.org/1999/XPath", xpathExpr(c), anyVars)
		out.Line("expr %s", r1)
		out.Line("xpath %s", r2)
		out.End()
		stats["cases"]++
		stats["expr_"+r1]++
		stats["xpath_"+r2]++
	}
}
