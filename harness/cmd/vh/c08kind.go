package main

import (
	"context"
	"fmt"
	"time"

	"github.com/olive-io/bpmn/schema"
	bpmn "github.com/olive-io/bpmn/v2"
	"github.com/olive-io/bpmn/v2/pkg/tracing"

	"verifharness/internal/rec"
)

// Family c08kind: A DECLARED RESULT CHANGES THE KIND OF ITS VALUE during a run. Task T1 stores `status` with a value of one
// kind, the token passes a gateway (any condition), task T2 stores `status` again with a value of ANOTHER kind, and the
// second gateway's condition reads it in a way that fits the new kind. The second store is visible to that condition like
// the first was to the first: the token ends at `endDone`, no error trace.
//
//	start -> T1 -> X1 -[n < 1]-> T2 -> X2 -[<cond on status>]-> endDone ; X1 -default-> endEarly ; X2 -default-> endOther
func init() {
	caseFamilies["c08kind"] = &caseFamily{
		Shard: 1, Par: 6,
		Count: func(tier string) int { return len(c08kindCases) },
		Run: func(out *rec.Out, idx int, rng *rec.Rng, tier string, stats map[string]int) {
			c08kindRun(out, idx, c08kindCases[idx], stats)
		},
	}
}

type c08kindCase struct {
	name   string
	first  any
	second any
	cond   string
}

var c08kindCases = []c08kindCase{
	{"int_then_string", 0, "done", `status == "done"`},
	{"string_then_int", "new", 5, `status == 5`},
	{"bool_then_string", true, "done", `status == "done"`},
	{"int_then_bool", 1, true, `status == true`},
	{"string_then_string", "new", "done", `status == "done"`}, // control: the kind stays
	{"float_then_string", 1.5, "done", `status == "done"`},
	{"string_then_list", "new", []any{1, 2}, `len(status) == 2`},
}

func c08kindRun(out *rec.Out, idx int, c c08kindCase, stats map[string]int) {
	doc := `<?xml version="1.0" encoding="UTF-8"?>
<bpmn:definitions xmlns:bpmn="http://www.omg.org/spec/BPMN/20100524/MODEL" xmlns:olive="http://olive.io/spec/BPMN/MODEL" xmlns:xsi="http://www.w3.org/2001/XMLSchema-instance" id="defs" targetNamespace="http://bpmn.io/schema/bpmn" expressionLanguage="https://github.com/expr-lang/expr">
<bpmn:process id="proc" isExecutable="true">
<bpmn:startEvent id="start"><bpmn:outgoing>f1</bpmn:outgoing></bpmn:startEvent>
<bpmn:serviceTask id="T1"><bpmn:extensionElements><olive:results><olive:field name="status"/></olive:results></bpmn:extensionElements><bpmn:incoming>f1</bpmn:incoming><bpmn:outgoing>f2</bpmn:outgoing></bpmn:serviceTask>
<bpmn:exclusiveGateway id="X1" default="f4"><bpmn:incoming>f2</bpmn:incoming><bpmn:outgoing>f3</bpmn:outgoing><bpmn:outgoing>f4</bpmn:outgoing></bpmn:exclusiveGateway>
<bpmn:serviceTask id="T2"><bpmn:extensionElements><olive:results><olive:field name="status"/></olive:results></bpmn:extensionElements><bpmn:incoming>f3</bpmn:incoming><bpmn:outgoing>f5</bpmn:outgoing></bpmn:serviceTask>
<bpmn:exclusiveGateway id="X2" default="f7"><bpmn:incoming>f5</bpmn:incoming><bpmn:outgoing>f6</bpmn:outgoing><bpmn:outgoing>f7</bpmn:outgoing></bpmn:exclusiveGateway>
<bpmn:endEvent id="endDone"><bpmn:incoming>f6</bpmn:incoming></bpmn:endEvent>
<bpmn:endEvent id="endOther"><bpmn:incoming>f7</bpmn:incoming></bpmn:endEvent>
<bpmn:endEvent id="endEarly"><bpmn:incoming>f4</bpmn:incoming></bpmn:endEvent>
<bpmn:sequenceFlow id="f1" sourceRef="start" targetRef="T1"/>
<bpmn:sequenceFlow id="f2" sourceRef="T1" targetRef="X1"/>
<bpmn:sequenceFlow id="f3" sourceRef="X1" targetRef="T2"><bpmn:conditionExpression xsi:type="bpmn:tFormalExpression">n &lt; 1</bpmn:conditionExpression></bpmn:sequenceFlow>
<bpmn:sequenceFlow id="f4" sourceRef="X1" targetRef="endEarly"/>
<bpmn:sequenceFlow id="f5" sourceRef="T2" targetRef="X2"/>
<bpmn:sequenceFlow id="f6" sourceRef="X2" targetRef="endDone"><bpmn:conditionExpression xsi:type="bpmn:tFormalExpression">` + xmlEscText(c.cond) + `</bpmn:conditionExpression></bpmn:sequenceFlow>
<bpmn:sequenceFlow id="f7" sourceRef="X2" targetRef="endOther"/>
</bpmn:process>
</bpmn:definitions>
`
	out.Begin("c08kind", idx, c.name)
	defer out.End()
	defs, err := schema.Parse([]byte(doc))
	if err != nil {
		out.Line("harness-error %v", err)
		return
	}
	ctx, cancel := context.WithCancel(context.Background())
	defer cancel()
	proc, err := bpmn.NewEngine(bpmn.WithEngineContext(ctx)).NewProcess(defs, bpmn.WithContext(ctx), bpmn.WithVariables(map[string]any{"n": 0}))
	if err != nil {
		out.Line("harness-error %v", err)
		return
	}
	stats["cases"]++
	stats["kinds_"+c.name]++
	ch := proc.Tracer().SubscribeChannel(make(chan tracing.ITrace, 1024))
	if err := proc.StartAll(ctx); err != nil {
		out.Line("harness-error %v", err)
		return
	}
	deadline := time.After(8 * time.Second)
	for {
		select {
		case tr := <-ch:
			switch x := tracing.Unwrap(tr).(type) {
			case bpmn.TaskTrace:
				id, _ := x.GetActivity().Element().Id()
				v := c.first
				if *id == "T2" {
					v = c.second
				}
				out.Line("op answer %s status=%T", *id, v)
				x.Do(bpmn.DoWithResults(map[string]any{"status": v}))
			case bpmn.ErrorTrace:
				out.Line("obs error %s", fmt.Sprintf("%.80q", x.Error.Error()))
			case bpmn.CompletionTrace:
				if id, ok := x.Node.Id(); ok {
					out.Line("obs end %s", *id)
				}
			case bpmn.CeaseFlowTrace:
				out.Line("obs cease")
				return
			}
		case <-deadline:
			out.Line("obs timeout")
			return
		}
	}
}

func xmlEscText(s string) string {
	r := ""
	for _, ch := range s {
		switch ch {
		case '<':
			r += "&lt;"
		case '>':
			r += "&gt;"
		case '&':
			r += "&amp;"
		default:
			r += string(ch)
		}
	}
	return r
}
