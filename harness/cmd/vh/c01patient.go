package main

import (
	"time"

	"verifharness/internal/eng"
	"verifharness/internal/rec"
)

// Family c01patient (C01, C03, C05): PATIENCE. One program in which tokens wait at a parallel join, at an inclusive join,
// inside an embedded sub-process and at plain tasks — all at the same time — while the driver does nothing for a little
// over six seconds of real time. Waiting is not an event: nothing may be requested again, released or given up because
// time passes. Afterwards the run goes on and is judged like every C01 run.
func init() {
	caseFamilies["c01patient"] = &caseFamily{
		Shard: 1, Par: 12,
		Count: func(tier string) int { return 2 },
		Run:   c01patient,
	}
}

func c01patient(out *rec.Out, idx int, rng *rec.Rng, tier string, stats map[string]int) {
	g := eng.NewGraph()
	b1 := g.Task("task", "T1", "")
	sub := g.SubBegin("")
	b2 := g.SubEnd(sub, g.Task("serviceTask", "T3", sub.ID))
	b3 := g.Task("userTask", "T4", "")
	par := g.Split("parallelGateway", "parallelGateway", "", []eng.Frag{b1, b2, b3}, nil, -1)
	inc := g.Split("inclusiveGateway", "inclusiveGateway", "", []eng.Frag{g.Task("task", "T5", ""), g.Task("task", "T6", "")},
		[]*eng.Cond{{Op: "eq", Var: "v0", K: 1}, {Op: "lt", Var: "v0", K: 5}}, -1)
	g.Wrap(g.Seq(par, inc, g.Task("task", "T9", "")))
	out.Begin("c01patient", idx)
	defer out.End()
	in, defs, err := eng.Start(g.XML(), map[string]any{"v0": 1})
	if err != nil {
		out.Line("harness-error %v", err)
		return
	}
	for _, l := range eng.ProgLines(&(*defs.Processes())[0], g.CondRPN) {
		out.Line("prog %s", l)
	}
	out.Line("prog vars v0=1")
	stats["cases"]++
	answer := func(node string) bool {
		if !in.Quiesce(4 * time.Second) {
			in.Note("obs noquiesce")
			return false
		}
		for _, q := range in.Pending() {
			if q.Node == node {
				in.AnswerOK(q, nil)
				return true
			}
		}
		return false
	}
	idle := func() {
		in.Quiesce(4 * time.Second)
		wait := 6200 * time.Millisecond
		time.Sleep(wait)
		stats["idle_ms_with_tokens_waiting"] += int(wait / time.Millisecond)
	}
	if idx%2 == 0 {
		// a token waits at the PARALLEL join, another inside the sub-process, a third at a task
		answer("T1")
		idle()
		for _, n := range []string{"T3", "T4", "T5", "T6", "T9"} {
			answer(n)
		}
	} else {
		// a token waits at the INCLUSIVE join while its sibling's task is pending
		for _, n := range []string{"T4", "T1", "T3", "T6"} {
			answer(n)
		}
		idle()
		answer("T5")
		answer("T9")
	}
	complete := in.WaitComplete(1500 * time.Millisecond)
	in.Quiesce(2 * time.Second)
	for _, l := range in.Lines() {
		out.Line("%s", l)
	}
	out.Line("obs final complete=%d vars=%s", rec.B(complete), in.Vars())
	in.Stop(2 * time.Second)
}
