package main

import (
	"fmt"

	bpmn "github.com/olive-io/bpmn/v2"

	"verifharness/internal/eng"
	"verifharness/internal/rec"
	"verifharness/internal/sched"
)

func init() {
	families["c03fn"] = c03fn
	// bursts: k activations of one join back to back, nothing but gateways between the fork and the join, so that the
	// arrivals of activation i+1 are processed while the tokens of activation i are still picking up their actions
	caseFamilies["c03burst"] = &caseFamily{
		Shard: 1, Par: 12,
		Count: func(tier string) int {
			if tier == "thorough" {
				return 240
			}
			return 36
		},
		Run: c03burst,
	}
	caseFamilies["c03"] = &caseFamily{
		Shard: 1, Par: 12,
		Count: func(tier string) int { return len(c03cases(tier)) },
		Run: func(out *rec.Out, idx int, rng *rec.Rng, tier string, stats map[string]int) {
			c := c03cases(tier)[idx]
			c03run(out, c, rng, stats)
		},
	}
}

// function differential of distributeFlows, exhaustive for a, s ≤ 12
func c03fn(out *rec.Out, rng *rec.Rng, tier string, stats map[string]int) {
	max := 12
	if tier == "thorough" {
		max = 40
	}
	for a := 0; a <= max; a++ {
		for s := 0; s <= max; s++ {
			out.Begin("c03fn", a, s)
			rs, unc := bpmn.VerifDistribute(a, s)
			for _, r := range rs {
				out.Line("reply %d %d", r[0], r[1])
			}
			out.Line("unconditional %d", rec.B(unc))
			out.End()
			stats["cases"]++
		}
	}
}

type c03case struct {
	n, m int
	perm []int // order in which the n upstream tasks are answered
	acts int   // consecutive activations (loop iterations)
	// dup: PARALLEL EDGES into the join — 1: the first upstream task has two outgoing flows, both into the join (its token
	// arrives twice, over two different incoming flows from one source node); 2: two further flows lead straight from the
	// fork to the join (empty branches). The join has n+1 / n+2 incoming flows and waits for a token on each.
	dup int
}

func perms(n int) [][]int {
	if n == 0 {
		return [][]int{{}}
	}
	var out [][]int
	for _, p := range perms(n - 1) {
		for i := 0; i <= len(p); i++ {
			q := append(append(append([]int{}, p[:i]...), n-1), p[i:]...)
			out = append(out, q)
		}
	}
	return out
}

func c03cases(tier string) []c03case {
	var cs []c03case
	for n := 1; n <= 4; n++ {
		ps := perms(n)
		for m := 1; m <= 4; m++ {
			for acts := 1; acts <= 3; acts++ {
				for k, p := range ps {
					// quick: every N×M×activations with a third of the permutations; thorough: all
					if tier != "thorough" && n == 4 && k%3 != acts%3 {
						continue
					}
					cs = append(cs, c03case{n, m, p, acts, 0})
					if k == 0 && n <= 3 && m <= 2 && acts <= 2 {
						cs = append(cs, c03case{n, m, p, acts, 1}, c03case{n, m, p, acts, 2})
					}
				}
			}
		}
	}
	return cs
}

// start → [loop merge] → fork(1→N) → U1..UN → join(N→M) → D1..DM → merge(xor) → [loop split] → end
func c03run(out *rec.Out, c c03case, rng *rec.Rng, stats map[string]int) {
	g := eng.NewGraph()
	fork := g.Add("parallelGateway", "fork", "")
	join := g.Add("parallelGateway", "join", "")
	for i := 0; i < c.n; i++ {
		u := g.Add("task", fmt.Sprintf("U%d", i), "")
		g.Connect(fork, u, nil)
		g.Connect(u, join, nil)
	}
	merge := g.Add("exclusiveGateway", "merge", "")
	for j := 0; j < c.m; j++ {
		d := g.Add("task", fmt.Sprintf("D%d", j), "")
		g.Connect(join, d, nil)
		g.Connect(d, merge, nil)
	}
	// the M tokens after the join are merged again by a parallel gateway so that one token loops
	sync := g.Add("parallelGateway", "sync", "")
	// merge (xor) passes each token on; sync needs M tokens: connect merge→sync M times is not possible with
	// one flow, so D_j connect straight to sync instead
	_ = merge
	g.Nodes = g.Nodes[:0]
	g = eng.NewGraph()
	// conditions on sequence flows LEAVING a parallel gateway are not evaluated: every outgoing flow gets its token
	crng := rng.Fork()
	cmode := crng.Intn(3) // 0 none, 1 a false condition on every such flow, 2 on some
	pc := func() *eng.Cond {
		if cmode == 0 || (cmode == 2 && crng.Intn(2) == 0) {
			return nil
		}
		return &eng.Cond{Op: "eq", Var: "pf", K: 1}
	}
	fork = g.Add("parallelGateway", "fork", "")
	join = g.Add("parallelGateway", "join", "")
	sync = g.Add("parallelGateway", "sync", "")
	for i := 0; i < c.n; i++ {
		u := g.Add("task", fmt.Sprintf("U%d", i), "")
		g.Connect(fork, u, pc())
		g.Connect(u, join, nil)
		if c.dup == 1 && i == 0 {
			g.Connect(u, join, nil)
		}
	}
	if c.dup == 2 {
		g.Connect(fork, join, pc())
		g.Connect(fork, join, pc())
	}
	for j := 0; j < c.m; j++ {
		d := g.Add("task", fmt.Sprintf("D%d", j), "")
		g.Connect(join, d, pc())
		g.Connect(d, sync, nil)
	}
	lt := g.Task("task", "L", "", "c1")
	g.Connect(sync, lt.Entry, pc())
	body := eng.Frag{Entry: fork, Exit: lt.Exit}
	loop := g.Loop("", body, &eng.Cond{Op: "lt", Var: "c1", K: c.acts})
	g.Wrap(loop)

	out.Begin("c03", c.n, c.m, c.acts, c.dup)
	if c.dup > 0 {
		stats["joins_with_parallel_edges"]++
	}
	defer out.End()
	in, defs, err := eng.Start(g.XML(), map[string]any{"c1": 0, "pf": 0})
	if err != nil {
		out.Line("harness-error %v", err)
		return
	}
	for _, l := range eng.ProgLines(&(*defs.Processes())[0], g.CondRPN) {
		out.Line("prog %s", l)
	}
	out.Line("prog vars c1=0,pf=0")
	stats["cases"]++
	stats[fmt.Sprintf("parallel_outgoing_conditions_mode%d", cmode)]++
	stats[fmt.Sprintf("n%d_m%d", c.n, c.m)]++
	find := func(node string) *eng.Req {
		for _, q := range in.Pending() {
			if q.Node == node {
				return q
			}
		}
		return nil
	}
	ok := true
	for act := 1; act <= c.acts && ok; act++ {
		for _, i := range c.perm {
			if !in.Quiesce(4 * timeSecond) {
				in.Note("obs noquiesce")
				ok = false
				break
			}
			q := find(fmt.Sprintf("U%d", i))
			if q == nil {
				ok = false
				break
			}
			in.AnswerOK(q, nil)
		}
		// downstream tasks in a seeded order
		order := rng.Intn(2)
		for j := 0; j < c.m && ok; j++ {
			if !in.Quiesce(4 * timeSecond) {
				in.Note("obs noquiesce")
				ok = false
				break
			}
			jj := j
			if order == 1 {
				jj = c.m - 1 - j
			}
			q := find(fmt.Sprintf("D%d", jj))
			if q == nil {
				ok = false
				break
			}
			in.AnswerOK(q, nil)
		}
		if ok {
			in.Quiesce(4 * timeSecond)
			if q := find("L"); q != nil {
				in.AnswerOK(q, map[string]int{"c1": act})
			} else {
				ok = false
			}
		}
	}
	complete := false
	if ok {
		in.Quiesce(4 * timeSecond)
		complete = in.WaitComplete(1500 * timeMillisecond)
	}
	in.Quiesce(2 * timeSecond)
	for _, l := range in.Lines() {
		out.Line("%s", l)
	}
	out.Line("obs final complete=%d vars=%s", rec.B(complete), in.Vars())
	in.Stop(2 * timeSecond)
}

// start → fork(1→2k) → k flows into merge M1, k into merge M2 → join J (2→m) → D_j tasks → end
func c03burst(out *rec.Out, idx int, rng *rec.Rng, tier string, stats map[string]int) {
	k := 2 + idx%3
	m := 1 + (idx/3)%2
	g := eng.NewGraph()
	st := g.Add("startEvent", "start", "")
	fork := g.Add("parallelGateway", "fork", "")
	m1 := g.Add("exclusiveGateway", "M1", "")
	m2 := g.Add("exclusiveGateway", "M2", "")
	join := g.Add("parallelGateway", "J", "")
	en := g.Add("endEvent", "end", "")
	g.Connect(st, fork, nil)
	for i := 0; i < k; i++ {
		g.Connect(fork, m1, nil)
		g.Connect(fork, m2, nil)
	}
	g.Connect(m1, join, nil)
	g.Connect(m2, join, nil)
	for j := 0; j < m; j++ {
		d := g.Add("task", fmt.Sprintf("D%d", j), "")
		g.Connect(join, d, nil)
		g.Connect(d, en, nil)
	}
	if sh := rng.Fork(); sh.Intn(2) == 0 {
		g.ShuffleDecl(sh.Intn)
	}
	out.Begin("c03burst", k, m)
	defer out.End()
	if idx%2 == 1 {
		ctl := sched.Install()
		ctl.Perturb(rng.U64(), 1+idx%2)
		defer ctl.Remove()
		stats["perturbed_cases"]++
	}
	in, defs, err := eng.Start(g.XML(), nil)
	if err != nil {
		out.Line("harness-error %v", err)
		return
	}
	for _, l := range eng.ProgLines(&(*defs.Processes())[0], g.CondRPN) {
		out.Line("prog %s", l)
	}
	out.Line("prog vars -")
	stats["cases"]++
	stats[fmt.Sprintf("burst_k%d_m%d", k, m)]++
	for steps := 0; steps < 40; steps++ {
		if !in.Quiesce(4 * timeSecond) {
			in.Note("obs noquiesce")
			break
		}
		p := in.Pending()
		if len(p) == 0 {
			break
		}
		in.AnswerOK(p[rng.Intn(len(p))], nil)
	}
	complete := in.WaitComplete(500 * timeMillisecond)
	in.Quiesce(2 * timeSecond)
	for _, l := range in.Lines() {
		out.Line("%s", l)
	}
	out.Line("obs final complete=%d vars=%s", rec.B(complete), in.Vars())
	in.Stop(2 * timeSecond)
}
