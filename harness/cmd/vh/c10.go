package main

import (
	"fmt"
	"os"
	"runtime"
	"strings"
	"time"

	"verifharness/internal/eng"
	"verifharness/internal/rec"
	"verifharness/internal/sched"
)

// C10 — boundary events. One process per case:
//
//	start → P → H → N → endN           H: task, or sub-process containing task HI
//	B1 (on H, signal sig1) → X1 → endX1
//	B2 (on H, signal sig2) → X2 → endX2
//
// so that a continuation of the normal flow / of an exception flow is observable as a request of N / X1 / X2.
// A schedule is a sequence over {p = answer P (the token then reaches H), d1, d2 = deliver sig1 / sig2,
// a = answer H}. Modes: wait (quiescence before every action), nowait (the actions after p back-to-back),
// nowaitall (p included: the event races the activation), and four enforced schedules that park one goroutine
// of the real engine at a verifhook point (hold-forward, hold-listener, hold-catch, hold-activation, hold-tracer).
func init() {
	caseFamilies["c10"] = &caseFamily{
		Shard: 1, Par: c10par(),
		Count: func(tier string) int { return len(c10cases(tier)) },
		Run: func(out *rec.Out, idx int, rng *rec.Rng, tier string, stats map[string]int) {
			c10run(out, c10cases(tier)[idx], stats)
		},
	}
}

// c10par: child processes in flight; follows the CPUs this process may use (taskset / cgroup affinity)
func c10par() int {
	n := runtime.NumCPU() - 2
	if n > 14 {
		n = 14
	}
	if n < 2 {
		n = 2
	}
	return n
}

type c10case struct {
	host  string   // task | sub
	kinds string   // one letter per boundary event: i = interrupting, n = non-interrupting
	acts  []string // p d1 d2 a
	mode  string   // wait nowait nowaitall hold-forward hold-listener hold-catch
}

// c10seqs: every sequence over {d1..dn, a} of length ≤ maxLen with at most one a.
func c10seqs(n, maxLen int) [][]string {
	var out [][]string
	var rec func(cur []string, usedA bool)
	rec = func(cur []string, usedA bool) {
		out = append(out, append([]string{}, cur...))
		if len(cur) == maxLen {
			return
		}
		for i := 1; i <= n; i++ {
			rec(append(cur, fmt.Sprintf("d%d", i)), usedA)
		}
		if !usedA {
			rec(append(cur, "a"), true)
		}
	}
	rec(nil, false)
	return out
}

var c10cache = map[string][]c10case{}

func c10cases(tier string) []c10case {
	if cs, ok := c10cache[tier]; ok {
		return cs
	}
	var cs []c10case
	k := 0
	for _, host := range []string{"task", "sub"} {
		for _, kinds := range []string{"i", "n", "ii", "in", "ni", "nn"} {
			nb := len(kinds)
			for _, s := range c10seqs(nb, 4) {
				// p first (the normal case), or after the first action (event before activation)
				for pre := 0; pre <= 1; pre++ {
					if pre == 1 && (len(s) == 0 || s[0] == "a") {
						continue
					}
					acts := append(append(append([]string{}, s[:pre]...), "p"), s[pre:]...)
					k++
					// quick: everything up to length 3 (event before activation up to length 2), a sixth of the rest
					if tier != "thorough" && nb == 2 && (len(s) == 4 || (pre == 1 && len(s) == 3)) && k%6 != 0 {
						continue
					}
					cs = append(cs, c10case{host, kinds, acts, "wait"})
				}
				// racing variants: only schedules in which something can race (≥ 2 actions after p)
				if len(s) >= 2 {
					k++
					if tier == "thorough" || (len(s) <= 2 && nb == 1) || k%5 == 0 {
						cs = append(cs, c10case{host, kinds, append([]string{"p"}, s...), "nowait"})
					}
				}
				if len(s) >= 1 && len(s) <= 3 {
					k++
					if tier == "thorough" || len(s) <= 1 || k%5 == 0 {
						cs = append(cs, c10case{host, kinds, append([]string{"p"}, s...), "nowaitall"})
					}
				}
			}
			// the event races the activation, repeatedly (the window between the harness's active:=1 and the
			// activity's first message is wide for a sub-process host)
			if kinds[0] == 'i' {
				reps := 2
				if tier == "thorough" {
					reps = 8
				}
				for rep := 0; rep < reps; rep++ {
					cs = append(cs, c10case{host, kinds, []string{"p", "d1", "d1", "d1", "d1"}, "nowaitall"})
				}
			}
			// the host's first answer is an ERROR whose handler asks for a retry: the same token requests the task again
			// and waits for its answer a second time — its boundary events react to what arrives during THAT wait too
			if host == "task" {
				cs = append(cs, c10case{host, kinds, []string{"p", "r", "d1", "a"}, "wait"})
				cs = append(cs, c10case{host, kinds, []string{"p", "r", "r", "d1", "d1", "a"}, "wait"})
				cs = append(cs, c10case{host, kinds, []string{"p", "d1", "r", "d1", "a"}, "wait"})
				if nb == 2 {
					cs = append(cs, c10case{host, kinds, []string{"p", "r", "d2", "d1", "a"}, "wait"})
				}
			}
			// enforced schedules
			cs = append(cs, c10case{host, kinds, []string{"p", "a", "d1"}, "hold-forward"})
			cs = append(cs, c10case{host, kinds, []string{"p", "d1", "a"}, "hold-listener"})
			cs = append(cs, c10case{host, kinds, []string{"p", "d1", "a"}, "hold-catch"})
			cs = append(cs, c10case{host, kinds, []string{"p", "d1", "a"}, "hold-activation"})
			if host == "task" {
				cs = append(cs, c10case{host, kinds, []string{"p", "a", "d1"}, "hold-tracer"})
				if nb == 2 {
					cs = append(cs, c10case{host, kinds, []string{"p", "a", "d2", "d1"}, "hold-tracer"})
				}
			}
			if nb == 2 {
				cs = append(cs, c10case{host, kinds, []string{"p", "d2", "d1", "a"}, "hold-activation"})
				// only the SECOND boundary event's event inside the activation window (for kinds `in` that is the
				// non-interrupting one: the host must still be requested and answered)
				cs = append(cs, c10case{host, kinds, []string{"p", "d2", "a"}, "hold-activation"})
				cs = append(cs, c10case{host, kinds, []string{"p", "a", "d1", "d2"}, "hold-forward"})
				cs = append(cs, c10case{host, kinds, []string{"p", "d1", "d2", "a"}, "hold-listener"})
			}
		}
	}
	c10cache[tier] = cs
	return cs
}

func c10graph(c c10case) *eng.Graph {
	g := eng.NewGraph()
	st := g.Add("startEvent", "start", "")
	p := g.Add("task", "P", "")
	var h *eng.Node
	if c.host == "task" {
		h = g.Add("task", "H", "")
	} else {
		h = g.Add("subProcess", "H", "")
		inner := g.Task("task", "HI", "H")
		g.SubEnd(h, inner)
	}
	n := g.Add("task", "N", "")
	en := g.Add("endEvent", "endN", "")
	g.Connect(st, p, nil)
	g.Connect(p, h, nil)
	g.Connect(h, n, nil)
	g.Connect(n, en, nil)
	for i, k := range c.kinds {
		b := g.Add("boundaryEvent", fmt.Sprintf("B%d", i+1), "")
		b.Attached = "H"
		b.Interrupting = k == 'i'
		b.Defs = []eng.EventDef{{Kind: "signal", Name: fmt.Sprintf("sig%d", i+1)}}
		x := g.Add("task", fmt.Sprintf("X%d", i+1), "")
		ex := g.Add("endEvent", fmt.Sprintf("endX%d", i+1), "")
		g.Connect(b, x, nil)
		g.Connect(x, ex, nil)
	}
	return g
}

func c10run(out *rec.Out, c c10case, stats map[string]int) {
	g := c10graph(c)
	out.Begin("c10", c.host, c.kinds, c.mode, strings.Join(c.acts, ","))
	defer out.End()
	var ctl *sched.Controller
	if strings.HasPrefix(c.mode, "hold-") {
		ctl = sched.Install()
		defer ctl.Remove()
	}
	if (len(c.acts)+len(c.kinds))%3 == 0 && c.mode == "wait" {
		// ANOTHER document was instantiated earlier in this program: the same process, activity and boundary-event ids,
		// but the boundary events are of the other kind (interrupting <-> non-interrupting) and listen for other signals.
		// Nothing of it may be left when the document under test runs.
		flip := []byte(c.kinds)
		for i := range flip {
			if flip[i] == 'i' {
				flip[i] = 'n'
			} else {
				flip[i] = 'i'
			}
		}
		c0 := c
		c0.kinds = string(flip)
		g0 := c10graph(c0)
		for _, n := range g0.Nodes {
			for i := range n.Defs {
				n.Defs[i].Name += "_earlier_document"
			}
		}
		if in0, _, err := eng.Start(g0.XML(), nil); err == nil {
			in0.Quiesce(2 * time.Second)
			in0.Stop(2 * time.Second)
			stats["cases_after_an_earlier_document_with_the_same_ids"]++
		}
	}
	doc := g.XML()
	if len(c.acts)%2 == 1 {
		// the host's id ENDS IN the id of the task before it (`H__P` next to `P`), the exception task's in the id of N: ids
		// are opaque names, an activity owns the boundary events attached to ITS id only
		doc = eng.ContainIDs(doc)
		stats["ids_that_end_in_another_id"]++
	}
	in, defs, err := eng.Start(doc, nil)
	if err != nil {
		out.Line("harness-error %v", err)
		return
	}
	for _, l := range eng.ProgLines(&(*defs.Processes())[0], g.CondRPN) {
		out.Line("prog %s", l)
	}
	stats["cases"]++
	stats["host_"+c.host]++
	stats["kinds_"+c.kinds]++
	stats["mode_"+c.mode]++
	stats[fmt.Sprintf("len%d", len(c.acts)-1)]++

	hostTask := "H"
	if c.host == "sub" {
		hostTask = "HI"
	}
	find := func(node string) *eng.Req {
		for _, q := range in.Pending() {
			if q.Node == node {
				return q
			}
		}
		return nil
	}
	// waitReq polls (without requiring quiescence) until the request of node is visible
	waitReq := func(node string, d time.Duration) *eng.Req {
		deadline := time.Now().Add(d)
		for {
			if q := find(node); q != nil {
				return q
			}
			if time.Now().After(deadline) {
				return nil
			}
			time.Sleep(20 * time.Microsecond)
		}
	}
	// quiesce: once the process has been seen not to quiesce (a goroutine of the engine spins), pacing falls back
	// to a fixed pause so that the rest of the schedule is still carried out and recorded
	spinning := false
	quiesce := func() bool {
		if spinning {
			time.Sleep(40 * time.Millisecond)
			return true
		}
		// (a loaded machine can starve the process for a while: one generous retry before the verdict)
		if !in.Quiesce(3*timeSecond) && !in.Quiesce(9*timeSecond) {
			in.Note("obs noquiesce")
			spinning = true
			if os.Getenv("C10_DEBUG") != "" {
				buf := make([]byte, 1<<20)
				n := runtime.Stack(buf, true)
				for _, g := range strings.Split(string(buf[:n]), "\n\n") {
					if strings.Contains(g, "[running]") || strings.Contains(g, "[runnable]") {
						fmt.Fprintln(os.Stderr, g)
						fmt.Fprintln(os.Stderr)
					}
				}
			}
		}
		return true
	}
	deliver := func(a string) {
		in.Deliver("signal", "sig"+a[1:], 6*timeSecond)
	}
	answer := func(node string, poll bool) bool {
		var q *eng.Req
		if poll {
			q = waitReq(node, 4*timeSecond)
		} else {
			q = find(node)
		}
		if q == nil {
			in.Note("obs norequest %s", node)
			return false
		}
		in.AnswerOK(q, nil)
		return true
	}
	hold := func(point string) <-chan struct{} {
		in.Op("hold %s", point)
		return ctl.Hold(point)
	}
	release := func(point string) {
		in.Op("release %s", point)
		ctl.Release(point)
	}

	ok := true
	switch c.mode {
	case "wait":
		for _, a := range c.acts {
			if !quiesce() {
				ok = false
				break
			}
			switch a {
			case "p":
				ok = answer("P", false)
			case "a":
				answer(hostTask, false)
			case "r":
				if q := find(hostTask); q != nil {
					in.AnswerErr(q, 1, 5) // RetryMode, up to 5 times
				} else {
					in.Note("obs norequest %s", hostTask)
				}
			default:
				deliver(a)
			}
			if !ok {
				break
			}
		}
	case "nowait", "nowaitall":
		quiesce()
		for i, a := range c.acts {
			in.NoWait = i < len(c.acts)-1
			switch a {
			case "p":
				if c.mode == "nowait" {
					// the token settles at H before the racing batch starts
					in.NoWait = false
					ok = answer("P", false)
					quiesce()
				} else {
					ok = answer("P", false)
				}
			case "a":
				answer(hostTask, true)
			default:
				deliver(a)
			}
			if !ok {
				break
			}
		}
		in.NoWait = false
	case "hold-forward":
		// the answer is given (Do returns) but its response is parked before it reaches the activity: the
		// events that follow find the activity still waiting
		quiesce()
		answer("P", false)
		quiesce()
		arr := hold("tasktrace.process.forwarding")
		answer(hostTask, false)
		if !sched.WaitArrived(arr, 10*timeSecond) {
			in.Note("obs notarrived tasktrace.process.forwarding")
		}
		for _, a := range c.acts[2:] {
			quiesce()
			deliver(a)
		}
		quiesce()
		release("tasktrace.process.forwarding")
	case "hold-listener":
		// the listeners' flows are parked after they received the catch event's action and before the
		// transformer (the cancel); the host is answered meanwhile
		quiesce()
		answer("P", false)
		quiesce()
		arr := hold("flow.action")
		for _, a := range c.acts[1:] {
			quiesce()
			if a == "a" {
				answer(hostTask, false)
			} else {
				deliver(a)
				if !sched.WaitArrived(arr, 10*timeSecond) {
					in.Note("obs notarrived flow.action")
				}
			}
		}
		quiesce()
		release("flow.action")
	case "hold-activation":
		// the host's harness has stored active = 1 and is parked before it calls activity.NextAction: the events
		// that follow are forwarded, an interrupting listener's cancel message reaches the activity's inbox before
		// the activity's first message
		quiesce()
		arr := hold("harness.before_next_action")
		answer("P", false)
		if !sched.WaitArrived(arr, 10*timeSecond) {
			in.Note("obs notarrived harness.before_next_action")
		}
		for _, a := range c.acts[1:] {
			if a == "a" {
				continue
			}
			quiesce()
			deliver(a)
		}
		quiesce()
		release("harness.before_next_action")
		quiesce()
		// (when the token was stranded there is no request: recorded as `obs norequest`, the answer is skipped)
		answer(hostTask, false)
	case "hold-tracer":
		// the tracer goroutine is parked (an unrelated signal makes the armed listeners send one trace, which it
		// takes and then parks on): every trace send of the engine blocks from now on. The host is answered (its
		// answer reaches the harness's relay, which has to announce the end of the boundary phase), THEN the
		// events are delivered, then the tracer is released. Only task hosts: a sub-process cannot finish without
		// sending traces.
		quiesce()
		answer("P", false)
		quiesce()
		arr := hold("tracer.broadcast")
		in.Deliver("signal", "sigX", 6*timeSecond)
		if !sched.WaitArrived(arr, 10*timeSecond) {
			in.Note("obs notarrived tracer.broadcast")
		}
		quiesce()
		answer(hostTask, false)
		for _, a := range c.acts[2:] {
			quiesce()
			deliver(a)
		}
		quiesce()
		release("tracer.broadcast")
	case "hold-catch":
		// the event is forwarded to the catch event (the harness was active) but the catch event's run loop is
		// parked before it looks at it; the host is answered and completes meanwhile
		quiesce()
		answer("P", false)
		quiesce()
		arr := hold("catch.process_event")
		deliver("d1")
		if !sched.WaitArrived(arr, 10*timeSecond) {
			in.Note("obs notarrived catch.process_event")
		}
		quiesce()
		answer(hostTask, false)
		quiesce()
		release("catch.process_event")
	}

	// final phase: answer whatever was requested on the normal and exception paths (never the host: it is
	// answered by `a` only), then see whether the instance completes
	if ok {
		for round := 0; round < 12; round++ {
			if !quiesce() {
				break
			}
			var q *eng.Req
			for _, r := range in.Pending() {
				if r.Node != hostTask && r.Node != "P" {
					q = r
					break
				}
			}
			if q == nil {
				break
			}
			in.AnswerOK(q, nil)
		}
	}
	quiesce()
	complete := in.WaitComplete(60 * timeMillisecond)
	quiesce()
	for _, l := range in.Lines() {
		out.Line("%s", l)
	}
	for _, p := range in.Panics {
		out.Line("obs panic %s", strings.ReplaceAll(p, "\n", " "))
	}
	hostPending := 0
	if find(hostTask) != nil {
		hostPending = 1
	}
	left := 0
	for _, r := range in.Pending() {
		if r.Node != hostTask {
			left++
		}
	}
	out.Line("obs final complete=%d hostpending=%d pending=%d", rec.B(complete), hostPending, left)
	in.Stop(2 * timeSecond)
}
