package main

import (
	"fmt"

	bpmn "github.com/olive-io/bpmn/v2"

	"verifharness/internal/eng"
	"verifharness/internal/rec"
)

// Family c05gone: an inclusive block activated AGAIN after a token of an earlier activation has ENDED at a task inside it
// — by an error answer whose handler says exit, or by a retry budget that is used up. A token that ended cannot arrive at
// the join any more: the join of the later activation must not wait for it (D42: such a token used to end without a
// termination trace and stayed in the flow tracker for ever).
//
//	s -> M -> U[ us -> IF -[c < 100]-> A -> IJ -> B -> ue ; IF -default-> IJ ] -> L -> X ; X -[c < rounds]-> M ; X -default-> e
//
// (the block sits inside a sub-process so that the instance goes on after the token ended: the scope is empty, the
// sub-process returns). `how`: exit | retry0 (retry with budget 0: used up at once); `when`: the round in which A's
// token ends. Recorded like a C01 case and replayed through the engine model.
func init() {
	caseFamilies["c05gone"] = &caseFamily{
		Shard: 1, Par: 6,
		Count: func(tier string) int { return len(c05goneCases()) },
		Run: func(out *rec.Out, idx int, rng *rec.Rng, tier string, stats map[string]int) {
			c05goneRun(out, c05goneCases()[idx], stats)
		},
	}
}

type c05goneCase struct {
	how    string
	when   int
	rounds int
	direct bool // the block directly in the loop's sub-process (true) or one more sub-process level around it
}

func c05goneCases() []c05goneCase {
	var cs []c05goneCase
	for _, how := range []string{"exit", "retry0"} {
		for rounds := 2; rounds <= 3; rounds++ {
			for when := 1; when < rounds; when++ {
				cs = append(cs, c05goneCase{how, when, rounds, true})
			}
		}
	}
	return cs
}

func c05goneRun(out *rec.Out, c c05goneCase, stats map[string]int) {
	g := eng.NewGraph()
	st := g.Add("startEvent", "s", "")
	m := g.Add("exclusiveGateway", "M", "")
	u := g.Add("subProcess", "U", "")
	us := g.Add("startEvent", "us", u.ID)
	ifk := g.Add("inclusiveGateway", "IF", u.ID)
	a := g.Add("task", "A", u.ID)
	ij := g.Add("inclusiveGateway", "IJ", u.ID)
	b := g.Add("task", "B", u.ID)
	ue := g.Add("endEvent", "ue", u.ID)
	l := g.Add("task", "L", "")
	l.Results = []string{"c"}
	x := g.Add("exclusiveGateway", "X", "")
	en := g.Add("endEvent", "e", "")
	g.Connect(st, m, nil)
	g.Connect(m, u, nil)
	g.Connect(us, ifk, nil)
	g.Connect(ifk, a, &eng.Cond{Op: "lt", Var: "c", K: 100})
	ifk.Default = g.Connect(ifk, ij, nil).ID
	g.Connect(a, ij, nil)
	g.Connect(ij, b, nil)
	g.Connect(b, ue, nil)
	g.Connect(u, l, nil)
	g.Connect(l, x, nil)
	g.Connect(x, m, &eng.Cond{Op: "lt", Var: "c", K: c.rounds})
	x.Default = g.Connect(x, en, nil).ID
	out.Begin("c05gone", c.how, c.when, c.rounds)
	defer out.End()
	vars := map[string]int{"c": 0}
	in, defs, err := eng.Start(g.XML(), map[string]any{"c": 0})
	if err != nil {
		out.Line("harness-error %v", err)
		return
	}
	for _, ln := range eng.ProgLines(&(*defs.Processes())[0], g.CondRPN) {
		out.Line("prog %s", ln)
	}
	out.Line("prog vars %s", fmtVars(vars))
	stats["cases"]++
	stats["token_ends_by_"+c.how]++
	round := 0
	for steps := 0; steps < 30; steps++ {
		if !in.Quiesce(4 * timeSecond) {
			in.Note("obs noquiesce")
			break
		}
		p := in.Pending()
		if len(p) == 0 {
			break
		}
		q := p[0]
		switch q.Node {
		case "A":
			round++
			if round == c.when {
				if c.how == "exit" {
					in.AnswerErr(q, bpmn.ExitMode, 0)
				} else {
					in.AnswerErr(q, bpmn.RetryMode, 0)
				}
				continue
			}
			in.AnswerOK(q, nil)
		case "L":
			in.AnswerOK(q, map[string]int{"c": round})
		default:
			in.AnswerOK(q, nil)
		}
	}
	complete := in.WaitComplete(300 * timeMillisecond)
	in.Quiesce(2 * timeSecond)
	for _, ln := range in.Lines() {
		out.Line("%s", ln)
	}
	out.Line("obs final complete=%d vars=%s", rec.B(complete), in.Vars())
	in.Stop(2 * timeSecond)
	_ = fmt.Sprint
}
