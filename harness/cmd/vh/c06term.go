package main

import (
	"fmt"

	"verifharness/internal/eng"
	"verifharness/internal/rec"
)

// Family c06term: an event-based gateway one of whose alternatives is TERMINAL — its catch event has no outgoing sequence
// flow (the token ends there). k = 2..3 alternatives, alternative `term` terminal, the others followed by a task; a sequence
// of deliveries, each at quiescence. The plain statement of C06: the first competing event makes its alternative the winner
// (exactly one determination), every other alternative is withdrawn — a later delivery of their events requests nothing —
// and the instance completes (after the winner's task, if it has one, was answered).
//
//	start -> G ; G -> C_j ; C_j -> T_j -> end   (j != term) ;  C_term has no outgoing flow
func init() {
	caseFamilies["c06term"] = &caseFamily{
		Shard: 1, Par: 8,
		Count: func(tier string) int { return len(c06termCases()) },
		Run: func(out *rec.Out, idx int, rng *rec.Rng, tier string, stats map[string]int) {
			c06termRun(out, c06termCases()[idx], stats)
		},
	}
}

type c06termCase struct {
	k, term int
	seq     []int
}

func c06termCases() []c06termCase {
	var cs []c06termCase
	for k := 2; k <= 3; k++ {
		for term := 0; term < k; term++ {
			for first := 0; first < k; first++ {
				for second := -1; second < k; second++ {
					s := []int{first}
					if second >= 0 {
						s = append(s, second)
					}
					cs = append(cs, c06termCase{k, term, s})
				}
			}
		}
	}
	return cs
}

func c06termRun(out *rec.Out, c c06termCase, stats map[string]int) {
	g := eng.NewGraph()
	gw := g.Add("eventBasedGateway", "G", "")
	st := g.Add("startEvent", "start", "")
	en := g.Add("endEvent", "end", "")
	g.Connect(st, gw, nil)
	for j := 0; j < c.k; j++ {
		ce := g.Add("intermediateCatchEvent", fmt.Sprintf("C%d", j), "")
		ce.Defs = []eng.EventDef{{Kind: c06kinds[j], Name: c06names[j]}}
		g.Connect(gw, ce, nil)
		if j != c.term {
			t := g.Add("task", fmt.Sprintf("T%d", j), "")
			g.Connect(ce, t, nil)
			g.Connect(t, en, nil)
		}
	}
	out.Begin("c06term", c.k, c.term, c06seqString(c.seq))
	defer out.End()
	in, _, err := eng.Start(g.XML(), nil)
	if err != nil {
		out.Line("harness-error %v", err)
		return
	}
	stats["cases"]++
	stats[fmt.Sprintf("k%d_len%d", c.k, len(c.seq))]++
	if c.seq[0] == c.term {
		stats["terminal_alternative_wins"]++
	}
	for i, e := range c.seq {
		if !in.Quiesce(6 * timeSecond) {
			in.Note("obs noquiesce")
			break
		}
		in.Note("c06term deliver %d %d", i, e)
		in.Deliver(c06kinds[e], c06names[e], 6*timeSecond)
		in.Quiesce(6 * timeSecond)
		// the winner's task, if any, is answered at once
		for _, q := range in.Pending() {
			in.AnswerOK(q, nil)
		}
	}
	in.Quiesce(6 * timeSecond)
	for _, l := range in.Lines() {
		out.Line("%s", l)
	}
	out.Line("c06term done %d", rec.B(in.WaitComplete(3*timeSecond)))
	in.Stop(2 * timeSecond)
}
