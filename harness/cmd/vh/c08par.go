package main

import (
	"verifharness/internal/eng"
	"verifharness/internal/rec"
)

// Family c08par: declared results stored WHILE ANOTHER TOKEN IS INSIDE A SUB-PROCESS. A parallel block with an embedded
// sub-process on one branch and a plain task on the other; both write a declared result; behind the join an exclusive gateway
// and the final variables read them. "Visible to every later condition and task": the instance has ONE set of variables,
// whichever scope a token is in when its task is answered.
//
//	s -> F ; F -> U[ us -> TI -> ue ] -> J ; F -> TO -> J ; J -> X ; X -[a == 1]-> P -> e ; X -default-> Q -> e
//	TI writes a = 1, TO writes x = 5 (x = 0 before); orders: TO first / TI first
//
// Recorded like a C01 case and replayed through the engine model.
func init() {
	caseFamilies["c08par"] = &caseFamily{
		Shard: 1, Par: 4,
		Count: func(tier string) int { return 4 },
		Run: func(out *rec.Out, idx int, rng *rec.Rng, tier string, stats map[string]int) {
			c08parRun(out, idx%2 == 0, idx/2 == 1, stats)
		},
	}
}

func c08parRun(out *rec.Out, outerFirst, nested bool, stats map[string]int) {
	g := eng.NewGraph()
	st := g.Add("startEvent", "s", "")
	f := g.Add("parallelGateway", "F", "")
	j := g.Add("parallelGateway", "J", "")
	u := g.Add("subProcess", "U", "")
	par := u.ID
	var v *eng.Node
	if nested {
		// one more level around the inner task
		v = g.Add("subProcess", "V", u.ID)
		par = v.ID
	}
	is := g.Add("startEvent", "is", par)
	ti := g.Add("task", "TI", par)
	ti.Results = []string{"a"}
	ie := g.Add("endEvent", "ie", par)
	g.Connect(is, ti, nil)
	g.Connect(ti, ie, nil)
	if nested {
		us := g.Add("startEvent", "us", u.ID)
		ue := g.Add("endEvent", "ue", u.ID)
		g.Connect(us, v, nil)
		g.Connect(v, ue, nil)
	}
	to := g.Add("task", "TO", "")
	to.Results = []string{"x"}
	x := g.Add("exclusiveGateway", "X", "")
	p, q := g.Add("task", "P", ""), g.Add("task", "Q", "")
	en := g.Add("endEvent", "e", "")
	g.Connect(st, f, nil)
	g.Connect(f, u, nil)
	g.Connect(f, to, nil)
	g.Connect(u, j, nil)
	g.Connect(to, j, nil)
	g.Connect(j, x, nil)
	g.Connect(x, p, &eng.Cond{Op: "eq", Var: "a", K: 1})
	x.Default = g.Connect(x, q, nil).ID
	g.Connect(p, en, nil)
	g.Connect(q, en, nil)
	out.Begin("c08par", rec.B(outerFirst), rec.B(nested))
	defer out.End()
	vars := map[string]int{"a": 0, "x": 0}
	in, defs, err := eng.Start(g.XML(), map[string]any{"a": 0, "x": 0})
	if err != nil {
		out.Line("harness-error %v", err)
		return
	}
	for _, l := range eng.ProgLines(&(*defs.Processes())[0], g.CondRPN) {
		out.Line("prog %s", l)
	}
	out.Line("prog vars %s", fmtVars(vars))
	stats["cases"]++
	order := []string{"TI", "TO"}
	if outerFirst {
		order = []string{"TO", "TI"}
	}
	answer := func(node string, res map[string]int) {
		if !in.Quiesce(4 * timeSecond) {
			in.Note("obs noquiesce")
			return
		}
		for _, r := range in.Pending() {
			if r.Node == node {
				in.AnswerOK(r, res)
				return
			}
		}
		in.Note("obs norequest %s", node)
	}
	for _, n := range order {
		if n == "TI" {
			answer("TI", map[string]int{"a": 1})
		} else {
			answer("TO", map[string]int{"x": 5})
		}
	}
	for steps := 0; steps < 4; steps++ {
		if !in.Quiesce(4 * timeSecond) {
			break
		}
		rest := in.Pending()
		if len(rest) == 0 {
			break
		}
		in.AnswerOK(rest[0], nil)
	}
	complete := in.WaitComplete(1500 * timeMillisecond)
	in.Quiesce(2 * timeSecond)
	for _, l := range in.Lines() {
		out.Line("%s", l)
	}
	out.Line("obs final complete=%d vars=%s", rec.B(complete), in.Vars())
	in.Stop(2 * timeSecond)
}
