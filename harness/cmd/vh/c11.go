package main

import (
	"fmt"
	"sort"
	"strings"
	"sync"
	"sync/atomic"
	"time"

	"github.com/olive-io/bpmn/schema"
	"github.com/olive-io/bpmn/v2/pkg/event"
	"github.com/olive-io/bpmn/v2/pkg/tracing"

	"verifharness/internal/eng"
	"verifharness/internal/rec"
)

// C11 — events reach every listening catch event exactly once and delivery never blocks.
//
// One case = one program shape (1..3 intermediate catch events in sequence / in parallel branches /
// behind an exclusive-gateway branch that is never taken / two tokens meeting at one catch event) and one
// driver script: a word over {deliver e | answer the k-th pending task | start the instance}. Tasks in front
// of and behind every catch event let the script decide when a listener is armed, so events are delivered
// before, while and after arming. EVERY delivery runs under a deadline (`obs ret deliver X returned|blocked`).
// After the script the remaining tasks are answered so that the final state of every listener is observed.

func init() {
	caseFamilies["c11"] = &caseFamily{
		Shard: 1, Par: 16,
		Count: func(tier string) int { return len(c11cases(tier)) },
		Run: func(out *rec.Out, idx int, rng *rec.Rng, tier string, stats map[string]int) {
			c11run(out, c11cases(tier)[idx], rng, stats)
		},
	}
}

const c11deadline = 700 * timeMillisecond

type c11ev struct{ kind, name string }

type c11shape struct {
	name    string
	ebg     bool // catch events behind an event-based gateway (judged by the property predicate only, see the driver)
	arm     int  // > 0: burst scripts for this shape; the number of answers that arm its listener(s)
	refire  bool // the same catch event fires three times and more
	par     bool // two tasks can be pending at once: scripts also use "answer the second pending task"
	genOnly bool // a generated shape: seeded scripts only
	evs     []c11ev
	build   func(g *eng.Graph) map[string]int
}

func c11catch(g *eng.Graph, id string, defs ...c11ev) eng.Frag {
	n := g.Add("intermediateCatchEvent", id, "")
	for _, d := range defs {
		n.Defs = append(n.Defs, eng.EventDef{Kind: d.kind, Name: d.name})
	}
	return eng.Frag{Entry: n, Exit: n}
}

func c11task(g *eng.Graph, id string) eng.Frag { return g.Task("task", id, "") }

var (
	sigA = c11ev{"signal", "ord:a"}  // names are opaque strings: `ord:a` and `inv:a` (sigC) share what follows the colon and nothing else
	msgA = c11ev{"message", "ord:a"} // same name, other kind: must not match a signal definition
	msgB = c11ev{"message", "b"}
	sigB = c11ev{"signal", "b"}
	sigC = c11ev{"signal", "inv:a"}
	sigZ = c11ev{"signal", "zz"} // matches nothing anywhere
)

var c11shapes = []c11shape{
	{name: "seq1sig", arm: 1, evs: []c11ev{sigA, sigZ, msgA}, build: func(g *eng.Graph) map[string]int {
		g.Wrap(g.Seq(c11task(g, "T0"), c11catch(g, "C1", sigA), c11task(g, "T1")))
		return nil
	}},
	{name: "seq1msg", evs: []c11ev{msgB, sigZ, sigB}, build: func(g *eng.Graph) map[string]int {
		g.Wrap(g.Seq(c11task(g, "T0"), c11catch(g, "C1", msgB), c11task(g, "T1")))
		return nil
	}},
	{name: "seq2", evs: []c11ev{sigA, msgB, sigZ}, build: func(g *eng.Graph) map[string]int {
		g.Wrap(g.Seq(c11task(g, "T0"), c11catch(g, "C1", sigA), c11task(g, "T1"), c11catch(g, "C2", msgB), c11task(g, "T2")))
		return nil
	}},
	{name: "seq3", evs: []c11ev{sigA, msgB, sigZ}, build: func(g *eng.Graph) map[string]int {
		// C3 waits for the same signal as C1: a repeated event must fire it, an early one must not
		g.Wrap(g.Seq(c11task(g, "T0"), c11catch(g, "C1", sigA), c11task(g, "T1"), c11catch(g, "C2", msgB),
			c11task(g, "T2"), c11catch(g, "C3", sigA), c11task(g, "T3")))
		return nil
	}},
	{name: "par2", par: true, arm: 2, evs: []c11ev{sigA, msgB, sigZ}, build: func(g *eng.Graph) map[string]int {
		a := g.Seq(c11task(g, "TA"), c11catch(g, "C1", sigA), c11task(g, "UA"))
		b := g.Seq(c11task(g, "TB"), c11catch(g, "C2", msgB), c11task(g, "UB"))
		g.Wrap(g.Split("parallelGateway", "parallelGateway", "", []eng.Frag{a, b}, nil, -1))
		return nil
	}},
	// two START EVENTS instead of a fork: both fire when the instance starts, each token runs to its own catch event
	{name: "twostarts", par: true, arm: 2, evs: []c11ev{sigA, msgB, sigZ}, build: func(g *eng.Graph) map[string]int {
		a := g.Seq(c11task(g, "TA"), c11catch(g, "C1", sigA), c11task(g, "UA"))
		b := g.Seq(c11task(g, "TB"), c11catch(g, "C2", msgB), c11task(g, "UB"))
		g.Wrap(a)
		st := g.Add("startEvent", "start2", "")
		en := g.Add("endEvent", "end2", "")
		g.Connect(st, b.Entry, nil)
		g.Connect(b.Exit, en, nil)
		return nil
	}},
	{name: "par2same", par: true, evs: []c11ev{sigA, sigZ}, build: func(g *eng.Graph) map[string]int {
		a := g.Seq(c11task(g, "TA"), c11catch(g, "C1", sigA), c11task(g, "UA"))
		b := g.Seq(c11task(g, "TB"), c11catch(g, "C2", sigA), c11task(g, "UB"))
		g.Wrap(g.Split("parallelGateway", "parallelGateway", "", []eng.Frag{a, b}, nil, -1))
		return nil
	}},
	// the same with a MESSAGE: a message handed to the instance reaches every catch event listening for it, like a signal
	{name: "par2samemsg", par: true, evs: []c11ev{msgB, sigZ, sigB}, build: func(g *eng.Graph) map[string]int {
		a := g.Seq(c11task(g, "TA"), c11catch(g, "C1", msgB), c11task(g, "UA"))
		b := g.Seq(c11task(g, "TB"), c11catch(g, "C2", msgB), c11task(g, "UB"))
		g.Wrap(g.Split("parallelGateway", "parallelGateway", "", []eng.Frag{a, b}, nil, -1))
		return nil
	}},
	{name: "par3", par: true, evs: []c11ev{sigA, msgB, sigC, sigZ}, build: func(g *eng.Graph) map[string]int {
		a := g.Seq(c11task(g, "TA"), c11catch(g, "C1", sigA), c11task(g, "UA"))
		b := g.Seq(c11task(g, "TB"), c11catch(g, "C2", msgB), c11task(g, "UB"))
		c := g.Seq(c11task(g, "TC"), c11catch(g, "C3", sigC), c11task(g, "UC"))
		g.Wrap(g.Split("parallelGateway", "parallelGateway", "", []eng.Frag{a, b, c}, nil, -1))
		return nil
	}},
	// exclusive gateway: the branch with C2 is never taken (v = 1), C2 is registered AFTER C1
	{name: "xor", evs: []c11ev{sigA, msgB, sigZ}, build: func(g *eng.Graph) map[string]int {
		taken := g.Seq(c11catch(g, "C1", sigA), c11task(g, "T1"))
		not := g.Seq(c11catch(g, "C2", msgB), c11task(g, "T2"))
		x := g.Split("exclusiveGateway", "exclusiveGateway", "", []eng.Frag{taken, not},
			[]*eng.Cond{{Op: "eq", Var: "v", K: 1}, nil}, 1)
		g.Wrap(g.Seq(c11task(g, "T0"), x, c11task(g, "T3")))
		return map[string]int{"v": 1}
	}},
	// the same with the never-reached catch event registered BEFORE the reached one
	{name: "xorfirst", evs: []c11ev{sigA, msgB, sigZ}, build: func(g *eng.Graph) map[string]int {
		not := g.Seq(c11catch(g, "C1", msgB), c11task(g, "T1"))
		taken := g.Seq(c11catch(g, "C2", sigA), c11task(g, "T2"))
		x := g.Split("exclusiveGateway", "exclusiveGateway", "", []eng.Frag{taken, not},
			[]*eng.Cond{{Op: "eq", Var: "v", K: 1}, nil}, 1)
		g.Wrap(g.Seq(c11task(g, "T0"), x, c11task(g, "T3")))
		return map[string]int{"v": 1}
	}},
	// parallel branches, one of them with a never-taken alternative holding a catch event for the SAME signal
	{name: "parxor", par: true, evs: []c11ev{sigA, msgB, sigZ}, build: func(g *eng.Graph) map[string]int {
		a := g.Seq(c11task(g, "TA"), c11catch(g, "C1", sigA), c11task(g, "UA"))
		taken := g.Seq(c11catch(g, "C2", msgB), c11task(g, "TD"))
		not := g.Seq(c11catch(g, "C3", sigA), c11task(g, "TE"))
		x := g.Split("exclusiveGateway", "exclusiveGateway", "", []eng.Frag{taken, not},
			[]*eng.Cond{{Op: "eq", Var: "v", K: 1}, nil}, 1)
		b := g.Seq(c11task(g, "TB"), x, c11task(g, "UB"))
		g.Wrap(g.Split("parallelGateway", "parallelGateway", "", []eng.Frag{a, b}, nil, -1))
		return map[string]int{"v": 1}
	}},
	// two tokens meet at ONE catch event (two incoming flows, inbox capacity 5): one event releases both
	{name: "merge2", par: true, arm: 2, evs: []c11ev{sigA, sigZ}, build: func(g *eng.Graph) map[string]int {
		f := g.Add("parallelGateway", "fork", "")
		ta := g.Add("task", "TA", "")
		tb := g.Add("task", "TB", "")
		c := c11catch(g, "C1", sigA).Entry
		t1 := g.Add("task", "T1", "")
		g.Connect(f, ta, nil)
		g.Connect(f, tb, nil)
		g.Connect(ta, c, nil)
		g.Connect(tb, c, nil)
		g.Connect(c, t1, nil)
		g.Wrap(eng.Frag{Entry: f, Exit: t1})
		return nil
	}},
	// event-based gateway: the first event decides; the losing catch event keeps the dead token's reply channel (D21)
	{name: "ebg", ebg: true, evs: []c11ev{sigA, msgB, sigZ}, build: func(g *eng.Graph) map[string]int {
		t0 := g.Add("task", "T0", "")
		gw := g.Add("eventBasedGateway", "G", "")
		c1 := c11catch(g, "C1", sigA).Entry
		c2 := c11catch(g, "C2", msgB).Entry
		t1 := g.Add("task", "T1", "")
		t2 := g.Add("task", "T2", "")
		m := g.Add("exclusiveGateway", "M", "")
		t3 := g.Add("task", "T3", "")
		g.Connect(t0, gw, nil)
		g.Connect(gw, c1, nil)
		g.Connect(gw, c2, nil)
		g.Connect(c1, t1, nil)
		g.Connect(c2, t2, nil)
		g.Connect(t1, m, nil)
		g.Connect(t2, m, nil)
		g.Connect(m, t3, nil)
		g.Wrap(eng.Frag{Entry: t0, Exit: t3})
		return nil
	}},
	// three tokens reach ONE catch event at different times (three incoming flows, inbox capacity 7): the node fires
	// up to three times; A1..A3 sort before T1 so that "answer the first pending task" arms the next token
	{name: "merge3", par: true, arm: 3, refire: true, evs: []c11ev{sigA, sigZ}, build: func(g *eng.Graph) map[string]int {
		f := g.Add("parallelGateway", "fork", "")
		c := c11catch(g, "C1", sigA).Entry
		t1 := g.Add("task", "T1", "")
		for _, id := range []string{"A1", "A2", "A3"} {
			a := g.Add("task", id, "")
			g.Connect(f, a, nil)
			g.Connect(a, c, nil)
		}
		g.Connect(c, t1, nil)
		g.Wrap(eng.Frag{Entry: f, Exit: t1})
		return nil
	}},
	// a catch event inside a loop: one token comes back to it four times (L writes the round number)
	{name: "loop4", arm: 1, refire: true, evs: []c11ev{sigA, sigZ}, build: func(g *eng.Graph) map[string]int {
		body := g.Seq(c11catch(g, "C1", sigA), g.Task("task", "L", "", "c1"))
		loop := g.Loop("", body, &eng.Cond{Op: "lt", Var: "c1", K: 4})
		g.Wrap(g.Seq(c11task(g, "A0"), loop, c11task(g, "T9")))
		return map[string]int{"c1": 0}
	}},
	// the refiring catch event INSIDE an embedded sub-process that is entered again in every round of the loop (what the
	// sub-process keeps from one activation to the next must not keep events from its content)
	{name: "subloop4", arm: 1, refire: true, evs: []c11ev{sigA, sigZ}, build: func(g *eng.Graph) map[string]int {
		sub := g.SubBegin("")
		n := g.Add("intermediateCatchEvent", "C1", sub.ID)
		n.Defs = []eng.EventDef{{Kind: sigA.kind, Name: sigA.name}}
		body := g.Seq(g.SubEnd(sub, eng.Frag{Entry: n, Exit: n}), g.Task("task", "L", "", "c1"))
		loop := g.Loop("", body, &eng.Cond{Op: "lt", Var: "c1", K: 4})
		g.Wrap(g.Seq(c11task(g, "A0"), loop, c11task(g, "T9")))
		return map[string]int{"c1": 0}
	}},
	// plain multiple catch event: either definition fires it
	{name: "multi", arm: 1, evs: []c11ev{sigA, msgB, sigZ}, build: func(g *eng.Graph) map[string]int {
		g.Wrap(g.Seq(c11task(g, "T0"), c11catch(g, "C1", sigA, msgB), c11task(g, "T1")))
		return nil
	}},
}

// one step of the driver script
type c11step struct {
	op  byte // 'd' deliver evs[arg] | 'a' answer the arg-th pending task (by name) | 's' start the instance | 'b' burst
	arg int
	// burst: these events are handed in back to back, without waiting in between, from g goroutines (event i by goroutine i%g)
	burst []int
	g     int
}

type c11case struct {
	shape  int
	steps  []c11step
	random int // > 0: draw `random` steps from the case rng instead
	tag    string
	slow   bool // an extra trace subscriber that takes its time over every trace (back-pressure on every node loop)
}

func c11word(letters []c11step, n int, f func([]c11step)) {
	var rec func(cur []c11step)
	rec = func(cur []c11step) {
		if len(cur) == n {
			f(append([]c11step(nil), cur...))
			return
		}
		for _, l := range letters {
			rec(append(cur, l))
		}
	}
	rec(nil)
}

func c11letters(s c11shape) []c11step {
	var ls []c11step
	for i := range s.evs {
		ls = append(ls, c11step{op: 'd', arg: i})
	}
	ls = append(ls, c11step{op: 'a', arg: 0})
	if s.par {
		ls = append(ls, c11step{op: 'a', arg: 1})
	}
	return ls
}

func rep(st c11step, n int) []c11step {
	var r []c11step
	for i := 0; i < n; i++ {
		r = append(r, st)
	}
	return r
}

func cat(parts ...[]c11step) []c11step {
	var r []c11step
	for _, p := range parts {
		r = append(r, p...)
	}
	return r
}

func c11cases(tier string) []c11case {
	var cs []c11case
	thorough := tier == "thorough"
	for si, s := range c11shapes {
		if s.genOnly {
			nr := 3
			if thorough {
				nr = 40
			}
			for i := 0; i < nr; i++ {
				cs = append(cs, c11case{shape: si, random: 6 + i%5, tag: "genrandom"})
			}
			continue
		}
		letters := c11letters(s)
		// 1. every script up to a length (structured enumeration)
		// quick: every script up to length 3 (length 4 for the smallest shape); thorough: one longer
		maxLen := 3
		if si == 0 {
			maxLen = 4
		}
		if thorough {
			maxLen++
		}
		for n := 0; n <= maxLen; n++ {
			c11word(letters, n, func(w []c11step) {
				// scripts of the full length that consist of deliveries only are the ones that can fill an inbox;
				// in the quick tier keep a third of them (each blocked delivery costs the deadline)
				if !thorough && n == 3 && len(letters) > 4 {
					// larger alphabets: half of the longest scripts in the quick tier
					h := 0
					for _, st := range w {
						h = h*11 + int(st.op) + st.arg
					}
					if h%2 != 0 {
						return
					}
				}
				if !thorough && n == 4 {
					nd := 0
					h := 0
					for _, st := range w {
						if st.op == 'd' {
							nd++
						}
						h = h*7 + st.arg + 1
					}
					if nd == 4 && h%3 != 0 {
						return
					}
				}
				cs = append(cs, c11case{shape: si, steps: w, tag: "enum"})
			})
		}
		// 2. inbox-filling scripts: k deliveries of one event before anything is armed, arm, deliver again
		a0 := c11step{op: 'a', arg: 0}
		for e := range s.evs {
			d := c11step{op: 'd', arg: e}
			ks := []int{4}
			if thorough {
				ks = []int{4, 5, 6, 7, 8}
			} else if e == 0 && (si == 0 || s.name == "merge2") {
				ks = []int{4, 6}
			}
			for _, k := range ks {
				cs = append(cs, c11case{shape: si, steps: rep(d, k), tag: "fill"})
				if k <= 6 && (thorough || e == 0) {
					cs = append(cs, c11case{shape: si, steps: cat(rep(d, k), []c11step{a0, {op: 'd', arg: 0}, a0, a0}), tag: "fill-arm"})
				}
			}
		}
		// 2b. event-based gateway: one alternative wins, then events for the losing one keep coming
		if s.ebg {
			a0 := c11step{op: 'a', arg: 0}
			for _, wl := range [][2]int{{0, 1}, {1, 0}} {
				win, lose := c11step{op: 'd', arg: wl[0]}, c11step{op: 'd', arg: wl[1]}
				cs = append(cs, c11case{shape: si, steps: cat([]c11step{a0, win}, rep(lose, 6)), tag: "late-loser"})
				cs = append(cs, c11case{shape: si, steps: cat([]c11step{a0, win, lose}, rep(c11step{op: 'd', arg: 2}, 5), []c11step{a0, a0}), tag: "late-loser"})
			}
		}
		// 2c. the same node fires again and again (three tokens through one node / one token coming back), with late
		//     extra deliveries afterwards
		zi := 0
		for i, e := range s.evs {
			if e == sigZ {
				zi = i
			}
		}
		if s.refire {
			a0 := c11step{op: 'a', arg: 0}
			m, z := c11step{op: 'd', arg: 0}, c11step{op: 'd', arg: zi}
			late := rep(z, 8)
			cs = append(cs, c11case{shape: si, steps: cat([]c11step{a0, m, a0, m, a0, m}, late), tag: "refire"})
			cs = append(cs, c11case{shape: si, steps: cat([]c11step{a0, z, m, a0, z, m, a0, z, m, m}, late, []c11step{a0, m, a0, m}), tag: "refire"})
			cs = append(cs, c11case{shape: si, steps: cat([]c11step{a0, m, a0, m, a0, m, a0, m, a0, m}, late), tag: "refire"})
			cs = append(cs, c11case{shape: si, steps: cat([]c11step{a0, a0, m, a0, m, a0, m, m}, late), tag: "refire"})
		}
		// 2d. bursts: the listener is armed, then 5..10 events are handed in back to back without waiting, the
		//     matching one last or in the middle, from one or two goroutines, with and without a slow trace subscriber
		if s.arm > 0 {
			a0 := c11step{op: 'a', arg: 0}
			ns := []int{8}
			if thorough {
				ns = []int{5, 6, 8, 10}
			}
			for _, n := range ns {
				for pat := 0; pat < 2; pat++ {
					var b []int
					for i := 0; i < n; i++ {
						b = append(b, zi)
					}
					if pat == 0 {
						b[n-1] = 0
					} else {
						b[n/2] = 0
					}
					for g := 1; g <= 2; g++ {
						for _, slow := range []bool{false, true} {
							steps := cat(rep(a0, s.arm), []c11step{{op: 'b', burst: b, g: g}, {op: 'd', arg: 0}})
							cs = append(cs, c11case{shape: si, steps: steps, tag: "burst", slow: slow})
						}
					}
				}
			}
			if s.refire {
				// a burst in every round
				b := []int{zi, zi, zi, zi, zi, zi, 0}
				round := []c11step{a0, {op: 'b', burst: b, g: 2}}
				cs = append(cs, c11case{shape: si, steps: cat(round, round, round, round), tag: "burst", slow: true})
				cs = append(cs, c11case{shape: si, steps: cat(round, round, round, round), tag: "burst"})
			}
		}
		// 3. deliveries before the instance is started (the start event's reader is not running either)
		for _, k := range []int{1, 2, 3} {
			if k == 3 && !thorough {
				continue
			}
			cs = append(cs, c11case{shape: si, steps: cat(rep(c11step{op: 'd', arg: 0}, k), []c11step{{op: 's', arg: 0}, a0, {op: 'd', arg: 0}, a0}), tag: "prestart"})
		}
		// 4. seeded longer scripts (5..8 deliveries, arming in between)
		nr := 4
		if thorough {
			nr = 160
		}
		for i := 0; i < nr; i++ {
			cs = append(cs, c11case{shape: si, random: 5 + i%4, tag: "random"})
		}
	}
	return cs
}

func c11random(s c11shape, nd int, rng *rec.Rng) []c11step {
	var w []c11step
	delivered := 0
	for delivered < nd {
		switch r := rng.Intn(10); {
		case r < 6:
			// bias towards the events that match something
			e := rng.Intn(len(s.evs))
			if rng.Intn(3) == 0 {
				e = 0
			}
			w = append(w, c11step{op: 'd', arg: e})
			delivered++
		case r < 9 || !s.par:
			w = append(w, c11step{op: 'a', arg: 0})
		default:
			w = append(w, c11step{op: 'a', arg: 1})
		}
	}
	return w
}

func c11script(s c11shape, w []c11step) string {
	if len(w) == 0 {
		return "-"
	}
	parts := make([]string, len(w))
	for i, st := range w {
		switch st.op {
		case 'd':
			parts[i] = "d:" + s.evs[st.arg].kind[:1] + s.evs[st.arg].name
		case 'a':
			parts[i] = fmt.Sprintf("a%d", st.arg)
		case 's':
			parts[i] = "start"
		case 'b':
			es := make([]string, len(st.burst))
			for k, e := range st.burst {
				es[k] = s.evs[e].kind[:1] + s.evs[e].name
			}
			parts[i] = fmt.Sprintf("b%d:%s", st.g, strings.Join(es, "+"))
		}
	}
	return strings.Join(parts, ",")
}

// c11progExtra: the order in which inbox consumers were registered (start events, then intermediate catch
// events, as NewProcess does) and the event definitions of each catch event in the order the satisfier sees
// them — read from the PARSED definitions.
func c11progExtra(proc *schema.Process) []string {
	var out []string
	var order []string
	for i := range *proc.StartEvents() {
		e := &(*proc.StartEvents())[i]
		if id, ok := e.Id(); ok {
			order = append(order, *id)
		}
	}
	catches := func(list *[]schema.IntermediateCatchEvent) {
		for i := range *list {
			e := &(*list)[i]
			id, _ := e.Id()
			order = append(order, *id)
			for k, d := range e.CatchEvent.EventDefinitions() {
				switch x := d.(type) {
				case *schema.SignalEventDefinition:
					if r, ok := x.SignalRef(); ok {
						out = append(out, fmt.Sprintf("def %s %d signal %s", *id, k, string(*r)))
					}
				case *schema.MessageEventDefinition:
					if r, ok := x.MessageRef(); ok {
						out = append(out, fmt.Sprintf("def %s %d message %s", *id, k, string(*r)))
					}
				default:
					out = append(out, fmt.Sprintf("def %s %d other -", *id, k))
				}
			}
		}
	}
	catches(proc.IntermediateCatchEvents())
	// catch events inside embedded sub-processes (any depth): an event handed to the instance reaches them too; they come
	// after the top-level consumers (a sub-process is wired after the events and tasks of its parent). The inner START
	// events are not listed: an embedded sub-process is started by its parent's token, never by an event.
	var nested func(subs *[]schema.SubProcess)
	nested = func(subs *[]schema.SubProcess) {
		for i := range *subs {
			sp := &(*subs)[i]
			catches(sp.IntermediateCatchEvents())
			nested(sp.SubProcesses())
		}
	}
	nested(proc.SubProcesses())
	out = append(out, "consumers "+strings.Join(order, ","))
	return out
}

// c11deliver hands an event to the instance under the deadline (same lines as eng.Inst.Deliver). A call that has not
// returned at the deadline is looked at again once no goroutine of the process can run any more: a caller that is
// really parked on a full inbox is still parked then, one that was only slow (loaded machine) has returned.
func c11deliver(in *eng.Inst, e c11ev, d time.Duration, stats map[string]int) bool {
	ev := in.EventValue(e.kind, e.name)
	in.Op("deliver %s %s", e.kind, e.name)
	done := make(chan struct{})
	var panicked atomic.Value
	go func() {
		defer func() {
			if r := recover(); r != nil {
				panicked.Store(fmt.Sprint(r))
			}
			close(done)
		}()
		in.Proc.ConsumeEvent(ev)
	}()
	ret := false
	select {
	case <-done:
		ret = true
	case <-time.After(d):
		in.Quiesce(4 * timeSecond)
		select {
		case <-done:
			ret = true
			stats["slow_delivery_returned_after_deadline"]++
		default:
		}
	}
	if p := panicked.Load(); p != nil {
		in.Note("obs panic %s", strings.ReplaceAll(p.(string), "\n", " "))
	}
	if ret {
		in.Note("obs ret deliver %s returned", e.name)
	} else {
		in.Note("obs ret deliver %s blocked", e.name)
	}
	return ret
}

// c11burst hands the events to the instance back to back, without waiting for anything in between, from g goroutines
// (event i by goroutine i%g, each goroutine in order). One `op burst` line, one `obs ret deliver burst …` line: returned
// iff every call returned (re-examined at quiescence like a single delivery).
func c11burst(in *eng.Inst, evs []c11ev, g int, stats map[string]int) bool {
	names := make([]string, len(evs))
	mk := make([]event.IEvent, len(evs))
	for i, e := range evs {
		names[i] = e.kind + ":" + e.name
		if e.kind == "message" {
			mk[i] = event.NewMessageEvent(e.name, nil)
		} else {
			mk[i] = event.NewSignalEvent(e.name)
		}
	}
	in.Op("burst %d %s", g, strings.Join(names, ","))
	var wg sync.WaitGroup
	var panicked atomic.Value
	for k := 0; k < g; k++ {
		wg.Add(1)
		go func(k int) {
			defer wg.Done()
			defer func() {
				if r := recover(); r != nil {
					panicked.Store(fmt.Sprint(r))
				}
			}()
			for i := k; i < len(mk); i += g {
				in.Proc.ConsumeEvent(mk[i])
			}
		}(k)
	}
	done := make(chan struct{})
	go func() { wg.Wait(); close(done) }()
	ret := false
	select {
	case <-done:
		ret = true
	case <-time.After(c11deadline + time.Duration(len(evs))*100*timeMillisecond):
		in.Quiesce(4 * timeSecond)
		select {
		case <-done:
			ret = true
			stats["slow_delivery_returned_after_deadline"]++
		default:
		}
	}
	if p := panicked.Load(); p != nil {
		in.Note("obs panic %s", strings.ReplaceAll(p.(string), "\n", " "))
	}
	stats[fmt.Sprintf("burst_len_%d_g%d", len(evs), g)]++
	if ret {
		in.Note("obs ret deliver burst returned")
	} else {
		in.Note("obs ret deliver burst blocked")
	}
	return ret
}

func c11run(out *rec.Out, c c11case, rng *rec.Rng, stats map[string]int) {
	s := c11shapes[c.shape]
	steps := c.steps
	if c.random > 0 {
		steps = c11random(s, c.random, rng)
	}
	g := eng.NewGraph()
	vars := s.build(g)
	out.Begin("c11", s.name, c.tag, c11script(s, steps), fmt.Sprintf("slow=%d", rec.B(c.slow)))
	defer out.End()
	anyVars := map[string]any{}
	for k, v := range vars {
		anyVars[k] = v
	}
	if len(steps)%3 == 0 {
		// ANOTHER document was instantiated earlier in this program: the same element and definition ids, but every
		// catch event listens for a different event. Nothing of it may be left when the document under test runs.
		g0 := eng.NewGraph()
		s.build(g0)
		for _, n := range g0.Nodes {
			for i := range n.Defs {
				n.Defs[i].Name += "_earlier_document"
			}
		}
		if d0, err := schema.Parse([]byte(g0.XML())); err == nil {
			if in0, err := eng.NewInst(d0, anyVars); err == nil {
				in0.Proc.StartAll(in0.Ctx)
				in0.Quiesce(2 * timeSecond)
				in0.Stop(2 * timeSecond)
				stats["cases_after_an_earlier_document_with_the_same_ids"]++
			}
		}
	}
	defs, err := schema.Parse([]byte(g.XML()))
	if err != nil {
		out.Line("harness-error parse %v", err)
		return
	}
	in, err := eng.NewInst(defs, anyVars)
	if err != nil {
		out.Line("harness-error %v", err)
		return
	}
	proc := &(*defs.Processes())[0]
	for _, l := range eng.ProgLines(proc, g.CondRPN) {
		out.Line("prog %s", l)
	}
	for _, l := range c11progExtra(proc) {
		out.Line("prog %s", l)
	}
	out.Line("prog vars %s", fmtVars(vars))
	nd, na := 0, 0
	for _, st := range steps {
		if st.op == 'd' {
			nd++
		} else if st.op == 'a' {
			na++
		}
	}
	stats["cases"]++
	stats["shape_"+s.name]++
	stats["tag_"+c.tag]++
	stats[fmt.Sprintf("deliveries_%d", nd)]++

	started := false
	start := func() bool {
		started = true
		in.Op("startall")
		if err := in.Proc.StartAll(in.Ctx); err != nil {
			in.Note("harness-error startall %v", err)
			return false
		}
		return true
	}
	quiesce := func() bool {
		if !in.Quiesce(4 * timeSecond) {
			in.Note("obs noquiesce")
			return false
		}
		return true
	}
	pendingByName := func() []*eng.Req {
		p := in.Pending()
		sort.SliceStable(p, func(i, j int) bool { return p[i].Node < p[j].Node })
		return p
	}
	// the task L of the loop shape writes the number of the round it closes
	answer := func(q *eng.Req) {
		if q.Node == "L" {
			in.AnswerOK(q, map[string]int{"c1": q.Occ})
		} else {
			in.AnswerOK(q, nil)
		}
	}
	slowStop := make(chan struct{})
	if c.slow {
		// a subscriber with a one-slot channel that takes 1 ms over every trace: the tracer's broadcast waits for it,
		// so every node loop that sends a trace does, while the burst keeps coming
		ch := in.Proc.Tracer().SubscribeChannel(make(chan tracing.ITrace, 1))
		go func() {
			for {
				select {
				case _, open := <-ch:
					if !open {
						return
					}
					// time.Sleep, not a timer channel: a sleeping goroutine counts as "can still run" for the
					// quiescence detection, a goroutine waiting on a timer channel would not
					time.Sleep(time.Millisecond)
				case <-slowStop:
					// keep draining so that the tracer never waits for us after the case
					for range ch {
					}
					return
				}
			}
		}()
	}
	ok := true
	hasStart := false
	for _, st := range steps {
		if st.op == 's' {
			hasStart = true
		}
	}
	if !hasStart {
		ok = start()
	}
	blocked := 0
	for _, st := range steps {
		if !ok {
			break
		}
		if !quiesce() {
			ok = false
			break
		}
		switch st.op {
		case 's':
			if !started {
				ok = start()
			}
		case 'd':
			e := s.evs[st.arg]
			if !c11deliver(in, e, c11deadline, stats) {
				blocked++
			}
		case 'b':
			var evs []c11ev
			for _, e := range st.burst {
				evs = append(evs, s.evs[e])
			}
			if !c11burst(in, evs, st.g, stats) {
				blocked++
			}
		case 'a':
			if !started {
				continue
			}
			p := pendingByName()
			if st.arg < len(p) {
				answer(p[st.arg])
			}
		}
	}
	// drain: answer whatever is still pending so that the final state of every listener shows
	for i := 0; i < 24 && ok && started; i++ {
		if !quiesce() {
			break
		}
		p := pendingByName()
		if len(p) == 0 {
			break
		}
		answer(p[0])
	}
	in.Quiesce(2 * timeSecond)
	close(slowStop)
	if blocked > 0 {
		stats["cases_with_blocked_delivery"]++
	}
	for _, p := range in.Panics {
		in.Note("obs panic %s", strings.ReplaceAll(p, "\n", " "))
	}
	for _, l := range in.Lines() {
		out.Line("%s", l)
	}
	out.Line("obs final vars=%s", in.Vars())
	in.Stop(1 * timeSecond)
}
