package main

import (
	"fmt"
	"strings"
	"time"

	"github.com/olive-io/bpmn/schema"

	"verifharness/internal/eng"
	"verifharness/internal/rec"
)

// Family c01twin: TWO instances of ONE parsed definitions value, with different data, alive at the same time and
// answered in a seeded interleaving (the second one is created after the first has already made some steps). Each
// instance must behave as if it were alone: whatever the engine keeps per definitions, per element or per package must
// not carry anything from one instance into the other. One case = the two recorded runs, separated by `variant twin`;
// each is judged like a C01 run.
func init() {
	caseFamilies["c01twin"] = &caseFamily{
		Shard: 1, Par: 12,
		Count: func(tier string) int {
			if tier == "thorough" {
				return 800
			}
			return 70
		},
		Run: c01twin,
	}
}

func c01twin(out *rec.Out, idx int, rng *rec.Rng, tier string, stats map[string]int) {
	o := genOpts{kinds: []string{"task", "task", "seq", "seq", "xor", "xor", "par", "loop", "sub", "incl"}, maxNodes: 11, maxDepth: 3,
		undeclared: true, dataObjects: true, tailCtask: true}
	ge := &gen{g: eng.NewGraph(), rng: rng, o: o, budget: 3 + rng.Intn(o.maxNodes), vars: []string{"v0", "v1", "v2"},
		loopTask: map[string]string{}, stats: stats}
	if rng.Fork().Intn(3) == 0 {
		ge.vars = append(ge.vars, "@d0")
	}
	top := ge.block("", 0)
	if rng.Intn(4) == 0 {
		saved := ge.o.kinds
		ge.o.kinds = []string{"task", "task", "seq", "xor"}
		ge.budget += 4
		top = ge.g.Seq(top, ge.ctask(""))
		ge.o.kinds = saved
	}
	ge.g.Wrap(top)
	g := ge.g
	if sh := rng.Fork(); sh.Intn(2) == 0 {
		g.ShuffleDecl(sh.Intn)
	}
	out.Begin("c01twin")
	defer out.End()
	defs, err := schema.Parse([]byte(g.XML()))
	if err != nil {
		out.Line("harness-error parse %v", err)
		return
	}
	prog := eng.ProgLines(&(*defs.Processes())[0], g.CondRPN)
	type twin struct {
		in        *eng.Inst
		varsInt   map[string]int
		loopCount map[string]int
		quiet     bool
		done      bool
	}
	mk := func() (*twin, error) {
		t := &twin{varsInt: map[string]int{}, loopCount: map[string]int{}, quiet: true}
		vars := map[string]any{}
		for _, v := range ge.vars {
			if !strings.HasPrefix(v, "@") {
				t.varsInt[v] = rng.Intn(3)
			}
		}
		for i := 1; i <= ge.nloop; i++ {
			t.varsInt[fmt.Sprintf("c%d", i)] = 0
		}
		for k, v := range t.varsInt {
			vars[k] = v
		}
		in, err := eng.StartDefs(defs, vars)
		t.in = in
		return t, err
	}
	a, err := mk()
	if err != nil {
		out.Line("harness-error %v", err)
		return
	}
	tw := []*twin{a}
	stats["cases"]++
	startB := rng.Intn(4) // the second instance is created after this many answers of the first
	step := func(t *twin) {
		if !t.in.Quiesce(4 * time.Second) {
			t.in.Note("obs noquiesce")
			t.quiet, t.done = false, true
			return
		}
		p := t.in.Pending()
		if len(p) == 0 {
			t.done = true
			return
		}
		q := p[rng.Intn(len(p))]
		res := map[string]int{}
		n := g.Node(q.Node)
		for _, r := range n.Results {
			res[r] = rng.Intn(3)
		}
		for _, d := range n.Outputs {
			res["@"+d] = rng.Intn(3)
		}
		if cv, ok := ge.loopTask[q.Node]; ok {
			t.loopCount[cv]++
			res[cv] = t.loopCount[cv]
		}
		t.in.AnswerOK(q, res)
		stats["answers"]++
	}
	for steps := 0; steps < 300; steps++ {
		if len(tw) == 1 && (steps >= startB || a.done) {
			b, err := mk()
			if err != nil {
				out.Line("harness-error twin %v", err)
				return
			}
			tw = append(tw, b)
			stats[fmt.Sprintf("second_instance_after_%d_answers", steps)]++
		}
		var live []*twin
		for _, t := range tw {
			if !t.done {
				live = append(live, t)
			}
		}
		if len(live) == 0 && len(tw) == 2 {
			break
		}
		if len(live) == 0 {
			continue
		}
		step(live[rng.Intn(len(live))])
	}
	for k, t := range tw {
		if k == 1 {
			out.Line("variant twin")
		}
		for _, l := range prog {
			out.Line("prog %s", l)
		}
		out.Line("prog vars %s", fmtVars(t.varsInt))
		complete := false
		if t.quiet {
			complete = t.in.WaitComplete(1500 * time.Millisecond)
			t.in.Quiesce(2 * time.Second)
		}
		for _, l := range t.in.Lines() {
			out.Line("%s", l)
		}
		out.Line("obs final complete=%d vars=%s", rec.B(complete), t.in.VarsAndObjects())
		if complete {
			stats["completed"]++
		}
	}
	for _, t := range tw {
		t.in.Stop(2 * time.Second)
	}
}
