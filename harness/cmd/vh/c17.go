package main

// C17 — no data race and no panic inside the engine under concurrent use.
//
// Family `c17` is a PARENT that runs every case (`c17case`) in its own child process, so that a panic in any engine
// goroutine — which kills the whole process — is attributed to the case: a non-zero child exit becomes a recorded
// `c17 panic <function> <message>` / `c17 crash …` line instead of a harness crash. When the binary was built with
// `-race` the parent also points the child's race detector at a per-case log file (GORACE log_path, halt_on_error=0),
// parses it after the child has exited and adds one `c17 race <funcA> <funcB> …` line per distinct pair of top frames
// that lie in /repo (non-test files).
//
// A case drives one real instance from MANY goroutines at once: batches of task answers (different requests answered
// simultaneously, and several goroutines racing to `Do` the same request), concurrent `ConsumeEvent` deliveries,
// `Tracer().Subscribe()/Unsubscribe()` churn, `Locator()` readers (GetVariable / CloneVariables / CloneItems /
// FindIItemAwareLocator) and a writer (SetVariable of scratch variables), and several `WaitUntilComplete` callers, with
// `sched.Perturb` switched on. Program shapes: C01-style generated block programs (`prog`), event-based gateway (`ebg`),
// boundary events (`bnd`), intermediate catch events (`catch`), data outputs (`dobj`), and two instances created on one
// shared locator (`loc`).
//
// For `prog` cases the recorded history is also judged against the sequential token semantics (C01's judge): answers of
// one concurrent batch are recorded as `opnw` (issued without waiting) and carry no value a condition reads, so the
// batch commutes and the model can replay it in the recorded order.

import (
	"bufio"
	"bytes"
	"context"
	"encoding/json"
	"fmt"
	"os"
	"os/exec"
	"path/filepath"
	"regexp"
	"runtime"
	"runtime/debug"
	"sort"
	"strings"
	"sync"
	"sync/atomic"
	"time"

	bpmn "github.com/olive-io/bpmn/v2"
	"github.com/olive-io/bpmn/v2/pkg/data"
	"github.com/olive-io/bpmn/v2/pkg/event"
	"github.com/olive-io/bpmn/v2/pkg/tracing"

	"verifharness/internal/eng"
	"verifharness/internal/rec"
	"verifharness/internal/sched"
)

func init() {
	families["c17"] = c17parent
	// the label the runner gives the race-detector pass; `./check replay` re-executes a recorded case under that
	// name with the plain binary, which then hands the children to the cached race binary next to it
	families["c17race"] = c17parent
	caseFamilies["c17case"] = &caseFamily{
		Shard: 1, Par: 8,
		Count: c17count,
		Run:   c17runCase,
	}
}

func c17count(tier string) int {
	if tier == "thorough" {
		return 408
	}
	return 60
}

var c17kinds = []string{"prog", "ebg", "prog", "bnd", "prog", "catch", "prog", "dobj", "prog", "loc", "cond", "merge"}

func c17raceBuild() bool {
	if bi, ok := debug.ReadBuildInfo(); ok {
		for _, s := range bi.Settings {
			if s.Key == "-race" && s.Value == "true" {
				return true
			}
		}
	}
	return false
}

// ---------------------------------------------------------------- parent: one child process per case

func c17dir() string {
	d := os.Getenv("VERIF_C17_DIR")
	if d == "" {
		self, _ := os.Executable()
		d = filepath.Join(filepath.Dir(self), "run", "c17")
	}
	os.MkdirAll(d, 0o755)
	return d
}

type c17child struct {
	idx    int
	stdout []byte
	stderr string
	exit   int
	timed  bool
	races  []string
	stats  map[string]int
}

func c17parent(out *rec.Out, rng *rec.Rng, tier string, stats map[string]int) {
	seed := c17seedFromArgs()
	n := c17count(tier)
	dir := c17dir()
	self, _ := os.Executable()
	race := c17raceBuild()
	if !race && len(os.Args) > 0 && os.Args[len(os.Args)-1] == "c17race" {
		if cand := filepath.Join(filepath.Dir(self), "vh-race-C17"); c17exists(cand) {
			self, race = cand, true
		}
	}
	var idxs []int
	for i := 0; i < n; i++ {
		if out.Only > 0 && i+1 != out.Only {
			continue
		}
		idxs = append(idxs, i)
	}
	res := make([]*c17child, len(idxs))
	par := 8
	if v := os.Getenv("VERIF_C17_PAR"); v != "" {
		fmt.Sscan(v, &par)
	}
	sem := make(chan struct{}, par)
	var wg sync.WaitGroup
	for k, i := range idxs {
		wg.Add(1)
		sem <- struct{}{}
		go func(k, i int) {
			defer wg.Done()
			defer func() { <-sem }()
			res[k] = c17spawn(self, dir, seed, tier, i, race)
		}(k, i)
	}
	wg.Wait()
	for _, c := range res {
		for k, v := range c.stats {
			stats[k] += v
		}
		lines := strings.Split(strings.TrimRight(string(c.stdout), "\n"), "\n")
		params := []any{}
		var body []string
		begun, ended := false, false
		for _, l := range lines {
			switch {
			case strings.HasPrefix(l, "case begin "):
				w := strings.Fields(l)
				for _, p := range w[4:] {
					params = append(params, p)
				}
				begun = true
			case l == "case end":
				ended = true
			case l != "":
				body = append(body, l)
			}
		}
		if !begun {
			params = []any{"kind=" + c17kinds[c.idx%len(c17kinds)], "race=" + fmt.Sprint(rec.B(race))}
		}
		out.SetNext(c.idx + 1)
		out.Begin("c17", params...)
		for _, l := range body {
			out.Line("%s", l)
		}
		if c.exit != 0 || !ended {
			stats["child_died"]++
			for _, l := range c17explainDeath(c) {
				out.Line("%s", l)
			}
		}
		for _, r := range c.races {
			out.Line("%s", r)
		}
		out.End()
	}
}

func c17exists(p string) bool {
	_, err := os.Stat(p)
	return err == nil
}

func c17seedFromArgs() uint64 {
	// the framework hands families an Rng, not the seed; children are addressed by (seed, index), so read it back
	for i, a := range os.Args {
		if (a == "-seed" || a == "--seed") && i+1 < len(os.Args) {
			var s uint64
			fmt.Sscan(os.Args[i+1], &s)
			return s
		}
		if strings.HasPrefix(a, "-seed=") {
			var s uint64
			fmt.Sscan(strings.TrimPrefix(a, "-seed="), &s)
			return s
		}
	}
	return 1
}

func c17spawn(self, dir string, seed uint64, tier string, idx int, race bool) *c17child {
	c := &c17child{idx: idx, stats: map[string]int{}}
	tag := fmt.Sprintf("c17-%d-%s-%d-%d", seed, tier, idx, os.Getpid())
	logBase := filepath.Join(dir, tag+".race")
	sp := filepath.Join(dir, tag+".stats.json")
	cmd := exec.Command(self, "-child", "-seed", fmt.Sprint(seed), "-tier", tier,
		"-from", fmt.Sprint(idx), "-to", fmt.Sprint(idx+1), "-stats", sp, "c17case")
	cmd.Env = append(os.Environ(), "GORACE=halt_on_error=0 exitcode=0 history_size=3 log_path="+logBase, "GOTRACEBACK=all")
	var so, se bytes.Buffer
	cmd.Stdout = &so
	cmd.Stderr = &se
	done := make(chan error, 1)
	if err := cmd.Start(); err != nil {
		c.exit, c.stderr = 127, err.Error()
		return c
	}
	go func() { done <- cmd.Wait() }()
	limit := 120 * time.Second
	if tier == "thorough" {
		limit = 240 * time.Second
	}
	select {
	case err := <-done:
		if err != nil {
			c.exit = 1
			if ee, ok := err.(*exec.ExitError); ok {
				c.exit = ee.ExitCode()
			}
		}
	case <-time.After(limit):
		cmd.Process.Kill()
		<-done
		c.exit, c.timed = 124, true
	}
	c.stdout, c.stderr = so.Bytes(), se.String()
	if b, err := os.ReadFile(sp); err == nil {
		json.Unmarshal(b, &c.stats)
		os.Remove(sp)
	}
	logs, _ := filepath.Glob(logBase + ".*")
	sort.Strings(logs)
	seen := map[string]bool{}
	for _, lf := range logs {
		b, err := os.ReadFile(lf)
		if err != nil {
			continue
		}
		for _, r := range c17parseRaces(string(b)) {
			if !seen[r.key] {
				seen[r.key] = true
				c.races = append(c.races, r.line)
			}
		}
		if os.Getenv("VERIF_C17_KEEP") == "" {
			os.Remove(lf)
		}
	}
	return c
}

var c17gowrap = regexp.MustCompile(`\.gowrap\d+$`)
var c17frameFile = regexp.MustCompile(`^\s+(\S+\.go):(\d+)`)

// c17repoFrame: is this (function, file) a frame of the engine itself (not runtime, not a test, not the harness)?
func c17repoFrame(fn, file string) bool {
	if !strings.Contains(fn, "github.com/olive-io/bpmn/") {
		return false
	}
	if strings.HasSuffix(file, "_test.go") || strings.Contains(file, "/verif/harness/") || strings.Contains(filepath.Base(file), "verif_") {
		return false
	}
	return true
}

// c17canonFunc: github.com/olive-io/bpmn/v2/pkg/data.(*FlowDataLocator).CloneItems → data.FlowDataLocator.CloneItems
func c17canonFunc(fn string) string {
	fn = strings.TrimSpace(fn)
	// cut the argument list: the first "(" that does not open a pointer receiver "(*T)"
	for i := 0; i < len(fn); i++ {
		if fn[i] == '(' && !(i+1 < len(fn) && fn[i+1] == '*') {
			fn = fn[:i]
			break
		}
	}
	fn = strings.TrimPrefix(fn, "github.com/olive-io/bpmn/v2/")
	fn = strings.TrimPrefix(fn, "github.com/olive-io/bpmn/")
	if i := strings.LastIndex(fn, "/"); i >= 0 {
		fn = fn[i+1:]
	}
	fn = strings.TrimPrefix(fn, "v2.")
	fn = strings.NewReplacer("(*", "", ")", "", "(", "", " ", "").Replace(fn)
	// generic instantiation noise
	if i := strings.Index(fn, "["); i >= 0 {
		fn = fn[:i]
	}
	// compiler-generated wrapper of a `go` statement
	fn = c17gowrap.ReplaceAllString(fn, "")
	if fn == "" {
		fn = "?"
	}
	return fn
}

type c17race struct{ key, line string }

// c17parseRaces canonicalises the reports of one race-detector log: per report the pair of top engine frames of the two
// conflicting accesses.
func c17parseRaces(log string) []c17race {
	var out []c17race
	for _, blk := range strings.Split(log, "==================") {
		if !strings.Contains(blk, "WARNING: DATA RACE") {
			continue
		}
		lines := strings.Split(blk, "\n")
		type acc struct {
			kind     string
			fn, file string
			line     string
		}
		var accs []acc
		for i := 0; i < len(lines); i++ {
			l := lines[i]
			isAcc := false
			kind := ""
			for _, p := range []string{"Read at ", "Write at ", "Previous read at ", "Previous write at ",
				"Atomic read at ", "Atomic write at ", "Previous atomic read at ", "Previous atomic write at "} {
				if strings.HasPrefix(l, p) {
					isAcc = true
					kind = strings.ToLower(strings.Fields(strings.TrimPrefix(p, "Previous "))[0])
					if strings.Contains(strings.ToLower(p), "atomic") {
						kind = "atomic-" + strings.ToLower(strings.Fields(strings.TrimPrefix(strings.TrimPrefix(p, "Previous "), "Atomic "))[0])
						kind = strings.Replace(kind, "atomic-atomic", "atomic", 1)
					}
				}
			}
			if !isAcc {
				continue
			}
			a := acc{kind: kind, fn: "?"}
			first := ""
			for j := i + 1; j+1 < len(lines) && strings.TrimSpace(lines[j]) != ""; j += 2 {
				fn := strings.TrimSpace(lines[j])
				m := c17frameFile.FindStringSubmatch(lines[j+1])
				if m == nil {
					continue
				}
				if first == "" && !strings.HasPrefix(fn, "runtime.") && !strings.HasPrefix(fn, "sync") {
					first = "outside:" + c17canonFunc(fn)
				}
				if c17repoFrame(fn, m[1]) {
					a.fn, a.file, a.line = c17canonFunc(fn), filepath.Base(m[1]), m[2]
					break
				}
			}
			if a.fn == "?" && first != "" {
				a.fn = first
			}
			accs = append(accs, a)
		}
		if len(accs) < 2 {
			continue
		}
		a, b := accs[0], accs[1]
		if b.fn < a.fn {
			a, b = b, a
		}
		word := "race"
		if strings.HasPrefix(a.fn, "outside:") && strings.HasPrefix(b.fn, "outside:") || a.fn == "?" && b.fn == "?" {
			word = "raceoutside" // both accesses outside the engine (harness / third party): not a finding about /repo
		}
		key := a.fn + "|" + b.fn
		out = append(out, c17race{key: word + ":" + key, line: fmt.Sprintf("c17 %s %s %s %s@%s:%s %s@%s:%s", word, a.fn, b.fn,
			a.kind, a.file, a.line, b.kind, b.file, b.line)})
	}
	return out
}

// c17explainDeath turns the stderr of a dead child into recorded lines.
func c17explainDeath(c *c17child) []string {
	if c.timed {
		return []string{"c17 crash timeout child exceeded its time limit"}
	}
	sc := bufio.NewScanner(strings.NewReader(c.stderr))
	sc.Buffer(make([]byte, 1<<20), 1<<24)
	var all []string
	for sc.Scan() {
		all = append(all, sc.Text())
	}
	msg, at := "", -1
	for i, l := range all {
		if strings.HasPrefix(l, "panic: ") || strings.HasPrefix(l, "fatal error: ") {
			msg, at = l, i
			break
		}
	}
	if at < 0 {
		tailN := all
		if len(tailN) > 6 {
			tailN = tailN[len(tailN)-6:]
		}
		return []string{fmt.Sprintf("c17 crash exit=%d %s", c.exit, strings.Join(tailN, " / "))}
	}
	// first engine frame of the first goroutine dump after the message
	fn := "?"
	var stack []string
	for j := at + 1; j+1 < len(all) && len(stack) < 12; j++ {
		l := all[j]
		if strings.HasPrefix(l, "goroutine ") && len(stack) > 0 {
			break
		}
		if strings.HasPrefix(l, "\t") || l == "" || strings.HasPrefix(l, "goroutine ") || strings.HasPrefix(l, "[") {
			continue
		}
		stack = append(stack, l)
		file := ""
		if j+1 < len(all) {
			file = strings.TrimSpace(all[j+1])
		}
		if fn == "?" && c17repoFrame(l, file) {
			fn = c17canonFunc(l)
		}
	}
	word := "panic"
	if strings.HasPrefix(msg, "fatal error: ") {
		word = "fatal"
	}
	m := strings.TrimPrefix(strings.TrimPrefix(msg, "panic: "), "fatal error: ")
	if len(m) > 160 {
		m = m[:160]
	}
	return []string{fmt.Sprintf("c17 %s %s %s", word, fn, strings.ReplaceAll(m, "\n", " ")),
		"c17 stack " + strings.Join(stack, " < ")}
}

// ---------------------------------------------------------------- child: one case

type c17cfg struct {
	kind      string
	perturb   int
	readers   int // locator reader goroutines per burst
	subs      int // subscribe/unsubscribe goroutines per burst
	waiters   int // WaitUntilComplete callers
	dup       int // goroutines racing to Do the same request (1 = no duplicates)
	maxBatch  int // requests answered at once
	unrelated int // deliveries of an event nobody waits for, per burst
	ctl       *sched.Controller
	together  bool // ebg: the competing flows are held at the entry of the determination and released together
}

type c17counters struct {
	answers, concAnswers, dupDos, deliveries, subs, reads, writes, waitsTrue, waits, blockedDo, blockedDeliver atomic.Int64
	batches                                                                                                    int
}

func c17runCase(out *rec.Out, idx int, rng *rec.Rng, tier string, stats map[string]int) {
	kind := c17kinds[idx%len(c17kinds)]
	cfg := c17cfg{kind: kind, perturb: 1 + rng.Intn(2), readers: 2 + rng.Intn(3), subs: 1 + rng.Intn(2),
		waiters: 2 + rng.Intn(3), dup: 1 + rng.Intn(3), maxBatch: 2 + rng.Intn(2), unrelated: rng.Intn(3)}
	if idx%7 == 0 {
		cfg.perturb = 0
	}
	race := c17raceBuild()
	out.Begin("c17case", "kind="+kind, fmt.Sprintf("race=%d", rec.B(race)), fmt.Sprintf("perturb=%d", cfg.perturb))
	defer out.End()
	stats["cases"]++
	stats["kind_"+kind]++
	stats[fmt.Sprintf("perturb_%d", cfg.perturb)]++

	ctl := sched.Install()
	defer ctl.Remove()
	cfg.ctl = ctl
	cfg.together = kind == "ebg" && rng.Intn(2) == 0
	if cfg.perturb > 0 {
		ctl.Perturb(rng.U64(), cfg.perturb)
	}
	switch kind {
	case "prog":
		c17prog(out, idx, rng, tier, stats, cfg)
	case "dobj":
		c17dobj(out, rng, stats, cfg)
	case "ebg", "bnd", "catch":
		c17events(out, rng, stats, cfg)
	case "loc":
		c17loc(out, rng, stats, cfg)
	case "cond":
		c17cond(out, rng, stats, cfg)
	case "merge":
		c17merge(out, rng, stats, cfg)
	}
}

// c17session: one running instance plus the concurrent background load.
type c17session struct {
	in   *eng.Inst
	cfg  c17cfg
	cnt  *c17counters
	vars []string
	// WaitUntilComplete callers
	waitCancel context.CancelFunc
	waitWG     sync.WaitGroup
}

func c17newSession(in *eng.Inst, cfg c17cfg, vars []string) *c17session {
	s := &c17session{in: in, cfg: cfg, cnt: &c17counters{}, vars: vars}
	ctx, cancel := context.WithTimeout(context.Background(), 60*time.Second)
	s.waitCancel = cancel
	for i := 0; i < cfg.waiters; i++ {
		s.waitWG.Add(1)
		go func() {
			defer s.waitWG.Done()
			s.cnt.waits.Add(1)
			if in.Proc.WaitUntilComplete(ctx) {
				s.cnt.waitsTrue.Add(1)
			}
		}()
	}
	return s
}

// burst starts one round of background load and returns a WaitGroup that is done when the round is over. All random
// choices are drawn here, before any goroutine starts.
func (s *c17session) burst(rng *rec.Rng) *sync.WaitGroup {
	var wg sync.WaitGroup
	in := s.in
	loc := in.Proc.Locator()
	for r := 0; r < s.cfg.readers; r++ {
		n := 6 + rng.Intn(10)
		off := rng.Intn(7)
		wg.Add(1)
		go func() {
			defer wg.Done()
			for i := 0; i < n; i++ {
				switch (i + off) % 7 {
				case 0:
					if len(s.vars) > 0 {
						loc.GetVariable(s.vars[i%len(s.vars)])
					}
				case 1:
					for _, it := range loc.CloneVariables() {
						_ = it.Value()
					}
				case 2:
					for _, it := range loc.CloneItems(data.LocatorObject) {
						_ = it.Value()
					}
				case 3:
					loc.CloneItems(data.LocatorHeader)
				case 4:
					loc.CloneItems(data.LocatorProperty)
				case 5:
					if l, ok := loc.FindIItemAwareLocator(data.LocatorObject); ok {
						l.FindItemAwareByName("o1")
						l.FindItemAwareById("o1")
					}
				case 6:
					loc.GetVariable("scratch0")
				}
				s.cnt.reads.Add(1)
				runtime.Gosched()
			}
		}()
	}
	{ // one writer of scratch variables no condition reads
		n := 3 + rng.Intn(5)
		base := rng.Intn(1000)
		wg.Add(1)
		go func() {
			defer wg.Done()
			for i := 0; i < n; i++ {
				loc.SetVariable(fmt.Sprintf("scratch%d", i%2), base+i)
				s.cnt.writes.Add(1)
				runtime.Gosched()
			}
		}()
	}
	for k := 0; k < s.cfg.subs; k++ {
		n := 1 + rng.Intn(3)
		wg.Add(1)
		go func() {
			defer wg.Done()
			tr := in.Proc.Tracer()
			for i := 0; i < n; i++ {
				ch := tr.SubscribeChannel(make(chan tracing.ITrace, 64))
				// drain a little so that the broadcaster is never held up by this subscriber
				for d := 0; d < 8; d++ {
					select {
					case <-ch:
					default:
					}
				}
				tr.Unsubscribe(ch)
				s.cnt.subs.Add(1)
			}
		}()
	}
	for k := 0; k < s.cfg.unrelated; k++ {
		wg.Add(1)
		go func() {
			defer wg.Done()
			s.deliver(event.NewSignalEvent("c17-nobody-listens"), "nobody")
		}()
	}
	return &wg
}

// deliver hands an event to the instance under a deadline; a delivery that blocks is recorded, not waited for.
func (s *c17session) deliver(ev event.IEvent, label string) bool {
	done := make(chan struct{})
	go func() {
		defer close(done)
		s.in.Proc.ConsumeEvent(ev)
	}()
	s.cnt.deliveries.Add(1)
	select {
	case <-done:
		return true
	case <-time.After(1500 * time.Millisecond):
		s.cnt.blockedDeliver.Add(1)
		s.in.Note("c17 blocked deliver %s", label)
		return false
	}
}

// do answers one request from `dup` goroutines at once (same payload), each under a deadline.
func (s *c17session) do(wg *sync.WaitGroup, q *eng.Req, dup int, opts ...bpmn.DoOption) {
	for d := 0; d < dup; d++ {
		wg.Add(1)
		if d > 0 {
			s.cnt.dupDos.Add(1)
		}
		go func() {
			defer wg.Done()
			if !eng.DoWithDeadline(q.Trace, 1500*time.Millisecond, opts...) {
				s.cnt.blockedDo.Add(1)
				s.in.Note("c17 blocked do %s %d", q.Node, q.Occ)
			}
		}()
	}
}

func c17waitWG(wg *sync.WaitGroup, d time.Duration) bool {
	done := make(chan struct{})
	go func() { wg.Wait(); close(done) }()
	select {
	case <-done:
		return true
	case <-time.After(d):
		return false
	}
}

func (s *c17session) finish(out *rec.Out, stats map[string]int, complete bool) {
	s.waitCancel()
	c17waitWG(&s.waitWG, 2*time.Second)
	c := s.cnt
	out.Line("c17 conc batches=%d answers=%d conc_answers=%d dup_do=%d deliveries=%d subs=%d reads=%d writes=%d waits=%d waits_true=%d blocked_do=%d blocked_deliver=%d complete=%d",
		c.batches, c.answers.Load(), c.concAnswers.Load(), c.dupDos.Load(), c.deliveries.Load(), c.subs.Load(), c.reads.Load(),
		c.writes.Load(), c.waits.Load(), c.waitsTrue.Load(), c.blockedDo.Load(), c.blockedDeliver.Load(), rec.B(complete))
	stats["answers"] += int(c.answers.Load())
	stats["answers_in_concurrent_batches"] += int(c.concAnswers.Load())
	stats["duplicate_do_calls"] += int(c.dupDos.Load())
	stats["deliveries"] += int(c.deliveries.Load())
	stats["subscribe_unsubscribe"] += int(c.subs.Load())
	stats["locator_reads"] += int(c.reads.Load())
	stats["locator_writes"] += int(c.writes.Load())
	stats["wait_callers"] += int(c.waits.Load())
	stats["wait_callers_true"] += int(c.waitsTrue.Load())
	stats["blocked_do"] += int(c.blockedDo.Load())
	stats["blocked_deliver"] += int(c.blockedDeliver.Load())
	if complete {
		stats["completed"]++
	}
}

// ---------------------------------------------------------------- prog: C01-style programs

func c17prog(out *rec.Out, idx int, rng *rec.Rng, tier string, stats map[string]int, cfg c17cfg) {
	o := genOptsC01(idx, "quick")
	o.undeclared = true
	ge := &gen{g: eng.NewGraph(), rng: rng, o: o, budget: 4 + rng.Intn(o.maxNodes), vars: []string{"v0", "v1", "v2"},
		loopTask: map[string]string{}, stats: stats}
	top := ge.block("", 0)
	if o.tailCtask && rng.Intn(4) == 0 {
		saved := ge.o.kinds
		ge.o.kinds = []string{"task", "task", "seq", "xor"}
		ge.budget += 4
		ct := ge.ctask("")
		ge.o.kinds = saved
		top = ge.g.Seq(top, ct)
		stats["block_ctask"]++
	}
	ge.g.Wrap(top)
	vars := map[string]any{}
	varsInt := map[string]int{}
	for _, v := range ge.vars {
		varsInt[v] = rng.Intn(3)
	}
	for i := 1; i <= ge.nloop; i++ {
		varsInt[fmt.Sprintf("c%d", i)] = 0
	}
	for k, v := range varsInt {
		vars[k] = v
	}
	g := ge.g
	in, defs, err := eng.Start(g.XML(), vars)
	if err != nil {
		out.Line("harness-error %v", err)
		return
	}
	for _, l := range eng.ProgLines(&(*defs.Processes())[0], g.CondRPN) {
		out.Line("prog %s", l)
	}
	out.Line("prog vars %s", fmtVars(varsInt))
	stats[fmt.Sprintf("nodes_%02d", len(g.Nodes)/5*5)]++
	s := c17newSession(in, cfg, []string{"v0", "v1", "v2"})
	loopCount := map[string]int{}
	quiet := true
	for steps := 0; steps < 200; {
		if !in.Quiesce(6 * time.Second) {
			in.Note("obs noquiesce")
			quiet = false
			break
		}
		p := in.Pending()
		if len(p) == 0 {
			break
		}
		k := 1
		if len(p) > 1 {
			k = 1 + rng.Intn(cfg.maxBatch)
			if k > len(p) {
				k = len(p)
			}
		}
		// choose k distinct pending requests
		perm := make([]int, len(p))
		for i := range perm {
			perm[i] = i
		}
		for i := 0; i < k; i++ {
			j := i + rng.Intn(len(p)-i)
			perm[i], perm[j] = perm[j], perm[i]
		}
		type ans struct {
			q   *eng.Req
			res map[string]int
			dup int
		}
		var batch []ans
		for i := 0; i < k; i++ {
			q := p[perm[i]]
			res := map[string]int{}
			if k == 1 {
				// a single answer may write what conditions read: it is applied at quiescence, like in C01
				for _, r := range g.Node(q.Node).Results {
					res[r] = rng.Intn(3)
				}
			}
			if cv, ok := ge.loopTask[q.Node]; ok {
				loopCount[cv]++
				res[cv] = loopCount[cv]
			}
			if rng.Intn(4) == 0 {
				res["undeclared"] = 7
			}
			batch = append(batch, ans{q: q, res: res, dup: 1 + rng.Intn(cfg.dup)})
		}
		// record the whole batch first (the recorder is fed by the tracer goroutine concurrently), then fire it
		for i, a := range batch {
			in.NoWait = i < len(batch)-1
			keys := make([]string, 0, len(a.res))
			for kk := range a.res {
				keys = append(keys, kk)
			}
			sort.Strings(keys)
			kv := make([]string, 0, len(keys))
			for _, kk := range keys {
				kv = append(kv, fmt.Sprintf("%s=%d", kk, a.res[kk]))
			}
			txt := strings.Join(kv, ",")
			if txt == "" {
				txt = "-"
			}
			in.Op("answer %s %d ok %s", a.q.Node, a.q.Occ, txt)
			a.q.Done = true
		}
		in.NoWait = false
		bg := s.burst(rng)
		var wg sync.WaitGroup
		for _, a := range batch {
			res := map[string]any{}
			for kk, v := range a.res {
				res[kk] = v
			}
			s.do(&wg, a.q, a.dup, bpmn.DoWithResults(res))
			s.cnt.answers.Add(1)
			if len(batch) > 1 {
				s.cnt.concAnswers.Add(1)
			}
		}
		s.cnt.batches++
		c17waitWG(&wg, 5*time.Second)
		c17waitWG(bg, 5*time.Second)
		steps += len(batch)
	}
	complete := false
	if quiet {
		complete = in.WaitComplete(1500 * time.Millisecond)
		in.Quiesce(2 * time.Second)
	}
	for _, l := range in.Lines() {
		out.Line("%s", l)
	}
	out.Line("obs final complete=%d vars=%s", rec.B(complete), c17vars(in))
	s.finish(out, stats, complete)
	in.Stop(2 * time.Second)
}

// c17vars: the instance variables without the scratch variables the background writer sets.
func c17vars(in *eng.Inst) string {
	m := in.Proc.Locator().CloneVariables()
	keys := make([]string, 0, len(m))
	for k := range m {
		if strings.HasPrefix(k, "scratch") {
			continue
		}
		keys = append(keys, k)
	}
	sort.Strings(keys)
	parts := make([]string, 0, len(keys))
	for _, k := range keys {
		parts = append(parts, fmt.Sprintf("%s=%v", k, m[k].Value()))
	}
	if len(parts) == 0 {
		return "-"
	}
	return strings.Join(parts, ",")
}

// ---------------------------------------------------------------- dobj: data outputs written by concurrent answers

func c17dobj(out *rec.Out, rng *rec.Rng, stats map[string]int, cfg c17cfg) {
	g := eng.NewGraph()
	n := 2 + rng.Intn(3)
	br := make([]eng.Frag, n)
	for i := range br {
		t := g.Task("serviceTask", fmt.Sprintf("T%d", i+1), "", "v0")
		t.Entry.Outputs = []string{fmt.Sprintf("o%d", i+1)}
		br[i] = t
	}
	sp := g.Split("parallelGateway", "parallelGateway", "", br, nil, -1)
	last := g.Task("task", "Z", "", "v1")
	last.Entry.Outputs = []string{"o1"}
	g.Wrap(g.Seq(sp, last))
	in, defs, err := eng.Start(g.XML(), map[string]any{"v0": 0, "v1": 0})
	if err != nil {
		out.Line("harness-error %v", err)
		return
	}
	for _, l := range eng.ProgLines(&(*defs.Processes())[0], g.CondRPN) {
		out.Line("prog %s", l)
	}
	s := c17newSession(in, cfg, []string{"v0", "v1"})
	for round := 0; round < 4; round++ {
		if !in.Quiesce(6 * time.Second) {
			in.Note("obs noquiesce")
			break
		}
		p := in.Pending()
		if len(p) == 0 {
			break
		}
		bg := s.burst(rng)
		var wg sync.WaitGroup
		for _, q := range p {
			q.Done = true
			objs := map[string]any{}
			for _, o := range g.Node(q.Node).Outputs {
				objs[o] = map[string]any{"n": rng.Intn(5)}
			}
			in.Note("c17 op answer %s %d objects", q.Node, q.Occ)
			s.do(&wg, q, 1+rng.Intn(cfg.dup), bpmn.DoWithObjects(objs), bpmn.DoWithResults(map[string]any{"v0": 1}))
			s.cnt.answers.Add(1)
			if len(p) > 1 {
				s.cnt.concAnswers.Add(1)
			}
		}
		s.cnt.batches++
		c17waitWG(&wg, 5*time.Second)
		c17waitWG(bg, 5*time.Second)
	}
	complete := in.WaitComplete(1500 * time.Millisecond)
	in.Quiesce(2 * time.Second)
	c17dump(out, in)
	s.finish(out, stats, complete)
	in.Stop(2 * time.Second)
}

// c17dump prints the recorded history with a `c17 h` prefix (not judged against the token game).
func c17dump(out *rec.Out, in *eng.Inst) {
	for _, l := range in.Lines() {
		if strings.HasPrefix(l, "c17 ") {
			out.Line("%s", l)
		} else {
			out.Line("c17 h %s", l)
		}
	}
}

// ---------------------------------------------------------------- ebg / bnd / catch: event deliveries from many goroutines

func c17events(out *rec.Out, rng *rec.Rng, stats map[string]int, cfg c17cfg) {
	g := eng.NewGraph()
	names := []string{"sigA", "msgB", "sigC"}
	kinds := []string{"signal", "message", "signal"}
	mk := func(i int) event.IEvent {
		if kinds[i] == "message" {
			return event.NewMessageEvent(names[i], nil)
		}
		return event.NewSignalEvent(names[i])
	}
	k := 2 + rng.Intn(2)
	switch cfg.kind {
	case "ebg":
		gw := g.Add("eventBasedGateway", "G", "")
		st := g.Add("startEvent", "start", "")
		en := g.Add("endEvent", "end", "")
		g.Connect(st, gw, nil)
		for j := 0; j < k; j++ {
			ce := g.Add("intermediateCatchEvent", fmt.Sprintf("C%d", j), "")
			ce.Defs = []eng.EventDef{{Kind: kinds[j], Name: names[j]}}
			t := g.Add("task", fmt.Sprintf("T%d", j), "")
			g.Connect(gw, ce, nil)
			g.Connect(ce, t, nil)
			g.Connect(t, en, nil)
		}
	case "catch":
		br := make([]eng.Frag, k+1)
		// half of the cases: the first catch event is PARALLEL-MULTIPLE over the first two events — both are needed, and
		// the volley hands them in from two goroutines at the same instant (whatever keeps the event's books is then
		// used by both deliveries at once)
		pm := rng.Intn(2) == 0
		for j := 0; j < k; j++ {
			ce := g.Add("intermediateCatchEvent", fmt.Sprintf("C%d", j), "")
			ce.Defs = []eng.EventDef{{Kind: kinds[j], Name: names[j]}}
			if pm && j == 0 {
				ce.Defs = append(ce.Defs, eng.EventDef{Kind: kinds[1], Name: names[1]})
				ce.ParallelMultiple = true
				stats["catch_parallel_multiple"]++
			}
			t := g.Task("task", fmt.Sprintf("T%d", j), "")
			g.Connect(ce, t.Entry, nil)
			br[j] = eng.Frag{Entry: ce, Exit: t.Exit}
		}
		br[k] = g.Task("userTask", "P", "", "v0")
		g.Wrap(g.Split("parallelGateway", "parallelGateway", "", br, nil, -1))
	case "bnd":
		h := g.Task("serviceTask", "H", "", "v0")
		after := g.Task("task", "A", "")
		st := g.Add("startEvent", "start", "")
		en := g.Add("endEvent", "end", "")
		// half of the cases: the host is entered by several tokens — one straight from a fork, the others once the
		// tasks U_i in front of it are answered, which races with the deliveries (an activity activated again while
		// its boundary event is being handled)
		multi := rng.Intn(2) == 0
		if multi {
			f := g.Add("parallelGateway", "F", "")
			g.Connect(st, f, nil)
			g.Connect(f, h.Entry, nil)
			for i, nu := 0, 2+rng.Intn(4); i < nu; i++ {
				u := g.Add("task", fmt.Sprintf("U%d", i), "")
				g.Connect(f, u, nil)
				g.Connect(u, h.Entry, nil)
			}
			stats["bnd_host_entered_by_several_tokens"]++
		} else {
			g.Connect(st, h.Entry, nil)
		}
		g.Connect(h.Exit, after.Entry, nil)
		g.Connect(after.Exit, en, nil)
		for j := 0; j < k; j++ {
			b := g.Add("boundaryEvent", fmt.Sprintf("B%d", j), "")
			b.Attached = "H"
			b.Interrupting = j == 0 && (multi || rng.Bool())
			b.Defs = []eng.EventDef{{Kind: kinds[j], Name: names[j]}}
			t := g.Add("task", fmt.Sprintf("T%d", j), "")
			en2 := g.Add("endEvent", fmt.Sprintf("end%d", j), "")
			g.Connect(b, t, nil)
			g.Connect(t, en2, nil)
		}
	}
	in, defs, err := eng.Start(g.XML(), map[string]any{"v0": 0})
	if err != nil {
		out.Line("harness-error %v", err)
		return
	}
	for _, l := range eng.ProgLines(&(*defs.Processes())[0], g.CondRPN) {
		out.Line("prog %s", l)
	}
	s := c17newSession(in, cfg, []string{"v0"})
	quiesce := func() bool {
		if !in.Quiesce(6 * time.Second) {
			in.Note("c17 noquiesce")
			return false
		}
		return true
	}
	for round := 0; round < 3; round++ {
		if !quiesce() {
			break
		}
		// a volley of deliveries from different goroutines: every competing event, some twice
		nd := k + rng.Intn(3)
		evs := make([]int, nd)
		for i := range evs {
			evs[i] = rng.Intn(k)
			if i < k {
				evs[i] = i
			}
		}
		if round > 0 && cfg.kind != "bnd" {
			nd = 1 + rng.Intn(2) // later volleys stay small: the inbox of a finished catch node is not drained for ever
			evs = evs[:nd]
		}
		bg := s.burst(rng)
		var wg sync.WaitGroup
		start := make(chan struct{})
		for _, e := range evs {
			in.Note("c17 op deliver %s", names[e])
			wg.Add(1)
			go func(e int) {
				defer wg.Done()
				<-start
				s.deliver(mk(e), names[e])
			}(e)
		}
		// answers racing with the deliveries
		p := in.Pending()
		for _, q := range p {
			if rng.Intn(2) == 0 {
				continue
			}
			q.Done = true
			in.Note("c17 op answer %s %d", q.Node, q.Occ)
			s.do(&wg, q, 1+rng.Intn(cfg.dup), bpmn.DoWithResults(map[string]any{"v0": round}))
			s.cnt.answers.Add(1)
			s.cnt.concAnswers.Add(1)
		}
		held := cfg.together && round == 0
		if held {
			// the determination itself is raced: every competing flow parks at the entry of the transformer, then all
			// are released at once (on a tree where the winner is decided by one atomic step exactly one of them wins)
			cfg.ctl.Hold("ebg.transformer.enter")
		}
		close(start)
		if held {
			for i := 0; i < 300 && cfg.ctl.Hits("ebg.transformer.enter") < k; i++ {
				time.Sleep(5 * time.Millisecond)
			}
			in.Note("c17 note together held=%d", cfg.ctl.Hits("ebg.transformer.enter"))
			cfg.ctl.Release("ebg.transformer.enter")
		}
		s.cnt.batches++
		c17waitWG(&wg, 6*time.Second)
		c17waitWG(bg, 5*time.Second)
	}
	// settle: answer what is left, one batch at a time
	for round := 0; round < 6; round++ {
		if !quiesce() {
			break
		}
		p := in.Pending()
		if len(p) == 0 {
			break
		}
		var wg sync.WaitGroup
		for _, q := range p {
			q.Done = true
			in.Note("c17 op answer %s %d", q.Node, q.Occ)
			s.do(&wg, q, 1, bpmn.DoWithResults(map[string]any{"v0": 9}))
			s.cnt.answers.Add(1)
		}
		c17waitWG(&wg, 5*time.Second)
	}
	complete := in.WaitComplete(800 * time.Millisecond)
	in.Quiesce(2 * time.Second)
	c17dump(out, in)
	s.finish(out, stats, complete)
	in.Stop(2 * time.Second)
	if cfg.kind == "ebg" {
		c17ebgShots(out, g.XML(), k, mk, stats, cfg)
	}
}

// c17ebgShots: fresh instances of the event-based-gateway program; in each, all k competing events are delivered from k
// goroutines, the flows are parked at the entry of the determination and released at one instant. Whatever the
// schedule, exactly one alternative may win: one determination, one task requested, no panic.
func c17ebgShots(out *rec.Out, xml string, k int, mk func(int) event.IEvent, stats map[string]int, cfg c17cfg) {
	const point = "ebg.transformer.enter"
	for shot := 0; shot < 12; shot++ {
		in, _, err := eng.Start(xml, map[string]any{"v0": 0})
		if err != nil {
			out.Line("harness-error %v", err)
			return
		}
		in.Quiesce(4 * time.Second)
		base := cfg.ctl.Hits(point)
		cfg.ctl.Hold(point)
		var wg sync.WaitGroup
		for e := 0; e < k; e++ {
			wg.Add(1)
			go func(e int) {
				defer wg.Done()
				in.Proc.ConsumeEvent(mk(e))
			}(e)
		}
		for i := 0; i < 300 && cfg.ctl.Hits(point)-base < k; i++ {
			time.Sleep(2 * time.Millisecond)
		}
		held := cfg.ctl.Hits(point) - base
		cfg.ctl.Release(point)
		c17waitWG(&wg, 4*time.Second)
		in.Quiesce(4 * time.Second)
		determ, reqs := 0, 0
		for _, l := range in.Lines() {
			w := strings.Fields(l)
			if len(w) >= 2 && w[0] == "obs" && w[1] == "determ" {
				determ++
			}
			if len(w) >= 2 && w[0] == "obs" && w[1] == "task" {
				reqs++
			}
		}
		out.Line("c17 ebgshot held=%d determ=%d requests=%d", held, determ, reqs)
		stats["ebg_shots"]++
		if held >= 2 {
			stats["ebg_shots_raced"]++
		}
		for _, q := range in.Pending() {
			in.AnswerOK(q, nil)
		}
		in.Quiesce(2 * time.Second)
		in.Stop(2 * time.Second)
	}
}

// ---------------------------------------------------------------- loc: two instances on one shared locator

func c17loc(out *rec.Out, rng *rec.Rng, stats map[string]int, cfg c17cfg) {
	g := eng.NewGraph()
	g.Wrap(g.Seq(g.Task("task", "T1", "", "v0"), g.Task("task", "T2", "", "v0")))
	xml := strings.Replace(g.XML(), `isExecutable="true">`, `isExecutable="true">
<bpmn:extensionElements><olive:taskHeaders><olive:header name="h1" value="x" type="string"/></olive:taskHeaders><olive:properties><olive:property name="p1" value="1" type="integer"/></olive:properties></bpmn:extensionElements>`, 1)
	loc := data.NewFlowDataLocator()
	loc.SetVariable("v0", 0)
	in, defs, err := eng.Start(xml, nil, bpmn.WithLocator(loc))
	if err != nil {
		out.Line("harness-error %v", err)
		return
	}
	for _, l := range eng.ProgLines(&(*defs.Processes())[0], g.CondRPN) {
		out.Line("prog %s", l)
	}
	s := c17newSession(in, cfg, []string{"v0"})
	for round := 0; round < 3; round++ {
		if !in.Quiesce(6 * time.Second) {
			in.Note("c17 noquiesce")
			break
		}
		bg := s.burst(rng)
		var wg sync.WaitGroup
		// further instances of the same definitions are created on the SAME locator while the first one runs
		nnew := 1 + rng.Intn(2)
		for i := 0; i < nnew; i++ {
			wg.Add(1)
			in.Note("c17 op newprocess shared-locator")
			go func() {
				defer wg.Done()
				e := bpmn.NewEngine(bpmn.WithEngineContext(in.Ctx))
				if _, err := e.NewProcess(defs, bpmn.WithContext(in.Ctx), bpmn.WithLocator(loc)); err != nil {
					in.Note("c17 newprocess-error %v", err)
				}
			}()
		}
		for _, q := range in.Pending() {
			q.Done = true
			in.Note("c17 op answer %s %d", q.Node, q.Occ)
			s.do(&wg, q, 1+rng.Intn(cfg.dup), bpmn.DoWithResults(map[string]any{"v0": round}))
			s.cnt.answers.Add(1)
			s.cnt.concAnswers.Add(1)
		}
		s.cnt.batches++
		c17waitWG(&wg, 6*time.Second)
		c17waitWG(bg, 5*time.Second)
	}
	complete := in.WaitComplete(1500 * time.Millisecond)
	in.Quiesce(2 * time.Second)
	c17dump(out, in)
	s.finish(out, stats, complete)
	in.Stop(2 * time.Second)
}

// ---------------------------------------------------------------- cond: conditions evaluated by many tokens at once

// c17cond: several instances of one definitions, each with a parallel fork into n branches; branch i is
// task Ti (writes vi) -> exclusive split on `vi == 1` -> Yi | default Ni -> merge; join; end. ALL tasks Ti of ALL
// instances are answered at one instant from their own goroutines, so n x (instances) tokens evaluate formal condition
// expressions concurrently (whatever the expression layer shares between evaluations is touched by all of them).
// Each token must take the branch its OWN value selects.
func c17cond(out *rec.Out, rng *rec.Rng, stats map[string]int, cfg c17cfg) {
	g := eng.NewGraph()
	n := 2 + rng.Intn(3)
	br := make([]eng.Frag, n)
	for i := range br {
		v := fmt.Sprintf("v%d", i)
		t := g.Task("task", fmt.Sprintf("T%d", i), "", v)
		sp := g.Split("exclusiveGateway", "exclusiveGateway", "", []eng.Frag{g.Task("task", fmt.Sprintf("Y%d", i), ""), g.Task("task", fmt.Sprintf("N%d", i), "")},
			[]*eng.Cond{{Op: "eq", Var: v, K: 1}, nil}, 1)
		br[i] = g.Seq(t, sp)
	}
	g.Wrap(g.Split("parallelGateway", "parallelGateway", "", br, nil, -1))
	ninst := 2 + rng.Intn(3)
	type inst struct {
		in    *eng.Inst
		s     *c17session
		wrote map[int]int
	}
	var insts []*inst
	for k := 0; k < ninst; k++ {
		vars := map[string]any{}
		for i := 0; i < n; i++ {
			vars[fmt.Sprintf("v%d", i)] = 0
		}
		in, defs, err := eng.Start(g.XML(), vars)
		if err != nil {
			out.Line("harness-error %v", err)
			return
		}
		if k == 0 {
			for _, l := range eng.ProgLines(&(*defs.Processes())[0], g.CondRPN) {
				out.Line("prog %s", l)
			}
		}
		c := cfg
		if k > 0 {
			c.waiters = 0
		}
		insts = append(insts, &inst{in: in, s: c17newSession(in, c, []string{"v0", "v1"}), wrote: map[int]int{}})
	}
	for _, x := range insts {
		if !x.in.Quiesce(6 * time.Second) {
			x.in.Note("c17 noquiesce")
		}
	}
	// one instant: every Ti of every instance
	gate := make(chan struct{})
	var wg sync.WaitGroup
	bg := insts[0].s.burst(rng)
	for k, x := range insts {
		for _, q := range x.in.Pending() {
			var i int
			fmt.Sscanf(q.Node, "T%d", &i)
			w := (k + i + rng.Intn(2)) % 2
			x.wrote[i] = w
			q.Done = true
			x.in.Note("c17 op answer %s %d inst=%d wrote=%d", q.Node, q.Occ, k, w)
			wg.Add(1)
			q := q
			res := map[string]any{fmt.Sprintf("v%d", i): w}
			s := x.s
			go func() {
				defer wg.Done()
				<-gate
				if !eng.DoWithDeadline(q.Trace, 1500*time.Millisecond, bpmn.DoWithResults(res)) {
					s.cnt.blockedDo.Add(1)
					s.in.Note("c17 blocked do %s %d", q.Node, q.Occ)
				}
			}()
			insts[0].s.cnt.answers.Add(1)
			insts[0].s.cnt.concAnswers.Add(1)
		}
	}
	insts[0].s.cnt.batches++
	close(gate)
	c17waitWG(&wg, 6*time.Second)
	c17waitWG(bg, 5*time.Second)
	for k, x := range insts {
		if !x.in.Quiesce(6 * time.Second) {
			x.in.Note("c17 noquiesce")
		}
		took := map[int]string{}
		for _, q := range x.in.Pending() {
			var i int
			var yn string
			if _, err := fmt.Sscanf(q.Node[1:], "%d", &i); err == nil {
				yn = q.Node[:1]
				if took[i] == "" {
					took[i] = yn
				} else {
					took[i] = "both"
				}
			}
		}
		for i := 0; i < n; i++ {
			t := took[i]
			if t == "" {
				t = "none"
			}
			x.in.Note("c17 condroute inst=%d branch=%d wrote=%d took=%s", k, i, x.wrote[i], t)
		}
	}
	// second instant: every Yi / Ni of every instance (tokens run into the join together)
	var wg2 sync.WaitGroup
	gate2 := make(chan struct{})
	for _, x := range insts {
		for _, q := range x.in.Pending() {
			q.Done = true
			x.in.Note("c17 op answer %s %d", q.Node, q.Occ)
			wg2.Add(1)
			q := q
			go func() {
				defer wg2.Done()
				<-gate2
				eng.DoWithDeadline(q.Trace, 1500*time.Millisecond)
			}()
		}
	}
	close(gate2)
	c17waitWG(&wg2, 6*time.Second)
	complete := true
	for _, x := range insts {
		if !x.in.WaitComplete(1500 * time.Millisecond) {
			complete = false
		}
		x.in.Quiesce(2 * time.Second)
	}
	for _, x := range insts {
		c17dump(out, x.in)
	}
	if !complete {
		out.Line("c17 condincomplete")
	}
	insts[0].s.finish(out, stats, complete)
	for k, x := range insts {
		if k > 0 {
			x.s.waitCancel()
		}
		x.in.Stop(2 * time.Second)
	}
	stats["cond_instances"] += ninst
	stats["cond_tokens_evaluating_together"] += ninst * n
}

// ---------------------------------------------------------------- merge: several tokens leave ONE node over ONE flow at one instant

// c17merge: a parallel fork whose n branches all run straight into one task M (uncontrolled merge: n activations of M),
// M -> catch event C (signal) -> task N -> end. All n requests of M are answered at one instant from n goroutines, so n
// tokens leave M over the same sequence flow together; ONE signal then releases the n tokens waiting at C together; the n
// requests of N are answered together. Whatever a node, a sequence flow or the wiring keeps is touched by all of them at once.
func c17merge(out *rec.Out, rng *rec.Rng, stats map[string]int, cfg c17cfg) {
	g := eng.NewGraph()
	n := 3 + rng.Intn(3)
	st := g.Add("startEvent", "start", "")
	f := g.Add("parallelGateway", "F", "")
	m := g.Add("task", "M", "")
	c := g.Add("intermediateCatchEvent", "C", "")
	c.Defs = []eng.EventDef{{Kind: "signal", Name: "go"}}
	nn := g.Add("task", "N", "")
	en := g.Add("endEvent", "end", "")
	g.Connect(st, f, nil)
	// every other case: the tokens of the fork first pass ONE exclusive gateway (conditions, a default) at the same
	// instant — an uncontrolled merge in front of M: whatever the gateway keeps per probing token is used by n tokens at once
	viaXor := rng.Intn(2) == 0
	if viaXor {
		x := g.Add("exclusiveGateway", "X", "")
		for i := 0; i < n; i++ {
			g.Connect(f, x, nil)
		}
		g.Connect(x, m, &eng.Cond{Op: "eq", Var: "v0", K: 0})
		d := g.Connect(x, nn, nil)
		x.Default = d.ID
		stats["merge_through_exclusive_gateway"]++
	} else {
		for i := 0; i < n; i++ {
			g.Connect(f, m, nil)
		}
	}
	g.Connect(m, c, nil)
	g.Connect(c, nn, nil)
	g.Connect(nn, en, nil)
	in, defs, err := eng.Start(g.XML(), map[string]any{"v0": 0})
	if err != nil {
		out.Line("harness-error %v", err)
		return
	}
	for _, l := range eng.ProgLines(&(*defs.Processes())[0], g.CondRPN) {
		out.Line("prog %s", l)
	}
	s := c17newSession(in, cfg, []string{"v0"})
	together := func(node string) int {
		if !in.Quiesce(6 * time.Second) {
			in.Note("c17 noquiesce")
			return 0
		}
		gate := make(chan struct{})
		var wg sync.WaitGroup
		k := 0
		for _, q := range in.Pending() {
			if q.Node != node {
				continue
			}
			q.Done = true
			k++
			in.Note("c17 op answer %s %d", q.Node, q.Occ)
			wg.Add(1)
			q := q
			go func() {
				defer wg.Done()
				<-gate
				if !eng.DoWithDeadline(q.Trace, 1500*time.Millisecond) {
					s.cnt.blockedDo.Add(1)
					s.in.Note("c17 blocked do %s %d", q.Node, q.Occ)
				}
			}()
			s.cnt.answers.Add(1)
			s.cnt.concAnswers.Add(1)
		}
		bg := s.burst(rng)
		s.cnt.batches++
		close(gate)
		c17waitWG(&wg, 6*time.Second)
		c17waitWG(bg, 5*time.Second)
		return k
	}
	k1 := together("M")
	if in.Quiesce(6 * time.Second) {
		in.Note("c17 op deliver go")
		s.deliver(event.NewSignalEvent("go"), "go")
		s.cnt.deliveries.Add(1)
	}
	k2 := together("N")
	complete := in.WaitComplete(1500 * time.Millisecond)
	in.Quiesce(2 * time.Second)
	c17dump(out, in)
	if k1 != n || k2 != n || !complete {
		out.Line("c17 mergecount branches=%d m=%d n=%d complete=%d", n, k1, k2, rec.B(complete))
	}
	s.finish(out, stats, complete)
	in.Stop(2 * time.Second)
	stats["merge_tokens_leaving_one_node_together"] += n
}
