package main

// Family c01d — DIRECTED programs for the data a condition sees: a variable written by ANOTHER token must be seen by
// the next condition a token evaluates, whichever token that is and whatever it evaluated before.
//
//	[X0: exclusive split on v0 (TA1 | TA2) → merge]?   the surviving token evaluates a condition BEFORE the fork
//	fork (parallel | inclusive) → A ∥ B (B writes y) [∥ sub-process{C writes z}]? → join
//	X1: exclusive split: y == 1 → TY, z == 1 → TZ, default TN → merge → end
//
// every case fixes the order in which the pending tasks are answered (which token reaches the join first — and so
// which one survives it — depends on it) and the values written. Same lines and judge as family c01.

import (
	"fmt"
	"sort"
	"strings"
	"time"

	"verifharness/internal/eng"
	"verifharness/internal/rec"
)

type c01dCase struct {
	pre   bool   // exclusive split before the fork
	gw    string // parallelGateway | inclusiveGateway
	sub   bool   // third branch: a sub-process whose inner task writes z
	order string // priority of task names when several are pending, e.g. "A,B,C"
	y, z  int
}

func c01dCases() []c01dCase {
	var cs []c01dCase
	for _, pre := range []bool{true, false} {
		for _, gw := range []string{"parallelGateway", "inclusiveGateway"} {
			for _, sub := range []bool{false, true} {
				orders := []string{"A,B", "B,A"}
				if sub {
					orders = []string{"A,B,C", "C,B,A", "B,C,A", "A,C,B"}
				}
				for _, o := range orders {
					for _, y := range []int{1, 0} {
						cs = append(cs, c01dCase{pre, gw, sub, o, y, 1})
					}
				}
			}
		}
	}
	return cs
}

func init() {
	caseFamilies["c01d"] = &caseFamily{
		Shard: 1, Par: 12,
		Count: func(tier string) int { return len(c01dCases()) },
		Run: func(out *rec.Out, idx int, rng *rec.Rng, tier string, stats map[string]int) {
			c01dRun(out, c01dCases()[idx], stats)
		},
	}
}

func c01dRun(out *rec.Out, c c01dCase, stats map[string]int) {
	g := eng.NewGraph()
	var parts []eng.Frag
	if c.pre {
		ta1 := g.Task("task", "TA1", "")
		ta2 := g.Task("task", "TA2", "")
		parts = append(parts, g.Split("exclusiveGateway", "exclusiveGateway", "",
			[]eng.Frag{ta1, ta2}, []*eng.Cond{{Op: "eq", Var: "v0", K: 1}, nil}, 1))
	}
	branches := []eng.Frag{g.Task("task", "A", ""), g.Task("serviceTask", "B", "", "y")}
	if c.sub {
		sp := g.SubBegin("")
		inner := g.Task("userTask", "C", sp.ID, "z")
		branches = append(branches, g.SubEnd(sp, inner))
	}
	var conds []*eng.Cond
	if c.gw == "inclusiveGateway" {
		conds = make([]*eng.Cond, len(branches))
		for i := range conds {
			conds[i] = &eng.Cond{Op: "true"}
		}
	}
	parts = append(parts, g.Split(c.gw, c.gw, "", branches, conds, -1))
	ty, tz, tn := g.Task("task", "TY", ""), g.Task("task", "TZ", ""), g.Task("task", "TN", "")
	parts = append(parts, g.Split("exclusiveGateway", "exclusiveGateway", "",
		[]eng.Frag{ty, tz, tn}, []*eng.Cond{{Op: "eq", Var: "y", K: 1}, {Op: "eq", Var: "z", K: 1}, nil}, 2))
	g.Wrap(g.Seq(parts...))
	out.Begin("c01d", rec.B(c.pre), c.gw, rec.B(c.sub), strings.ReplaceAll(c.order, ",", "."), c.y, c.z)
	defer out.End()
	varsInt := map[string]int{"v0": 1, "y": 0, "z": 0}
	vars := map[string]any{}
	for k, v := range varsInt {
		vars[k] = v
	}
	in, defs, err := eng.Start(g.XML(), vars)
	if err != nil {
		out.Line("harness-error %v", err)
		return
	}
	for _, l := range eng.ProgLines(&(*defs.Processes())[0], g.CondRPN) {
		out.Line("prog %s", l)
	}
	out.Line("prog vars %s", fmtVars(varsInt))
	stats["cases"]++
	stats[fmt.Sprintf("pre%d_%s_sub%d", rec.B(c.pre), c.gw, rec.B(c.sub))]++
	prio := map[string]int{}
	for i, n := range strings.Split(c.order, ",") {
		prio[n] = i + 1
	}
	for steps := 0; steps < 30; steps++ {
		if !in.Quiesce(4 * time.Second) {
			in.Note("obs noquiesce")
			break
		}
		p := in.Pending()
		if len(p) == 0 {
			break
		}
		sort.Slice(p, func(a, b int) bool {
			pa, pb := prio[p[a].Node], prio[p[b].Node]
			if pa == 0 {
				pa = 99
			}
			if pb == 0 {
				pb = 99
			}
			if pa != pb {
				return pa < pb
			}
			return p[a].Node < p[b].Node
		})
		res := map[string]int{}
		switch p[0].Node {
		case "B":
			res["y"] = c.y
		case "C":
			res["z"] = c.z
		}
		in.AnswerOK(p[0], res)
	}
	complete := in.WaitComplete(1500 * time.Millisecond)
	in.Quiesce(2 * time.Second)
	for _, l := range in.Lines() {
		out.Line("%s", l)
	}
	out.Line("obs final complete=%d vars=%s", rec.B(complete), in.VarsAndObjects())
	in.Stop(2 * time.Second)
}
