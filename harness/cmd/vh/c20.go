package main

// Family c20 — generated identifiers never collide (pkg/id: sno generator, fallback generator; engine-level
// instance and flow ids). Case kinds (first parameter of `case begin c20 <n> <kind> …`):
//
//	sno_single  <ngen> <ndraws>      one goroutine draws from 1..8 live generators in a seeded order, with
//	                                  snapshot/restore at seeded points; every id is decoded and recorded
//	sno_burst   <ndraws>             one goroutine draws as fast as it can (sequence overflow reachable)
//	sno_conc    <G> <N> <ngen>       G goroutines x N draws on each of ngen generators at once; the harness
//	                                  detects duplicates itself and records a summary
//	fb_single   <ngen> <ndraws>      fallback generators, one goroutine
//	fb_conc     <G> <N> <ngen>       fallback generators, concurrent stress
//	fb_create   <mode> <n>           fallback generators created back-to-back / concurrently: equal prefixes?
//	engine      <builder> <file> <k> k instances of a testdata process; instance and flow ids seen in traces
//
// Lines:
//
//	gen <g>                                   a fresh sno generator (index g)
//	id <g> <time> <tick> <meta> <part> <seq>  a decoded sno id, in draw order
//	snap <g> <now> <wallHi> <seq> <part> <seqMin> <seqMax> <wallSafe> <drifts>
//	restore <g> <g2>                          g2 := generator restored from the last snapshot of g; g is retired
//	fgen <g> / fid <g> <clock> <serial|-> <n> / fsnap <g> <clock> <serial|-> <counter> / fraw <g> <string>
//	stress <what> goroutines <G> each <N> gens <k> total <n> dups <d> first <id|-> [extra k=v …]
//	inst <hex> / flow <hex>                   ids seen in engine traces (InstantiationTrace / NewFlowTrace)
//	run <i> done <0|1> traces <n>
//	panic <text>
import (
	"context"
	"encoding/binary"
	"encoding/hex"
	"encoding/json"
	"encoding/xml"
	"fmt"
	"os"
	"path/filepath"
	"runtime"
	"slices"
	"strconv"
	"strings"
	"sync"
	"sync/atomic"
	"time"

	"github.com/olive-io/bpmn/schema"
	bpmn "github.com/olive-io/bpmn/v2"
	"github.com/olive-io/bpmn/v2/pkg/clock"
	"github.com/olive-io/bpmn/v2/pkg/id"
	"github.com/olive-io/bpmn/v2/pkg/tracing"

	_ "github.com/olive-io/bpmn/v2/pkg/expression/expr"

	"verifharness/internal/rec"
)

func init() { families["c20"] = c20 }

type c20key struct {
	hi uint64
	lo uint16
}

func c20keyOf(b []byte) c20key {
	var a [10]byte
	copy(a[:], b)
	return c20key{binary.BigEndian.Uint64(a[:8]), binary.BigEndian.Uint16(a[8:])}
}

func (k c20key) hex() string {
	var a [10]byte
	binary.BigEndian.PutUint64(a[:8], k.hi)
	binary.BigEndian.PutUint16(a[8:], k.lo)
	return hex.EncodeToString(a[:])
}

func c20cmp(a, b c20key) int {
	if a.hi != b.hi {
		if a.hi < b.hi {
			return -1
		}
		return 1
	}
	if a.lo != b.lo {
		if a.lo < b.lo {
			return -1
		}
		return 1
	}
	return 0
}

// decoded sno id: 39 bit time, 1 bit tick, 8 bit meta, 16 bit partition, 16 bit sequence
func c20decode(b []byte) (t uint64, tick, meta, part, seq uint64, ok bool) {
	if len(b) != 10 {
		return 0, 0, 0, 0, 0, false
	}
	v := binary.BigEndian.Uint64(b[:8])
	return v >> 25, uint64(b[4] & 1), uint64(b[5]), uint64(b[6])<<8 | uint64(b[7]), uint64(b[8])<<8 | uint64(b[9]), true
}

type c20env struct {
	ctx    context.Context
	cancel context.CancelFunc
	tracer tracing.ITracer
	warns  int64
}

func c20newEnv() *c20env {
	ctx, cancel := context.WithCancel(context.Background())
	e := &c20env{ctx: ctx, cancel: cancel, tracer: tracing.NewTracer(ctx)}
	ch := e.tracer.SubscribeChannel(make(chan tracing.ITrace, 64))
	go func() {
		for {
			select {
			case tr, ok := <-ch:
				if !ok {
					return
				}
				if _, is := tracing.Unwrap(tr).(id.WarningTrace); is {
					atomic.AddInt64(&e.warns, 1)
				}
			case <-ctx.Done():
				return
			}
		}
	}()
	return e
}

func (e *c20env) close() { e.cancel() }

func c20guard(out *rec.Out, f func()) {
	defer func() {
		if r := recover(); r != nil {
			out.Line("panic %s", strings.ReplaceAll(fmt.Sprint(r), "\n", " "))
		}
	}()
	f()
}

func c20idLine(out *rec.Out, g int, x id.Id) {
	b := x.Bytes()
	t, tick, meta, part, seq, ok := c20decode(b)
	if !ok {
		out.Line("badid %d %s", g, hex.EncodeToString(b))
		return
	}
	out.Line("id %d %d %d %d %d %d", g, t, tick, meta, part, seq)
}

type c20snap struct {
	Partition   [2]byte `json:"partition"`
	SequenceMin uint16  `json:"sequenceMin"`
	SequenceMax uint16  `json:"sequenceMax"`
	Sequence    uint32  `json:"sequence"`
	Now         int64   `json:"now"`
	WallHi      int64   `json:"wallHi"`
	WallSafe    int64   `json:"wallSafe"`
	Drifts      uint32  `json:"drifts"`
}

// spin for roughly d without sleeping the goroutine (keeps the draw pattern tight around a pause)
func c20pause(d time.Duration) { time.Sleep(d) }

func c20snoSingle(out *rec.Out, rng *rec.Rng, ngen, ndraws, nrestore int, stats map[string]int) {
	out.Begin("c20", "sno_single", ngen, ndraws)
	defer out.End()
	env := c20newEnv()
	defer env.close()
	c20guard(out, func() {
		gens := make([]id.IGenerator, 0, ngen+nrestore)
		live := make([]int, 0, ngen)
		for g := 0; g < ngen; g++ {
			gen, err := id.GetSno().NewIdGenerator(env.ctx, env.tracer)
			if err != nil {
				out.Line("generr %d %s", g, strings.ReplaceAll(err.Error(), " ", "_"))
				return
			}
			gens = append(gens, gen)
			live = append(live, g)
			out.Line("gen %d", g)
		}
		// seeded positions of pauses (so that several 4 ms ticks are crossed) and of snapshot/restore
		pauses := map[int]bool{}
		for i := 0; i < 6; i++ {
			pauses[rng.Intn(ndraws)] = true
		}
		restores := map[int]bool{}
		for i := 0; i < nrestore; i++ {
			restores[rng.Intn(ndraws)] = true
		}
		cur := -1
		for i := 0; i < ndraws; i++ {
			if pauses[i] {
				c20pause(time.Duration(1+rng.Intn(5)) * time.Millisecond)
				stats["pauses"]++
			}
			if restores[i] {
				k := rng.Intn(len(live))
				g := live[k]
				// "restore right after a pause" and "restore within the same tick" both occur
				b, err := gens[g].Snapshot()
				if err != nil {
					out.Line("snaperr %d", g)
					return
				}
				var s c20snap
				if json.Unmarshal(b, &s) != nil {
					out.Line("snaperr %d", g)
					return
				}
				out.Line("snap %d %d %d %d %d %d %d %d %d", g, s.Now, s.WallHi, s.Sequence,
					int(s.Partition[0])<<8|int(s.Partition[1]), s.SequenceMin, s.SequenceMax, s.WallSafe, s.Drifts)
				if rng.Intn(3) == 0 {
					c20pause(time.Duration(1+rng.Intn(5)) * time.Millisecond)
				}
				ng, err := id.GetSno().RestoreIdGenerator(env.ctx, b, env.tracer)
				if err != nil {
					out.Line("restoreerr %d %s", g, strings.ReplaceAll(err.Error(), " ", "_"))
					return
				}
				gens = append(gens, ng)
				live[k] = len(gens) - 1
				out.Line("restore %d %d", g, len(gens)-1)
				stats["restores"]++
			}
			// sticky choice: mostly keep drawing from the same generator (runs within one tick), sometimes switch
			if cur < 0 || rng.Intn(4) == 0 {
				cur = rng.Intn(len(live))
			}
			g := live[cur]
			c20idLine(out, g, gens[g].New())
			stats["sno_single_ids"]++
		}
	})
	stats["cases"]++
	stats[fmt.Sprintf("sno_single_gens_%d", ngen)]++
}

func c20snoBurst(out *rec.Out, ndraws int, stats map[string]int) {
	out.Begin("c20", "sno_burst", ndraws)
	defer out.End()
	env := c20newEnv()
	defer env.close()
	c20guard(out, func() {
		gen, err := id.GetSno().NewIdGenerator(env.ctx, env.tracer)
		if err != nil {
			out.Line("generr 0 %s", strings.ReplaceAll(err.Error(), " ", "_"))
			return
		}
		out.Line("gen 0")
		buf := make([][10]byte, ndraws)
		for i := range buf {
			copy(buf[i][:], gen.New().Bytes())
		}
		maxSeq := uint64(0)
		for i := range buf {
			t, tick, meta, part, seq, _ := c20decode(buf[i][:])
			if seq > maxSeq {
				maxSeq = seq
			}
			out.Line("id 0 %d %d %d %d %d", t, tick, meta, part, seq)
		}
		time.Sleep(3 * time.Millisecond)
		out.Line("note maxseq %d overflow_warnings %d", maxSeq, atomic.LoadInt64(&env.warns))
		if maxSeq == 65535 {
			stats["burst_reached_seq_max"]++
		}
		stats["sno_burst_ids"] += ndraws
	})
	stats["cases"]++
}

// concurrent draw + duplicate detection on raw 10-byte ids
func c20dedup(parts [][]c20key) (total, dups int, first string, distinctTimes int, maxSeq uint16) {
	var wg sync.WaitGroup
	for i := range parts {
		wg.Add(1)
		go func(p []c20key) { defer wg.Done(); slices.SortFunc(p, c20cmp) }(parts[i])
	}
	wg.Wait()
	for _, p := range parts {
		total += len(p)
	}
	all := make([]c20key, 0, total)
	for _, p := range parts {
		all = append(all, p...)
	}
	slices.SortFunc(all, c20cmp) // pdqsort: fast on concatenated sorted runs
	first = "-"
	lastT := ^uint64(0)
	for i := range all {
		if t := all[i].hi >> 25; t != lastT {
			distinctTimes++
			lastT = t
		}
		if all[i].lo > maxSeq {
			maxSeq = all[i].lo
		}
		if i > 0 && all[i] == all[i-1] {
			dups++
			if first == "-" {
				first = all[i].hex()
			}
		}
	}
	return
}

func c20snoConc(out *rec.Out, G, N, ngen int, stats map[string]int) {
	out.Begin("c20", "sno_conc", G, N, ngen)
	defer out.End()
	env := c20newEnv()
	defer env.close()
	c20guard(out, func() {
		gens := make([]id.IGenerator, ngen)
		for g := range gens {
			gen, err := id.GetSno().NewIdGenerator(env.ctx, env.tracer)
			if err != nil {
				out.Line("generr %d %s", g, strings.ReplaceAll(err.Error(), " ", "_"))
				return
			}
			gens[g] = gen
		}
		parts := make([][]c20key, G*ngen)
		var wg sync.WaitGroup
		start := make(chan struct{})
		for g := 0; g < ngen; g++ {
			for w := 0; w < G; w++ {
				wg.Add(1)
				idx := g*G + w
				parts[idx] = make([]c20key, N)
				go func(gen id.IGenerator, dst []c20key) {
					defer wg.Done()
					<-start
					for i := range dst {
						dst[i] = c20keyOf(gen.New().Bytes())
					}
				}(gens[g], parts[idx])
			}
		}
		t0 := time.Now()
		close(start)
		wg.Wait()
		el := time.Since(t0)
		total, dups, first, times, maxSeq := c20dedup(parts)
		_ = el
		out.Line("stress sno goroutines %d each %d gens %d total %d dups %d first %s ticks %d maxseq %d",
			G, N, ngen, total, dups, first, times, maxSeq)
		stats["sno_conc_ids"] += total
		stats["sno_conc_dups"] += dups
		if dups > 0 {
			stats["sno_conc_cases_with_dups"]++
		}
	})
	stats["cases"]++
	stats[fmt.Sprintf("sno_conc_G%d", G)]++
}

// ---------------------------------------------------------------- fallback generator

// c20fp is a decoded fallback prefix: `<clock base 36>` (serial = -1) or `<clock base 36>.<serial base 36>`.
type c20fp struct {
	clock  uint64
	serial int64
}

func (p c20fp) String() string {
	if p.serial < 0 {
		return strconv.FormatUint(p.clock, 36)
	}
	return strconv.FormatUint(p.clock, 36) + "." + strconv.FormatUint(uint64(p.serial), 36)
}

// tok renders the prefix as the two line tokens `<clock> <serial|->`
func (p c20fp) tok() string {
	if p.serial < 0 {
		return fmt.Sprintf("%d -", p.clock)
	}
	return fmt.Sprintf("%d %d", p.clock, p.serial)
}

func c20fpCmp(a, b c20fp) int {
	if a.clock != b.clock {
		if a.clock < b.clock {
			return -1
		}
		return 1
	}
	if a.serial != b.serial {
		if a.serial < b.serial {
			return -1
		}
		return 1
	}
	return 0
}

func c20fbPrefix(s string) (c20fp, bool) {
	p := c20fp{serial: -1}
	cs := s
	if i := strings.IndexByte(s, '.'); i >= 0 {
		cs = s[:i]
		v, err := strconv.ParseUint(s[i+1:], 36, 63)
		if err != nil {
			return p, false
		}
		p.serial = int64(v)
	}
	c, err := strconv.ParseInt(cs, 36, 64)
	if err != nil || c < 0 {
		return p, false
	}
	p.clock = uint64(c)
	// the decoding must be exact: re-encode and compare
	return p, p.String() == s
}

func c20fbDecode(s string) (prefix c20fp, n uint64, ok bool) {
	if !strings.HasPrefix(s, "fallback-") {
		return c20fp{}, 0, false
	}
	rest := s[len("fallback-"):]
	i := strings.IndexByte(rest, '-')
	if i < 0 {
		return c20fp{}, 0, false
	}
	p, okp := c20fbPrefix(rest[:i])
	c, err2 := strconv.ParseUint(rest[i+1:], 10, 64)
	if !okp || err2 != nil {
		return c20fp{}, 0, false
	}
	if "fallback-"+p.String()+"-"+strconv.FormatUint(c, 10) != s {
		return c20fp{}, 0, false
	}
	return p, c, true
}

func c20fbSingle(out *rec.Out, rng *rec.Rng, ngen, ndraws int, stats map[string]int) {
	out.Begin("c20", "fb_single", ngen, ndraws)
	defer out.End()
	c20guard(out, func() {
		gens := make([]id.IGenerator, ngen)
		for g := range gens {
			gens[g] = id.NewFallbackGenerator()
			out.Line("fgen %d", g)
		}
		for i := 0; i < ndraws; i++ {
			g := rng.Intn(ngen)
			x := gens[g].New()
			s := x.String()
			if string(x.Bytes()) != s {
				out.Line("fraw %d bytes_differ_from_string", g)
			}
			if p, n, ok := c20fbDecode(s); ok {
				out.Line("fid %d %s %d", g, p.tok(), n)
			} else {
				out.Line("fraw %d %s", g, strings.ReplaceAll(s, " ", "_"))
			}
			if rng.Intn(50) == 0 {
				b, err := gens[g].Snapshot()
				var m struct {
					Prefix  string `json:"prefix"`
					Counter uint64 `json:"counter"`
				}
				if err != nil || json.Unmarshal(b, &m) != nil {
					out.Line("fraw %d snapshot_unreadable", g)
				} else if p, ok := c20fbPrefix(m.Prefix); !ok {
					out.Line("fraw %d snapshot_prefix", g)
				} else {
					out.Line("fsnap %d %s %d", g, p.tok(), m.Counter)
				}
			}
			stats["fb_single_ids"]++
		}
	})
	stats["cases"]++
}

func c20fbConc(out *rec.Out, G, N, ngen int, stats map[string]int) {
	out.Begin("c20", "fb_conc", G, N, ngen)
	defer out.End()
	c20guard(out, func() {
		gens := make([]id.IGenerator, ngen)
		for g := range gens {
			gens[g] = id.NewFallbackGenerator()
		}
		type pn struct {
			p c20fp
			n uint64
		}
		parts := make([][]pn, G*ngen)
		var bad int64
		var wg sync.WaitGroup
		start := make(chan struct{})
		for g := 0; g < ngen; g++ {
			for w := 0; w < G; w++ {
				wg.Add(1)
				idx := g*G + w
				parts[idx] = make([]pn, N)
				go func(gen id.IGenerator, dst []pn) {
					defer wg.Done()
					<-start
					for i := range dst {
						p, n, ok := c20fbDecode(gen.New().String())
						if !ok {
							atomic.AddInt64(&bad, 1)
						}
						dst[i] = pn{p, n}
					}
				}(gens[g], parts[idx])
			}
		}
		close(start)
		wg.Wait()
		all := make([]pn, 0, G*N*ngen)
		for _, p := range parts {
			all = append(all, p...)
		}
		slices.SortFunc(all, func(a, b pn) int {
			if c := c20fpCmp(a.p, b.p); c != 0 {
				return c
			}
			if a.n != b.n {
				if a.n < b.n {
					return -1
				}
				return 1
			}
			return 0
		})
		dups, first := 0, "-"
		prefixes := 0
		for i := range all {
			if i == 0 || all[i].p != all[i-1].p {
				prefixes++
			}
			if i > 0 && all[i] == all[i-1] {
				dups++
				if first == "-" {
					first = fmt.Sprintf("fallback-%s-%d", all[i].p.String(), all[i].n)
				}
			}
		}
		out.Line("stress fallback goroutines %d each %d gens %d total %d dups %d first %s prefixes %d undecodable %d",
			G, N, ngen, len(all), dups, first, prefixes, bad)
		stats["fb_conc_ids"] += len(all)
		stats["fb_conc_dups"] += dups
	})
	stats["cases"]++
}

// fallback generators created back to back (one goroutine) or concurrently: do two of them share a prefix?
func c20fbCreate(out *rec.Out, mode string, n int, stats map[string]int) {
	out.Begin("c20", "fb_create", mode, n)
	defer out.End()
	c20guard(out, func() {
		G := 1
		if mode == "conc" {
			G = 16
		}
		parts := make([][]c20fp, G)
		var wg sync.WaitGroup
		var bad int64
		start := make(chan struct{})
		for w := 0; w < G; w++ {
			wg.Add(1)
			parts[w] = make([]c20fp, n)
			go func(dst []c20fp) {
				defer wg.Done()
				<-start
				for i := range dst {
					p, _, ok := c20fbDecode(id.NewFallbackGenerator().New().String())
					if !ok {
						atomic.AddInt64(&bad, 1)
					}
					dst[i] = p
				}
			}(parts[w])
		}
		close(start)
		wg.Wait()
		all := make([]c20fp, 0, G*n)
		for _, p := range parts {
			all = append(all, p...)
		}
		slices.SortFunc(all, c20fpCmp)
		dups, first, sameClock := 0, "-", 0
		for i := 1; i < len(all); i++ {
			if all[i].clock == all[i-1].clock {
				sameClock++ // created within one clock reading (harmless when a serial number separates them)
			}
			if all[i] == all[i-1] {
				dups++
				if first == "-" {
					first = "fallback-" + all[i].String() + "-1"
				}
			}
		}
		out.Line("stress fbcreate goroutines %d each %d gens %d total %d dups %d first %s sameclock %d undecodable %d",
			G, n, G*n, len(all), dups, first, sameClock, bad)
		stats["fb_create_same_clock"] += sameClock
		stats["fb_create_generators"] += len(all)
		stats["fb_create_same_prefix"] += dups
	})
	stats["cases"]++
}

// ---------------------------------------------------------------- engine level

func c20testdata() string {
	if d := os.Getenv("VERIF_REPO"); d != "" {
		return filepath.Join(d, "testdata")
	}
	return "/repo/testdata"
}

// run k instances of one testdata process (concurrently when conc), answering every task; record instance
// ids and flow ids seen in traces. builder: sno (engine default), fallback (one fallback generator per instance),
// shared (one sno generator for all instances).
func c20engine(out *rec.Out, builder, file string, k int, conc bool, stats map[string]int) {
	out.Begin("c20", "engine", builder, file, k, rec.B(conc))
	defer out.End()
	var src []byte
	var err error
	if file == "inline:loopfork" {
		src = []byte(c20loopFork)
	} else {
		src, err = os.ReadFile(filepath.Join(c20testdata(), file))
	}
	if err != nil {
		out.Line("panic cannot_read_%s", file)
		return
	}
	ctx, cancel := context.WithCancel(context.Background())
	defer cancel()
	var shared id.IGenerator
	if builder == "shared" {
		tr := tracing.NewTracer(ctx)
		shared, err = id.GetSno().NewIdGenerator(ctx, tr)
		if err != nil {
			out.Line("panic generr")
			return
		}
	}
	type res struct {
		inst, flows []string
		done        bool
		traces      int
		pan         string
		rounds      int
	}
	results := make([]res, k)
	// fallback generators are created one after the other, before the (possibly concurrent) runs: creation within
	// one clock reading is the separate case fb_create
	fbGens := make([]id.IGenerator, k)
	if builder == "fallback" {
		for i := range fbGens {
			fbGens[i] = id.NewFallbackGenerator()
		}
	}
	runOne := func(i int) {
		r := &results[i]
		defer func() {
			if p := recover(); p != nil {
				r.pan = strings.ReplaceAll(fmt.Sprint(p), "\n", " ")
			}
		}()
		var defs schema.Definitions
		if err := xml.Unmarshal(src, &defs); err != nil {
			r.pan = "xml"
			return
		}
		eng := bpmn.NewEngine(bpmn.WithEngineContext(ctx))
		var opts []bpmn.Option
		if shared != nil {
			opts = append(opts, bpmn.WithIdGenerator(shared))
		}
		if builder == "fallback" {
			// (Engine.NewProcess never consults WithIdGeneratorBuilder: NewOptions installs the default sno
			// generator first; the generator has to be handed over per process)
			opts = append(opts, bpmn.WithIdGenerator(fbGens[i]))
		}
		inst, err := eng.NewProcess(&defs, opts...)
		if err != nil {
			r.pan = "newprocess:" + strings.ReplaceAll(err.Error(), " ", "_")
			return
		}
		traces := inst.Tracer().SubscribeChannel(make(chan tracing.ITrace, 256))
		if i%2 == 1 {
			// every second instance is STARTED TWICE (a caller that repeats StartAll): the start events have fired, their
			// second tokens end at once — with flow ids of their own
			_ = inst.StartAll(ctx)
		}
		if err := inst.StartAll(ctx); err != nil {
			r.pan = "start:" + strings.ReplaceAll(err.Error(), " ", "_")
			return
		}
		deadline := time.After(1500 * time.Millisecond)
	loop:
		for {
			select {
			case tr, ok := <-traces:
				if !ok {
					break loop
				}
				r.traces++
				switch t := tracing.Unwrap(tr).(type) {
				case bpmn.InstantiationTrace:
					// (an instance that is started twice announces itself twice, with its one id)
					if h := hex.EncodeToString(t.InstanceId.Bytes()); len(r.inst) == 0 || r.inst[len(r.inst)-1] != h {
						r.inst = append(r.inst, h)
					}
				case bpmn.NewFlowTrace:
					r.flows = append(r.flows, hex.EncodeToString(t.FlowId.Bytes()))
				case bpmn.TaskTrace:
					if aid, ok := t.GetActivity().Element().Id(); ok && *aid == "work" {
						// (inline:loopfork) the loop's task counts its rounds
						r.rounds++
						t.Do(bpmn.DoWithResults(map[string]any{"n": r.rounds}))
					} else {
						t.Do()
					}
				case bpmn.CeaseFlowTrace:
					r.done = true
					break loop
				}
			case <-deadline:
				break loop
			}
		}
		go inst.Tracer().Unsubscribe(traces)
	}
	if conc {
		var wg sync.WaitGroup
		for i := 0; i < k; i++ {
			wg.Add(1)
			go func(i int) { defer wg.Done(); runOne(i) }(i)
		}
		wg.Wait()
	} else {
		for i := 0; i < k; i++ {
			runOne(i)
		}
	}
	for i, r := range results {
		if r.pan != "" {
			out.Line("panic %s", r.pan)
		}
		for _, s := range r.inst {
			out.Line("inst %s", s)
		}
		for _, s := range r.flows {
			out.Line("flow %s", s)
		}
		out.Line("run %d done %d traces %d", i, rec.B(r.done), r.traces)
		stats["engine_runs"]++
		stats["engine_flow_ids"] += len(r.flows)
		if r.done {
			stats["engine_runs_completed"]++
		}
	}
	stats["cases"]++
}

// c20loopFork: ONE token forks again and again over the same sequence flow (a loop through a parallel split): every token
// it splits off is a new token with an id of its own — start -> work -> fork ; fork -> x -[n < 3]-> work ; x -> end1 ;
// fork -> side -> end2 (`work` writes n = 1, 2, 3)
const c20loopFork = `<?xml version="1.0" encoding="UTF-8"?>
<bpmn:definitions xmlns:bpmn="http://www.omg.org/spec/BPMN/20100524/MODEL" xmlns:olive="http://olive.io/spec/BPMN/MODEL" xmlns:xsi="http://www.w3.org/2001/XMLSchema-instance" id="defs" targetNamespace="http://bpmn.io/schema/bpmn">
 <bpmn:process id="proc" isExecutable="true">
  <bpmn:startEvent id="start"><bpmn:outgoing>f0</bpmn:outgoing></bpmn:startEvent>
  <bpmn:task id="work"><bpmn:incoming>f0</bpmn:incoming><bpmn:incoming>f_again</bpmn:incoming><bpmn:outgoing>f1</bpmn:outgoing>
   <bpmn:extensionElements><olive:results><olive:field name="n" type="integer"/></olive:results></bpmn:extensionElements></bpmn:task>
  <bpmn:parallelGateway id="fork"><bpmn:incoming>f1</bpmn:incoming><bpmn:outgoing>f_main</bpmn:outgoing><bpmn:outgoing>f_side</bpmn:outgoing></bpmn:parallelGateway>
  <bpmn:exclusiveGateway id="x" default="f_done"><bpmn:incoming>f_main</bpmn:incoming><bpmn:outgoing>f_again</bpmn:outgoing><bpmn:outgoing>f_done</bpmn:outgoing></bpmn:exclusiveGateway>
  <bpmn:task id="side"><bpmn:incoming>f_side</bpmn:incoming><bpmn:outgoing>f2</bpmn:outgoing></bpmn:task>
  <bpmn:endEvent id="end1"><bpmn:incoming>f_done</bpmn:incoming></bpmn:endEvent>
  <bpmn:endEvent id="end2"><bpmn:incoming>f2</bpmn:incoming></bpmn:endEvent>
  <bpmn:sequenceFlow id="f0" sourceRef="start" targetRef="work"/>
  <bpmn:sequenceFlow id="f1" sourceRef="work" targetRef="fork"/>
  <bpmn:sequenceFlow id="f_main" sourceRef="fork" targetRef="x"/>
  <bpmn:sequenceFlow id="f_side" sourceRef="fork" targetRef="side"/>
  <bpmn:sequenceFlow id="f_again" sourceRef="x" targetRef="work"><bpmn:conditionExpression xsi:type="bpmn:tFormalExpression">n &lt; 3</bpmn:conditionExpression></bpmn:sequenceFlow>
  <bpmn:sequenceFlow id="f_done" sourceRef="x" targetRef="end1"/>
  <bpmn:sequenceFlow id="f2" sourceRef="side" targetRef="end2"/>
 </bpmn:process>
</bpmn:definitions>`

// c20snapConc: per round one fresh generator; one goroutine draws 40 ids from it while another takes snapshots of it the
// whole time (an instance persisted by a background saver while it runs). When both have stopped a last, quiet snapshot is
// taken, a generator is restored from it and draws 4 ids at once: none of them may be an id the original has issued.
func c20snapConc(out *rec.Out, rounds int, stats map[string]int) {
	out.Begin("c20", "snap_conc", 1, 44, rounds)
	defer out.End()
	env := c20newEnv()
	defer env.close()
	dups, first, total := 0, "-", 0
	c20guard(out, func() {
		for r := 0; r < rounds; r++ {
			g, err := id.GetSno().NewIdGenerator(env.ctx, env.tracer)
			if err != nil {
				out.Line("generr %s", strings.ReplaceAll(err.Error(), " ", "_"))
				return
			}
			seen := map[string]bool{}
			stop := make(chan struct{})
			var wg sync.WaitGroup
			wg.Add(1)
			go func() {
				defer wg.Done()
				for {
					select {
					case <-stop:
						return
					default:
						g.Snapshot()
					}
				}
			}()
			for i := 0; i < 40; i++ {
				seen[g.New().String()] = true
				if i%8 == 7 {
					runtime.Gosched()
				}
			}
			close(stop)
			wg.Wait()
			b, err := g.Snapshot()
			if err != nil {
				out.Line("generr snapshot")
				return
			}
			ng, err := id.GetSno().RestoreIdGenerator(env.ctx, b, env.tracer)
			if err != nil {
				out.Line("generr %s", strings.ReplaceAll(err.Error(), " ", "_"))
				return
			}
			for i := 0; i < 4; i++ {
				x := ng.New().String()
				if seen[x] {
					dups++
					if first == "-" {
						first = x
					}
				}
				seen[x] = true
			}
			total += 44
		}
	})
	out.Line("stress snapconc goroutines 1 each 44 gens %d total %d dups %d first %s", rounds, total, dups, first)
	stats["cases"]++
	stats["snapshots_taken_while_drawing_rounds"] += rounds
}

// c20engineCtx: k instances of one testdata process created ONE AFTER THE OTHER, each bound to a context of its own that
// is cancelled as soon as the instance has been started and its ids have been seen (what a server does per request). An
// instance that is over gives nothing of its identifiers to the ones that follow.
func c20engineCtx(out *rec.Out, file string, k int, stats map[string]int) {
	out.Begin("c20", "engine", "ctx", file, k, 0)
	defer out.End()
	src, err := os.ReadFile(filepath.Join(c20testdata(), file))
	if err != nil {
		out.Line("panic cannot_read_%s", file)
		return
	}
	completed := 0
	c20guard(out, func() {
		for i := 0; i < k; i++ {
			var defs schema.Definitions
			if err := xml.Unmarshal(src, &defs); err != nil {
				out.Line("panic xml")
				return
			}
			ctx, cancel := context.WithCancel(context.Background())
			inst, err := bpmn.NewEngine().NewProcess(&defs, bpmn.WithContext(ctx))
			if err != nil {
				cancel()
				out.Line("panic newprocess:%s", strings.ReplaceAll(err.Error(), " ", "_"))
				return
			}
			out.Line("inst %s", hex.EncodeToString(inst.Id().Bytes()))
			// every 16th instance also runs (its flows draw ids too)
			if i%16 == 0 {
				traces := inst.Tracer().SubscribeChannel(make(chan tracing.ITrace, 256))
				if err := inst.StartAll(ctx); err == nil {
					deadline := time.After(time.Second)
				loop:
					for {
						select {
						case tr, ok := <-traces:
							if !ok {
								break loop
							}
							switch t := tracing.Unwrap(tr).(type) {
							case bpmn.NewFlowTrace:
								out.Line("flow %s", hex.EncodeToString(t.FlowId.Bytes()))
							case bpmn.TaskTrace:
								t.Do()
							case bpmn.CeaseFlowTrace:
								completed++
								break loop
							}
						case <-deadline:
							break loop
						}
					}
				}
				go inst.Tracer().Unsubscribe(traces)
			}
			cancel()
			// (whatever the library hangs on the end of the context gets its turn)
			runtime.Gosched()
			if i%64 == 63 {
				time.Sleep(200 * time.Microsecond)
			}
		}
	})
	out.Line("run 0 done %d traces 0", rec.B(completed > 0))
	stats["cases"]++
	stats["engine_instances_with_own_cancelled_context"] += k
}

// ---------------------------------------------------------------- the family

func c20(out *rec.Out, rng *rec.Rng, tier string, stats map[string]int) {
	thorough := tier == "thorough"
	out.MaxCaseLines = 4000000 // the cases of this family ARE long id streams (hundreds of thousands of lines)
	// 1. single goroutine, 1..8 generators, snapshot/restore
	nSingle := 24
	if thorough {
		nSingle = 120
	}
	for c := 0; c < nSingle; c++ {
		ngen := 1 + c%8
		ndraws := 200 + rng.Intn(1800)
		c20snoSingle(out, rng.Fork(), ngen, ndraws, rng.Intn(5), stats)
	}
	// 2. one goroutine as fast as it can
	if thorough {
		for c := 0; c < 3; c++ {
			c20snoBurst(out, 400000, stats)
		}
	} else {
		c20snoBurst(out, 150000, stats)
	}
	// 3. concurrent stress on sno generators
	type cc struct{ G, N, ngen int }
	conc := []cc{{2, 100000, 1}, {4, 100000, 1}, {8, 100000, 2}, {16, 200000, 1}, {3, 50000, 8}}
	if thorough {
		conc = []cc{{1, 1000000, 1}, {2, 1000000, 1}, {4, 1000000, 1}, {8, 1000000, 1}, {16, 1000000, 1},
			{16, 250000, 4}, {2, 250000, 8}, {5, 200000, 3}}
	}
	for _, c := range conc {
		c20snoConc(out, c.G, c.N, c.ngen, stats)
	}
	// 4. fallback generator
	nFb := 10
	if thorough {
		nFb = 60
	}
	for c := 0; c < nFb; c++ {
		c20fbSingle(out, rng.Fork(), 1+c%8, 100+rng.Intn(900), stats)
	}
	fconc := []cc{{2, 50000, 1}, {16, 50000, 1}, {4, 20000, 8}}
	if thorough {
		fconc = []cc{{2, 1000000, 1}, {16, 1000000, 1}, {8, 100000, 8}, {16, 100000, 3}}
	}
	for _, c := range fconc {
		c20fbConc(out, c.G, c.N, c.ngen, stats)
	}
	nc := 20000
	if thorough {
		nc = 200000
	}
	c20fbCreate(out, "seq", nc, stats)
	c20fbCreate(out, "conc", nc, stats)
	// 5. engine level
	files := []string{"task.bpmn", "parallel_gateway_fork_join.bpmn", "exclusive_gateway.bpmn", "inclusive_gateway.bpmn",
		"parallel_gateway_m_n.bpmn", "sample.bpmn", "inline:loopfork", "boundary_event.bpmn"}
	builders := []string{"sno", "fallback", "shared"}
	k := 4
	if thorough {
		k = 12
	}
	for _, f := range files {
		for _, b := range builders {
			c20engine(out, b, f, k, b != "sno" || thorough, stats)
		}
	}
	kc := 1500
	if thorough {
		kc = 6000
	}
	c20engineCtx(out, "task.bpmn", kc, stats)
	rs := 400
	if thorough {
		rs = 3000
	}
	c20snapConc(out, rs, stats)
	for _, mode := range []string{"mock", "host"} {
		c20ctxClock(out, mode, "restore", 6, stats)
		c20ctxClock(out, mode, "long", 1<<16+5000, stats)
	}
	// 6. LAST (it uses up the process-wide sno partition pool): one long-lived generator and, one after the other, a
	// little more than 2^16 short-lived ones (one generator per process instance in a long-running program)
	c20manyGens(out, 1<<16+16, stats)
}

// c20ctxClock: generators created and restored with a context that CARRIES A CLOCK (clock.ToContext — what a run driven
// by a mock clock, or a host that passes its clock along, hands to everything it creates). mode "mock": a mock clock that
// is never advanced; "host": the host clock. Two shapes: `restore` — draw 5, snapshot, restore with the same context, 5
// draws from the restored generator, which then takes the original's place (n rounds); `long` — one generator, n draws (more than 2^16, the size
// of a sequence pool) while the clock stands still. No id may show up twice.
func c20ctxClock(out *rec.Out, mode, shape string, n int, stats map[string]int) {
	out.Begin("c20", "ctx_clock", mode, shape, n)
	defer out.End()
	env := c20newEnv()
	defer env.close()
	dups, first, total := 0, "-", 0
	c20guard(out, func() {
		var clk clock.IClock
		if mode == "mock" {
			clk = clock.NewMockAt(time.Date(2024, 5, 6, 7, 8, 9, 0, time.UTC))
		} else {
			h, err := clock.Host(env.ctx)
			if err != nil {
				out.Line("generr host_clock")
				return
			}
			clk = h
		}
		ctx := clock.ToContext(env.ctx, clk)
		g, err := id.GetSno().NewIdGenerator(ctx, env.tracer)
		if err != nil {
			out.Line("generr %s", strings.ReplaceAll(err.Error(), " ", "_"))
			return
		}
		seen := map[string]bool{}
		draw := func(x id.IGenerator) {
			v := x.New().String()
			if seen[v] {
				dups++
				if first == "-" {
					first = v
				}
			}
			seen[v] = true
			total++
		}
		if shape == "long" {
			for i := 0; i < n; i++ {
				draw(g)
			}
			return
		}
		for r := 0; r < n; r++ {
			for i := 0; i < 5; i++ {
				draw(g)
			}
			b, err := g.Snapshot()
			if err != nil {
				out.Line("generr snapshot")
				return
			}
			ng, err := id.GetSno().RestoreIdGenerator(ctx, b, env.tracer)
			if err != nil {
				out.Line("generr %s", strings.ReplaceAll(err.Error(), " ", "_"))
				return
			}
			// (the original is not used any more: the property is about a generator's EARLIER output and its restored copy)
			for i := 0; i < 5; i++ {
				draw(ng)
			}
			g = ng
		}
	})
	out.Line("stress ctxclock goroutines 1 each %d gens 1 total %d dups %d first %s", total, total, dups, first)
	stats["cases"]++
	stats["ctx_clock_"+mode+"_"+shape]++
}

// c20manyGens: a long-lived generator stays in use while n short-lived generators are created one after the other, each
// through the default path of the library (sno; the fallback generator when sno cannot deliver one). Two ids from the
// keeper and two from the newcomer per round; no id may show up twice.
func c20manyGens(out *rec.Out, n int, stats map[string]int) {
	out.Begin("c20", "many_gens", 1, 4, n)
	defer out.End()
	env := c20newEnv()
	defer env.close()
	c20guard(out, func() {
		mk := func() id.IGenerator {
			g, err := id.GetSno().NewIdGenerator(env.ctx, env.tracer)
			if err != nil {
				stats["many_gens_fallback_generators"]++
				return id.NewFallbackGenerator()
			}
			return g
		}
		keeper := mk()
		seen := make(map[string]struct{}, 4*n)
		dups, first := 0, "-"
		rec := func(x id.Id) {
			k := x.String()
			if _, dup := seen[k]; dup {
				dups++
				if first == "-" {
					first = k
				}
				return
			}
			seen[k] = struct{}{}
		}
		for i := 0; i < n; i++ {
			short := mk()
			for d := 0; d < 2; d++ {
				rec(keeper.New())
				rec(short.New())
			}
		}
		out.Line("stress manygens goroutines 1 each 4 gens %d total %d dups %d first %s", n, len(seen)+dups, dups, first)
		stats["many_gens_ids"] += len(seen) + dups
	})
	stats["cases"]++
}
