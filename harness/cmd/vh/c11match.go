package main

// Family c11match: function differential of the event-matching kernel (pkg/event/events.go,
// MatchesEventInstance of every event kind) against the Lean port Bpmn.Model.EventMatch, EXHAUSTIVE
// over a small name domain: every event shape x every definition-instance shape.
//
//	case params: the event   (end | none | cancel | terminate | signal R | comp A | message R O | escalation R |
//	                          link SRCS T | error R | timer I | conditional I)
//	lines:       m <inst id> <definition words…> = <0|1>
//
// names are numbers (Go name "n<k>"), "-" = absent, SRCS = comma list or "." for the empty list.

import (
	"fmt"
	"strings"

	"github.com/olive-io/bpmn/schema"
	"github.com/olive-io/bpmn/v2/pkg/event"

	"verifharness/internal/rec"
)

func init() { families["c11match"] = c11match }

func c11mname(k int) string { return fmt.Sprintf("n%d", k) }

func c11mq(k int) *schema.QName {
	if k == 0 {
		return nil
	}
	q := schema.QName(c11mname(k))
	return &q
}

func c11mopt(k int) string {
	if k == 0 {
		return "-"
	}
	return fmt.Sprint(k)
}

func c11msrcs(s []int) string {
	if len(s) == 0 {
		return "."
	}
	p := make([]string, len(s))
	for i, k := range s {
		p[i] = fmt.Sprint(k)
	}
	return strings.Join(p, ",")
}

type c11minst struct {
	words string
	inst  event.IDefinitionInstance
}

func c11minstances() []c11minst {
	var r []c11minst
	add := func(words string, d schema.EventDefinitionInterface) {
		r = append(r, c11minst{words, event.WrapEventDefinition(d)})
	}
	for _, k := range []int{0, 1, 2} {
		d := schema.DefaultSignalEventDefinition()
		if k != 0 {
			d.SetSignalRef(c11mq(k))
		}
		add("signal "+c11mopt(k), &d)
	}
	{
		d := schema.DefaultCancelEventDefinition()
		add("cancel", &d)
	}
	{
		d := schema.DefaultTerminateEventDefinition()
		add("terminate", &d)
	}
	{
		d := schema.DefaultCompensateEventDefinition()
		add("compensate", &d)
	}
	for i := 0; i < 2; i++ { // two timer and two conditional instances: identity matters
		d := schema.DefaultTimerEventDefinition()
		add("timer", &d)
		c := schema.DefaultConditionalEventDefinition()
		add("conditional", &c)
	}
	for _, k := range []int{0, 1, 2} {
		for _, o := range []int{0, 1, 2} {
			d := schema.DefaultMessageEventDefinition()
			if k != 0 {
				d.SetMessageRef(c11mq(k))
			}
			if o != 0 {
				d.SetOperationRef(c11mq(o))
			}
			add("message "+c11mopt(k)+" "+c11mopt(o), &d)
		}
	}
	for _, k := range []int{0, 1, 2} {
		d := schema.DefaultEscalationEventDefinition()
		if k != 0 {
			d.SetEscalationRef(c11mq(k))
		}
		add("escalation "+c11mopt(k), &d)
		e := schema.DefaultErrorEventDefinition()
		if k != 0 {
			e.SetErrorRef(c11mq(k))
		}
		add("error "+c11mopt(k), &e)
	}
	for _, s := range [][]int{{}, {1}, {2}, {1, 2}, {2, 1}, {1, 1}} {
		for _, t := range []int{0, 1, 2} {
			d := schema.DefaultLinkEventDefinition()
			qs := make([]schema.QName, len(s))
			for i, k := range s {
				qs[i] = schema.QName(c11mname(k))
			}
			d.SetSources(qs)
			if t != 0 {
				d.SetTarget(c11mq(t))
			}
			add("link "+c11msrcs(s)+" "+c11mopt(t), &d)
		}
	}
	return r
}

type c11mev struct {
	words string
	ev    event.IEvent
}

func c11mevents(insts []c11minst) []c11mev {
	var r []c11mev
	r = append(r, c11mev{"end", event.MakeEndEvent(nil)}, c11mev{"none", event.MakeNoneEvent()},
		c11mev{"cancel", event.MakeCancelEvent()}, c11mev{"terminate", event.MakeTerminateEvent()})
	for _, k := range []int{1, 2, 3} {
		r = append(r, c11mev{fmt.Sprintf("signal %d", k), event.NewSignalEvent(c11mname(k))})
		c := event.MakeCompensationEvent(c11mname(k))
		r = append(r, c11mev{fmt.Sprintf("comp %d", k), &c})
		e := event.MakeEscalationEvent(c11mname(k))
		r = append(r, c11mev{fmt.Sprintf("escalation %d", k), &e})
		x := event.MakeErrorEvent(c11mname(k))
		r = append(r, c11mev{fmt.Sprintf("error %d", k), &x})
		for _, o := range []int{0, 1, 2, 3} {
			var op *string
			if o != 0 {
				s := c11mname(o)
				op = &s
			}
			r = append(r, c11mev{fmt.Sprintf("message %d %s", k, c11mopt(o)), event.NewMessageEvent(c11mname(k), op)})
		}
	}
	for _, s := range [][]int{{}, {1}, {2}, {1, 2}, {2, 1}, {1, 1}, {1, 2, 1}} {
		for _, t := range []int{0, 1, 2, 3} {
			names := make([]string, len(s))
			for i, k := range s {
				names[i] = c11mname(k)
			}
			var tg *string
			if t != 0 {
				x := c11mname(t)
				tg = &x
			}
			l := event.MakeLinkEvent(names, tg)
			r = append(r, c11mev{"link " + c11msrcs(s) + " " + c11mopt(t), &l})
		}
	}
	for i, in := range insts {
		if strings.HasPrefix(in.words, "timer") || strings.HasPrefix(in.words, "conditional") || i == 0 {
			r = append(r, c11mev{fmt.Sprintf("timer %d", i), event.MakeTimerEvent(in.inst)})
			c := event.MakeConditionalEvent(in.inst)
			r = append(r, c11mev{fmt.Sprintf("conditional %d", i), &c})
		}
	}
	return r
}

func c11match(out *rec.Out, rng *rec.Rng, tier string, stats map[string]int) {
	insts := c11minstances()
	for _, e := range c11mevents(insts) {
		params := []any{}
		for _, w := range strings.Fields(e.words) {
			params = append(params, w)
		}
		out.Begin("c11match", params...)
		for i, in := range insts {
			var m bool
			func() {
				defer func() {
					if r := recover(); r != nil {
						out.Line("panic %d %s", i, strings.ReplaceAll(fmt.Sprint(r), " ", "_"))
					}
				}()
				m = e.ev.MatchesEventInstance(in.inst)
				out.Line("m %d %s = %d", i, in.words, rec.B(m))
			}()
			if m {
				stats["matched"]++
			} else {
				stats["not_matched"]++
			}
		}
		out.End()
		stats["cases"]++
		stats["ev_"+strings.Fields(e.words)[0]]++
	}
}
