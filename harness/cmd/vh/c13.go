package main

// C13 — timers. Drives the REAL pkg/timer goroutines over the REAL pkg/clock mock through generated
// operation sequences (set / add / cancel), waits for quiescence between operations (every goroutine
// of pkg/timer blocked in a select, nothing offered on the timer's channel), and records the
// firings with the mock clock reading at each, whether the channel was closed, and the mock's armed
// wake-ups (verif export). The Lean driver replays the same operations through the model.
//
// Times are whole seconds relative to c13T0 (the mock's initial reading).

import (
	"bytes"
	"context"
	"encoding/xml"
	"fmt"
	"os"
	"runtime"
	"sort"
	"strings"
	"time"

	"github.com/qri-io/iso8601"

	"github.com/olive-io/bpmn/schema"
	"github.com/olive-io/bpmn/v2"
	"github.com/olive-io/bpmn/v2/pkg/clock"
	"github.com/olive-io/bpmn/v2/pkg/event"
	"github.com/olive-io/bpmn/v2/pkg/timer"
	"github.com/olive-io/bpmn/v2/pkg/tracing"

	"verifharness/internal/rec"
)

func init() { families["c13"] = c13 }

var c13T0 = time.Date(2021, 1, 1, 0, 0, 0, 0, time.UTC)

const c13NoTime = int64(-1 << 62)

type c13def struct {
	via      string // "new": timer.New with ISO 8601 text; "hook": the unexported goroutine functions
	kind     string // date | duration | cycle
	reps     int    // cycle: -1 unbounded
	start    int64  // date: the date; cycle: start (c13NoTime = absent)
	interval int64  // duration: the duration; cycle: interval
	end      int64  // cycle: end bound (c13NoTime = absent)
}

type c13op struct {
	kind string // set | add | cancel | racecancel
	arg  int64
}

// c13Far: a due time / end bound "never" — 9999-12-31T23:59:59Z, far outside the range a time.Duration or UnixNano can
// express (whatever orders or subtracts instants must not wrap there)
var c13FarDate = time.Date(9999, 12, 31, 23, 59, 59, 0, time.UTC)
var c13Far = c13FarDate.Unix() - c13T0.Unix()

// the unit of the model's integer time and the instant that is its 0. Whole seconds from c13T0 everywhere, except in the
// sub-second section of c13 (unit 100 ms; the mock clock may start 0.7 s after a whole second): the property is about ANY
// sequence of clock jumps, not about whole seconds.
var c13unit = time.Second
var c13offset = time.Duration(0)

// c13sec: whole units since the origin (through Unix seconds: a time.Duration saturates after 292 years)
func c13sec(t time.Time) int64 {
	if c13unit == time.Second && c13offset == 0 {
		return t.Unix() - c13T0.Unix()
	}
	return (t.UnixMilli() - c13T0.Add(c13offset).UnixMilli()) / c13unit.Milliseconds()
}

// c13onGrid: is the instant a whole number of units from the origin?
func c13onGrid(t time.Time) bool {
	if c13unit == time.Second && c13offset == 0 {
		return t.Nanosecond() == 0
	}
	return t.Sub(c13T0.Add(c13offset))%c13unit == 0
}

func c13tm(x int64) time.Time {
	if x >= c13Far-100000 {
		return c13FarDate.Add(time.Duration(x-c13Far) * time.Second)
	}
	return c13T0.Add(c13offset).Add(time.Duration(x) * c13unit)
}

func c13opt(x int64) string {
	if x == c13NoTime {
		return "-"
	}
	return fmt.Sprint(x)
}

func c13expr(text string) *schema.AnExpression {
	e := schema.AnExpression{}
	if err := xml.NewDecoder(bytes.NewBufferString(
		fmt.Sprintf(`<bpmn:expression>%s</bpmn:expression>`, text))).Decode(&e); err != nil {
		panic(err)
	}
	return &e
}

// ISO 8601 text of a definition as timer.New wants it ("" when the parser has no syntax for it)
func (d c13def) iso() string {
	// the interval in whole seconds ("" when it is not: only the hook can express it)
	if (d.interval*int64(c13unit))%int64(time.Second) != 0 {
		return ""
	}
	secs := d.interval * int64(c13unit) / int64(time.Second)
	switch d.kind {
	case "date":
		return c13tm(d.start).Format(time.RFC3339)
	case "duration":
		return fmt.Sprintf("PT%dS", secs)
	}
	r := "R"
	if d.reps >= 0 {
		r = fmt.Sprintf("R%d", d.reps)
	}
	switch {
	case d.start == c13NoTime && d.end == c13NoTime:
		return fmt.Sprintf("%s/PT%dS", r, secs)
	case d.start != c13NoTime && d.end == c13NoTime:
		return fmt.Sprintf("%s/%s/PT%dS", r, c13tm(d.start).Format(time.RFC3339), secs)
	case d.start == c13NoTime && d.end != c13NoTime:
		return fmt.Sprintf("%s/PT%dS/%s", r, secs, c13tm(d.end).Format(time.RFC3339))
	default:
		// start/end: the parser derives interval = end - start
		if d.end-d.start == d.interval {
			return fmt.Sprintf("%s/%s/%s", r, c13tm(d.start).Format(time.RFC3339), c13tm(d.end).Format(time.RFC3339))
		}
	}
	return ""
}

type c13run struct {
	clk    *clock.Mock
	ch     chan schema.TimerEventDefinition
	cancel context.CancelFunc
	closed bool
}

func c13start(d c13def) (*c13run, error) {
	r := &c13run{clk: clock.NewMockAt(c13T0.Add(c13offset))}
	ctx, cancel := context.WithCancel(context.Background())
	r.cancel = cancel
	if d.via == "new" {
		def := schema.DefaultTimerEventDefinition()
		switch d.kind {
		case "date":
			def.SetTimeDate(c13expr(d.iso()))
		case "duration":
			def.SetTimeDuration(c13expr(d.iso()))
		default:
			def.SetTimeCycle(c13expr(d.iso()))
		}
		ch, err := timer.New(ctx, r.clk, def)
		if err != nil {
			cancel()
			return nil, err
		}
		r.ch = ch
		return r, nil
	}
	// hook: what timer.New does after parsing, with the parsed values given directly
	ch := make(chan schema.TimerEventDefinition)
	r.ch = ch
	def := schema.DefaultTimerEventDefinition()
	switch d.kind {
	case "date":
		go timer.VerifDateTime(ctx, r.clk, c13tm(d.start), func() { ch <- def; close(ch) })
	case "duration":
		go timer.VerifDateTime(ctx, r.clk, r.clk.Now().Add(time.Duration(d.interval)*c13unit), func() { ch <- def; close(ch) })
	default:
		ri := iso8601.RepeatingInterval{Repititions: d.reps}
		ri.Interval.Duration.Duration = time.Duration(d.interval) * c13unit
		st := r.clk.Now()
		if d.start != c13NoTime {
			st = c13tm(d.start)
		}
		ri.Interval.Start = &st
		if d.end != c13NoTime {
			e := c13tm(d.end)
			ri.Interval.End = &e
		}
		go timer.VerifRecurring(ctx, r.clk, ri, func() { ch <- def }, func() { close(ch) })
	}
	return r, nil
}

var c13stackBuf = make([]byte, 1<<20)

// c13goroutines reports whether every goroutine running pkg/timer code is parked in a select (or a
// channel receive), how many there are, and the first offending state.
// goroutines an earlier case left behind for good (only under a defect of the code: a case that leaks is reported
// once, its goroutines are then not looked at any more — otherwise every later case would find the process "busy")
var c13leakedIDs = map[string]bool{}
var c13lastIDs []string

func c13goroutines() (quiet bool, n int, why string) {
	k := runtime.Stack(c13stackBuf, true)
	for k == len(c13stackBuf) {
		c13stackBuf = make([]byte, 2*len(c13stackBuf))
		k = runtime.Stack(c13stackBuf, true)
	}
	quiet = true
	c13lastIDs = c13lastIDs[:0]
	for _, blk := range bytes.Split(c13stackBuf[:k], []byte("\n\n")) {
		// a goroutine that has not run yet shows only its `go` wrapper and its creator
		if !bytes.Contains(blk, []byte("/pkg/timer.")) && !bytes.Contains(blk, []byte("main.c13start")) {
			continue
		}
		hdr := blk
		if i := bytes.IndexByte(blk, '\n'); i >= 0 {
			hdr = blk[:i]
		}
		gid := string(hdr)
		if i := strings.Index(gid, " ["); i >= 0 {
			gid = gid[:i]
		}
		if c13leakedIDs[gid] {
			continue
		}
		c13lastIDs = append(c13lastIDs, gid)
		n++
		st := ""
		if i := bytes.IndexByte(hdr, '['); i >= 0 {
			st = string(hdr[i+1:])
			if j := strings.IndexAny(st, ",]"); j >= 0 {
				st = st[:j]
			}
		}
		switch st {
		case "select", "chan receive":
		case "chan send":
			// (the start timer of a cycle used to stay parked on its internal channel for ever when the cycle had
			// already returned on ctx.Done(): D41, repaired in /repo c8d2e82 — no longer tolerated here)
			quiet = false
			if why == "" {
				why = st
			}
		default:
			quiet = false
			if why == "" {
				why = st
			}
		}
	}
	return
}

// observe waits for quiescence, receiving whatever the timer offers meanwhile.
func (r *c13run) observe() (fires []int64, stuck string) {
	deadline := time.Now().Add(3 * time.Second)
	for i := 0; ; i++ {
		// first look at the goroutines, then at the channel: once every timer goroutine is parked
		// (or gone) nothing changes any more, so a receive that finds nothing after that is final
		q, _, why := c13goroutines()
		if !r.closed {
			select {
			case _, ok := <-r.ch:
				if ok {
					fires = append(fires, c13sec(r.clk.Now()))
					if !c13onGrid(r.clk.Now()) {
						stuck = "subsecond"
					}
				} else {
					r.closed = true
				}
				continue
			default:
			}
		}
		if q {
			return
		}
		if i > 50 {
			if time.Now().After(deadline) {
				stuck = "not-quiescent:" + strings.ReplaceAll(why, " ", "_")
				if os.Getenv("C13_DEBUG") != "" {
					k := runtime.Stack(c13stackBuf, true)
					os.Stderr.Write(c13stackBuf[:k])
					os.Exit(9)
				}
				return
			}
			if i > 2000 {
				time.Sleep(50 * time.Microsecond)
			}
		}
		runtime.Gosched()
	}
}

func (r *c13run) armed() string {
	ts := r.clk.VerifArmed()
	xs := make([]int64, len(ts))
	for i, t := range ts {
		xs[i] = c13sec(t)
	}
	sort.Slice(xs, func(i, j int) bool { return xs[i] < xs[j] })
	return c13list(xs)
}

func c13list(xs []int64) string {
	if len(xs) == 0 {
		return "-"
	}
	parts := make([]string, len(xs))
	for i, x := range xs {
		parts[i] = fmt.Sprint(x)
	}
	return strings.Join(parts, ",")
}

// goroutines of earlier cases that ignored the cancellation (only under a defect of the code)
var c13leaks = 0

const c13maxLeaks = 150

// end of a case: stop the goroutines that are still waiting and wait until they are gone
func (r *c13run) finish() (left int) {
	r.cancel()
	wait := 50 * time.Millisecond
	if c13leaks > 20 {
		wait = time.Millisecond
	}
	deadline := time.Now().Add(wait)
	for i := 0; ; i++ {
		_, n, _ := c13goroutines()
		if n <= 0 {
			return 0
		}
		left = n
		if !r.closed {
			select {
			case _, ok := <-r.ch:
				if !ok {
					r.closed = true
				}
			default:
			}
		}
		if i > 20 && time.Now().After(deadline) {
			for _, gid := range c13lastIDs {
				c13leakedIDs[gid] = true
			}
			c13leaks++
			return
		}
		runtime.Gosched()
	}
}

func c13case(out *rec.Out, d c13def, ops []c13op, stats map[string]int) {
	mode := "sync"
	for _, o := range ops {
		if o.kind == "racecancel" {
			mode = "race"
		}
	}
	out.Begin("c13", mode, d.via, d.kind, d.reps, c13opt(d.start), d.interval, c13opt(d.end), 0)
	defer out.End()
	r, err := c13start(d)
	if err != nil {
		out.Line("error new %s", strings.ReplaceAll(err.Error(), " ", "_"))
		stats["new_error"]++
		return
	}
	total := 0
	emit := func(name string, arg int64) {
		fires, stuck := r.observe()
		if stuck != "" {
			out.Line("stuck %s", stuck)
		}
		total += len(fires)
		out.Line("o %s %d %s %d %s", name, arg, c13list(fires), rec.B(r.closed), r.armed())
	}
	emit("new", 0)
	for _, o := range ops {
		switch o.kind {
		case "set":
			r.clk.Set(c13tm(o.arg))
		case "add":
			r.clk.Add(time.Duration(o.arg) * c13unit)
		case "cancel":
			r.cancel()
		case "racecancel":
			// the clock jumps and the context is cancelled before the goroutine can run in between
			r.clk.Set(c13tm(o.arg))
			r.cancel()
		}
		emit(o.kind, o.arg)
		stats["op_"+o.kind]++
	}
	if left := r.finish(); left != 0 {
		out.Line("leak %d", left)
	}
	stats["cases"]++
	stats["kind_"+d.kind+"_"+d.via]++
	if d.kind == "cycle" {
		stats[fmt.Sprintf("reps_%d", d.reps)]++
	}
	stats[fmt.Sprintf("ops_%d", len(ops))]++
	f := total
	if f > 4 {
		f = 4
	}
	stats[fmt.Sprintf("fires_%d", f)]++
}

// the grid around the due times of a definition: just before, exactly at, (just after the first),
// far beyond (several, each more than an interval after the previous)
func c13grid(d c13def) []int64 {
	set := map[int64]bool{}
	add := func(xs ...int64) {
		for _, x := range xs {
			if x > 0 { // the mock starts at 0
				set[x] = true
			}
		}
	}
	switch d.kind {
	case "date":
		if d.start == c13Far {
			add(1, 2000, 50000, d.start-1, d.start)
		} else {
			add(d.start-1, d.start, d.start+1, d.start+1000, 1, 2000)
		}
	case "duration":
		add(d.interval-1, d.interval, d.interval+1, d.interval+1000, 1, 2000)
	default:
		z := d.start
		if z == c13NoTime {
			z = 0
		}
		I := d.interval
		add(z-1, z)
		add(z+I-1, z+I, z+I+1)
		add(z+2*I-1, z+2*I)
		add(z+3*I-1, z+3*I)
		if d.end != c13NoTime {
			// beyond the end bound all far points are alike
			add(d.end-1, d.end, z+7*I+3)
		} else {
			add(z+7*I+3, z+14*I+3, z+21*I+3)
		}
	}
	xs := make([]int64, 0, len(set))
	for x := range set {
		xs = append(xs, x)
	}
	sort.Slice(xs, func(i, j int) bool { return xs[i] < xs[j] })
	return xs
}

func c13defs() []c13def {
	var ds []c13def
	for _, via := range []string{"new", "hook"} {
		for _, t := range []int64{10, 0, -5, c13Far} {
			ds = append(ds, c13def{via: via, kind: "date", start: t, end: c13NoTime})
		}
		for _, x := range []int64{10, 0} {
			ds = append(ds, c13def{via: via, kind: "duration", interval: x, start: c13NoTime, end: c13NoTime})
		}
	}
	N := c13NoTime
	type shape struct{ start, interval, end int64 }
	shapes := []shape{
		{N, 10, N},      // R/PT10S
		{20, 10, N},     // start in the future
		{-15, 10, N},    // start in the past: the first due time (-5) has passed too
		{N, 10, 25},     // end between the 2nd and 3rd due time
		{N, 10, 20},     // end exactly on the 2nd due time
		{20, 10, 45},    // start, interval and end together (no ISO 8601 syntax: hook only)
		{20, 10, 40},    // end exactly on a due time
		{20, 10, 30},    // R/start/end: the parser makes interval = end - start
		{20, 10, 15},    // end before the start
		{N, 10, c13Far}, // an end bound written as a far-future "never" date
		{20, 10, c13Far},
	}
	for _, sh := range shapes {
		for _, reps := range []int{0, 1, 2, 3, -1} {
			d := c13def{via: "new", kind: "cycle", reps: reps, start: sh.start, interval: sh.interval, end: sh.end}
			if d.iso() == "" {
				d.via = "hook"
			}
			ds = append(ds, d)
		}
	}
	return ds
}

// all strictly increasing sequences of at most maxLen grid points, each with every cancel position
func c13enumerate(out *rec.Out, d c13def, grid []int64, maxLen int, keep func() bool, stats map[string]int) {
	var seq []int64
	var recur func(from int)
	emit := func() {
		// cancel positions: none, or before operation p (p = len: after the last)
		for p := -1; p <= len(seq); p++ {
			if !keep() || c13leaks > c13maxLeaks {
				continue
			}
			ops := make([]c13op, 0, len(seq)+1)
			for i, x := range seq {
				if i == p {
					ops = append(ops, c13op{"cancel", 0})
				}
				ops = append(ops, c13op{"set", x})
			}
			if p == len(seq) {
				ops = append(ops, c13op{"cancel", 0})
			}
			c13case(out, d, ops, stats)
		}
	}
	recur = func(from int) {
		emit()
		if len(seq) == maxLen {
			return
		}
		for i := from; i < len(grid); i++ {
			seq = append(seq, grid[i])
			recur(i + 1)
			seq = seq[:len(seq)-1]
		}
	}
	recur(0)
}

func c13subsecond(out *rec.Out, tier string, stats map[string]int) {
	defer func() { c13unit, c13offset = time.Second, 0 }()
	c13unit = 100 * time.Millisecond
	N := c13NoTime
	before := stats["cases"]
	for _, off := range []time.Duration{0, 700 * time.Millisecond} {
		c13offset = off
		type shape struct{ start, interval, end int64 }
		shapes := []shape{{N, 100, N}}
		if off == 0 {
			shapes = append(shapes, shape{200, 100, N}, shape{N, 100, 250}, shape{200, 100, 450})
		}
		for _, sh := range shapes {
			for _, reps := range []int{2, 3, -1} {
				d := c13def{via: "new", kind: "cycle", reps: reps, start: sh.start, interval: sh.interval, end: sh.end}
				if d.iso() == "" {
					d.via = "hook"
				}
				z := sh.start
				if z == N {
					z = 0
				}
				I := sh.interval
				// exactly at, a fraction late, and inside the second before the next due time counted from the late firing
				grid := []int64{z + I, z + I + 5, z + 2*I - 3, z + 2*I, z + 2*I + 2, z + 2*I + 5, z + 2*I + 8, z + 3*I + 2, z + 3*I + 5,
					z + 3*I + 9, z + 4*I + 7, z + 9*I + 3}
				if z > 0 {
					grid = append([]int64{z - 4, z, z + 5}, grid...)
				}
				n := 3
				if tier == "thorough" {
					n = 4
				}
				c13enumerate(out, d, grid, n, func() bool { return true }, stats)
			}
		}
		for _, x := range []int64{100, 5} {
			d := c13def{via: "new", kind: "duration", interval: x, start: N, end: N}
			if d.iso() == "" {
				d.via = "hook"
			}
			c13enumerate(out, d, []int64{x - 3, x, x + 4, x + 100}, 2, func() bool { return true }, stats)
		}
	}
	stats["subsecond_cases"] = stats["cases"] - before
}

func c13(out *rec.Out, rng *rec.Rng, tier string, stats map[string]int) {
	// one P: the timer goroutines run when the harness yields, and looking at all goroutine states
	// (a stop-the-world) is several times cheaper; the quiescence rule does not depend on it
	defer runtime.GOMAXPROCS(runtime.GOMAXPROCS(1))
	defs := c13defs()
	// 1. exhaustive over the grid of the quantifier
	for _, d := range defs {
		grid := c13grid(d)
		if tier == "thorough" {
			c13enumerate(out, d, grid, 6, func() bool { return true }, stats)
		} else {
			c13enumerate(out, d, grid, 2, func() bool { return true }, stats)
		}
	}
	stats["exhaustive_cases"] = stats["cases"]
	// 1b. sub-second clocks: the unit is 100 ms; definitions in whole seconds (interval 10 s = 100 units), clock jumps that
	// overshoot a due time by a fraction of a second and then land just before the next one; a mock clock that starts 0.7 s
	// after a whole second (definitions without absolute dates). The model is the same — its time is a number of units.
	c13subsecond(out, tier, stats)
	// 2. seeded random histories: longer, not monotone (Set backwards, Add of 0 / negative), the
	// cancel anywhere; quick also samples the long monotone sequences here
	N := 6000
	if tier == "thorough" {
		N = 40000
	}
	for k := 0; k < N && c13leaks <= c13maxLeaks; k++ {
		d := defs[rng.Intn(len(defs))]
		grid := c13grid(d)
		n := 1 + rng.Intn(8)
		monotone := rng.Intn(3) > 0
		var ops []c13op
		cur := int64(0)
		cancelAt := -1
		if rng.Intn(3) > 0 {
			cancelAt = rng.Intn(n + 1)
		}
		for i := 0; i < n; i++ {
			if i == cancelAt {
				ops = append(ops, c13op{"cancel", 0})
			}
			if rng.Intn(4) == 0 {
				steps := []int64{0, 1, 9, 10, 11, 50, -1, -10, -30}
				m := len(steps)
				if monotone {
					m = 6
				}
				a := steps[rng.Intn(m)]
				ops = append(ops, c13op{"add", a})
				cur += a
				continue
			}
			x := grid[rng.Intn(len(grid))]
			if monotone && x < cur {
				// next grid point at or after the current reading, if any
				j := sort.Search(len(grid), func(j int) bool { return grid[j] >= cur })
				if j == len(grid) {
					x = cur + int64(rng.Intn(30))
				} else {
					x = grid[j+rng.Intn(len(grid)-j)]
				}
			}
			ops = append(ops, c13op{"set", x})
			cur = x
		}
		if cancelAt == n {
			ops = append(ops, c13op{"cancel", 0})
		}
		c13case(out, d, ops, stats)
	}
	// 3. a cancel racing a clock jump (Go's select may take either ready case): the driver accepts
	// either outcome and still requires silence once the cancel has been observed
	R := 300
	if tier == "thorough" {
		R = 3000
	}
	for k := 0; k < R && c13leaks <= c13maxLeaks; k++ {
		d := defs[rng.Intn(len(defs))]
		grid := c13grid(d)
		n := rng.Intn(3)
		var ops []c13op
		cur := int64(0)
		for i := 0; i < n; i++ {
			j := sort.Search(len(grid), func(j int) bool { return grid[j] > cur })
			if j == len(grid) {
				break
			}
			cur = grid[j+rng.Intn(len(grid)-j)]
			ops = append(ops, c13op{"set", cur})
		}
		j := sort.Search(len(grid), func(j int) bool { return grid[j] > cur })
		x := cur + 100
		if j < len(grid) {
			x = grid[j+rng.Intn(len(grid)-j)]
		}
		ops = append(ops, c13op{"racecancel", x})
		ops = append(ops, c13op{"set", x + 500}, c13op{"set", x + 1000})
		c13case(out, d, ops, stats)
		stats["race_cases"]++
	}
	if c13leaks > c13maxLeaks {
		// every leaked goroutine makes looking at the goroutine states slower: stop generating
		stats["stopped_after_leaking_cases"] = c13leaks
	}
}

// ---------------------------------------------------------------------------------------------
// c13e: the same definitions inside a process — start → timer intermediate catch event → end —
// run by the real engine on the mock clock. After every clock operation the harness waits until no
// goroutine of the Go process can run and records what the catch event did: became listening,
// observed a timer event, continued (a flow left it), the end event completed.

// one process per case: a cancelled instance can leave a spinning tracer behind, and the quiescence
// rule used here looks at every goroutine of the process
func init() {
	caseFamilies["c13e"] = &caseFamily{
		Count: func(tier string) int { return len(c13ejobs(tier)) },
		Run: func(out *rec.Out, idx int, rng *rec.Rng, tier string, stats map[string]int) {
			runtime.GOMAXPROCS(2)
			j := c13ejobs(tier)[idx]
			c13ecase(out, j.d, j.ops, j.hold, stats)
		},
		Shard: 1,
		Par:   12,
	}
}

// the token is held at task A in front of the catch event: clock operations before the `arrive` operation happen while
// NOBODY listens at the catch event (a firing then must stay without effect on the token that arrives later)
const c13procHoldXML = `<?xml version="1.0" encoding="UTF-8"?>
<bpmn:definitions xmlns:bpmn="http://www.omg.org/spec/BPMN/20100524/MODEL" xmlns:xsi="http://www.w3.org/2001/XMLSchema-instance" id="defs" targetNamespace="http://bpmn.io/schema/bpmn">
  <bpmn:process id="proc" isExecutable="true">
    <bpmn:startEvent id="start"><bpmn:outgoing>f0</bpmn:outgoing></bpmn:startEvent>
    <bpmn:sequenceFlow id="f0" sourceRef="start" targetRef="A" />
    <bpmn:task id="A"><bpmn:incoming>f0</bpmn:incoming><bpmn:outgoing>f1</bpmn:outgoing></bpmn:task>
    <bpmn:sequenceFlow id="f1" sourceRef="A" targetRef="ev" />
    <bpmn:intermediateCatchEvent id="ev">
      <bpmn:incoming>f1</bpmn:incoming>
      <bpmn:outgoing>f2</bpmn:outgoing>
      <bpmn:timerEventDefinition id="td"><bpmn:%s xsi:type="bpmn:tFormalExpression">%s</bpmn:%s></bpmn:timerEventDefinition>
    </bpmn:intermediateCatchEvent>
    <bpmn:endEvent id="end"><bpmn:incoming>f2</bpmn:incoming></bpmn:endEvent>
    <bpmn:sequenceFlow id="f2" sourceRef="ev" targetRef="end" />
  </bpmn:process>
</bpmn:definitions>`

// the catch event sits in a loop: start -> M -> ev -> L -> M. Whenever the token has continued past the catch event the
// harness answers L at once (`arrive`), so the SAME catch event is reached again and again while the timer goes on
const c13procLoopXML = `<?xml version="1.0" encoding="UTF-8"?>
<bpmn:definitions xmlns:bpmn="http://www.omg.org/spec/BPMN/20100524/MODEL" xmlns:xsi="http://www.w3.org/2001/XMLSchema-instance" id="defs" targetNamespace="http://bpmn.io/schema/bpmn">
  <bpmn:process id="proc" isExecutable="true">
    <bpmn:startEvent id="start"><bpmn:outgoing>f0</bpmn:outgoing></bpmn:startEvent>
    <bpmn:sequenceFlow id="f0" sourceRef="start" targetRef="M" />
    <bpmn:exclusiveGateway id="M"><bpmn:incoming>f0</bpmn:incoming><bpmn:incoming>f3</bpmn:incoming><bpmn:outgoing>f1</bpmn:outgoing></bpmn:exclusiveGateway>
    <bpmn:sequenceFlow id="f1" sourceRef="M" targetRef="ev" />
    <bpmn:intermediateCatchEvent id="ev">
      <bpmn:incoming>f1</bpmn:incoming>
      <bpmn:outgoing>f2</bpmn:outgoing>
      <bpmn:timerEventDefinition id="td"><bpmn:%s xsi:type="bpmn:tFormalExpression">%s</bpmn:%s></bpmn:timerEventDefinition>
    </bpmn:intermediateCatchEvent>
    <bpmn:sequenceFlow id="f2" sourceRef="ev" targetRef="L" />
    <bpmn:task id="L"><bpmn:incoming>f2</bpmn:incoming><bpmn:outgoing>f3</bpmn:outgoing></bpmn:task>
    <bpmn:sequenceFlow id="f3" sourceRef="L" targetRef="M" />
  </bpmn:process>
</bpmn:definitions>`

const c13procXML = `<?xml version="1.0" encoding="UTF-8"?>
<bpmn:definitions xmlns:bpmn="http://www.omg.org/spec/BPMN/20100524/MODEL" xmlns:xsi="http://www.w3.org/2001/XMLSchema-instance" id="defs" targetNamespace="http://bpmn.io/schema/bpmn">
  <bpmn:process id="proc" isExecutable="true">
    <bpmn:startEvent id="start"><bpmn:outgoing>f1</bpmn:outgoing></bpmn:startEvent>
    <bpmn:sequenceFlow id="f1" sourceRef="start" targetRef="ev" />
    <bpmn:intermediateCatchEvent id="ev">
      <bpmn:incoming>f1</bpmn:incoming>
      <bpmn:outgoing>f2</bpmn:outgoing>
      <bpmn:timerEventDefinition id="td"><bpmn:%s xsi:type="bpmn:tFormalExpression">%s</bpmn:%s></bpmn:timerEventDefinition>
    </bpmn:intermediateCatchEvent>
    <bpmn:endEvent id="end"><bpmn:incoming>f2</bpmn:incoming></bpmn:endEvent>
    <bpmn:sequenceFlow id="f2" sourceRef="ev" targetRef="end" />
  </bpmn:process>
</bpmn:definitions>`

// every goroutine but the caller is parked (cannot run until the caller acts)
func c13allParked() bool {
	k := runtime.Stack(c13stackBuf, true)
	for k == len(c13stackBuf) {
		c13stackBuf = make([]byte, 2*len(c13stackBuf))
		k = runtime.Stack(c13stackBuf, true)
	}
	for i, blk := range bytes.Split(c13stackBuf[:k], []byte("\n\n")) {
		if i == 0 {
			continue // the caller comes first
		}
		a := bytes.IndexByte(blk, '[')
		b := bytes.IndexAny(blk, ",]")
		if a < 0 || b < a {
			continue
		}
		st := string(blk[a+1 : b])
		switch {
		// "GC assist wait", "preempted", "copystack", "waiting": a goroutine the runtime holds for a moment and that
		// goes on by itself — not parked (seen in the thorough tier: a timer goroutine in a GC assist looked parked,
		// the armed list was read before it had armed)
		case st == "running", st == "runnable", st == "syscall", st == "sleep", st == "preempted", st == "copystack",
			st == "waiting", strings.HasPrefix(st, "GC ") || strings.HasPrefix(st, "wait for GC"):
			// GC workers and the like are idle ("GC worker (idle)") and never "runnable" for long
			if bytes.Contains(blk, []byte("runtime.gcBgMarkWorker")) || bytes.Contains(blk, []byte("runtime.bgsweep")) ||
				bytes.Contains(blk, []byte("runtime.bgscavenge")) || bytes.Contains(blk, []byte("runtime.runfinq")) {
				continue
			}
			return false
		}
	}
	return true
}

func c13nodeID(n any) string {
	type ider interface{ Id() (*schema.Id, bool) }
	if x, ok := n.(ider); ok {
		if id, present := x.Id(); present {
			return string(*id)
		}
	}
	return "?"
}

func c13ecase(out *rec.Out, d c13def, ops []c13op, hold int, stats map[string]int) {
	loop := hold < 0
	if loop {
		hold = 0
		out.Begin("c13e", "sync", "engineloop", d.kind, d.reps, c13opt(d.start), d.interval, c13opt(d.end), 0)
	} else {
		out.Begin("c13e", "sync", "engine", d.kind, d.reps, c13opt(d.start), d.interval, c13opt(d.end), 0)
	}
	defer out.End()
	tag := map[string]string{"date": "timeDate", "duration": "timeDuration", "cycle": "timeCycle"}[d.kind]
	var defs schema.Definitions
	src := c13procXML
	if hold > 0 {
		src = c13procHoldXML
		stats["token_held_in_front_of_the_catch_event"]++
	}
	if loop {
		src = c13procLoopXML
		stats["catch_event_in_a_loop"]++
	}
	if err := xml.Unmarshal([]byte(fmt.Sprintf(src, tag, d.iso(), tag)), &defs); err != nil {
		out.Line("error parse %s", strings.ReplaceAll(err.Error(), " ", "_"))
		return
	}
	clk := clock.NewMockAt(c13T0)
	ctx, cancel := context.WithCancel(clock.ToContext(context.Background(), clk))
	defer cancel()
	tracer := tracing.NewTracer(ctx)
	fanOut := event.NewFanOut()
	builder := event.DefinitionInstanceBuildingChain(timer.EventDefinitionInstanceBuilder(ctx, fanOut, tracer))
	traces := tracer.SubscribeChannel(make(chan tracing.ITrace, 4096))
	proc, err := bpmn.NewEngine().NewProcess(&defs, bpmn.WithTracer(tracer),
		bpmn.WithProcessEventDefinitionInstanceBuilder(builder),
		bpmn.WithEventEgress(fanOut), bpmn.WithEventIngress(fanOut))
	if err != nil {
		out.Line("error newprocess %s", strings.ReplaceAll(err.Error(), " ", "_"))
		return
	}
	if err = proc.StartAll(ctx); err != nil {
		out.Line("error start %s", strings.ReplaceAll(err.Error(), " ", "_"))
		return
	}
	conts := 0
	var held bpmn.TaskTrace
	emit := func(name string, arg int64) {
		listen, observed, cont, done, errs := 0, 0, 0, 0, 0
		deadline := time.Now().Add(5 * time.Second)
		stable := 0
		for i := 0; ; i++ {
			parked := c13allParked()
			got := false
		drain:
			for {
				select {
				case tr := <-traces:
					got = true
					switch t := tracing.Unwrap(tr).(type) {
					case bpmn.ActiveListeningTrace:
						listen++
					case bpmn.EventObservedTrace:
						observed++
					case bpmn.FlowTrace:
						if c13nodeID(t.Source) == "ev" {
							cont++
						}
					case bpmn.CompletionTrace:
						if c13nodeID(t.Node) == "end" {
							done++
						}
					case bpmn.ErrorTrace:
						errs++
					case bpmn.TaskTrace:
						held = t
					}
				default:
					break drain
				}
			}
			// two looks in a row that find everybody parked and nothing new
			if parked && !got {
				stable++
				if stable >= 2 {
					break
				}
			} else {
				stable = 0
			}
			if i > 100 && time.Now().After(deadline) {
				out.Line("stuck not-quiescent")
				break
			}
			runtime.Gosched()
		}
		conts += cont
		out.Line("e %s %d %d %d %d %d %d %s", name, arg, listen, observed, cont, done, errs, func() string {
			ts := clk.VerifArmed()
			xs := make([]int64, len(ts))
			for i, t := range ts {
				xs[i] = c13sec(t)
			}
			sort.Slice(xs, func(i, j int) bool { return xs[i] < xs[j] })
			return c13list(xs)
		}())
	}
	emit("new", 0)
	for k, o := range ops {
		if hold > 0 && k == hold {
			if held == nil {
				out.Line("error no-task-request")
				return
			}
			held.Do()
			emit("arrive", 0)
		}
		switch o.kind {
		case "set":
			clk.Set(c13tm(o.arg))
		case "add":
			clk.Add(time.Duration(o.arg) * time.Second)
		}
		emit(o.kind, o.arg)
		if loop && held != nil {
			// the token has continued and waits at L: send it round again
			h := held
			held = nil
			h.Do()
			emit("arrive", 0)
			stats["catch_event_reached_again"]++
		}
	}
	if hold > 0 && hold >= len(ops) && held != nil {
		held.Do()
		emit("arrive", 0)
	}
	stats["cases"]++
	stats["kind_"+d.kind]++
	stats[fmt.Sprintf("continued_%d", conts)]++
}

type c13ejob struct {
	d    c13def
	ops  []c13op
	hold int // > 0: the token is held in front of the catch event until this many clock operations have been performed
}

// the engine-level cases of a tier, in a fixed order (case idx depends only on the tier)
func c13ejobs(tier string) []c13ejob {
	N := c13NoTime
	// due times ahead of the clock only: a timer is created with the process, i.e. before the
	// catch event starts listening; a firing the event was not yet listening for is ignored
	defs := []c13def{
		{via: "new", kind: "date", start: 10, end: N},
		{via: "new", kind: "duration", interval: 10, start: N, end: N},
	}
	for _, reps := range []int{0, 1, 2, 3, -1} {
		defs = append(defs,
			c13def{via: "new", kind: "cycle", reps: reps, start: N, interval: 10, end: N},
			c13def{via: "new", kind: "cycle", reps: reps, start: 20, interval: 10, end: N},
			c13def{via: "new", kind: "cycle", reps: reps, start: N, interval: 10, end: 25},
			c13def{via: "new", kind: "cycle", reps: reps, start: N, interval: 10, end: c13Far})
	}
	if os.Getenv("C13E_PAST") != "" {
		// experiment (not part of the check): due time already reached when the process is created
		defs = []c13def{{via: "new", kind: "date", start: -5, end: N}, {via: "new", kind: "duration", interval: 0, start: N, end: N},
			{via: "new", kind: "cycle", reps: 2, start: -15, interval: 10, end: N}}
	}
	maxLen := 2
	if tier == "thorough" {
		maxLen = 3
	}
	var jobs []c13ejob
	for _, d := range defs {
		grid := c13grid(d)
		var seq []int64
		var recur func(from int)
		recur = func(from int) {
			ops := make([]c13op, len(seq))
			for i, x := range seq {
				ops[i] = c13op{"set", x}
			}
			jobs = append(jobs, c13ejob{d, ops, 0})
			for h := 1; h <= len(ops); h++ {
				jobs = append(jobs, c13ejob{d, ops, h})
			}
			if len(ops) >= 2 {
				jobs = append(jobs, c13ejob{d, ops, -1}) // the catch event in a loop
			}
			if len(seq) == maxLen {
				return
			}
			for i := from; i < len(grid); i++ {
				seq = append(seq, grid[i])
				recur(i + 1)
				seq = seq[:len(seq)-1]
			}
		}
		recur(0)
	}
	if tier != "thorough" {
		// quick: every third case
		var thin []c13ejob
		for i, j := range jobs {
			if i%3 == 0 {
				thin = append(thin, j)
			}
		}
		jobs = thin
	}
	return jobs
}
