package main

import (
	"fmt"

	"verifharness/internal/eng"
	"verifharness/internal/rec"
)

// Family c05err: a condition that FAILS TO EVALUATE (it yields a number, not a truth value) is listed BEFORE a condition
// that is true, at an inclusive fork (and, second half, at an exclusive gateway). The failing one counts as not true and
// is reported; the ones after it are still evaluated: the true branch gets its token (the default only if none is true).
//
//	s -> G ; G -[w + 1]-> A -> J ; G -[w == 1]-> B -> J ; G -default-> C -> J ; J -> e       (G, J inclusive | exclusive)
//
// `pos`: where the failing condition is listed (0 = first, 1 = between, 2 = last: the control); `dflt`: with a default flow.
func init() {
	caseFamilies["c05err"] = &caseFamily{
		Shard: 1, Par: 6,
		Count: func(tier string) int { return 12 + 6 },
		Run: func(out *rec.Out, idx int, rng *rec.Rng, tier string, stats map[string]int) {
			if idx >= 12 {
				// an inclusive fork with an outgoing flow that has NO condition (and is not the default) listed before /
				// between conditional ones: it is always taken, the others by their conditions
				c05errRun(out, "inclusiveGateway", 3+(idx-12)%3, idx >= 15, stats)
				return
			}
			c05errRun(out, []string{"inclusiveGateway", "exclusiveGateway"}[idx/6], idx%3, idx%6 >= 3, stats)
		},
	}
}

func c05errRun(out *rec.Out, kind string, pos int, dflt bool, stats map[string]int) {
	g := eng.NewGraph()
	st := g.Add("startEvent", "s", "")
	gw := g.Add(kind, "G", "")
	j := g.Add(kind, "J", "")
	en := g.Add("endEvent", "e", "")
	g.Connect(st, gw, nil)
	conds := []*eng.Cond{{Op: "eq", Var: "w", K: 1}, {Op: "eq", Var: "w", K: 7}}
	failing := &eng.Cond{Op: "nonbool", Var: "w", K: 1}
	list := append([]*eng.Cond{}, conds[:pos%3]...)
	switch {
	case pos == 3: // [unconditional, false, true]
		list = []*eng.Cond{nil, conds[1], conds[0]}
	case pos == 4: // [unconditional, true, false]
		list = []*eng.Cond{nil, conds[0], conds[1]}
	case pos == 5: // [false, unconditional, true]
		list = []*eng.Cond{conds[1], nil, conds[0]}
	case pos >= 2:
		list = append(append([]*eng.Cond{}, conds...), failing)
	default:
		list = append(append(list, failing), conds[pos:]...)
	}
	for i, c := range list {
		t := g.Add("task", fmt.Sprintf("T%d", i), "")
		g.Connect(gw, t, c)
		g.Connect(t, j, nil)
	}
	if dflt {
		d := g.Add("task", "D", "")
		gw.Default = g.Connect(gw, d, nil).ID
		g.Connect(d, j, nil)
	}
	g.Connect(j, en, nil)
	out.Begin("c05err", kind, pos, rec.B(dflt))
	defer out.End()
	vars := map[string]int{"w": 1}
	in, defs, err := eng.Start(g.XML(), map[string]any{"w": 1})
	if err != nil {
		out.Line("harness-error %v", err)
		return
	}
	for _, ln := range eng.ProgLines(&(*defs.Processes())[0], g.CondRPN) {
		out.Line("prog %s", ln)
	}
	out.Line("prog vars %s", fmtVars(vars))
	stats["cases"]++
	stats[fmt.Sprintf("failing_condition_at_%d_%s", pos, kind)]++
	for steps := 0; steps < 10; steps++ {
		if !in.Quiesce(4 * timeSecond) {
			in.Note("obs noquiesce")
			break
		}
		p := in.Pending()
		if len(p) == 0 {
			break
		}
		in.AnswerOK(p[0], nil)
	}
	complete := in.WaitComplete(300 * timeMillisecond)
	in.Quiesce(2 * timeSecond)
	for _, ln := range in.Lines() {
		out.Line("%s", ln)
	}
	out.Line("obs final complete=%d vars=%s", rec.B(complete), in.Vars())
	in.Stop(2 * timeSecond)
}
