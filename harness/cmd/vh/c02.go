package main

import (
	"fmt"
	"strings"
	"sync"
	"time"

	"github.com/olive-io/bpmn/schema"

	"verifharness/internal/eng"
	"verifharness/internal/rec"
	"verifharness/internal/sched"
)

// Family c02: completion reporting (process.go StartAll / StartWith / ceaseFlowMonitor / WaitUntilComplete).
//
// One case = one process instance (own child process): a process with 1..3 start events, a way of starting it
// (free, or with an enforced schedule at the process.startwith.* / process.wait.locked points), and a history of
// WaitUntilComplete calls. The recorded history is chronological: driver actions (`op …`), the instance's traces
// (`obs <trace>`), and the return of every call (`obs startall …`, `obs wait …`). Every call runs under a deadline;
// "blocked" for StartAll means: not returned although no goroutine of the whole Go process can run (quiescence), so
// it is an observation, not a guess about time.
func init() {
	caseFamilies["c02"] = &caseFamily{
		Shard: 1, Par: 12,
		Count: func(tier string) int { return len(c02cases(tier)) },
		Run: func(out *rec.Out, idx int, rng *rec.Rng, tier string, stats map[string]int) {
			c02run(out, c02cases(tier)[idx], rng, tier, stats)
		},
	}
}

// wait group of a history: k calls (sequential or concurrent) with a kind of timeout, in a phase
type c02wait struct {
	phase string // pre: while a task is pending; span: started before the answers, joined after; post: after the last answer
	conc  bool
	k     int
	tmo   string // tiny (expires at once) | long
}

type c02case struct {
	shape   string // se ste fork pjoin xmerge
	n       int    // start events
	scen    string // free missed stall2 slow2 heldwait
	hist    []c02wait
	perturb int
}

func (c c02case) histString() string {
	s := ""
	for i, w := range c.hist {
		if i > 0 {
			s += ","
		}
		m := "seq"
		if w.conc {
			m = "conc"
		}
		s += fmt.Sprintf("%s:%s:%d:%s", w.phase, m, w.k, w.tmo)
	}
	if s == "" {
		return "-"
	}
	return s
}

var c02hists = [][]c02wait{
	{{"post", false, 1, "long"}},
	{{"post", false, 3, "long"}},
	{{"post", true, 4, "long"}},
	{{"pre", false, 1, "tiny"}, {"post", false, 2, "long"}},
	{{"pre", true, 3, "tiny"}, {"post", true, 3, "long"}},
	{{"span", true, 2, "long"}, {"post", false, 1, "long"}},
	{{"pre", false, 1, "tiny"}, {"span", true, 2, "long"}, {"post", true, 2, "long"}},
	{{"post", false, 1, "tiny"}, {"post", false, 2, "long"}},
}

func c02hasTasks(shape string) bool { return shape != "se" }

func c02cases(tier string) []c02case {
	var cs []c02case
	shapes1 := []string{"se", "ste", "fork"}
	shapesN := []string{"se", "ste", "fork", "forkshort", "pjoin", "xmerge"}
	for n := 1; n <= 3; n++ {
		shapes := shapesN
		if n == 1 {
			shapes = shapes1
		}
		for _, sh := range shapes {
			for hi, h := range c02hists {
				usable := true
				for _, w := range h {
					if w.phase != "post" && !c02hasTasks(sh) {
						usable = false
					}
				}
				if !usable {
					continue
				}
				if tier != "thorough" && n == 3 && hi%2 == 1 {
					continue
				}
				cs = append(cs, c02case{shape: sh, n: n, scen: "free", hist: h})
			}
		}
	}
	// the short-branch fork again and again: whether the forked sibling counts as a token of the instance from the moment it
	// is forked is a matter of microseconds per run (the forking token runs into its end event while the sibling's
	// goroutine starts) — many runs, each a few milliseconds
	reps := 96
	if tier == "thorough" {
		reps = 600
	}
	for rep := 0; rep < reps; rep++ {
		cs = append(cs, c02case{shape: "forkshort", n: 2 + rep%2, scen: "free", hist: c02hists[[]int{0, 5, 2}[rep%3]]})
	}
	// an activity with a NON-interrupting boundary event that fires: the exception path is a token of the instance
	// like any other — completion only after it has ended too (the normal path is answered first, a wait is made while
	// the exception path's task is still pending, then that task is answered)
	for n := 1; n <= 2; n++ {
		for _, hi := range []int{0, 3, 5} {
			cs = append(cs, c02case{shape: "bnd", n: n, scen: "free", hist: c02hists[hi]})
			cs = append(cs, c02case{shape: "subfork", n: n, scen: "free", hist: c02hists[hi]})
			cs = append(cs, c02case{shape: "bndskip", n: n, scen: "free", hist: c02hists[hi]})
			cs = append(cs, c02case{shape: "subnest", n: n, scen: "free", hist: c02hists[hi]})
		}
	}
	// enforced schedules
	for _, sh := range []string{"ste", "fork"} {
		for n := 1; n <= 2; n++ {
			cs = append(cs, c02case{shape: sh, n: n, scen: "prewait", hist: c02hists[1]})
			cs = append(cs, c02case{shape: sh, n: n, scen: "prewait", hist: c02hists[2]})
		}
	}
	for _, sh := range []string{"ste", "fork"} {
		for n := 1; n <= 2; n++ {
			cs = append(cs, c02case{shape: sh, n: n, scen: "twice", hist: c02hists[0]})
			cs = append(cs, c02case{shape: sh, n: n, scen: "twice", hist: c02hists[2]})
		}
	}
	// only SOME of the start events are fired (StartWith for all but the last one): whatever the tokens of those do,
	// completion must not be reported before the last start event has fired too
	for _, sh := range []string{"ste", "subfirst", "se"} {
		for n := 2; n <= 3; n++ {
			cs = append(cs, c02case{shape: sh, n: n, scen: "partial", hist: c02hists[0]})
			cs = append(cs, c02case{shape: sh, n: n, scen: "partial", hist: c02hists[2]})
		}
	}
	for _, sh := range shapes1 {
		cs = append(cs, c02case{shape: sh, n: 1, scen: "missed", hist: c02hists[0]})
		cs = append(cs, c02case{shape: sh, n: 1, scen: "missed", hist: c02hists[2]})
		cs = append(cs, c02case{shape: sh, n: 1, scen: "heldwait", hist: c02hists[1]})
		cs = append(cs, c02case{shape: sh, n: 1, scen: "heldwait", hist: c02hists[2]})
	}
	for _, sh := range []string{"ste", "fork", "se", "pjoin", "xmerge"} {
		for n := 2; n <= 3; n++ {
			cs = append(cs, c02case{shape: sh, n: n, scen: "stall2", hist: c02hists[0]})
			cs = append(cs, c02case{shape: sh, n: n, scen: "slow2", hist: c02hists[0]})
		}
	}
	if tier == "thorough" {
		base := append([]c02case(nil), cs...)
		for p := 1; p <= 3; p++ {
			for _, c := range base {
				if c.scen != "free" {
					continue
				}
				c.perturb = p
				cs = append(cs, c)
			}
		}
	}
	return cs
}

// c02graph: start events s0..s(n-1); returns the graph.
//
//	se     s_i → e_i
//	ste    s_i → T_i → e_i
//	fork   s_i → F_i(parallel) → A_i, B_i → J_i(parallel) → e_i
//	pjoin  s_0..s_(n-1) → J(parallel join) → T → e
//	xmerge s_0..s_(n-1) → X(exclusive merge) → T → e
func c02graph(shape string, n int) *eng.Graph {
	g := eng.NewGraph()
	starts := make([]*eng.Node, n)
	for i := 0; i < n; i++ {
		starts[i] = g.Add("startEvent", fmt.Sprintf("s%d", i), "")
	}
	switch shape {
	case "se":
		for i := 0; i < n; i++ {
			e := g.Add("endEvent", fmt.Sprintf("e%d", i), "")
			g.Connect(starts[i], e, nil)
		}
	case "ste":
		for i := 0; i < n; i++ {
			t := g.Add("task", fmt.Sprintf("T%d", i), "")
			e := g.Add("endEvent", fmt.Sprintf("e%d", i), "")
			g.Connect(starts[i], t, nil)
			g.Connect(t, e, nil)
		}
	case "fork":
		for i := 0; i < n; i++ {
			f := g.Add("parallelGateway", fmt.Sprintf("F%d", i), "")
			j := g.Add("parallelGateway", fmt.Sprintf("J%d", i), "")
			a := g.Add("task", fmt.Sprintf("A%d", i), "")
			b := g.Add("task", fmt.Sprintf("B%d", i), "")
			e := g.Add("endEvent", fmt.Sprintf("e%d", i), "")
			g.Connect(starts[i], f, nil)
			g.Connect(f, a, nil)
			g.Connect(f, b, nil)
			g.Connect(a, j, nil)
			g.Connect(b, j, nil)
			g.Connect(j, e, nil)
		}
	case "bnd":
		for i := 0; i < n; i++ {
			t := g.Add("task", fmt.Sprintf("T%d", i), "")
			e := g.Add("endEvent", fmt.Sprintf("e%d", i), "")
			g.Connect(starts[i], t, nil)
			g.Connect(t, e, nil)
			b := g.Add("boundaryEvent", fmt.Sprintf("B%d", i), "")
			b.Attached = t.ID
			b.Interrupting = false
			b.Defs = []eng.EventDef{{Kind: "signal", Name: fmt.Sprintf("sg%d", i)}}
			x := g.Add("task", fmt.Sprintf("X%d", i), "")
			ex := g.Add("endEvent", fmt.Sprintf("ex%d", i), "")
			g.Connect(b, x, nil)
			g.Connect(x, ex, nil)
		}
	case "bndskip":
		// an activity with a boundary event on a branch that is NEVER TAKEN: s_i -> X_i ; X_i -default-> T_i -> e_i ;
		// X_i -[never == 1]-> G_i (boundary event B_i -> bx_i) -> eg_i. Nothing ever reaches G_i; what was prepared for
		// it (its boundary listeners) is no token of the instance
		for i := 0; i < n; i++ {
			x := g.Add("exclusiveGateway", fmt.Sprintf("X%d", i), "")
			t := g.Add("task", fmt.Sprintf("T%d", i), "")
			e := g.Add("endEvent", fmt.Sprintf("e%d", i), "")
			gd := g.Add("task", fmt.Sprintf("G%d", i), "")
			eg := g.Add("endEvent", fmt.Sprintf("eg%d", i), "")
			g.Connect(starts[i], x, nil)
			g.Connect(x, gd, &eng.Cond{Op: "eq", Var: "never", K: 1})
			x.Default = g.Connect(x, t, nil).ID
			g.Connect(t, e, nil)
			g.Connect(gd, eg, nil)
			b := g.Add("boundaryEvent", fmt.Sprintf("B%d", i), "")
			b.Attached = gd.ID
			b.Interrupting = i%2 == 0
			b.Defs = []eng.EventDef{{Kind: "signal", Name: fmt.Sprintf("sg%d", i)}}
			bx := g.Add("endEvent", fmt.Sprintf("bx%d", i), "")
			g.Connect(b, bx, nil)
		}
	case "subfork":
		// an embedded sub-process whose content forks WITHOUT joining: both inner branches run into the ONE inner end
		// event; the sub-process — and with it the instance — is over only when every inner token has been consumed
		for i := 0; i < n; i++ {
			u := g.SubBegin("")
			us := g.Add("startEvent", fmt.Sprintf("us%d", i), u.ID)
			f := g.Add("parallelGateway", fmt.Sprintf("F%d", i), u.ID)
			a := g.Add("task", fmt.Sprintf("A%d", i), u.ID)
			b := g.Add("task", fmt.Sprintf("B%d", i), u.ID)
			ue := g.Add("endEvent", fmt.Sprintf("ue%d", i), u.ID)
			g.Connect(us, f, nil)
			g.Connect(f, a, nil)
			g.Connect(f, b, nil)
			g.Connect(a, ue, nil)
			g.Connect(b, ue, nil)
			e := g.Add("endEvent", fmt.Sprintf("e%d", i), "")
			g.Connect(starts[i], u, nil)
			g.Connect(u, e, nil)
		}
	case "subnest":
		// sub-processes nested TWO levels, the outer one holding another live token when the inner one completes:
		// s_i -> O_i[ os -> fork -> { A_i (task) | I_i[ is -> B_i (task) -> ie ] } -> oe ] -> e_i. The completion of the inner
		// sub-process is the inner one's, not the outer one's: the outer one — and the instance — is over only when A_i has
		// been answered too
		for i := 0; i < n; i++ {
			o := g.Add("subProcess", fmt.Sprintf("O%d", i), "")
			os := g.Add("startEvent", fmt.Sprintf("os%d", i), o.ID)
			f := g.Add("parallelGateway", fmt.Sprintf("F%d", i), o.ID)
			a := g.Add("task", fmt.Sprintf("A%d", i), o.ID)
			in := g.Add("subProcess", fmt.Sprintf("I%d", i), o.ID)
			is := g.Add("startEvent", fmt.Sprintf("is%d", i), in.ID)
			b := g.Add("task", fmt.Sprintf("B%d", i), in.ID)
			ie := g.Add("endEvent", fmt.Sprintf("ie%d", i), in.ID)
			oe := g.Add("endEvent", fmt.Sprintf("oe%d", i), o.ID)
			g.Connect(os, f, nil)
			g.Connect(f, a, nil)
			g.Connect(f, in, nil)
			g.Connect(is, b, nil)
			g.Connect(b, ie, nil)
			g.Connect(a, oe, nil)
			g.Connect(in, oe, nil)
			e := g.Add("endEvent", fmt.Sprintf("e%d", i), "")
			g.Connect(starts[i], o, nil)
			g.Connect(o, e, nil)
		}
	case "forkshort":
		// a fork whose FIRST branch ends at once (straight to an end event) while the second waits at a task: the token
		// that reached the fork is consumed before the forked sibling has done anything — the sibling is a token of the
		// instance from the moment it is forked
		for i := 0; i < n; i++ {
			f := g.Add("parallelGateway", fmt.Sprintf("F%d", i), "")
			es := g.Add("endEvent", fmt.Sprintf("es%d", i), "")
			a := g.Add("task", fmt.Sprintf("A%d", i), "")
			e := g.Add("endEvent", fmt.Sprintf("e%d", i), "")
			g.Connect(starts[i], f, nil)
			g.Connect(f, es, nil)
			g.Connect(f, a, nil)
			g.Connect(a, e, nil)
		}
	case "subfirst":
		// the first start event leads into an embedded sub-process (whose content has a start event of its own), the
		// others to a task each: s0 -> sub( us -> ue ) -> e0 ; s_i -> T_i -> e_i
		u := g.SubBegin("")
		us := g.Add("startEvent", "us", u.ID)
		ue := g.Add("endEvent", "ue", u.ID)
		g.Connect(us, ue, nil)
		e0 := g.Add("endEvent", "e0", "")
		g.Connect(starts[0], u, nil)
		g.Connect(u, e0, nil)
		for i := 1; i < n; i++ {
			t := g.Add("task", fmt.Sprintf("T%d", i), "")
			e := g.Add("endEvent", fmt.Sprintf("e%d", i), "")
			g.Connect(starts[i], t, nil)
			g.Connect(t, e, nil)
		}
	case "pjoin", "xmerge":
		kind := "parallelGateway"
		if shape == "xmerge" {
			kind = "exclusiveGateway"
		}
		m := g.Add(kind, "M", "")
		t := g.Add("task", "T", "")
		e := g.Add("endEvent", "e", "")
		for i := 0; i < n; i++ {
			g.Connect(starts[i], m, nil)
		}
		g.Connect(m, t, nil)
		g.Connect(t, e, nil)
	}
	return g
}

const (
	c02tiny = 3 * time.Millisecond
	c02long = 3 * time.Second // only ever waited out by a run that fails
	c02span = 8 * time.Second
)

type c02runner struct {
	in     *eng.Inst
	mu     sync.Mutex
	nextID int
}

func (r *c02runner) id() int { r.mu.Lock(); defer r.mu.Unlock(); r.nextID++; return r.nextID }

// one WaitUntilComplete call under its deadline; `pending` = task requests seen and not yet answered by the
// harness at the moment the call returned (the harness's own bookkeeping, independent of trace delivery)
func (r *c02runner) wait(id int, d time.Duration, phase, tmo string) bool {
	r.in.Op("wait %d %s %s", id, phase, tmo)
	ok := r.in.WaitComplete(d)
	r.in.Note("obs wait %d ret=%d pending=%d", id, rec.B(ok), len(r.in.Pending()))
	return ok
}

func (r *c02runner) group(w c02wait, d time.Duration) *sync.WaitGroup {
	var wg sync.WaitGroup
	if w.conc {
		for i := 0; i < w.k; i++ {
			id := r.id()
			wg.Add(1)
			go func() { defer wg.Done(); r.wait(id, d, w.phase, w.tmo) }()
		}
		return &wg
	}
	wg.Add(1)
	ids := make([]int, w.k)
	for i := range ids {
		ids[i] = r.id()
	}
	go func() {
		defer wg.Done()
		for _, id := range ids {
			r.wait(id, d, w.phase, w.tmo)
		}
	}()
	return &wg
}

func c02dur(w c02wait) time.Duration {
	switch {
	case w.tmo == "tiny":
		return c02tiny
	case w.phase == "span":
		return c02span
	}
	return c02long
}

// c02answerAll answers every pending task request, one at a time at quiescence.
func c02answerAll(in *eng.Inst, rng *rec.Rng, q time.Duration) {
	for steps := 0; steps < 40; steps++ {
		if !in.Quiesce(q) {
			in.Note("obs noquiesce")
			return
		}
		p := in.Pending()
		if len(p) == 0 {
			return
		}
		if !in.AnswerOK(p[rng.Intn(len(p))], nil) {
			return
		}
	}
}

func c02run(out *rec.Out, c c02case, rng *rec.Rng, tier string, stats map[string]int) {
	g := c02graph(c.shape, c.n)
	out.Begin("c02", c.shape, c.n, c.scen, c.histString(), c.perturb)
	defer out.End()
	defs, err := schema.Parse([]byte(g.XML()))
	if err != nil {
		out.Line("harness-error %v", err)
		return
	}
	in, err := eng.NewInst(defs, nil)
	if err != nil {
		out.Line("harness-error %v", err)
		return
	}
	stats["cases"]++
	stats["scen_"+c.scen]++
	stats[fmt.Sprintf("shape_%s_n%d", c.shape, c.n)]++
	stats["hist_"+c.histString()]++
	r := &c02runner{in: in}
	ctl := sched.Install()
	defer ctl.Remove()
	if c.perturb > 0 {
		ctl.Perturb(rng.U64(), 1+c.perturb%2)
		stats["perturbed"]++
	}
	out.Line("prog starts %d shape %s", c.n, c.shape)

	// ---- start-up
	startDone := make(chan string, 1)
	startAll := func() {
		go func() {
			defer func() {
				if p := recover(); p != nil {
					startDone <- fmt.Sprintf("panic %v", p)
				}
			}()
			if err := in.Proc.StartAll(in.Ctx); err != nil {
				startDone <- "error"
				return
			}
			startDone <- "returned"
		}()
	}
	startRes := ""
	pollStart := func() {
		if startRes == "" {
			select {
			case s := <-startDone:
				startRes = s
				in.Note("obs startall %s", s)
			default:
			}
		}
	}
	const q = 4 * time.Second
	// Enforced schedules are recorded as `op hold <point>` / `op release <point>` around `op startall`: a goroutine that
	// reaches a held point parks there until the release (internal/verifhook + harness/internal/sched).
	hold := func(pt string) <-chan struct{} {
		in.Op("hold %s", pt)
		return ctl.Hold("process.startwith." + pt)
	}
	release := func(pt string) {
		in.Op("release %s traces=%d", pt, in.NTraces())
		ctl.Release("process.startwith." + pt)
	}
	switch c.scen {
	case "prewait":
		// a waiter that is there before the instance is started (a watcher goroutine launched right after NewProcess):
		// no start event has fired, so its wait must not report completion; the instance is then started as usual
		r.group(c02wait{"pre", false, 1, "tiny"}, c02tiny).Wait()
		in.Quiesce(q)
		in.Op("startall")
		startAll()
	case "partial":
		startWith := func(i int) {
			id := fmt.Sprintf("s%d", i)
			in.Op("startwith %s", id)
			for k := range *in.Proc.Element().StartEvents() {
				se := &(*in.Proc.Element().StartEvents())[k]
				if sid, ok := se.Id(); ok && *sid == id {
					if err := in.Proc.StartWith(in.Ctx, se); err != nil {
						in.Note("obs startwith %s error", id)
					}
				}
			}
		}
		for i := 0; i+1 < c.n; i++ {
			startWith(i)
			in.Quiesce(q)
			if i == 0 && (c.shape == "ste" || c.shape == "pjoin" || c.shape == "se") {
				// the caller REPEATS the call for the same start event (it has fired: nothing new starts, and it does not
				// count as another start event having fired)
				startWith(0)
				in.Quiesce(q)
				stats["startwith_repeated_for_the_same_start_event"]++
			}
		}
		// the tokens of the fired start events run to their ends
		c02answerAll(in, rng, q)
		in.Quiesce(q)
		r.group(c02wait{"pre", false, 1, "tiny"}, c02tiny).Wait()
		in.Quiesce(q)
		startWith(c.n - 1)
		startRes = "returned"
		in.Note("obs startall returned")
	case "twice":
		// StartAll is called a SECOND time while the tokens of the first call are waiting at their tasks: the start events
		// have fired already — nothing new may start, completion is reported once, when the tokens of the first call end
		in.Op("startall")
		startAll()
		in.Quiesce(q)
		pollStart()
		in.Op("startagain")
		if err := in.Proc.StartAll(in.Ctx); err != nil {
			in.Note("obs startagain error")
		}
		in.Quiesce(q)
	case "missed":
		// hold StartWith right after Trigger until the start event's traces have been broadcast (quiescence)
		arr := hold("after_trigger")
		in.Op("startall")
		startAll()
		if !sched.WaitArrived(arr, q) {
			in.Note("obs hold after_trigger notreached")
		}
		in.Quiesce(q)
		release("after_trigger")
	case "stall2", "slow2":
		// Aim: the SECOND StartWith is parked before (slow2) / right after (stall2) its Trigger until the instance is
		// quiescent, while the first StartWith has run to its end without being delayed between its Trigger and its
		// monitor. Which points the first StartWith passes first depends on the layout of StartWith (monitor created
		// after or before Trigger), so the layout is probed: both after_monitor and before_trigger are held and the
		// point reached first tells it. Every release happens at quiescence, so the recorded order of traces and
		// driver actions is the real one.
		arrived := func(a <-chan struct{}, what string) bool {
			ok := sched.WaitArrived(a, q)
			if !ok {
				in.Note("obs hold %s notreached", what)
			}
			in.Quiesce(q)
			return ok
		}
		aM := hold("after_monitor")
		aB := hold("before_trigger")
		in.Op("startall")
		startAll()
		monitorFirst := false
		select {
		case <-aM:
			monitorFirst = true
		case <-aB:
		case <-time.After(q):
			in.Note("obs hold first notreached")
		}
		in.Quiesce(q)
		reached := true
		if !monitorFirst {
			// Trigger first: let the first StartWith run to after_monitor (its last point)
			release("before_trigger")
			reached = arrived(aM, "after_monitor")
			pt := "after_trigger"
			if c.scen == "slow2" {
				pt = "before_trigger"
			}
			a2 := hold(pt)
			release("after_monitor")
			reached = arrived(a2, pt) && reached
			if c.scen == "slow2" && reached {
				c02answerAll(in, rng, q)
			}
			release(pt)
		} else {
			// monitor first: the first StartWith goes on to before_trigger, Trigger, after_trigger
			release("after_monitor")
			reached = arrived(aB, "before_trigger")
			aT := hold("after_trigger")
			release("before_trigger")
			reached = arrived(aT, "after_trigger") && reached
			aB2 := hold("before_trigger")
			release("after_trigger")
			reached = arrived(aB2, "before_trigger (second StartWith)") && reached
			if c.scen == "slow2" {
				if reached {
					c02answerAll(in, rng, q)
				}
				release("before_trigger")
			} else {
				aT2 := hold("after_trigger")
				release("before_trigger")
				arrived(aT2, "after_trigger (second StartWith)")
				release("after_trigger")
			}
		}
	default:
		in.Op("startall")
		startAll()
	}
	in.Quiesce(q)
	pollStart()
	if startRes == "" {
		in.Note("obs startall blocked")
	}

	// ---- waits before / across the answers
	var spans []*sync.WaitGroup
	for _, w := range c.hist {
		switch w.phase {
		case "pre":
			r.group(w, c02dur(w)).Wait()
			in.Quiesce(q)
		case "span":
			spans = append(spans, r.group(w, c02dur(w)))
			in.Quiesce(q)
		}
	}
	if c.shape == "bnd" {
		// every boundary event fires once while its activity waits for its answer
		for i := 0; i < c.n; i++ {
			in.Quiesce(q)
			in.Deliver("signal", fmt.Sprintf("sg%d", i), 700*time.Millisecond)
		}
	}
	// ---- answer every task request, one at a time at quiescence
	bndWaited := false
	for steps := 0; steps < 40; steps++ {
		if !in.Quiesce(q) {
			in.Note("obs noquiesce")
			break
		}
		pollStart()
		p := in.Pending()
		if len(p) == 0 {
			break
		}
		pick := p[rng.Intn(len(p))]
		if c.shape == "bnd" {
			// the normal paths first; once only exception-path tasks are pending, one wait that must not succeed
			var normal []*eng.Req
			for _, x := range p {
				if strings.HasPrefix(x.Node, "T") {
					normal = append(normal, x)
				}
			}
			if len(normal) > 0 {
				pick = normal[rng.Intn(len(normal))]
			} else if !bndWaited {
				bndWaited = true
				r.group(c02wait{"pre", false, 1, "tiny"}, c02tiny).Wait()
				in.Quiesce(q)
			}
		}
		if c.shape == "subnest" {
			// the tasks inside the INNER sub-processes first; once only the outer ones' own tasks are pending, one wait that
			// must not succeed
			var inner []*eng.Req
			for _, x := range p {
				if strings.HasPrefix(x.Node, "B") {
					inner = append(inner, x)
				}
			}
			if len(inner) > 0 {
				pick = inner[rng.Intn(len(inner))]
			} else if !bndWaited {
				bndWaited = true
				r.group(c02wait{"pre", false, 1, "tiny"}, c02tiny).Wait()
				in.Quiesce(q)
			}
		}
		if c.shape == "subfork" && len(p) == 1 && !bndWaited {
			// one inner branch has reached the inner end event, the other still waits for its answer: a wait that must not succeed
			bndWaited = true
			r.group(c02wait{"pre", false, 1, "tiny"}, c02tiny).Wait()
			in.Quiesce(q)
		}
		if !in.AnswerOK(pick, nil) {
			break
		}
	}
	in.Quiesce(q)
	pollStart()
	for _, s := range spans {
		s.Wait()
	}
	in.Quiesce(q)
	in.Op("answered")
	// ---- waits after the last answer
	if c.scen == "heldwait" {
		// a wait whose helper is parked right after taking the completion lock until the caller has given up
		arr := ctl.Hold("process.wait.locked")
		id := r.id()
		in.Op("wait %d held tiny", id)
		ok := in.WaitComplete(30 * time.Millisecond)
		reached := sched.WaitArrived(arr, 10*time.Millisecond)
		in.Note("obs wait %d ret=%d pending=%d helperlocked=%d", id, rec.B(ok), len(in.Pending()), rec.B(reached))
		ctl.Release("process.wait.locked")
		in.Quiesce(q)
	}
	for _, w := range c.hist {
		if w.phase == "post" {
			r.group(w, c02dur(w)).Wait()
			in.Quiesce(q)
		}
	}
	pollStart()
	for _, l := range in.Lines() {
		out.Line("%s", l)
	}
	out.Line("obs final traces=%d startall=%s lockedhits=%d", in.NTraces(), map[bool]string{true: startRes, false: "blocked"}[startRes != ""],
		ctl.Hits("process.wait.locked"))
	in.Stop(500 * time.Millisecond)
}
