package main

// C07 — cancelling the context at any point stops the instance and leaks nothing.
//
// Cancellation-point sweep: a corpus of programs covering all node kinds; for each program EVERY
// cancellation point i = 0..pts: run the real engine until exactly i traces have been broadcast
// (tasks answered / events delivered / the mock clock advanced by a fixed policy as they come up),
// cancel the context from the subscriber that counted the i-th trace, then observe within a
// deadline: tracer Done, subscriber channels closed, WaitUntilComplete returning, a goroutine
// census of what the instance left behind (function the goroutine runs @ engine function it is
// parked in), CPU consumed while idle (spinning), task requests after the cancel.
// One OS process per case (Shard: 1): a leaked spinning tracer must not disturb the next case and
// the census / CPU measurement are process-wide.

import (
	"bytes"
	"context"
	"encoding/json"
	"fmt"
	"os"
	"os/exec"
	"runtime"
	"sort"
	"strings"
	"sync"
	"sync/atomic"
	"syscall"
	"time"

	"github.com/olive-io/bpmn/schema"
	bpmn "github.com/olive-io/bpmn/v2"
	"github.com/olive-io/bpmn/v2/pkg/clock"
	"github.com/olive-io/bpmn/v2/pkg/event"
	"github.com/olive-io/bpmn/v2/pkg/timer"
	"github.com/olive-io/bpmn/v2/pkg/tracing"

	"verifharness/internal/eng"
	"verifharness/internal/rec"
	"verifharness/internal/sched"
)

func init() {
	caseFamilies["c07"] = &caseFamily{
		Shard: 1, Par: 16,
		Count: func(tier string) int { return len(c07cases(tier)) },
		Run: func(out *rec.Out, idx int, rng *rec.Rng, tier string, stats map[string]int) {
			if os.Getenv("C07_INNER") == "" {
				c07guard(out, c07cases(tier)[idx], stats)
				return
			}
			c07run(out, c07cases(tier)[idx], rng, stats)
		},
	}
}

type c07prog struct {
	name     string
	pts      int // cancellation points 0..pts (pts ≥ number of traces of the uncancelled run)
	build    func(g *eng.Graph)
	vars     map[string]any
	signals  []string // delivered in this order, one whenever the run is quiescent with nothing to answer
	timer    bool     // runs on the mock clock; the policy advances it when nothing else can happen
	host     bool     // with timer: the timers run on the HOST clock (the engine's default), far deadlines, never advanced
	results  map[string]map[string]int
	thorough bool // only in the thorough tier
	// errPending: the first request of this node is answered with an error and a handler channel on which
	// the driver never sends anything: the token waits for the decision (flow.go, `<-res.handler`)
	errPending string
	// holdPoint: the goroutine that reaches this schedule point while a signal is being delivered is kept there, the
	// context is cancelled, everybody else gets 30 ms to leave, then the goroutine is released (the cancellation lands
	// INSIDE a hand-over between two goroutines); the cancellation point index is not used
	holdPoint string
}

type c07case struct {
	prog    c07prog
	i       int
	rep     int
	perturb int
	// hold: cancel while a goroutine stands at this schedule point (armed after the first driver action: the first
	// goroutine to reach the point is kept there, the context is cancelled, everybody else gets 30 ms, it is released)
	hold  string
	armAt int // the driver step before which the hold is armed
}

// the schedule points of the engine at which a cancellation is placed by the hold sweep
var c07holdPoints = []string{"flow.await", "flow.action", "harness.before_next_action", "catch.process_event",
	"ebg.transformer.enter", "ebg.transformer.won", "ebg.transformer.before_notify", "inclusive.activity", "tracker.before_unlock",
	"process.monitor.before_cease", "subprocess.monitor.before_subscribe", "subprocess.run.before_subscribe",
	"tasktrace.process.forwarding", "tracer.broadcast"}

func c07programs() []c07prog {
	sig := func(name string) []eng.EventDef { return []eng.EventDef{{Kind: "signal", Name: name}} }
	return []c07prog{
		{name: "seq2", pts: 22, build: func(g *eng.Graph) {
			g.Wrap(g.Seq(g.Task("task", "A", ""), g.Task("serviceTask", "B", "")))
		}},
		{name: "par", pts: 52, build: func(g *eng.Graph) {
			sp := g.Split("parallelGateway", "parallelGateway", "", []eng.Frag{g.Task("task", "A", ""), g.Task("userTask", "B", "")}, nil, -1)
			g.Wrap(g.Seq(sp, g.Task("task", "C", "")))
		}},
		{name: "xor", pts: 28, vars: map[string]any{"v0": 0}, results: map[string]map[string]int{"A": {"v0": 1}},
			build: func(g *eng.Graph) {
				a := g.Task("task", "A", "", "v0")
				sp := g.Split("exclusiveGateway", "exclusiveGateway", "", []eng.Frag{g.Task("task", "B", ""), g.Task("task", "C", "")},
					[]*eng.Cond{{Op: "eq", Var: "v0", K: 1}, nil}, 1)
				g.Wrap(g.Seq(a, sp))
			}},
		{name: "incl", pts: 38, vars: map[string]any{"v0": 1}, build: func(g *eng.Graph) {
			sp := g.Split("inclusiveGateway", "inclusiveGateway", "", []eng.Frag{g.Task("task", "A", ""), g.Task("task", "B", "")},
				[]*eng.Cond{{Op: "eq", Var: "v0", K: 1}, {Op: "lt", Var: "v0", K: 5}}, -1)
			g.Wrap(g.Seq(g.Task("task", "P", ""), sp))
		}},
		{name: "catch", pts: 27, signals: []string{"s1"}, build: func(g *eng.Graph) {
			c := g.Add("intermediateCatchEvent", "C1", "")
			c.Defs = sig("s1")
			g.Wrap(g.Seq(g.Task("task", "A", ""), eng.Frag{Entry: c, Exit: c}, g.Task("task", "B", "")))
		}},
		{name: "timer", pts: 21, timer: true, build: func(g *eng.Graph) {
			c := g.Add("intermediateCatchEvent", "T1", "")
			c.Defs = []eng.EventDef{{Kind: "timer", Sub: "duration", Name: "PT5S"}}
			g.Wrap(g.Seq(eng.Frag{Entry: c, Exit: c}, g.Task("task", "A", "")))
		}},
		// timers on the host clock whose deadline is hours away at every cancellation point: whatever a pending
		// timer owns (goroutines of pkg/timer AND of pkg/clock's host implementation) must go with the cancel
		{name: "hosttimer", pts: 16, timer: true, host: true, build: func(g *eng.Graph) {
			c := g.Add("intermediateCatchEvent", "T1", "")
			c.Defs = []eng.EventDef{{Kind: "timer", Sub: "duration", Name: "PT2H"}}
			g.Wrap(g.Seq(g.Task("task", "A", ""), eng.Frag{Entry: c, Exit: c}, g.Task("task", "B", "")))
		}},
		{name: "hostcycle", pts: 10, timer: true, host: true, build: func(g *eng.Graph) {
			c := g.Add("intermediateCatchEvent", "T1", "")
			c.Defs = []eng.EventDef{{Kind: "timer", Sub: "cycle", Name: "R3/PT3H"}}
			g.Wrap(g.Seq(eng.Frag{Entry: c, Exit: c}, g.Task("task", "A", "")))
		}},
		// a cycle with an EXPLICIT START that is not reached at any cancellation point (the timer waits for its start
		// first, then for its repetitions): on the host clock and on the mock clock
		{name: "hostcyclestart", pts: 10, timer: true, host: true, build: func(g *eng.Graph) {
			c := g.Add("intermediateCatchEvent", "T1", "")
			c.Defs = []eng.EventDef{{Kind: "timer", Sub: "cycle", Name: "R3/2099-01-01T00:00:00Z/PT3H"}}
			g.Wrap(g.Seq(eng.Frag{Entry: c, Exit: c}, g.Task("task", "A", "")))
		}},
		{name: "cyclestart", pts: 21, timer: true, build: func(g *eng.Graph) {
			c := g.Add("intermediateCatchEvent", "T1", "")
			c.Defs = []eng.EventDef{{Kind: "timer", Sub: "cycle", Name: "R2/2099-01-01T00:00:00Z/PT5S"}}
			g.Wrap(g.Seq(g.Task("task", "A", ""), eng.Frag{Entry: c, Exit: c}, g.Task("task", "B", "")))
		}},
		{name: "hostbndtimer", pts: 14, timer: true, host: true, build: func(g *eng.Graph) {
			a := g.Task("task", "A", "")
			g.Wrap(a)
			b := g.Add("boundaryEvent", "BE", "")
			b.Attached, b.Interrupting = "A", false
			b.Defs = []eng.EventDef{{Kind: "timer", Sub: "date", Name: "2099-01-01T00:00:00Z"}}
			x := g.Add("task", "X", "")
			e2 := g.Add("endEvent", "end2", "")
			g.Connect(b, x, nil)
			g.Connect(x, e2, nil)
		}},
		{name: "sub", pts: 33, build: func(g *eng.Graph) {
			sub := g.SubBegin("")
			fr := g.SubEnd(sub, g.Task("task", "A", sub.ID))
			g.Wrap(g.Seq(fr, g.Task("task", "B", "")))
		}},
		{name: "subthree", pts: 40, build: func(g *eng.Graph) {
			// THREE tokens at one embedded sub-process node (a parallel fork straight into it): one is inside, two wait for
			// their turn when the cancel comes (D44)
			st := g.Add("startEvent", "start", "")
			f := g.Add("parallelGateway", "F", "")
			u := g.Add("subProcess", "U", "")
			us := g.Add("startEvent", "us", u.ID)
			a := g.Add("task", "A", u.ID)
			ue := g.Add("endEvent", "ue", u.ID)
			b := g.Add("task", "B", "")
			en := g.Add("endEvent", "end", "")
			g.Connect(st, f, nil)
			for i := 0; i < 3; i++ {
				g.Connect(f, u, nil)
			}
			g.Connect(us, a, nil)
			g.Connect(a, ue, nil)
			g.Connect(u, b, nil)
			g.Connect(b, en, nil)
		}},
		{name: "boundary", pts: 18, build: func(g *eng.Graph) {
			a := g.Task("task", "A", "")
			g.Wrap(a)
			b := g.Add("boundaryEvent", "BE", "")
			b.Attached, b.Interrupting, b.Defs = "A", false, sig("b1")
			x := g.Add("task", "X", "")
			e2 := g.Add("endEvent", "end2", "")
			g.Connect(b, x, nil)
			g.Connect(x, e2, nil)
		}},
		{name: "boundaryfire", pts: 31, signals: []string{"b1"}, build: func(g *eng.Graph) {
			// the signal is delivered while A is pending (A is answered only after the policy has nothing else)
			a := g.Task("task", "A", "")
			g.Wrap(a)
			b := g.Add("boundaryEvent", "BE", "")
			b.Attached, b.Interrupting, b.Defs = "A", false, sig("b1")
			x := g.Add("task", "X", "")
			e2 := g.Add("endEvent", "end2", "")
			g.Connect(b, x, nil)
			g.Connect(x, e2, nil)
		}},
		{name: "ebg", pts: 30, signals: []string{"s1"}, build: func(g *eng.Graph) {
			st := g.Add("startEvent", "start", "")
			gw := g.Add("eventBasedGateway", "G", "")
			g.Connect(st, gw, nil)
			for k, s := range []string{"s1", "s2"} {
				c := g.Add("intermediateCatchEvent", fmt.Sprintf("C%d", k+1), "")
				c.Defs = sig(s)
				t := g.Add("task", fmt.Sprintf("T%d", k+1), "")
				e := g.Add("endEvent", fmt.Sprintf("end%d", k+1), "")
				g.Connect(gw, c, nil)
				g.Connect(c, t, nil)
				g.Connect(t, e, nil)
			}
		}},
		{name: "ebghold", pts: 0, signals: []string{"s1"}, holdPoint: "ebg.transformer.before_notify", build: func(g *eng.Graph) {
			st := g.Add("startEvent", "start", "")
			gw := g.Add("eventBasedGateway", "G", "")
			g.Connect(st, gw, nil)
			for k, s := range []string{"s1", "s2", "s3"} {
				c := g.Add("intermediateCatchEvent", fmt.Sprintf("C%d", k+1), "")
				c.Defs = sig(s)
				t := g.Add("task", fmt.Sprintf("T%d", k+1), "")
				e := g.Add("endEvent", fmt.Sprintf("end%d", k+1), "")
				g.Connect(gw, c, nil)
				g.Connect(c, t, nil)
				g.Connect(t, e, nil)
			}
		}},
		{name: "ebgwon", pts: 0, signals: []string{"s2"}, holdPoint: "ebg.transformer.won", build: func(g *eng.Graph) {
			st := g.Add("startEvent", "start", "")
			gw := g.Add("eventBasedGateway", "G", "")
			g.Connect(st, gw, nil)
			for k, s := range []string{"s1", "s2"} {
				c := g.Add("intermediateCatchEvent", fmt.Sprintf("C%d", k+1), "")
				c.Defs = sig(s)
				t := g.Add("task", fmt.Sprintf("T%d", k+1), "")
				e := g.Add("endEvent", fmt.Sprintf("end%d", k+1), "")
				g.Connect(gw, c, nil)
				g.Connect(c, t, nil)
				g.Connect(t, e, nil)
			}
		}},
		{name: "loop", pts: 37, vars: map[string]any{"c1": 0}, build: func(g *eng.Graph) {
			g.Wrap(g.Loop("", g.Task("task", "L", "", "c1"), &eng.Cond{Op: "lt", Var: "c1", K: 2}))
		}},
		{name: "throw", pts: 25, build: func(g *eng.Graph) {
			h := g.Add("intermediateThrowEvent", "H1", "")
			h.Defs = sig("s9")
			g.Wrap(g.Seq(g.Task("task", "A", ""), eng.Frag{Entry: h, Exit: h}, g.Task("task", "B", "")))
		}},
		{name: "errhandler", pts: 12, errPending: "A", build: func(g *eng.Graph) {
			g.Wrap(g.Seq(g.Task("task", "A", ""), g.Task("task", "B", "")))
		}},
		// thorough only: nestings
		{name: "subpar", pts: 70, thorough: true, build: func(g *eng.Graph) {
			sub := g.SubBegin("")
			sp := g.Split("parallelGateway", "parallelGateway", sub.ID, []eng.Frag{g.Task("task", "A", sub.ID), g.Task("task", "B", sub.ID)}, nil, -1)
			fr := g.SubEnd(sub, sp)
			g.Wrap(g.Seq(fr, g.Task("task", "C", "")))
		}},
		{name: "parcatch", pts: 60, thorough: true, signals: []string{"s1"}, build: func(g *eng.Graph) {
			c := g.Add("intermediateCatchEvent", "C1", "")
			c.Defs = sig("s1")
			sp := g.Split("parallelGateway", "parallelGateway", "", []eng.Frag{g.Task("task", "A", ""), {Entry: c, Exit: c}}, nil, -1)
			g.Wrap(g.Seq(sp, g.Task("task", "B", "")))
		}},
		{name: "inclxor", pts: 70, thorough: true, vars: map[string]any{"v0": 1}, build: func(g *eng.Graph) {
			x := g.Split("exclusiveGateway", "exclusiveGateway", "", []eng.Frag{g.Task("task", "A", ""), g.Task("task", "B", "")},
				[]*eng.Cond{{Op: "eq", Var: "v0", K: 1}, nil}, 1)
			sp := g.Split("inclusiveGateway", "inclusiveGateway", "", []eng.Frag{x, g.Task("task", "C", "")},
				[]*eng.Cond{{Op: "eq", Var: "v0", K: 1}, {Op: "lt", Var: "v0", K: 5}}, -1)
			g.Wrap(sp)
		}},
	}
}

func c07cases(tier string) []c07case {
	var cs []c07case
	for _, p := range c07programs() {
		if p.thorough && tier != "thorough" {
			continue
		}
		reps := 1
		if tier == "thorough" {
			reps = 3
		}
		for r := 0; r < reps; r++ {
			for i := 0; i <= p.pts; i++ {
				cs = append(cs, c07case{prog: p, i: i, rep: r, perturb: r})
			}
		}
		if p.holdPoint == "" && !p.host {
			for k, pt := range c07holdPoints {
				// cancellation "point" 1000+k: never reached by counting traces
				cs = append(cs, c07case{prog: p, i: 1000 + k, hold: pt, armAt: 1})
				if len(p.signals) > 0 || p.timer {
					// programs driven by events: also from the very first driver action on
					cs = append(cs, c07case{prog: p, i: 2000 + k, hold: pt, armAt: 0})
				}
			}
		}
	}
	return cs
}

// ---------------------------------------------------------------- goroutine census

type c07g struct {
	id    int
	state string
	entry string // function the goroutine runs (bottom frame), canonical
	where string // topmost engine frame (where it is parked), canonical
	eng   bool   // entry is a function of the engine packages
	own   bool   // entry is a function of the harness
	inEng bool   // some frame is a function of the engine packages
}

const c07mod = "github.com/olive-io/bpmn/v2"

func c07canon(fn string) (string, bool) {
	if !strings.HasPrefix(fn, c07mod) {
		return fn, false
	}
	s := strings.TrimPrefix(fn, c07mod)
	s = strings.TrimPrefix(s, "/pkg/")
	s = strings.TrimPrefix(s, "/")
	s = strings.TrimPrefix(s, ".")
	s = strings.ReplaceAll(s, "(*", "")
	s = strings.ReplaceAll(s, ")", "")
	return s, true
}

func c07snapshot() []c07g {
	buf := make([]byte, 1<<20)
	for {
		n := runtime.Stack(buf, true)
		if n < len(buf) {
			buf = buf[:n]
			break
		}
		buf = make([]byte, 2*len(buf))
	}
	var out []c07g
	for k, blk := range strings.Split(string(buf), "\n\n") {
		lines := strings.Split(blk, "\n")
		if len(lines) == 0 || !strings.HasPrefix(lines[0], "goroutine ") {
			continue
		}
		var g c07g
		hdr := lines[0]
		fmt.Sscanf(hdr, "goroutine %d ", &g.id)
		if a, b := strings.IndexByte(hdr, '['), strings.IndexByte(hdr, ']'); a >= 0 && b > a {
			g.state = hdr[a+1 : b]
			if c := strings.IndexByte(g.state, ','); c >= 0 {
				g.state = g.state[:c]
			}
		}
		if k == 0 {
			g.state = "self"
		}
		var fns []string
		for _, l := range lines[1:] {
			if strings.HasPrefix(l, "\t") || l == "" {
				continue
			}
			if strings.HasPrefix(l, "created by ") {
				break
			}
			if p := strings.LastIndexByte(l, '('); p > 0 {
				l = l[:p]
			}
			fns = append(fns, l)
		}
		if len(fns) == 0 {
			continue
		}
		bottom := fns[len(fns)-1]
		g.entry, g.eng = c07canon(bottom)
		g.own = strings.HasPrefix(bottom, "verifharness/") || strings.HasPrefix(bottom, "main.")
		g.where = g.entry
		for _, f := range fns {
			if c, ok := c07canon(f); ok {
				g.where = c
				g.inEng = true
				break
			}
		}
		if g.state == "running" || g.state == "runnable" {
			g.where = "running" // not parked: the frame it happens to be in says nothing stable
		} else {
			g.where += "#" + strings.ReplaceAll(g.state, " ", "_") // chan_send, chan_receive, select, sync.WaitGroup.Wait, …
		}
		out = append(out, g)
	}
	return out
}

// handler channels the driver keeps and never writes to
var c07held []chan bpmn.ErrHandler

func c07cpu() time.Duration {
	var ru syscall.Rusage
	if syscall.Getrusage(syscall.RUSAGE_SELF, &ru) != nil {
		return 0
	}
	return time.Duration(ru.Utime.Nano() + ru.Stime.Nano())
}

func c07chanClosed(ch <-chan struct{}) bool {
	select {
	case <-ch:
		return true
	default:
		return false
	}
}

// ---------------------------------------------------------------- one case

// c07guard runs the case in a process of its own (this binary again, same arguments, C07_INNER=1): a panic in
// an engine goroutine (e.g. `sync: WaitGroup is reused before previous Wait has returned` in the tracer's
// termination helper) kills that process only and is reported as an observation of the case.
func c07guard(out *rec.Out, c c07case, stats map[string]int) {
	self, _ := os.Executable()
	args := append([]string(nil), os.Args[1:]...)
	inner := ""
	for k := 0; k+1 < len(args); k++ {
		if args[k] == "-stats" {
			inner = args[k+1] + ".inner"
			args[k+1] = inner
		}
	}
	cmd := exec.Command(self, args...)
	cmd.Env = append(os.Environ(), "C07_INNER=1")
	var so, se bytes.Buffer
	cmd.Stdout, cmd.Stderr = &so, &se
	done := make(chan error, 1)
	if err := cmd.Start(); err != nil {
		out.Begin("c07", c.prog.name, c.i, c.rep)
		out.Line("harness-error cannot start the case process: %v", err)
		out.End()
		return
	}
	go func() { done <- cmd.Wait() }()
	var err error
	select {
	case err = <-done:
	case <-time.After(90 * time.Second):
		cmd.Process.Kill()
		err = fmt.Errorf("timeout")
	}
	if inner != "" {
		if b, e := os.ReadFile(inner); e == nil {
			m := map[string]int{}
			if json.Unmarshal(b, &m) == nil {
				for k, v := range m {
					stats[k] += v
				}
			}
			os.Remove(inner)
		}
	}
	if err == nil {
		out.Flush()
		os.Stdout.Write(so.Bytes())
		return
	}
	// the case process died: say how
	msg, frame := "exit:"+strings.ReplaceAll(err.Error(), " ", "_"), "-"
	lines := strings.Split(se.String(), "\n")
	for k, l := range lines {
		if strings.HasPrefix(l, "panic: ") || strings.HasPrefix(l, "fatal error: ") {
			msg = strings.ReplaceAll(strings.TrimSpace(l), " ", "_")
			// topmost engine frame of the goroutine that panicked
			for _, f := range lines[k+1:] {
				if strings.HasPrefix(f, "\t") || f == "" {
					if f == "" && frame != "-" {
						break
					}
					continue
				}
				if strings.HasPrefix(f, "goroutine ") && frame != "-" {
					break
				}
				if q := strings.LastIndexByte(f, '('); q > 0 {
					if cn, ok := c07canon(f[:q]); ok && frame == "-" {
						frame = cn
					}
				}
			}
			break
		}
	}
	stats["cases"]++
	stats["case_process_died"]++
	out.Begin("c07", c.prog.name, c.i, c.rep)
	out.Line("obs died at %d %s in=%s", c.i, msg, frame)
	out.End()
}

func c07run(out *rec.Out, c c07case, rng *rec.Rng, stats map[string]int) {
	p := c.prog
	out.Begin("c07", p.name, c.i, c.rep)
	defer out.End()
	if c.hold != "" {
		out.Line("prog hold %s", c.hold)
	}
	stats["cases"]++
	stats["prog_"+p.name]++
	if os.Getenv("C07_FAULT") == "panic" { // self-test of c07guard
		go func() { var wg sync.WaitGroup; wg.Add(-1) }()
		time.Sleep(200 * time.Millisecond)
	}
	if c.perturb > 0 {
		ctl := sched.Install()
		ctl.Perturb(rng.U64(), c.perturb)
		defer ctl.Remove()
		stats["perturbed_cases"]++
	}
	g := eng.NewGraph()
	p.build(g)
	kindOf := map[string]string{}
	for _, n := range g.Nodes {
		kindOf[n.ID] = n.Kind
	}

	base := map[int]bool{}
	for _, x := range c07snapshot() {
		base[x.id] = true
	}

	var opts []bpmn.Option
	var clk *clock.Mock
	var tcancel context.CancelFunc = func() {}
	if p.timer {
		var tctx context.Context
		if p.host {
			tctx, tcancel = context.WithCancel(context.Background())
		} else {
			clk = clock.NewMockAt(time.Date(2024, 1, 1, 0, 0, 0, 0, time.UTC))
			tctx, tcancel = context.WithCancel(clock.ToContext(context.Background(), clk))
		}
		fan := event.NewFanOut()
		tr := tracing.NewTracer(tctx)
		opts = append(opts, bpmn.WithTracer(tr),
			bpmn.WithProcessEventDefinitionInstanceBuilder(event.DefinitionInstanceBuildingChain(timer.EventDefinitionInstanceBuilder(tctx, fan, tr))),
			bpmn.WithEventEgress(fan), bpmn.WithEventIngress(fan))
	}
	defs, err := schema.Parse([]byte(g.XML()))
	if err != nil {
		out.Line("harness-error parse %v", err)
		return
	}
	in, err := eng.NewInst(defs, p.vars, opts...)
	if err != nil {
		out.Line("harness-error %v", err)
		return
	}
	for _, l := range eng.ProgLines(&(*defs.Processes())[0], g.CondRPN) {
		out.Line("prog %s", l)
	}

	// the counting subscriber: cancels from inside the broadcast of the i-th trace
	var cancelled atomic.Bool
	var cancelAt time.Time
	var cmu sync.Mutex
	lateReq := 0
	doCancel := func(seen int) {
		cmu.Lock()
		if !cancelled.Load() {
			cancelAt = time.Now()
			cancelled.Store(true)
			in.Cancel()
			tcancel()
			// the marker goes into the recorder's stream AFTER the cancel: every line behind it was rendered
			// (TaskTrace.Context().Err() read) after the context was cancelled
			in.Op("cancel %d", seen)
		}
		cmu.Unlock()
	}
	cnt := in.Proc.Tracer().SubscribeChannel(make(chan tracing.ITrace, 1<<14))
	cntClosed := make(chan struct{})
	var seen atomic.Int64
	go func() {
		defer close(cntClosed)
		for t := range cnt {
			n := int(seen.Add(1))
			if n == c.i && p.holdPoint == "" {
				doCancel(n)
			}
			if _, ok := tracing.Unwrap(t).(bpmn.TaskTrace); ok && cancelled.Load() {
				cmu.Lock()
				if time.Since(cancelAt) > 1500*time.Millisecond {
					lateReq++
				}
				cmu.Unlock()
			}
		}
	}()

	startBlocked := false
	if c.i == 0 && p.holdPoint == "" {
		doCancel(0)
	}
	var hctl *sched.Controller
	if p.holdPoint != "" || c.hold != "" {
		hctl = sched.Install() // replaces a perturbing controller, if any
		defer hctl.Remove()
	}
	holdArmed := false
	armHold := func() {
		if c.hold == "" || holdArmed {
			return
		}
		holdArmed = true
		arrived := hctl.Hold(c.hold)
		go func() {
			if sched.WaitArrived(arrived, 20*time.Second) && !cancelled.Load() {
				stats["cancelled_at_"+c.hold]++
				doCancel(int(seen.Load()))
				time.Sleep(30 * time.Millisecond)
			}
			hctl.Release(c.hold)
		}()
	}
	{
		done := make(chan error, 1)
		go func() { done <- in.Proc.StartAll(in.Ctx) }()
		select {
		case err := <-done:
			if err != nil {
				out.Line("harness-error startall %v", err)
				return
			}
		case <-time.After(2 * time.Second):
			startBlocked = true
		}
	}

	// the fixed policy, until the cancel has happened or nothing more can happen
	sigs := append([]string(nil), p.signals...)
	advanced := false
	short := false
	handlerPending := false
	for steps := 0; steps < 200 && !cancelled.Load() && !startBlocked; steps++ {
		if steps == c.armAt {
			armHold()
		}
		if !in.Quiesce(3 * time.Second) {
			if cancelled.Load() {
				break
			}
			in.Note("obs noquiesce")
			break
		}
		if cancelled.Load() {
			break
		}
		// boundaryfire: the signal goes first while the host task is pending
		if pd := in.Pending(); len(pd) > 0 && !(p.name == "boundaryfire" && len(sigs) > 0) {
			q := pd[0]
			if p.errPending == q.Node && q.Occ == 1 {
				// error + handler channel, decision withheld: the harness keeps the channel and never sends
				hold := make(chan bpmn.ErrHandler)
				c07held = append(c07held, hold)
				in.Op("answer %s %d errpending", q.Node, q.Occ)
				q.Done = true
				if !eng.DoWithDeadline(q.Trace, 3*time.Second, bpmn.DoWithErrHandle(fmt.Errorf("boom"), hold)) {
					in.Note("obs ret do %s %d blocked", q.Node, q.Occ)
				}
				handlerPending = true
				continue
			}
			res := p.results[q.Node]
			if p.name == "loop" {
				res = map[string]int{"c1": q.Occ}
			}
			in.AnswerOK(q, res)
			continue
		}
		if len(sigs) > 0 {
			if hctl != nil {
				arrived := hctl.Hold(p.holdPoint)
				in.Deliver("signal", sigs[0], 2*time.Second)
				sigs = sigs[1:]
				if sched.WaitArrived(arrived, time.Second) {
					stats["cancelled_inside_a_held_hand_over"]++
					doCancel(int(seen.Load()))
					time.Sleep(30 * time.Millisecond)
				}
				hctl.Release(p.holdPoint)
				continue
			}
			in.Deliver("signal", sigs[0], 2*time.Second)
			sigs = sigs[1:]
			continue
		}
		if p.timer && !p.host && !advanced {
			advanced = true
			in.Op("advance 5")
			clk.Add(5 * time.Second)
			continue
		}
		// a token waiting for an error-handler decision: the instance is not over
		short = !handlerPending
		break
	}
	if !cancelled.Load() {
		doCancel(int(seen.Load()))
	}
	atCancel := int(seen.Load())

	// where the tokens were: the nodes most recently visited / requested / listening before the cancel
	at := "-"
	ntr := 0
	for _, l := range in.Lines() {
		w := strings.Fields(l)
		if len(w) < 2 || w[0] != "obs" || w[1] == "ret" || w[1] == "noquiesce" {
			continue
		}
		ntr++
		if ntr > c.i && !short {
			break
		}
		if len(w) >= 3 && (w[1] == "visit" || w[1] == "task" || w[1] == "listening") {
			at = kindOf[w[2]] + ":" + w[2]
		}
	}

	// --- observe within the deadline
	tracerDone := in.Proc.Tracer().Done()
	census := func() (leaked, api []string) {
		for _, x := range c07snapshot() {
			if base[x.id] || x.state == "self" {
				continue
			}
			switch {
			case x.eng:
				leaked = append(leaked, x.entry+"@"+x.where)
			case x.own:
				if x.inEng {
					api = append(api, x.where)
				}
			default:
				// a goroutine of a third-party package or the runtime started since the baseline
				if !strings.HasPrefix(x.entry, "runtime.") && !strings.HasPrefix(x.entry, "os/signal.") {
					leaked = append(leaked, "other:"+x.entry)
				}
			}
		}
		sort.Strings(leaked)
		sort.Strings(api)
		return
	}
	deadline := time.Now().Add(2 * time.Second)
	var leaked, api []string
	drained := func() bool {
		if c07chanClosed(tracerDone) && c07chanClosed(cntClosed) {
			leaked, api = census()
			return len(leaked) == 0
		}
		return false
	}
	for !drained() {
		if time.Now().After(deadline) {
			leaked, api = census()
			break
		}
		time.Sleep(3 * time.Millisecond)
	}
	// Not drained at the deadline but nothing is PARKED (everything left is running, or only waits for the
	// others): on a loaded machine the drain may just be slow. Give it up to 4 s more and say so.
	slow := false
	parked := func() bool {
		for _, l := range leaked {
			e := l[:strings.IndexByte(l, '@')]
			if strings.HasSuffix(l, "@running") || e == "tracing.tracer.run.func1.1" ||
				e == "Process.ceaseFlowMonitor.func1.1" || e == "subProcess.ceaseFlowMonitor.func1.1" {
				continue
			}
			return true
		}
		return false
	}
	if (len(leaked) > 0 || !c07chanClosed(tracerDone)) && !parked() {
		was := leaked
		ext := time.Now().Add(4 * time.Second)
		for !drained() && time.Now().Before(ext) {
			time.Sleep(5 * time.Millisecond)
		}
		if drained() {
			slow = true
		} else {
			leaked, api = census()
			_ = was
		}
	}
	td := c07chanClosed(tracerDone)
	subClosed := c07chanClosed(cntClosed)
	if os.Getenv("C07_DUMP") != "" && (len(leaked) > 0 || !td) {
		buf := make([]byte, 1<<20)
		fmt.Fprintf(os.Stderr, "%s\n", buf[:runtime.Stack(buf, true)])
	}

	// WaitUntilComplete after the cancel, with a fresh short-timeout context
	waitFresh := "blocked"
	{
		res := make(chan bool, 1)
		t0 := time.Now()
		go func() {
			ctx, cf := context.WithTimeout(context.Background(), 300*time.Millisecond)
			defer cf()
			res <- in.Proc.WaitUntilComplete(ctx)
		}()
		select {
		case ok := <-res:
			switch {
			case ok && time.Since(t0) < 250*time.Millisecond:
				waitFresh = "true"
			case ok:
				waitFresh = "late"
			default:
				waitFresh = "timeout"
			}
		case <-time.After(1500 * time.Millisecond):
		}
	}

	// spin detection: CPU consumed by the process during an idle window
	c0 := c07cpu()
	running := map[int]int{}
	names := map[int]string{}
	for k := 0; k < 2; k++ {
		time.Sleep(70 * time.Millisecond)
		for _, x := range c07snapshot() {
			if x.eng && (x.state == "running" || x.state == "runnable") {
				running[x.id]++
				names[x.id] = x.entry + "@" + x.where
			}
		}
	}
	time.Sleep(60 * time.Millisecond)
	cpu := c07cpu() - c0
	var spinners []string
	for id, n := range running {
		if n == 2 && !base[id] {
			spinners = append(spinners, names[id])
		}
	}
	sort.Strings(spinners)
	// CPU burnt while idle, or an engine goroutine running in both snapshots (on a loaded machine a spinning
	// process may not get 90 ms of CPU in the window)
	spinning := cpu > 90*time.Millisecond || len(spinners) > 0

	// … and with the cancelled context itself
	waitCancelled := "blocked"
	{
		res := make(chan bool, 1)
		go func() { res <- in.Proc.WaitUntilComplete(in.Ctx) }()
		select {
		case <-res:
			waitCancelled = "returned"
		case <-time.After(time.Second):
		}
	}

	for _, l := range in.Lines() {
		out.Line("%s", l)
	}
	cmu.Lock()
	late := lateReq
	cmu.Unlock()
	out.Line("obs cancel at %d seen=%d short=%d startblocked=%d slow=%d token=%s", c.i, atCancel, rec.B(short), rec.B(startBlocked), rec.B(slow), at)
	join := func(xs []string) string {
		if len(xs) == 0 {
			return "-"
		}
		return strings.Join(xs, ",")
	}
	out.Line("obs after tracerdone=%d subclosed=%d wait=%s waitcancelled=%s leaked=%d [%s] spinning=%d [%s] apiblocked=[%s] laterequests=%d",
		rec.B(td), rec.B(subClosed), waitFresh, waitCancelled, len(leaked), join(leaked), rec.B(spinning), join(spinners), join(api), late)
	stats[fmt.Sprintf("leaked_%d", len(leaked))]++
	if !td {
		stats["tracer_not_done"]++
	}
	if spinning {
		stats["spinning"]++
	}
	if short {
		stats["cancel_after_run_ended"]++
	}
	if slow {
		stats["drained_after_the_deadline"]++
	}
}
