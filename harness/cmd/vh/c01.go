package main

import (
	"fmt"
	"sort"
	"strings"
	"sync"
	"time"

	bpmn "github.com/olive-io/bpmn/v2"
	"github.com/olive-io/bpmn/v2/pkg/event"

	"verifharness/internal/eng"
	"verifharness/internal/rec"
	"verifharness/internal/sched"
)

// Engine-level families: generated block-structured programs run on the real engine, paced by
// whole-process quiescence, recorded as prog/op/obs lines; the Lean driver replays the engine model
// in lock-step and evaluates the token-game specification.

func init() {
	caseFamilies["c01"] = &caseFamily{
		Shard: 1, Par: 12, // one process per case: a cancelled instance may leave a spinning tracer behind
		Count: func(tier string) int {
			if tier == "thorough" {
				return 3000
			}
			return 260
		},
		Run: func(out *rec.Out, idx int, rng *rec.Rng, tier string, stats map[string]int) {
			runProgCase(out, "c01", idx, rng, tier, stats, genOptsC01(idx, tier))
		},
	}
}

type genOpts struct {
	kinds      []string // allowed block kinds with repetition = weight
	maxNodes   int
	maxDepth   int
	errAnswers bool
	// errNoExit: no handler that EXITS (the token ends at the task: inside a sub-process that empties the scope and the
	// sub-process returns, inlined nothing returns — the two programs are not comparable on such an answer)
	errNoExit bool
	// loopEvents: the instance is created with event ingress and egress on one fan-out
	loopEvents bool
	// lagCheck: the instance carries a lagging subscriber (eng.LagSubscriber); report what it read at the end
	lagCheck bool
	undeclared bool
	// tailCtask: the program may end with an activity that has conditional outgoing flows. Several of them can
	// be true, so several tokens leave it; to stay inside well-defined token semantics the branches contain
	// only tasks / sequences / exclusive blocks and lead straight to the end event.
	tailCtask bool
	// inlineSubs: generate the same program but with every embedded sub-process replaced by its content
	inlineSubs bool
	// sortedAnswers: choose among pending requests in node-name order, so that two runs of the same program
	// modulo sub-process wrapping answer in the same order
	sortedAnswers bool
	// subLevels: wrap each `sub` block in this many nested sub-processes (1..3)
	subLevels int
	// perturb: seeded yields / micro-sleeps at the engine's schedule points during the run (0 = off)
	perturb int
	// noFrame / noStop: the caller frames the case itself and keeps the instance alive (paired runs)
	noFrame, noStop bool
	// dataObjects: some tasks declare a data output (a declared data object of the process) and write it with
	// DoWithObjects; conditions read it through getDataObject(...)
	dataObjects bool
	// throws: a quarter of the programs get one or two intermediate throw events (no event definition) in front of a
	// task / exclusive gateway; every token that reaches one passes it
	throws bool
	// slowPoints: schedule points at which the arriving goroutine is kept for `slowFor` while everything else runs on
	// (e.g. a completion monitor that is slow to subscribe: whatever was started before it must wait for it)
	slowPoints []string
	slowFor    time.Duration
}

func genOptsC01(idx int, tier string) genOpts {
	o := genOpts{
		kinds:     []string{"task", "task", "seq", "seq", "xor", "xor", "par", "par", "incl", "loop", "sub"},
		tailCtask: true,
		maxNodes:  14, maxDepth: 3, undeclared: true, dataObjects: true, throws: true,
	}
	if idx%5 == 4 {
		// a fifth of the programs: one answer in five is an ERROR (no handler / skip / retry / exit)
		o.errAnswers = true
	}
	if tier == "thorough" {
		o.maxNodes = 26
		o.maxDepth = 4
		if idx%3 == 0 {
			o.perturb = 1 + idx%2
		}
	}
	return o
}

type gen struct {
	g      *eng.Graph
	rng    *rec.Rng
	o      genOpts
	budget int
	ntask  int
	nloop  int
	vars   []string
	// loopTask: task id -> counter variable it must increment; loopVars initial 0
	loopTask map[string]string
	stats    map[string]int
}

var taskKinds = []string{"task", "serviceTask", "userTask", "manualTask", "scriptTask", "sendTask", "receiveTask", "businessRuleTask", "callActivity"}

func (ge *gen) cond() *eng.Cond {
	v := ge.vars[ge.rng.Intn(len(ge.vars))]
	k := ge.rng.Intn(3)
	if ge.rng.Fork().Intn(12) == 0 {
		// a variable that no instance of THIS document ever defines (undefined compares unequal to everything)
		ge.stats["conditions_on_an_undefined_variable"]++
		if ge.rng.Fork().Intn(2) == 0 {
			return &eng.Cond{Op: "eq", Var: "vu", K: 1}
		}
		return &eng.Cond{Op: "ne", Var: "vu", K: 1}
	}
	switch ge.rng.Intn(10) {
	case 0, 1, 2:
		return &eng.Cond{Op: "eq", Var: v, K: k}
	case 3, 4:
		return &eng.Cond{Op: "ne", Var: v, K: k}
	case 5, 6:
		return &eng.Cond{Op: "lt", Var: v, K: k + 1}
	case 7:
		return &eng.Cond{Op: "and", L: &eng.Cond{Op: "ne", Var: v, K: k}, R: &eng.Cond{Op: "lt", Var: ge.vars[ge.rng.Intn(len(ge.vars))], K: 2}}
	case 8:
		return &eng.Cond{Op: "or", L: &eng.Cond{Op: "eq", Var: v, K: k}, R: &eng.Cond{Op: "not", L: &eng.Cond{Op: "lt", Var: v, K: 1}}}
	default:
		if ge.rng.Bool() {
			return &eng.Cond{Op: "true"}
		}
		return &eng.Cond{Op: "false"}
	}
}

func (ge *gen) task(parent string) eng.Frag {
	ge.ntask++
	ge.budget--
	kind := taskKinds[ge.rng.Intn(len(taskKinds))]
	var results []string
	if ge.rng.Intn(3) > 0 {
		results = append(results, ge.vars[ge.rng.Intn(len(ge.vars))])
		if ge.rng.Intn(4) == 0 {
			results = append(results, ge.vars[ge.rng.Intn(len(ge.vars))])
		}
	}
	ge.stats["node_"+kind]++
	return ge.g.Task(kind, fmt.Sprintf("T%d", ge.ntask), parent, results...)
}

func (ge *gen) block(parent string, depth int) eng.Frag {
	kind := "task"
	if depth < ge.o.maxDepth && ge.budget > 2 {
		kind = ge.o.kinds[ge.rng.Intn(len(ge.o.kinds))]
	}
	ge.stats["block_"+kind]++
	switch kind {
	case "seq":
		n := 2 + ge.rng.Intn(2)
		fr := make([]eng.Frag, n)
		for i := range fr {
			fr[i] = ge.block(parent, depth+1)
		}
		return ge.g.Seq(fr...)
	case "xor", "incl":
		n := 2 + ge.rng.Intn(2)
		ge.budget -= 2
		br := make([]eng.Frag, n)
		conds := make([]*eng.Cond, n)
		def := -1
		if ge.rng.Intn(5) > 0 { // default at a random list position
			def = ge.rng.Intn(n)
		}
		for i := range br {
			if ge.rng.Intn(6) == 0 {
				br[i] = eng.Frag{} // empty branch
			} else {
				br[i] = ge.block(parent, depth+1)
			}
			if i != def {
				conds[i] = ge.cond()
			}
		}
		gk := "exclusiveGateway"
		if kind == "incl" {
			gk = "inclusiveGateway"
		}
		return ge.g.Split(gk, gk, parent, br, conds, def)
	case "par":
		n := 2 + ge.rng.Intn(2)
		ge.budget -= 2
		br := make([]eng.Frag, n)
		for i := range br {
			br[i] = ge.block(parent, depth+1)
		}
		return ge.g.Split("parallelGateway", "parallelGateway", parent, br, nil, -1)
	case "loop":
		ge.nloop++
		ge.budget -= 3
		cv := fmt.Sprintf("c%d", ge.nloop)
		ge.ntask++
		lt := ge.g.Task("task", fmt.Sprintf("L%d", ge.ntask), parent, cv)
		ge.loopTask[lt.Entry.ID] = cv
		body := lt
		if ge.rng.Bool() {
			body = ge.g.Seq(lt, ge.block(parent, depth+1))
		}
		return ge.g.Loop(parent, body, &eng.Cond{Op: "lt", Var: cv, K: 1 + ge.rng.Intn(3)})
	case "sub":
		ge.budget -= 3
		levels := 1
		if ge.o.subLevels > 1 {
			levels = 1 + ge.rng.Intn(ge.o.subLevels)
		}
		if ge.o.inlineSubs {
			return ge.block(parent, depth+1)
		}
		subs := make([]*eng.Node, levels)
		par := parent
		for i := 0; i < levels; i++ {
			subs[i] = ge.g.SubBegin(par)
			par = subs[i].ID
		}
		fr := ge.block(par, depth+1)
		if ge.o.tailCtask && ge.rng.Intn(4) == 0 {
			// the content of the sub-process ENDS with an activity whose conditional outgoing flows can all be true: several
			// tokens run to the inner end event one after the other — the sub-process is over when the last one is consumed
			saved := ge.o.kinds
			ge.o.kinds = []string{"task", "task", "seq", "xor"}
			ge.budget += 3
			ct := ge.ctask(par)
			ge.o.kinds = saved
			fr = ge.g.Seq(fr, ct)
			ge.stats["sub_process_ending_with_ctask"]++
		}
		for i := levels - 1; i >= 0; i-- {
			fr = ge.g.SubEnd(subs[i], fr)
		}
		return fr
	}
	return ge.task(parent)
}

// ctask: an activity with conditional outgoing flows, merged by an exclusive gateway
func (ge *gen) ctask(parent string) eng.Frag {
	// activity with conditional outgoing flows, merged by an exclusive gateway
	t := ge.task(parent)
	n := 2 + ge.rng.Intn(2)
	ge.budget--
	m := ge.g.Add("exclusiveGateway", "", parent)
	for i := 0; i < n; i++ {
		var c *eng.Cond
		if ge.rng.Intn(4) > 0 {
			c = ge.cond()
		}
		if ge.rng.Intn(3) == 0 {
			ge.g.Connect(t.Entry, m, c)
		} else {
			b := ge.block(parent, ge.o.maxDepth-1)
			ge.g.Connect(t.Entry, b.Entry, c)
			ge.g.Connect(b.Exit, m, nil)
		}
	}
	return eng.Frag{Entry: t.Entry, Exit: m}
}

// runProgCase: generate, run on the real engine, record.
func runProgCase(out *rec.Out, fam string, idx int, rng *rec.Rng, tier string, stats map[string]int, o genOpts) {
	ge := &gen{g: eng.NewGraph(), rng: rng, o: o, budget: 3 + rng.Intn(o.maxNodes), vars: []string{"v0", "v1", "v2"},
		loopTask: map[string]string{}, stats: stats}
	if o.dataObjects && rng.Fork().Intn(3) == 0 {
		ge.vars = append(ge.vars, "@d0")
		stats["programs_with_data_object"]++
	}
	top := ge.block("", 0)
	if o.tailCtask && rng.Intn(4) == 0 {
		saved := ge.o.kinds
		ge.o.kinds = []string{"task", "task", "seq", "xor"}
		ge.budget += 4
		ct := ge.ctask("")
		ge.o.kinds = saved
		top = ge.g.Seq(top, ct)
		stats["block_ctask"]++
	}
	if rng.Fork().Intn(5) == 0 {
		// the last activity is the end of the process (no outgoing sequence flow, no end event)
		ge.g.WrapImplicitEnd(ge.g.Seq(top, ge.task("")))
		stats["implicit_end"]++
	} else {
		ge.g.Wrap(top)
	}
	if o.throws && rng.Fork().Intn(4) == 0 {
		if k := ge.g.InsertThrows(rng.Fork().Intn); k > 0 {
			stats["programs_with_throw_events"]++
		}
	}
	vars := map[string]any{}
	varsInt := map[string]int{}
	for _, v := range ge.vars {
		if !strings.HasPrefix(v, "@") { // a data object has no initial value
			varsInt[v] = rng.Intn(3)
		}
	}
	for i := 1; i <= ge.nloop; i++ {
		varsInt[fmt.Sprintf("c%d", i)] = 0
	}
	for k, v := range varsInt {
		vars[k] = v
	}
	runGraphCase(out, fam, ge.g, vars, varsInt, rng, stats, ge.loopTask, o)
}

func fmtVars(m map[string]int) string {
	ks := make([]string, 0, len(m))
	for k := range m {
		ks = append(ks, k)
	}
	sort.Strings(ks)
	p := make([]string, len(ks))
	for i, k := range ks {
		p[i] = fmt.Sprintf("%s=%d", k, m[k])
	}
	if len(p) == 0 {
		return "-"
	}
	return strings.Join(p, ",")
}

func runGraphCase(out *rec.Out, fam string, g *eng.Graph, vars map[string]any, varsInt map[string]int,
	rng *rec.Rng, stats map[string]int, loopTask map[string]string, o genOpts) {
	if o.perturb > 0 {
		ctl := sched.Install()
		ctl.Perturb(rng.U64(), o.perturb)
		defer ctl.Remove()
		stats["perturbed_cases"]++
	}
	if len(o.slowPoints) > 0 && o.perturb == 0 {
		ctl := sched.Install()
		stop := make(chan struct{})
		var hw sync.WaitGroup
		for _, pt := range o.slowPoints {
			hw.Add(1)
			go func(pt string) {
				defer hw.Done()
				for {
					a := ctl.Hold(pt)
					select {
					case <-a:
						time.Sleep(o.slowFor)
						ctl.Release(pt)
					case <-stop:
						ctl.Release(pt)
						return
					}
				}
			}(pt)
		}
		defer func() { close(stop); hw.Wait(); ctl.Remove() }()
		stats["slowed_cases"]++
	}
	if sh := rng.Fork(); sh.Intn(2) == 0 { // forked stream: one draw of the case's stream whatever the graph size
		g.ShuffleDecl(sh.Intn)
		stats["shuffled_declaration_order"]++
	}
	xmlText := g.XML()
	if !o.noFrame {
		out.Begin(fam)
		defer out.End()
	}
	if rng.Fork().Intn(4) == 0 {
		// ANOTHER document ran earlier in this program: the same element ids, every condition different (`false`), other
		// data. Nothing of it may be left when the document under test runs.
		saved := make([]*eng.Cond, len(g.Flows))
		for i, f := range g.Flows {
			saved[i] = f.Cond
			if f.Cond != nil {
				f.Cond = &eng.Cond{Op: "false"}
			}
		}
		decoy := g.XML()
		for i, f := range g.Flows {
			f.Cond = saved[i]
		}
		other := map[string]any{}
		for k := range vars {
			other[k] = 2
		}
		if in0, _, err := eng.Start(decoy, other); err == nil {
			in0.Quiesce(2 * time.Second)
			in0.Stop(2 * time.Second)
			stats["cases_after_an_earlier_document_with_the_same_ids"]++
		}
	}
	var startOpts []bpmn.Option
	if o.loopEvents {
		// the instance's own events come back to it (ingress and egress on one fan-out — what model.New and an event-wired
		// process set do): end events, throw events … raise events every node of the instance is offered
		fan := event.NewFanOut()
		startOpts = append(startOpts, bpmn.WithEventIngress(fan), bpmn.WithEventEgress(fan))
		stats["instances_with_their_events_looped_back"]++
	}
	in, defs, err := eng.Start(xmlText, vars, startOpts...)
	if err != nil {
		out.Line("harness-error %v", err)
		return
	}
	for _, l := range eng.ProgLines(&(*defs.Processes())[0], g.CondRPN) {
		out.Line("prog %s", l)
	}
	out.Line("prog vars %s", fmtVars(varsInt))
	stats["cases"]++
	stats[fmt.Sprintf("nodes_%02d", len(g.Nodes)/5*5)]++
	steps := 0
	loopCount := map[string]int{}
	quiet := true
	for steps < 200 {
		if !in.Quiesce(4 * time.Second) {
			in.Note("obs noquiesce")
			quiet = false
			break
		}
		p := in.Pending()
		if len(p) == 0 {
			break
		}
		if o.sortedAnswers {
			sort.Slice(p, func(a, b int) bool {
				if p[a].Node != p[b].Node {
					return p[a].Node < p[b].Node
				}
				return p[a].Occ < p[b].Occ
			})
		}
		q := p[rng.Intn(len(p))]
		res := map[string]int{}
		n := g.Node(q.Node)
		for _, r := range n.Results {
			res[r] = rng.Intn(3)
		}
		for _, d := range n.Outputs {
			res["@"+d] = rng.Intn(3)
			stats["answers_writing_data_object"]++
		}
		if cv, ok := loopTask[q.Node]; ok {
			loopCount[cv]++
			res[cv] = loopCount[cv]
		}
		if o.undeclared && rng.Intn(4) == 0 {
			res["undeclared"] = 7
			stats["answers_with_undeclared"]++
		}
		if o.errAnswers && rng.Intn(5) == 0 {
			// an ERROR answer: without a handler (the token goes on), or with a handler that skips, retries once or twice
			// (the task is requested again) or exits (the token ends there)
			k := rng.Intn(4)
			if o.errNoExit && k == 3 {
				k = rng.Intn(3)
			}
			switch k {
			case 0:
				in.AnswerErr(q, 0, 0)
				stats["answers_error_no_handler"]++
			case 1:
				in.AnswerErr(q, bpmn.SkipMode, 0)
				stats["answers_error_skip"]++
			case 2:
				// (paired runs: an unlimited retry. The engine counts retry attempts per TOKEN, not per task visit — the
				// counter is never reset when the token moves on — so a limited budget is used up differently when a
				// sub-process gives the inner task a token of its own. That is retry accounting (C08: "at most the given
				// number of additional times", an upper bound), not the sub-process mechanism.)
				lim := int32(1 + rng.Intn(2))
				if o.errNoExit {
					lim = -1
				}
				in.AnswerErr(q, bpmn.RetryMode, lim)
				stats["answers_error_retry"]++
			default:
				in.AnswerErr(q, bpmn.ExitMode, 0)
				stats["answers_error_exit"]++
			}
			steps++
			stats["answers"]++
			continue
		}
		in.AnswerOK(q, res)
		steps++
		stats["answers"]++
	}
	complete := false
	if quiet {
		complete = in.WaitComplete(1500 * time.Millisecond)
		in.Quiesce(2 * time.Second)
	}
	for _, l := range in.Lines() {
		out.Line("%s", l)
	}
	out.Line("obs final complete=%d vars=%s", rec.B(complete), in.VarsAndObjects())
	if o.lagCheck {
		n, at, pl, ll := in.LagDiff()
		out.Line("lagged n=%d at=%d prompt=%s lagged=%s", n, at, strings.ReplaceAll(pl, " ", "_"), strings.ReplaceAll(ll, " ", "_"))
	}
	if !o.noStop {
		stopped := in.Stop(2 * time.Second)
		if !stopped {
			stats["tracer_not_done_after_cancel"]++
		}
	}
	if complete {
		stats["completed"]++
	}
}
