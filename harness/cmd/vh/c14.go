package main

import (
	"bytes"
	"encoding/xml"
	"fmt"
	"os"
	"time"

	"github.com/olive-io/bpmn/schema"
	"github.com/olive-io/bpmn/v2/pkg/event"
	"github.com/olive-io/bpmn/v2/pkg/logic"

	"verifharness/internal/rec"
)

func init() { families["c14"] = c14 }

type satisfier interface {
	Satisfy(ev event.IEvent) (bool, int)
}

func c14defs(n int) []schema.SignalEventDefinition {
	defs := make([]schema.SignalEventDefinition, n)
	for i := 0; i < n; i++ {
		d := schema.DefaultSignalEventDefinition()
		name := schema.QName(fmt.Sprintf("sig%d", i))
		d.SetSignalRef(&name)
		defs[i] = d
	}
	return defs
}

// c14msgDefs: MESSAGE definitions m0..m(n-1); the odd ones also name an operation. A message event matches a definition
// iff the message is the same AND both name the same operation or neither names one.
func c14msgDefs(n int) []schema.MessageEventDefinition {
	defs := make([]schema.MessageEventDefinition, n)
	for i := 0; i < n; i++ {
		d := schema.DefaultMessageEventDefinition()
		name := schema.QName(fmt.Sprintf("m%d", i))
		d.SetMessageRef(&name)
		if i%2 == 1 {
			op := schema.QName(fmt.Sprintf("op%d", i))
			d.SetOperationRef(&op)
		}
		defs[i] = d
	}
	return defs
}

// c14msgEvent: the event matching definition i, or (i < 0) a NEAR MISS of definition k: the same message with an
// operation where the definition names none, without one / with another one where it names one
func c14msgEvent(i, k int) event.IEvent {
	if i >= 0 {
		if i%2 == 1 {
			op := fmt.Sprintf("op%d", i)
			return event.NewMessageEvent(fmt.Sprintf("m%d", i), &op)
		}
		return event.NewMessageEvent(fmt.Sprintf("m%d", i), nil)
	}
	if k%2 == 0 {
		op := "opX"
		return event.NewMessageEvent(fmt.Sprintf("m%d", k), &op)
	}
	if k%4 == 1 {
		return event.NewMessageEvent(fmt.Sprintf("m%d", k), nil)
	}
	op := "opX"
	return event.NewMessageEvent(fmt.Sprintf("m%d", k), &op)
}

func c14new(kind string, par bool, n int, msg bool) satisfier {
	if kind == "catch" {
		ce := schema.DefaultCatchEvent()
		p := par
		ce.SetParallelMultiple(&p)
		if msg {
			ce.SetMessageEventDefinitions(c14msgDefs(n))
		} else {
			ce.SetSignalEventDefinitions(c14defs(n))
		}
		return logic.NewCatchEventSatisfier(&ce, event.WrappingDefinitionInstanceBuilder)
	}
	te := schema.DefaultThrowEvent()
	if msg {
		te.SetMessageEventDefinitions(c14msgDefs(n))
	} else {
		te.SetSignalEventDefinitions(c14defs(n))
	}
	return logic.NewThrowEventSatisfier(&te, event.WrappingDefinitionInstanceBuilder)
}

func c14expr(text string) *schema.AnExpression {
	e := schema.AnExpression{}
	if err := xml.NewDecoder(bytes.NewBufferString(fmt.Sprintf(`<bpmn:expression>%s</bpmn:expression>`, text))).Decode(&e); err != nil {
		panic(err)
	}
	return &e
}

// c14newMixed: a catch / throw event whose n definitions are of DIFFERENT kinds — signal, one-shot timer (timeDuration),
// message, recurring timer (timeCycle), again and again — and the function that makes the event matching definition i (by
// position in the satisfier's own instance list): a timer definition is matched by the timer event of ITS instance.
func c14newMixed(kind string, par bool, n int) (satisfier, func(i int) event.IEvent) {
	var sigs []schema.SignalEventDefinition
	var msgs []schema.MessageEventDefinition
	var tims []schema.TimerEventDefinition
	for k := 0; k < n; k++ {
		switch k % 4 {
		case 0:
			d := schema.DefaultSignalEventDefinition()
			name := schema.QName(fmt.Sprintf("sig%d", k))
			d.SetSignalRef(&name)
			sigs = append(sigs, d)
		case 2:
			d := schema.DefaultMessageEventDefinition()
			name := schema.QName(fmt.Sprintf("m%d", k))
			d.SetMessageRef(&name)
			msgs = append(msgs, d)
		default:
			d := schema.DefaultTimerEventDefinition()
			if k%4 == 1 {
				d.SetTimeDuration(c14expr("PT10S"))
			} else {
				d.SetTimeCycle(c14expr("R3/PT10S"))
			}
			tims = append(tims, d)
		}
	}
	var s satisfier
	var insts *[]event.IDefinitionInstance
	if kind == "catch" {
		ce := schema.DefaultCatchEvent()
		p := par
		ce.SetParallelMultiple(&p)
		ce.SetSignalEventDefinitions(sigs)
		ce.SetMessageEventDefinitions(msgs)
		ce.SetTimerEventDefinitions(tims)
		cs := logic.NewCatchEventSatisfier(&ce, event.WrappingDefinitionInstanceBuilder)
		s, insts = cs, cs.EventDefinitionInstances()
	} else {
		te := schema.DefaultThrowEvent()
		te.SetSignalEventDefinitions(sigs)
		te.SetMessageEventDefinitions(msgs)
		te.SetTimerEventDefinitions(tims)
		ts := logic.NewThrowEventSatisfier(&te, event.WrappingDefinitionInstanceBuilder)
		s, insts = ts, ts.EventDefinitionInstances()
	}
	mk := func(i int) event.IEvent {
		if i < 0 || i >= len(*insts) {
			return event.NewSignalEvent("nomatch")
		}
		inst := (*insts)[i]
		switch d := inst.EventDefinition().(type) {
		case *schema.SignalEventDefinition:
			r, _ := d.SignalRef()
			return event.NewSignalEvent(string(*r))
		case *schema.MessageEventDefinition:
			r, _ := d.MessageRef()
			return event.NewMessageEvent(string(*r), nil)
		default:
			return event.MakeTimerEvent(inst)
		}
	}
	return s, mk
}

var c14seq int

// one case: a fresh satisfier and a history; idx -1 = an event matching no definition
func c14case(out *rec.Out, kind string, par bool, n int, hist []int, stats map[string]int) {
	out.Begin("c14", kind, rec.B(par), n)
	// a third of the cases use MESSAGE definitions (half of them naming an operation); their non-matching events are near
	// misses: the right message with the wrong / a missing / a superfluous operation
	msg := c14seq%3 == 2
	if msg {
		stats["cases_with_message_definitions"]++
	}
	// a sixth of the cases with two or more definitions MIX the kinds of their definitions (signal, one-shot timer, message,
	// recurring timer): a definition is a definition, whatever its kind
	mixed := n >= 2 && c14seq%6 == 1
	var mkMixed func(i int) event.IEvent
	var s satisfier
	if mixed {
		stats["cases_with_mixed_definition_kinds"]++
		s, mkMixed = c14newMixed(kind, par, n)
		msg = false
	} else {
		s = c14new(kind, par, n, msg)
	}
	// half of the cases hand in ONE event object per signal, again and again (a sender that keeps its event value): two
	// occurrences are two occurrences, whether or not they are the same Go value
	// a quarter of the plain cases run NEXT TO ANOTHER satisfier of the same kind that is alive in the same program and
	// gets events of its own in between (two catch events of one process): what one has collected is its own
	var shadow satisfier
	if !msg && !mixed && n >= 2 && c14seq%4 == 3 {
		shadow = c14new(kind, par, n, false)
		stats["cases_next_to_another_live_satisfier"]++
	}
	c14seq++
	reuse := c14seq%2 == 0
	objs := map[string]*event.SignalEvent{}
	if reuse {
		stats["cases_reusing_one_event_object_per_signal"]++
	}
	for pos, i := range hist {
		name := "nomatch"
		if i >= 0 {
			name = fmt.Sprintf("sig%d", i)
		}
		var ev event.IEvent
		if mixed {
			ev = mkMixed(i)
		} else if msg {
			ev = c14msgEvent(i, pos%n)
		} else {
			sev := event.NewSignalEvent(name)
			if reuse {
				if o, ok := objs[name]; ok {
					sev = o
				} else {
					objs[name] = sev
				}
			}
			ev = sev
		}
		// (a Satisfy call that does not return — a loop over the chains that never ends — would hang the whole family: the
		// call runs under a deadline; past it the case is closed with `hang` and the process ends)
		if shadow != nil {
			// the other satisfier gets the history backwards, one event before each of ours
			if j := hist[len(hist)-1-pos]; j >= 0 {
				shadow.Satisfy(event.NewSignalEvent(fmt.Sprintf("sig%d", j)))
			}
		}
		type res struct {
			m bool
			c int
		}
		done := make(chan res, 1)
		go func() { m, c := s.Satisfy(ev); done <- res{m, c} }()
		var m bool
		var c int
		select {
		case r := <-done:
			m, c = r.m, r.c
		case <-time.After(20 * time.Second):
			out.Line("hang %d", i)
			out.End()
			out.Flush()
			os.Exit(0)
		}
		out.Line("ev %d %d %d", i, rec.B(m), c)
		if m {
			stats["fired"]++
		}
		if i < 0 {
			stats["ev_nomatch"]++
		} else {
			stats["ev_match"]++
		}
	}
	out.End()
	stats["cases"]++
	stats[fmt.Sprintf("defs_%d", n)]++
	stats[fmt.Sprintf("kind_%s_par%d", kind, rec.B(par))]++
}

func c14(out *rec.Out, rng *rec.Rng, tier string, stats map[string]int) {
	// exhaustive part: all histories up to length L over n definitions + the non-matching event
	maxLen := map[int]int{1: 6, 2: 7, 3: 6, 4: 5}
	if tier == "thorough" {
		maxLen = map[int]int{1: 9, 2: 9, 3: 9, 4: 8}
	}
	type cfg struct {
		kind string
		par  bool
	}
	cfgs := []cfg{{"catch", true}, {"catch", false}, {"throw", true}}
	for _, c := range cfgs {
		for n := 1; n <= 4; n++ {
			L := maxLen[n]
			if !c.par && L > 5 {
				L = 5
			}
			alpha := n + 1
			for l := 0; l <= L; l++ {
				total := 1
				for k := 0; k < l; k++ {
					total *= alpha
				}
				for code := 0; code < total; code++ {
					h := make([]int, l)
					x := code
					for k := 0; k < l; k++ {
						h[k] = x%alpha - 1
						x /= alpha
					}
					c14case(out, c.kind, c.par, n, h, stats)
				}
			}
		}
	}
	stats["exhaustive_cases"] = stats["cases"]
	// random longer histories, biased towards balanced ones so that chains complete
	N := 400
	if tier == "thorough" {
		N = 6000
	}
	for k := 0; k < N; k++ {
		c := cfgs[rng.Intn(len(cfgs))]
		n := 1 + rng.Intn(6)
		l := 10 + rng.Intn(60)
		h := make([]int, l)
		for j := range h {
			if rng.Intn(8) == 0 {
				h[j] = -1
			} else {
				h[j] = rng.Intn(n)
			}
		}
		if rng.Bool() { // balanced: a shuffled multiset with each definition k times
			reps := 1 + rng.Intn(5)
			h = h[:0]
			for i := 0; i < n; i++ {
				for q := 0; q < reps; q++ {
					h = append(h, i)
				}
			}
			for j := len(h) - 1; j > 0; j-- {
				o := rng.Intn(j + 1)
				h[j], h[o] = h[o], h[j]
			}
		}
		c14case(out, c.kind, c.par, n, h, stats)
	}
}
