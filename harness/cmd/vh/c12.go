package main

import (
	"time"

	"verifharness/internal/rec"
)

// C12: every case is a PAIR of runs of the same generated program: once with its `sub` blocks wrapped in 1..3
// levels of embedded sub-process, once with the content inlined; same data, same answer policy. The driver
// judges each run against the engine model / token game and compares the two request histories.
func init() {
	caseFamilies["c12"] = &caseFamily{
		Shard: 1, Par: 12,
		Count: func(tier string) int {
			if tier == "thorough" {
				return 1500
			}
			return 120
		},
		Run: func(out *rec.Out, idx int, rng *rec.Rng, tier string, stats map[string]int) {
			o := genOpts{
				kinds:    []string{"task", "task", "seq", "seq", "xor", "par", "loop", "sub", "sub", "sub"},
				maxNodes: 12, maxDepth: 4, subLevels: 3, sortedAnswers: true, noFrame: true, noStop: true, dataObjects: true,
			}
			if tier == "thorough" {
				o.maxNodes = 20
			}
			if idx%3 == 0 {
				// a sub-process whose completion monitor / relay is slow to subscribe: nothing of the content may have
				// been started before them
				o.slowPoints = []string{"subprocess.monitor.before_subscribe", "subprocess.run.before_subscribe"}
				o.slowFor = 20 * time.Millisecond
			}
			if idx%2 == 1 {
				// a task answered with an error (no handler / skip / retry; not exit: a token that ends inside a sub-process
				// empties its scope, the same token inlined does not) — inside a sub-process or not — is handled
				// the same way wrapped and inlined
				o.errAnswers, o.errNoExit = true, true
			}
			if idx%4 >= 2 {
				// half of the pairs run with the instance's events looped back to it (both runs of a pair alike)
				o.loopEvents = true
			}
			seed := rng.U64()
			out.Begin("c12")
			// the wrapped run is left idle (not cancelled) while the inlined one runs: a cancelled instance may
			// leave a spinning tracer behind, an idle one only blocked goroutines
			runProgCase(out, "c12", idx, rec.NewRng(seed), tier, stats, o)
			out.Line("variant inline")
			o.inlineSubs = true
			runProgCase(out, "c12", idx, rec.NewRng(seed), tier, map[string]int{}, o)
			out.End()
		},
	}
}
