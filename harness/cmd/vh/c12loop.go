package main

import (
	"fmt"

	"verifharness/internal/eng"
	"verifharness/internal/rec"
)

// Family c12loop: the program of Props/C12Loop (`loopProc N`: s -> M -> U[ us -> B -> ue ] -> X ; X -> M while c < N, else
// X -> e; B writes c), with the SAME element names, run by the real engine: bound N in 1..6, the inner task answered with
// c = 1, 2, … until the loop is left (also: a first answer that leaves at once, and values that stay low for extra rounds).
// The Lean driver runs `loopProc N` — the object of `loop_step` / `loop_run` — at the extracted configuration with the same
// answers and compares round by round; the inner task must be requested once per activation of the sub-process.
func init() {
	caseFamilies["c12loop"] = &caseFamily{
		Shard: 1, Par: 6,
		Count: func(tier string) int { return len(c12loopCases(tier)) },
		Run: func(out *rec.Out, idx int, rng *rec.Rng, tier string, stats map[string]int) {
			c12loopRun(out, c12loopCases(tier)[idx], stats)
		},
	}
}

type c12loopCase struct {
	n    int
	vals []int
}

func c12loopCases(tier string) []c12loopCase {
	var cs []c12loopCase
	maxN := 6
	if tier == "thorough" {
		maxN = 24
	}
	for n := 1; n <= maxN; n++ {
		up := make([]int, n) // 1, 2, …, n: n rounds
		for i := range up {
			up[i] = i + 1
		}
		cs = append(cs, c12loopCase{n, up})
		cs = append(cs, c12loopCase{n, []int{n + 3}}) // leaves at once
		if n >= 2 {
			cs = append(cs, c12loopCase{n, []int{0, 0, 1, 0, n}}) // stays low for a while
		}
	}
	return cs
}

func c12loopRun(out *rec.Out, c c12loopCase, stats map[string]int) {
	g := eng.NewGraph()
	st := g.Add("startEvent", "s", "")
	m := g.Add("exclusiveGateway", "M", "")
	u := g.Add("subProcess", "U", "")
	us := g.Add("startEvent", "us", u.ID)
	b := g.Add("task", "B", u.ID)
	b.Results = []string{"c"}
	ue := g.Add("endEvent", "ue", u.ID)
	x := g.Add("exclusiveGateway", "X", "")
	en := g.Add("endEvent", "e", "")
	g.Connect(st, m, nil)
	g.Connect(m, u, nil)
	g.Connect(us, b, nil)
	g.Connect(b, ue, nil)
	g.Connect(u, x, nil)
	g.Connect(x, m, &eng.Cond{Op: "lt", Var: "c", K: c.n})
	d := g.Connect(x, en, nil)
	x.Default = d.ID

	vs := make([]any, len(c.vals))
	for i, v := range c.vals {
		vs[i] = v
	}
	out.Begin("c12loop", append([]any{c.n}, vs...)...)
	defer out.End()
	in, _, err := eng.Start(g.XML(), map[string]any{"c": 0})
	if err != nil {
		out.Line("harness-error %v", err)
		return
	}
	stats["cases"]++
	stats[fmt.Sprintf("bound_%d", c.n)]++
	stats[fmt.Sprintf("rounds_%d", len(c.vals))]++
	for _, v := range c.vals {
		if !in.Quiesce(6 * timeSecond) {
			in.Note("obs noquiesce")
			break
		}
		in.Note("c12loop answer %d", v)
		ok := false
		for _, q := range in.Pending() {
			if q.Node == "B" {
				in.AnswerOK(q, map[string]int{"c": v})
				ok = true
				break
			}
		}
		if !ok {
			in.Note("obs norequest B")
			break
		}
	}
	in.Quiesce(6 * timeSecond)
	for _, l := range in.Lines() {
		out.Line("%s", l)
	}
	out.Line("c12loop done %d", rec.B(in.WaitComplete(3*timeSecond)))
	in.Stop(2 * timeSecond)
}
