package main

import (
	"fmt"
	"sync"
	"time"

	"github.com/olive-io/bpmn/v2/pkg/event"
	"github.com/olive-io/bpmn/v2/pkg/tracing"

	"verifharness/internal/eng"
	"verifharness/internal/rec"
)

// Family c06burst: the decisive competing event arrives at the END OF A BURST of events that decide nothing (unrelated
// signals handed in back to back from one or two goroutines), while a slow trace subscriber holds every node loop up — the
// inboxes of the listening catch events are full when the decisive event comes. It is still delivered: exactly one
// determination, the winner's task requested, the instance completes.
//
//	start -> G ; G -> C_j -> T_j -> end   (k = 2..3 alternatives) ; burst = n x signal "zz", then the event of alternative w
func init() {
	caseFamilies["c06burst"] = &caseFamily{
		Shard: 1, Par: 6,
		Count: func(tier string) int { return len(c06burstCases()) },
		Run: func(out *rec.Out, idx int, rng *rec.Rng, tier string, stats map[string]int) {
			c := c06burstCases()[idx]
			c06burstRun(out, c[0], c[1], c[2], c[3], stats)
		},
	}
}

func c06burstCases() [][4]int {
	var cs [][4]int
	for k := 2; k <= 3; k++ {
		for w := 0; w < k; w++ {
			for _, n := range []int{4, 8} {
				for g := 1; g <= 2; g++ {
					cs = append(cs, [4]int{k, w, n, g})
				}
			}
		}
	}
	return cs
}

func c06burstRun(out *rec.Out, k, w, n, g int, stats map[string]int) {
	gr := eng.NewGraph()
	gw := gr.Add("eventBasedGateway", "G", "")
	st := gr.Add("startEvent", "start", "")
	en := gr.Add("endEvent", "end", "")
	gr.Connect(st, gw, nil)
	for j := 0; j < k; j++ {
		ce := gr.Add("intermediateCatchEvent", fmt.Sprintf("C%d", j), "")
		ce.Defs = []eng.EventDef{{Kind: c06kinds[j], Name: c06names[j]}}
		t := gr.Add("task", fmt.Sprintf("T%d", j), "")
		gr.Connect(gw, ce, nil)
		gr.Connect(ce, t, nil)
		gr.Connect(t, en, nil)
	}
	out.Begin("c06burst", k, w, n, g)
	defer out.End()
	in, _, err := eng.Start(gr.XML(), nil)
	if err != nil {
		out.Line("harness-error %v", err)
		return
	}
	stats["cases"]++
	// the slow subscriber: one slot, a millisecond per trace
	slowStop := make(chan struct{})
	ch := in.Proc.Tracer().SubscribeChannel(make(chan tracing.ITrace, 1))
	go func() {
		for {
			select {
			case _, open := <-ch:
				if !open {
					return
				}
				time.Sleep(time.Millisecond)
			case <-slowStop:
				for range ch {
				}
				return
			}
		}
	}()
	in.Quiesce(6 * timeSecond)
	if g == 2 {
		// the FIRST two deliveries overlap for sure: a passive consumer of the instance holds each of them until the other
		// has got as far (or 300 ms have passed) — both have walked past the same consumers when either goes on
		if err := in.Proc.RegisterEventConsumer(&c06rendezvous{arrived: make(chan struct{}, 2), both: make(chan struct{})}); err == nil {
			stats["first_two_deliveries_overlap"]++
		}
	}
	evs := make([]event.IEvent, 0, n+1)
	for i := 0; i < n; i++ {
		evs = append(evs, event.NewSignalEvent("zz"))
	}
	if c06kinds[w] == "message" {
		evs = append(evs, event.NewMessageEvent(c06names[w], nil))
	} else {
		evs = append(evs, event.NewSignalEvent(c06names[w]))
	}
	in.Op("burst %d zz*%d,%s", g, n, c06names[w])
	var wg sync.WaitGroup
	for q := 0; q < g; q++ {
		wg.Add(1)
		go func(q int) {
			defer wg.Done()
			defer func() {
				if r := recover(); r != nil {
					in.Note("obs panic %v", r)
				}
			}()
			for i := q; i < len(evs); i += g {
				in.Proc.ConsumeEvent(evs[i])
			}
		}(q)
	}
	done := make(chan struct{})
	go func() { wg.Wait(); close(done) }()
	select {
	case <-done:
		in.Note("obs ret deliver burst returned")
	case <-time.After(10 * time.Second):
		in.Note("obs ret deliver burst blocked")
	}
	close(slowStop)
	in.Quiesce(8 * timeSecond)
	for _, q := range in.Pending() {
		in.AnswerOK(q, nil)
	}
	in.Quiesce(6 * timeSecond)
	for _, l := range in.Lines() {
		out.Line("%s", l)
	}
	out.Line("c06burst done %d", rec.B(in.WaitComplete(3*timeSecond)))
	in.Stop(2 * timeSecond)
}

// c06rendezvous consumes everything; its first two calls wait for each other.
type c06rendezvous struct {
	mu      sync.Mutex
	n       int
	arrived chan struct{}
	both    chan struct{}
}

func (r *c06rendezvous) ConsumeEvent(ev event.IEvent) (event.ConsumptionResult, error) {
	r.mu.Lock()
	r.n++
	k := r.n
	if k == 2 {
		close(r.both)
	}
	r.mu.Unlock()
	if k <= 2 {
		select {
		case <-r.both:
		case <-time.After(300 * time.Millisecond):
		}
	}
	return event.Consumed, nil
}
