package main

import (
	"fmt"

	"verifharness/internal/eng"
	"verifharness/internal/rec"
)

// Families c12turns / c09turns: SEVERAL TOKENS INSIDE ONE SUB-PROCESS NODE AT THE SAME TIME (D43). A parallel fork sends k
// tokens straight into sub-process node U (K tasks in a chain inside; optionally one more sub-process level around them);
// task C behind U. The driver answers at quiescence, so all k tokens have reached U before the first inner answer.
//
//	s -> F(par) =k=> U[ us -> T1 -> … -> TK -> ue ] -> C -> e
//
// Every token runs the content once (K requests each), leaves U once, requests C once; nothing is relayed twice and the
// instance does not cease while a request of the content is open. `order`: which open request is answered next (first /
// last: C before the next activation's content or after it). Recorded like a C01 case: c12turns is replayed through the
// engine model (activations take turns), c09turns through the causality grammar of the trace stream.
func init() {
	for _, fam := range []string{"c12turns", "c09turns"} {
		fam := fam
		caseFamilies[fam] = &caseFamily{
			Shard: 1, Par: 6,
			Count: func(tier string) int { return len(c12turnsCases()) },
			Run: func(out *rec.Out, idx int, rng *rec.Rng, tier string, stats map[string]int) {
				c12turnsRun(out, fam, c12turnsCases()[idx], stats)
			},
		}
	}
}

type c12turnsCase struct {
	k, chain int
	nested   bool
	last     bool
}

func c12turnsCases() []c12turnsCase {
	var cs []c12turnsCase
	for k := 2; k <= 3; k++ {
		for chain := 1; chain <= 2; chain++ {
			for _, nested := range []bool{false, true} {
				for _, last := range []bool{false, true} {
					cs = append(cs, c12turnsCase{k, chain, nested, last})
				}
			}
		}
	}
	return cs
}

func c12turnsRun(out *rec.Out, fam string, c c12turnsCase, stats map[string]int) {
	g := eng.NewGraph()
	st := g.Add("startEvent", "s", "")
	f := g.Add("parallelGateway", "F", "")
	u := g.Add("subProcess", "U", "")
	scope := u.ID
	us := g.Add("startEvent", "us", u.ID)
	ue := g.Add("endEvent", "ue", u.ID)
	prev, last := us, ue
	if c.nested {
		v := g.Add("subProcess", "V", u.ID)
		g.Connect(us, v, nil)
		g.Connect(v, ue, nil)
		scope = v.ID
		prev = g.Add("startEvent", "vs", v.ID)
		last = g.Add("endEvent", "ve", v.ID)
	}
	for i := 1; i <= c.chain; i++ {
		t := g.Add("task", fmt.Sprintf("T%d", i), scope)
		g.Connect(prev, t, nil)
		prev = t
	}
	g.Connect(prev, last, nil)
	cc := g.Add("task", "C", "")
	en := g.Add("endEvent", "e", "")
	g.Connect(st, f, nil)
	for i := 0; i < c.k; i++ {
		g.Connect(f, u, nil)
	}
	g.Connect(u, cc, nil)
	g.Connect(cc, en, nil)
	out.Begin(fam, c.k, c.chain, rec.B(c.nested), rec.B(c.last))
	defer out.End()
	in, defs, err := eng.Start(g.XML(), map[string]any{})
	if err != nil {
		out.Line("harness-error %v", err)
		return
	}
	for _, ln := range eng.ProgLines(&(*defs.Processes())[0], g.CondRPN) {
		out.Line("prog %s", ln)
	}
	out.Line("prog vars %s", fmtVars(map[string]int{}))
	stats["cases"]++
	stats[fmt.Sprintf("tokens_in_one_subprocess_%d", c.k)]++
	for steps := 0; steps < 40; steps++ {
		if !in.Quiesce(4 * timeSecond) {
			in.Note("obs noquiesce")
			break
		}
		p := in.Pending()
		if len(p) == 0 {
			break
		}
		q := p[0]
		if c.last {
			q = p[len(p)-1]
		}
		in.AnswerOK(q, nil)
	}
	complete := in.WaitComplete(300 * timeMillisecond)
	in.Quiesce(2 * timeSecond)
	for _, ln := range in.Lines() {
		out.Line("%s", ln)
	}
	out.Line("obs final complete=%d vars=%s", rec.B(complete), in.Vars())
	in.Stop(2 * timeSecond)
}
