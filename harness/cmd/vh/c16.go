package main

// Family c16 — values survive storage; nothing panics (schema.NewValue / ValueFrom / ValueFor,
// pkg/data variable store, `$name.path` references, engine-level round trip).
//
// Line grammar (all strings are dot-separated decimal code points, "" = empty):
//
//   Go value   G ::= nil | b0 | b1 | i:<kind>:<n> | f:<32|64>:<neg>:<m>:<e>:<%v text>:<%v text at own width>
//                  | s:<cps> | sl<n> G… | mp<n> (k:<cps> G)… | st<n> (k:<cps> G)… | p G | np:<kind>
//                  | vp:<type cps>:<cps> | nvp | op:<kind>
//   document   J ::= z | b0 | b1 | #<neg>:<m>:<e> | s:<cps> | a<n> J… | o<n> (k:<cps> J)…
//   read-back  R ::= s:<cps> | i:<n> | b0 | b1 | f:<neg>:<m>:<e> | j J | nil
//
//   fn case     : `in <decl|-> G`            the call ValueFrom(value) on &Value{ItemType: decl} (- = NewValue)
//                 `out panic <kind>` | `out ok <type cps> c:<cps>` | `out ok <type cps> j J`   (ItemValue as chars / parsed)
//                 `back R`                    Value() of the result (absent after a panic)
//   store case  : `new <a>` `set <a> <key> G` → `ret ok|panic` ; `get <a> <key>` → `got 0` | `got 1 R`
//                 `clone <a> <c>` ; `cget <c> <key>` → `got …` ; `cset <c> <key> G` ; `cdel <c> <key>`
//   ref case    : `set`/`ret` as above on store 0, then `ref <ref>` → `found <0|1> R`
//                 `prop <type cps> <ref>` → `pout panic` | `pout ok <type> c|j …`
//                 `hdr <value cps> <ref>` → `hout panic` | `hout <cps>`
//   engine case : see c16engine.go

import (
	"bytes"
	stdjson "encoding/json"
	"fmt"
	"math"
	"math/big"
	"reflect"
	"sort"
	"strconv"
	"strings"

	"github.com/olive-io/bpmn/schema"
	bpmn "github.com/olive-io/bpmn/v2"
	"github.com/olive-io/bpmn/v2/pkg/data"

	"verifharness/internal/rec"
)

func init() { families["c16"] = c16 }

// ---------------------------------------------------------------- encodings

func c16cps(s string) string {
	var sb strings.Builder
	first := true
	for _, r := range s {
		if !first {
			sb.WriteByte('.')
		}
		first = false
		sb.WriteString(strconv.Itoa(int(r)))
	}
	return sb.String()
}

// c16mant returns (neg, m, e) with |x| = m·2^e exactly (x finite).
func c16mant(x float64) (int, uint64, int) {
	bits := math.Float64bits(x)
	neg := int(bits >> 63)
	exp := int((bits >> 52) & 0x7ff)
	frac := bits & ((1 << 52) - 1)
	if exp == 0 {
		return neg, frac, -1074
	}
	return neg, frac | (1 << 52), exp - 1075
}

// gv is a Go value together with its description.
type c16gv struct {
	v any
	d []string
}

func c16nil() c16gv { return c16gv{nil, []string{"nil"}} }
func c16bool(b bool) c16gv {
	return c16gv{b, []string{fmt.Sprintf("b%d", rec.B(b))}}
}

var c16intKinds = []string{"int", "int8", "int16", "int32", "int64", "uint", "uint8", "uint16", "uint32", "uint64"}

// c16int builds a value of the named integer type from the low bits of n (signed kinds) or u (unsigned).
func c16int(kind string, n int64, u uint64) c16gv {
	var v any
	var txt string
	switch kind {
	case "int":
		v, txt = int(n), strconv.FormatInt(n, 10)
	case "int8":
		v, txt = int8(n), strconv.FormatInt(int64(int8(n)), 10)
	case "int16":
		v, txt = int16(n), strconv.FormatInt(int64(int16(n)), 10)
	case "int32":
		v, txt = int32(n), strconv.FormatInt(int64(int32(n)), 10)
	case "int64":
		v, txt = n, strconv.FormatInt(n, 10)
	case "uint":
		v, txt = uint(u), strconv.FormatUint(u, 10)
	case "uint8":
		v, txt = uint8(u), strconv.FormatUint(uint64(uint8(u)), 10)
	case "uint16":
		v, txt = uint16(u), strconv.FormatUint(uint64(uint16(u)), 10)
	case "uint32":
		v, txt = uint32(u), strconv.FormatUint(uint64(uint32(u)), 10)
	case "uint64":
		v, txt = u, strconv.FormatUint(u, 10)
	}
	return c16gv{v, []string{"i:" + kind + ":" + txt}}
}

func c16f64(x float64) c16gv {
	neg, m, e := c16mant(x)
	g := strconv.FormatFloat(x, 'g', -1, 64)
	return c16gv{x, []string{fmt.Sprintf("f:64:%d:%d:%d:%s:%s", neg, m, e, c16cps(g), c16cps(g))}}
}

func c16f32(x float32) c16gv {
	neg, m, e := c16mant(float64(x))
	g := strconv.FormatFloat(float64(x), 'g', -1, 64)
	short := strconv.FormatFloat(float64(x), 'g', -1, 32)
	return c16gv{x, []string{fmt.Sprintf("f:32:%d:%d:%d:%s:%s", neg, m, e, c16cps(g), c16cps(short))}}
}

func c16str(s string) c16gv { return c16gv{s, []string{"s:" + c16cps(s)}} }

func c16slice(items ...c16gv) c16gv {
	v := make([]any, len(items))
	d := []string{fmt.Sprintf("sl%d", len(items))}
	for i, it := range items {
		v[i] = it.v
		d = append(d, it.d...)
	}
	return c16gv{v, d}
}

// typed slices / arrays of one element type (the description is the same as for []any)
func c16typedSlice(items ...c16gv) c16gv {
	g := c16slice(items...)
	if len(items) == 0 {
		return g
	}
	t := reflect.TypeOf(items[0].v)
	if t == nil {
		return g
	}
	sl := reflect.MakeSlice(reflect.SliceOf(t), len(items), len(items))
	for i, it := range items {
		if reflect.TypeOf(it.v) != t {
			return g
		}
		sl.Index(i).Set(reflect.ValueOf(it.v))
	}
	return c16gv{sl.Interface(), g.d}
}

func c16array3(a, b, c int) c16gv {
	return c16gv{[3]int{a, b, c}, []string{"sl3", fmt.Sprintf("i:int:%d", a), fmt.Sprintf("i:int:%d", b), fmt.Sprintf("i:int:%d", c)}}
}

type c16kv struct {
	k string
	v c16gv
}

func c16map(kvs ...c16kv) c16gv {
	m := map[string]any{}
	d := []string{fmt.Sprintf("mp%d", len(kvs))}
	for _, kv := range kvs {
		m[kv.k] = kv.v.v
		d = append(d, "k:"+c16cps(kv.k))
		d = append(d, kv.v.d...)
	}
	return c16gv{m, d}
}

func c16mapStrInt(kvs map[string]int) c16gv {
	keys := make([]string, 0, len(kvs))
	for k := range kvs {
		keys = append(keys, k)
	}
	sort.Strings(keys)
	d := []string{fmt.Sprintf("mp%d", len(keys))}
	for _, k := range keys {
		d = append(d, "k:"+c16cps(k), fmt.Sprintf("i:int:%d", kvs[k]))
	}
	return c16gv{kvs, d}
}

type C16Inner struct {
	X int64   `json:"x"`
	Y float64 `json:"y"`
}

type C16Struct struct {
	A      int      `json:"a"`
	B      string   `json:"b"`
	C      *int     `json:"c"`
	N      C16Inner `json:"n"`
	L      []any    `json:"l"`
	U      uint16   `json:"u"`
	Flag   bool     `json:"flag"`
	hidden int
}

func c16struct(a int, b string, c *int, x int64, y float64, l []c16gv, u uint16, flag bool) c16gv {
	s := C16Struct{A: a, B: b, C: c, N: C16Inner{X: x, Y: y}, U: u, Flag: flag, hidden: 7}
	d := []string{"st7", "k:" + c16cps("a"), fmt.Sprintf("i:int:%d", a), "k:" + c16cps("b"), "s:" + c16cps(b), "k:" + c16cps("c")}
	if c == nil {
		d = append(d, "np:int")
	} else {
		d = append(d, "p", fmt.Sprintf("i:int:%d", *c))
	}
	d = append(d, "k:"+c16cps("n"), "st2", "k:"+c16cps("x"), fmt.Sprintf("i:int64:%d", x), "k:"+c16cps("y"))
	d = append(d, c16f64(y).d...)
	d = append(d, "k:"+c16cps("l"))
	if l == nil {
		d = append(d, "nil") // a nil []any field marshals as null
	} else {
		sl := c16slice(l...)
		s.L = sl.v.([]any)
		d = append(d, sl.d...)
	}
	d = append(d, "k:"+c16cps("u"), fmt.Sprintf("i:uint16:%d", u), "k:"+c16cps("flag"), fmt.Sprintf("b%d", rec.B(flag)))
	return c16gv{s, d}
}

func c16ptr(x c16gv) c16gv {
	if x.v == nil {
		return x
	}
	p := reflect.New(reflect.TypeOf(x.v))
	p.Elem().Set(reflect.ValueOf(x.v))
	return c16gv{p.Interface(), append([]string{"p"}, x.d...)}
}

func c16kindName(k reflect.Kind) string {
	switch k {
	case reflect.Float32, reflect.Float64, reflect.Bool, reflect.String, reflect.Slice, reflect.Map, reflect.Struct,
		reflect.Array, reflect.Uintptr, reflect.Int, reflect.Int8, reflect.Int16, reflect.Int32, reflect.Int64,
		reflect.Uint, reflect.Uint8, reflect.Uint16, reflect.Uint32, reflect.Uint64:
		return k.String()
	case reflect.Pointer:
		return "pointer"
	case reflect.Complex64, reflect.Complex128:
		return "complex"
	}
	return "other"
}

// nil pointer to a value of x's type
func c16nilPtrTo(x any) c16gv {
	t := reflect.TypeOf(x)
	return c16gv{reflect.Zero(reflect.PointerTo(t)).Interface(), []string{"np:" + c16kindName(t.Kind())}}
}

func c16valuePtr(ty, s string) c16gv {
	return c16gv{&schema.Value{ItemType: schema.ItemType(ty), ItemValue: s}, []string{"vp:" + c16cps(ty) + ":" + c16cps(s)}}
}

func c16opaque(v any) c16gv {
	return c16gv{v, []string{"op:" + c16kindName(reflect.TypeOf(v).Kind())}}
}

// ---- documents

func c16numTok(neg int, m *big.Int, e int) string {
	return fmt.Sprintf("#%d:%s:%d", neg, m.String(), e)
}

func c16floatTok(x float64) string {
	neg, m, e := c16mant(x)
	return c16numTok(neg, new(big.Int).SetUint64(m), e)
}

// c16doc describes a decoded JSON tree (numbers as json.Number keep integers exact; float64 as they are).
func c16doc(x any, out []string) []string {
	switch t := x.(type) {
	case nil:
		return append(out, "z")
	case bool:
		return append(out, fmt.Sprintf("b%d", rec.B(t)))
	case float64:
		return append(out, c16floatTok(t))
	case stdjson.Number:
		s := string(t)
		if bi, ok := new(big.Int).SetString(s, 10); ok && !strings.ContainsAny(s, ".eE") {
			neg := 0
			if bi.Sign() < 0 || strings.HasPrefix(s, "-") {
				neg = 1
			}
			return append(out, c16numTok(neg, new(big.Int).Abs(bi), 0))
		}
		f, _ := strconv.ParseFloat(s, 64)
		return append(out, c16floatTok(f))
	case string:
		return append(out, "s:"+c16cps(t))
	case []any:
		if t == nil {
			return append(out, "z")
		}
		out = append(out, fmt.Sprintf("a%d", len(t)))
		for _, it := range t {
			out = c16doc(it, out)
		}
		return out
	case map[string]any:
		if t == nil {
			return append(out, "z")
		}
		keys := make([]string, 0, len(t))
		for k := range t {
			keys = append(keys, k)
		}
		sort.Strings(keys)
		out = append(out, fmt.Sprintf("o%d", len(keys)))
		for _, k := range keys {
			out = append(out, "k:"+c16cps(k))
			out = c16doc(t[k], out)
		}
		return out
	}
	return append(out, "?"+fmt.Sprintf("%T", x))
}

// c16parseDoc parses a JSON text with the standard library (independent of sonic), integers kept exact.
func c16parseDoc(text string) (any, bool) {
	dec := stdjson.NewDecoder(bytes.NewReader([]byte(text)))
	dec.UseNumber()
	var x any
	if err := dec.Decode(&x); err != nil {
		return nil, false
	}
	if dec.More() {
		return nil, false
	}
	return x, true
}

// c16back describes what Value() returned.
func c16back(x any) string {
	switch t := x.(type) {
	case nil:
		return "nil"
	case string:
		return "s:" + c16cps(t)
	case int64:
		return fmt.Sprintf("i:%d", t)
	case bool:
		return fmt.Sprintf("b%d", rec.B(t))
	case float64:
		if math.IsNaN(t) || math.IsInf(t, 0) {
			return "f:nonfinite"
		}
		neg, m, e := c16mant(t)
		return fmt.Sprintf("f:%d:%d:%d", neg, m, e)
	case []any, map[string]any:
		return "j " + strings.Join(c16doc(x, nil), " ")
	}
	return "?" + fmt.Sprintf("%T", x)
}

// c16outValue describes a *schema.Value: type, then ItemValue as characters or (array/object with a
// parseable text) as a parsed document, so that sonic's map order does not show.
func c16outValue(v *schema.Value) string {
	ty := c16cps(string(v.ItemType))
	if ty == "" {
		ty = "-"
	}
	if v.ItemType == schema.ItemTypeArray || v.ItemType == schema.ItemTypeObject {
		if x, ok := c16parseDoc(v.ItemValue); ok {
			return fmt.Sprintf("%s j %s", ty, strings.Join(c16doc(x, nil), " "))
		}
	}
	return fmt.Sprintf("%s c:%s", ty, c16cps(v.ItemValue))
}

func c16panicKind(r any) string {
	s := fmt.Sprint(r)
	switch {
	case strings.Contains(s, "reflect.Value.Int"):
		return "reflect_int"
	case strings.Contains(s, "reflect.Value.Uint"):
		return "reflect_uint"
	case strings.Contains(s, "reflect.Value."):
		return "reflect_other"
	case strings.Contains(s, "nil pointer dereference"):
		return "nil_deref"
	}
	return "other"
}

// ---------------------------------------------------------------- fn cases

var c16decls = []string{"-", "string", "integer", "boolean", "float", "array", "object", "bogus"}

// one call of ValueFrom under recover
func c16call(decl string, x any) (v *schema.Value, back any, pk string) {
	defer func() {
		if r := recover(); r != nil {
			pk = c16panicKind(r)
		}
	}()
	if decl == "-" {
		v = schema.NewValue(x)
	} else {
		v = &schema.Value{ItemType: schema.ItemType(decl)}
		v.ValueFrom(x)
	}
	back = v.Value()
	return
}

func c16fnCase(out *rec.Out, g c16gv, label string, stats map[string]int) {
	out.Begin("c16", "fn", label)
	for _, decl := range c16decls {
		dtok := decl
		if decl != "-" {
			dtok = c16cps(decl)
		}
		out.Line("in %s %s", dtok, strings.Join(g.d, " "))
		v, back, pk := c16call(decl, g.v)
		if pk != "" {
			out.Line("out panic %s", pk)
			stats["fn_panics"]++
			continue
		}
		out.Line("out ok %s", c16outValue(v))
		out.Line("back %s", c16back(back))
		stats["fn_calls"]++
	}
	out.End()
	stats["cases"]++
	stats["fn_"+label]++
}

func c16boundaryInts() []c16gv {
	var res []c16gv
	type rg struct {
		kind     string
		min, max int64
		umax     uint64
	}
	rs := []rg{
		{"int", math.MinInt64, math.MaxInt64, 0}, {"int8", math.MinInt8, math.MaxInt8, 0},
		{"int16", math.MinInt16, math.MaxInt16, 0}, {"int32", math.MinInt32, math.MaxInt32, 0},
		{"int64", math.MinInt64, math.MaxInt64, 0},
		{"uint", 0, 0, math.MaxUint64}, {"uint8", 0, 0, math.MaxUint8}, {"uint16", 0, 0, math.MaxUint16},
		{"uint32", 0, 0, math.MaxUint32}, {"uint64", 0, 0, math.MaxUint64},
	}
	for _, r := range rs {
		if r.umax == 0 {
			for _, n := range []int64{r.min, r.min + 1, -1, 0, 1, 42, r.max - 1, r.max} {
				res = append(res, c16int(r.kind, n, 0))
			}
		} else {
			us := []uint64{0, 1, 42, r.umax - 1, r.umax}
			if r.umax > math.MaxInt64 {
				us = append(us, math.MaxInt64, math.MaxInt64-1, uint64(math.MaxInt64)+1)
			}
			for _, u := range us {
				res = append(res, c16int(r.kind, 0, u))
			}
		}
	}
	return res
}

func c16floats(rng *rec.Rng, nRandom int) []c16gv {
	xs := []float64{0, math.Copysign(0, -1), 1, -1, 0.1, 0.5, -0.25, 1e-7, 1.5e-7, -1e-7, 0.1234567, 0.000001, 0.0000005,
		0.0000015, 0.0000025, 123456.789, 1e6, 1e15, 1e20, 1e21, 1e22, 1.5e300, -1.5e300, math.MaxFloat64,
		math.SmallestNonzeroFloat64, 2.2250738585072014e-308, 9007199254740992, 9007199254740994, 1.0 / 3, 2.0 / 3,
		3.141592653589793, 0.30000000000000004, 1e100, 4.35, 2.675, 1234567.125, 0.0009765625, 65536.000001}
	var res []c16gv
	for _, x := range xs {
		res = append(res, c16f64(x))
	}
	for _, x := range []float32{0, 0.1, 1.5, 16777216, math.MaxFloat32, 1e-7, 0.2, -3.25, 1.0 / 3} {
		res = append(res, c16f32(x))
	}
	for i := 0; i < nRandom; i++ {
		var x float64
		for {
			switch rng.Intn(3) {
			case 0:
				x = math.Float64frombits(rng.U64())
			case 1: // moderate magnitudes with many decimals
				x = float64(int64(rng.U64()%2000000000000)-1000000000000) / float64(1+rng.Intn(10000000))
			default: // exactly representable with few decimals
				x = float64(int64(rng.U64()%2000000)-1000000) / 64
			}
			if !math.IsNaN(x) && !math.IsInf(x, 0) {
				break
			}
		}
		if rng.Intn(6) == 0 {
			res = append(res, c16f32(float32(x/1e300)))
		} else {
			res = append(res, c16f64(x))
		}
	}
	return res
}

func c16strings() []string {
	long := strings.Repeat("xy", 600)
	return []string{"", "a", "héllo wörld ✓ 日本語 🎉", "q\"uo\\te\n\ttab", "true", "false", "TRUE", "12", "-12", "+12", "1.5",
		"[1,2]", "[]", "{\"a\":1}", "null", " 12", "9223372036854775807", "9223372036854775808", "-9223372036854775808",
		"-9223372036854775809", "1e3", "1E-2", "-0.5", ".5", "5.", "abc", "12a", "[1,", "{}", "[\"x\",{\"k\":null}]", "-", "+", "e5",
		"é", "$", long}
}

// random composite
func c16randTree(rng *rec.Rng, depth int) c16gv {
	if depth <= 0 || rng.Intn(4) == 0 {
		switch rng.Intn(7) {
		case 0:
			return c16nil()
		case 1:
			return c16bool(rng.Bool())
		case 2:
			k := c16intKinds[rng.Intn(len(c16intKinds))]
			n := int64(rng.U64())
			if rng.Bool() {
				n = int64(rng.Intn(2000)) - 1000
			}
			u := rng.U64() >> uint(rng.Intn(64))
			return c16int(k, n, u)
		case 3:
			return c16f64(float64(int64(rng.U64()%2000000)-1000000) / float64(int(1)<<uint(rng.Intn(12))))
		case 4:
			return c16f64(math.Float64frombits(rng.U64()&0x7fefffffffffffff | (rng.U64() & (1 << 63))))
		default:
			alphabet := []string{"a", "b", "é", "日", "🎉", "\"", "\\", " ", "z", "0", "\n", "<", "&"}
			n := rng.Intn(6)
			s := ""
			for i := 0; i < n; i++ {
				s += alphabet[rng.Intn(len(alphabet))]
			}
			return c16str(s)
		}
	}
	switch rng.Intn(5) {
	case 0, 1:
		n := rng.Intn(4)
		items := make([]c16gv, n)
		for i := range items {
			items[i] = c16randTree(rng, depth-1)
		}
		return c16slice(items...)
	case 2, 3:
		n := rng.Intn(4)
		var kvs []c16kv
		seen := map[string]bool{}
		for i := 0; i < n; i++ {
			k := []string{"a", "b", "k", "é", "zz", "A", "a b", "日本", "", "10", "9"}[rng.Intn(11)]
			if seen[k] {
				continue
			}
			seen[k] = true
			kvs = append(kvs, c16kv{k, c16randTree(rng, depth-1)})
		}
		return c16map(kvs...)
	default:
		inner := c16randTree(rng, depth-1)
		if inner.v == nil {
			return inner
		}
		return c16ptr(inner)
	}
}

func c16nest(depth int, leaf c16gv, useMap bool) c16gv {
	g := leaf
	for i := 0; i < depth; i++ {
		if useMap && i%2 == 1 {
			g = c16map(c16kv{"k", g})
		} else {
			g = c16slice(g)
		}
	}
	return g
}

func c16fn(out *rec.Out, rng *rec.Rng, tier string, stats map[string]int) {
	thorough := tier == "thorough"
	for _, g := range c16boundaryInts() {
		c16fnCase(out, g, "int", stats)
	}
	nf := 150
	if thorough {
		nf = 4000
	}
	for _, g := range c16floats(rng, nf) {
		c16fnCase(out, g, "float", stats)
	}
	for _, s := range c16strings() {
		c16fnCase(out, c16str(s), "string", stats)
	}
	c16fnCase(out, c16bool(true), "bool", stats)
	c16fnCase(out, c16bool(false), "bool", stats)
	c16fnCase(out, c16nil(), "nil", stats)

	one, big := 1, 1<<53+1
	var np *int
	ppi := &np
	pone := &one
	pointers := []c16gv{
		c16ptr(c16int("int", 5, 0)), c16ptr(c16int("uint8", 0, 200)), c16ptr(c16int("int64", math.MinInt64, 0)),
		c16ptr(c16f64(2.5)), c16ptr(c16f64(1e-7)), c16ptr(c16f32(0.1)), c16ptr(c16str("pé")), c16ptr(c16bool(true)),
		c16nilPtrTo(0), c16nilPtrTo("s"), c16nilPtrTo(1.5), c16nilPtrTo(C16Struct{}), c16nilPtrTo(map[string]any{}),
		c16nilPtrTo([]any{}), c16nilPtrTo(np),
		{ppi, []string{"p", "np:int"}}, {&pone, []string{"p", "p", "i:int:1"}},
		c16valuePtr("integer", "3"), c16valuePtr("string", "x"), c16valuePtr("", ""), c16valuePtr("array", "[1]"),
		{(*schema.Value)(nil), []string{"nvp"}},
		c16opaque(make(chan int)), c16opaque(func() {}), c16opaque(complex(1, 2)), c16opaque(uintptr(3)),
	}
	for _, g := range pointers {
		c16fnCase(out, g, "pointer_or_opaque", stats)
	}

	composites := []c16gv{
		c16slice(), c16map(), c16slice(c16nil()), c16slice(c16int("int", 1, 0), c16str("a"), c16nil(), c16f64(2.5), c16bool(true)),
		c16typedSlice(c16int("int32", 1, 0), c16int("int32", 2, 0), c16int("int32", -3, 0)),
		c16typedSlice(c16str("x"), c16str("日本"), c16str("")),
		c16typedSlice(c16f64(1e100), c16f64(1e-7), c16f64(3), c16f64(0.1)),
		c16typedSlice(c16int("uint64", 0, math.MaxUint64), c16int("uint64", 0, 1)),
		c16typedSlice(c16int("int64", math.MaxInt64, 0), c16int("int64", math.MinInt64, 0), c16int("int64", int64(big), 0)),
		c16typedSlice(c16bool(true), c16bool(false)),
		c16array3(1, 2, 3),
		c16map(c16kv{"b", c16int("int", 1, 0)}, c16kv{"a", c16typedSlice(c16int("int", 1, 0))}),
		c16map(c16kv{"é", c16str("ü")}, c16kv{"", c16nil()}, c16kv{"Z", c16bool(false)}, c16kv{"a b", c16f64(-0.5)}),
		c16mapStrInt(map[string]int{"x": 1, "y": -2, "": 0}),
		c16map(c16kv{"name", c16str("cc")}),
		c16struct(1, "x", nil, 7, 0.25, nil, 9, true),
		c16struct(-5, "日本 \"q\"", &one, math.MinInt64, 1e-7, []c16gv{c16int("int", 1, 0), c16str("s")}, 65535, false),
		c16ptr(c16struct(2, "", nil, 0, 0, []c16gv{}, 0, false)),
		c16ptr(c16map(c16kv{"k", c16slice(c16int("int8", -128, 0))})),
		c16ptr(c16slice(c16int("int", 1, 0), c16int("int", 2, 0))),
		c16slice(c16ptr(c16int("int", 4, 0)), c16nilPtrTo(0), c16ptr(c16struct(0, "in", nil, 1, 2, nil, 3, true))),
		c16slice(c16valuePtr("integer", "3")),
	}
	depths := []int{1, 2, 3, 6, 12, 40}
	if thorough {
		depths = append(depths, 100, 400)
	}
	for _, d := range depths {
		composites = append(composites, c16nest(d, c16int("int", 7, 0), false), c16nest(d, c16str("leaf"), true),
			c16nest(d, c16nil(), true))
	}
	for _, g := range composites {
		c16fnCase(out, g, "composite", stats)
	}
	nr := 300
	if thorough {
		nr = 6000
	}
	for i := 0; i < nr; i++ {
		c16fnCase(out, c16randTree(rng, 1+rng.Intn(5)), "random_tree", stats)
	}
}

// ---------------------------------------------------------------- store cases

func c16setVar(l data.IFlowDataLocator, k string, x any) (pk string) {
	defer func() {
		if r := recover(); r != nil {
			pk = c16panicKind(r)
		}
	}()
	l.SetVariable(k, x)
	return
}

func c16getLine(out *rec.Out, f func() (any, bool)) {
	defer func() {
		if r := recover(); r != nil {
			out.Line("got panic %s", c16panicKind(r))
		}
	}()
	x, ok := f()
	if !ok {
		out.Line("got 0")
		return
	}
	out.Line("got 1 %s", c16back(x))
}

// c16mutate edits a composite value in place (what a caller may do with "its copy"); false for scalars
func c16mutate(x any) bool {
	switch v := x.(type) {
	case map[string]any:
		for k, e := range v {
			if !c16mutate(e) {
				delete(v, k)
			}
			break
		}
		v["__edited"] = "by the caller"
		return true
	case []any:
		if len(v) == 0 {
			return false
		}
		if !c16mutate(v[0]) {
			v[0] = "edited by the caller"
		}
		return true
	}
	return false
}

func c16deepCopy(x any) any {
	switch v := x.(type) {
	case map[string]any:
		m := make(map[string]any, len(v))
		for k, e := range v {
			m[k] = c16deepCopy(e)
		}
		return m
	case []any:
		s := make([]any, len(v))
		for i, e := range v {
			s[i] = c16deepCopy(e)
		}
		return s
	}
	return x
}

func c16smallValue(rng *rec.Rng) c16gv {
	switch rng.Intn(8) {
	case 0:
		return c16int("int", int64(rng.Intn(100))-50, 0)
	case 1:
		return c16str([]string{"", "v", "é日", "12", "true"}[rng.Intn(5)])
	case 2:
		return c16bool(rng.Bool())
	case 3:
		return c16f64(float64(rng.Intn(64)) / 8)
	case 4:
		return c16nil()
	case 5:
		return c16int([]string{"uint", "uint8", "uint64"}[rng.Intn(3)], 0, uint64(rng.Intn(300)))
	default:
		return c16randTree(rng, 2)
	}
}

func c16storeCase(out *rec.Out, rng *rec.Rng, nops int, stats map[string]int) {
	out.Begin("c16", "store")
	keys := []string{"a", "b", "é", "k.1", ""}
	var locs []data.IFlowDataLocator
	var clones []map[string]data.IItem
	newLoc := func() {
		locs = append(locs, data.NewFlowDataLocator())
		out.Line("new %d", len(locs)-1)
	}
	newLoc()
	newLoc()
	for i := 0; i < nops; i++ {
		switch op := rng.Intn(10); {
		case op < 4:
			a := rng.Intn(len(locs))
			k := keys[rng.Intn(len(keys))]
			g := c16smallValue(rng)
			out.Line("set %d %s %s", a, "k:"+c16cps(k), strings.Join(g.d, " "))
			pk := c16setVar(locs[a], k, g.v)
			if pk != "" {
				out.Line("ret panic %s", pk)
				stats["store_set_panic"]++
			} else {
				out.Line("ret ok")
			}
			stats["store_set"]++
		case op < 6:
			a := rng.Intn(len(locs))
			k := keys[rng.Intn(len(keys))]
			if rng.Intn(3) == 0 {
				// the caller edits what it was handed, in place: later reads must not see that
				out.Line("getmut %d %s", a, "k:"+c16cps(k))
				c16getLine(out, func() (any, bool) {
					x, ok := locs[a].GetVariable(k)
					if ok {
						// the line is printed from the returned value BEFORE it is edited (c16getLine prints after return),
						// so hand back a rendering-safe copy and edit the original
						cp := c16deepCopy(x)
						if c16mutate(x) {
							stats["store_read_result_edited_in_place"]++
						}
						return cp, ok
					}
					return x, ok
				})
			} else {
				out.Line("get %d %s", a, "k:"+c16cps(k))
				c16getLine(out, func() (any, bool) { return locs[a].GetVariable(k) })
			}
			stats["store_get"]++
		case op == 6:
			a := rng.Intn(len(locs))
			clones = append(clones, locs[a].CloneVariables())
			out.Line("clone %d %d", a, len(clones)-1)
			stats["store_clone"]++
		case op == 7 && len(clones) > 0:
			c := rng.Intn(len(clones))
			k := keys[rng.Intn(len(keys))]
			out.Line("cget %d %s", c, "k:"+c16cps(k))
			c16getLine(out, func() (any, bool) {
				it, ok := clones[c][k]
				if !ok {
					return nil, false
				}
				return it.Value(), true
			})
		case op == 8 && len(clones) > 0:
			c := rng.Intn(len(clones))
			k := keys[rng.Intn(len(keys))]
			if rng.Bool() {
				out.Line("cdel %d %s", c, "k:"+c16cps(k))
				delete(clones[c], k)
			} else {
				g := c16int("int", int64(1000+i), 0)
				out.Line("cset %d %s %s", c, "k:"+c16cps(k), strings.Join(g.d, " "))
				clones[c][k] = schema.NewValue(g.v)
			}
			stats["store_clone_write"]++
		case op == 9 && len(locs) < 4:
			newLoc()
		}
	}
	// a composite value in every store, read, the result edited in place by the caller, read again (twice)
	for a := range locs {
		a := a
		g := c16randTree(rng, 3)
		out.Line("set %d %s %s", a, "k:"+c16cps("cmp"), strings.Join(g.d, " "))
		if pk := c16setVar(locs[a], "cmp", g.v); pk != "" {
			out.Line("ret panic %s", pk)
			continue
		}
		out.Line("ret ok")
		for rep := 0; rep < 2; rep++ {
			out.Line("getmut %d %s", a, "k:"+c16cps("cmp"))
			c16getLine(out, func() (any, bool) {
				x, ok := locs[a].GetVariable("cmp")
				if ok {
					cp := c16deepCopy(x)
					if c16mutate(x) {
						stats["store_read_result_edited_in_place"]++
					}
					return cp, ok
				}
				return x, ok
			})
			out.Line("get %d %s", a, "k:"+c16cps("cmp"))
			c16getLine(out, func() (any, bool) { return locs[a].GetVariable("cmp") })
		}
	}
	// final sweep: every key of every store and clone
	for a := range locs {
		for _, k := range keys {
			a, k := a, k
			out.Line("get %d %s", a, "k:"+c16cps(k))
			c16getLine(out, func() (any, bool) { return locs[a].GetVariable(k) })
		}
	}
	for c := range clones {
		for _, k := range keys {
			c, k := c, k
			out.Line("cget %d %s", c, "k:"+c16cps(k))
			c16getLine(out, func() (any, bool) {
				it, ok := clones[c][k]
				if !ok {
					return nil, false
				}
				return it.Value(), true
			})
		}
	}
	out.End()
	stats["cases"]++
	stats["store_cases"]++
}

// ---------------------------------------------------------------- ref cases

func c16taskElement(props, headers []*schema.Item) *schema.ServiceTask {
	st := schema.DefaultServiceTask()
	ext := schema.DefaultExtensionElements()
	if props != nil {
		ext.PropertiesField = &schema.Properties{Property: props}
	}
	if headers != nil {
		ext.TaskHeaderField = &schema.TaskHeader{Header: headers}
	}
	st.SetExtensionElements(&ext)
	return &st
}

func c16refCase(out *rec.Out, vars []c16kv, refs []string, stats map[string]int) {
	out.Begin("c16", "ref")
	l := data.NewFlowDataLocator()
	out.Line("new 0")
	for _, kv := range vars {
		out.Line("set 0 %s %s", "k:"+c16cps(kv.k), strings.Join(kv.v.d, " "))
		if pk := c16setVar(l, kv.k, kv.v.v); pk != "" {
			out.Line("ret panic %s", pk)
		} else {
			out.Line("ret ok")
		}
	}
	for _, ref := range refs {
		ref := ref
		out.Line("ref %s", "r:"+c16cps(ref))
		func() {
			defer func() {
				if r := recover(); r != nil {
					out.Line("found panic %s", c16panicKind(r))
				}
			}()
			x, ok := bpmn.VerifLocatorJSONGet(l, ref)
			out.Line("found %d %s", rec.B(ok), c16back(x))
		}()
		stats["ref_lookups"]++
		for _, ty := range []string{"string", "boolean", "array", "object", "integer"} {
			ty := ty
			out.Line("prop %s %s", c16cps(ty), "r:"+c16cps(ref))
			func() {
				defer func() {
					if r := recover(); r != nil {
						out.Line("pout panic %s", c16panicKind(r))
						stats["ref_prop_panics"]++
					}
				}()
				el := c16taskElement([]*schema.Item{{Name: "p", Type: schema.ItemType(ty), Ref: ref}}, nil)
				_, props, _ := bpmn.FetchTaskDataInput(l, el)
				v, _ := props["p"].(*schema.Value)
				if v == nil {
					out.Line("pout missing")
					return
				}
				out.Line("pout ok %s", c16outValue(v))
			}()
		}
		out.Line("hdr %s %s", "v:"+c16cps("dflt"), "r:"+c16cps(ref))
		func() {
			defer func() {
				if r := recover(); r != nil {
					out.Line("hout panic %s", c16panicKind(r))
				}
			}()
			el := c16taskElement(nil, []*schema.Item{{Name: "h", Value: "dflt", Type: schema.ItemTypeString, Ref: ref}})
			hs, _, _ := bpmn.FetchTaskDataInput(l, el)
			out.Line("hout %s", "v:"+c16cps(hs["h"]))
		}()
	}
	out.End()
	stats["cases"]++
	stats["ref_cases"]++
}

func c16refs(out *rec.Out, rng *rec.Rng, tier string, stats map[string]int) {
	vars := []c16kv{
		{"a", c16map(c16kv{"x", c16str("hello")}, c16kv{"n", c16int("int", 5, 0)}, c16kv{"t", c16bool(true)},
			c16kv{"l", c16slice(c16str("i0"), c16map(c16kv{"deep", c16str("d")}), c16slice(c16int("int", 1, 0)))},
			c16kv{"o", c16map(c16kv{"p", c16map(c16kv{"q", c16str("é日")})})}, c16kv{"z", c16nil()})},
		{"s", c16str("plain")},
		{"i", c16int("int64", 42, 0)},
		{"arr", c16slice(c16str("e0"), c16str("e1"))},
		{"é", c16map(c16kv{"k", c16str("unicode var")})},
		{"none", c16nil()},
	}
	refs := []string{"$a.x", "$a.n", "$a.t", "$a.l", "$a.l.0", "$a.l.1.deep", "$a.l.2", "$a.l.2.0", "$a.l.7", "$a.o", "$a.o.p", "$a.o.p.q",
		"$a.z", "$a.missing", "$a.x.y", "$a.o.p.q.r", "$a.o.nope.q", "$missing.x", "$missing", "$a", "$", "", "a.x", "x", "#a.x",
		"$s.x", "$i.x", "$arr.0", "$arr.1", "$arr.2", "$arr.x", "$é.k", "$é.nope", "$none.x", "$.x", "$a.l.-1", "$a.l.01"}
	c16refCase(out, vars, refs, stats)
	// one ref per case as well, so that a finding names a small case
	for _, r := range refs {
		c16refCase(out, vars[:2], []string{r}, stats)
	}
	c16refCase(out, nil, refs[:20], stats) // empty store: every reference is absent
	n := 40
	if tier == "thorough" {
		n = 600
	}
	names := []string{"a", "b", "é", "v1"}
	comps := []string{"x", "y", "0", "1", "2", "k", "é", "deep", "zz"}
	for i := 0; i < n; i++ {
		var vs []c16kv
		for j := 0; j < 1+rng.Intn(3); j++ {
			vs = append(vs, c16kv{names[rng.Intn(len(names))], c16refTree(rng, 3, comps)})
		}
		var rs []string
		for j := 0; j < 6; j++ {
			r := "$" + names[rng.Intn(len(names))]
			for d := rng.Intn(4); d > 0; d-- {
				r += "." + comps[rng.Intn(len(comps))]
			}
			rs = append(rs, r)
		}
		c16refCase(out, vs, rs, stats)
	}
}

// trees whose map keys / indices come from comps so that random references often hit
func c16refTree(rng *rec.Rng, depth int, comps []string) c16gv {
	if depth == 0 || rng.Intn(3) == 0 {
		switch rng.Intn(5) {
		case 0:
			return c16str([]string{"v", "é", ""}[rng.Intn(3)])
		case 1:
			return c16bool(rng.Bool())
		case 2:
			return c16nil()
		case 3:
			return c16int("int", int64(rng.Intn(9)), 0)
		default:
			return c16str("leaf")
		}
	}
	if rng.Bool() {
		n := rng.Intn(3)
		items := make([]c16gv, n)
		for i := range items {
			items[i] = c16refTree(rng, depth-1, comps)
		}
		return c16slice(items...)
	}
	var kvs []c16kv
	seen := map[string]bool{}
	for i := 0; i < 1+rng.Intn(3); i++ {
		k := comps[rng.Intn(len(comps))]
		if seen[k] {
			continue
		}
		seen[k] = true
		kvs = append(kvs, c16kv{k, c16refTree(rng, depth-1, comps)})
	}
	return c16map(kvs...)
}

func c16(out *rec.Out, rng *rec.Rng, tier string, stats map[string]int) {
	if c16childMain(out) {
		return
	}
	c16fn(out, rng.Fork(), tier, stats)
	ns, nops := 40, 40
	if tier == "thorough" {
		ns, nops = 600, 80
	}
	r2 := rng.Fork()
	for i := 0; i < ns; i++ {
		c16storeCase(out, r2, nops, stats)
	}
	c16refs(out, rng.Fork(), tier, stats)
	c16engine(out, rng.Fork(), tier, stats)
}
