package main

// C08 — task requests: one effective answer, declared results stored, error modes kept.
//
//   family c08tt     one real taskTrace (bpmn.VerifNewTaskTraceFor) driven by 1..3 Do calls: sequential, concurrent,
//                    with the witness schedule of the Lean counterexample enforced through the schedule points
//                    `tasktrace.do.before_send` / `tasktrace.process.forwarding`, under context cancellation and
//                    timeout, and under seeded perturbation.
//                      case begin c08tt <n> <k> <mode> <variant>
//                      caps <forward> <response> <done>        cap() of the three channels at run time
//                      hits <point> <n>                        how many goroutines reached an enforced point
//                      do <i> returned|blocked                 did Do call i return (blocked: parked for ever on the send)
//                      out val <i> | out err ctx|timeout|other every value read from the response channel
//   family c08filter ApplyTaskResult / ApplyTaskDataOutput over declared x supplied name sets x value kinds
//                      decl <kind> <hasField> <names>  supplied <name:kind,...>  stored <name:kind:text,...>
//   family c08retry  bpmn.Retry driven by a script of Reset/IsContinue/Step
//   family c08eng    small processes start -> T (declared results, retries, data outputs) -> gateway -> ... run on the
//                    real engine with generated answer histories (see c08engCase)

import (
	"context"
	"fmt"
	"runtime"
	"sort"
	"strings"
	"sync"
	"time"

	"github.com/olive-io/bpmn/schema"
	bpmn "github.com/olive-io/bpmn/v2"
	"github.com/olive-io/bpmn/v2/pkg/data"
	bpmnerrors "github.com/olive-io/bpmn/v2/pkg/errors"

	"verifharness/internal/eng"
	"verifharness/internal/rec"
	"verifharness/internal/sched"
)

func init() {
	families["c08tt"] = c08tt
	families["c08filter"] = c08filter
	families["c08retry"] = c08retry
	caseFamilies["c08eng"] = &caseFamily{
		Shard: 1, Par: 12, // one process per case (quiescence detection is process-global)
		Count: func(tier string) int { return len(c08engCases(tier)) },
		Run: func(out *rec.Out, idx int, rng *rec.Rng, tier string, stats map[string]int) {
			c := c08engCases(tier)[idx]
			if c.tag == "random" {
				c = c08engRandom(rng)
			}
			c08engRun(out, c, stats)
		},
	}
}

// ------------------------------------------------------------------ quiescence of this process

var c08stackBuf = make([]byte, 1<<18)

// c08busy counts goroutines other than the caller that can run now or will run by themselves (sleepers).
func c08busy() int {
	n := runtime.Stack(c08stackBuf, true)
	for n >= len(c08stackBuf) {
		c08stackBuf = make([]byte, 2*len(c08stackBuf))
		n = runtime.Stack(c08stackBuf, true)
	}
	busy, first := 0, true
	for _, blk := range strings.Split(string(c08stackBuf[:n]), "\n\n") {
		if !strings.HasPrefix(blk, "goroutine ") {
			continue
		}
		i, j := strings.IndexByte(blk, '['), strings.IndexByte(blk, ']')
		if i < 0 || j < i {
			continue
		}
		if first {
			first = false
			continue
		}
		state := blk[i+1 : j]
		if c := strings.IndexByte(state, ','); c >= 0 {
			state = state[:c]
		}
		switch {
		case state == "running", state == "runnable", state == "syscall", state == "sleep", state == "copystack",
			state == "preempted", state == "waiting", strings.HasPrefix(state, "GC "):
			busy++
		}
	}
	return busy
}

// c08settle waits until no goroutine of the process can run (parked goroutines stay parked until somebody acts).
func c08settle(d time.Duration) bool {
	deadline := time.Now().Add(d)
	stable := 0
	for {
		runtime.Gosched()
		if c08busy() == 0 {
			stable++
			if stable >= 3 {
				return true
			}
		} else {
			stable = 0
			time.Sleep(20 * time.Microsecond)
		}
		if time.Now().After(deadline) {
			return false
		}
	}
}

// ------------------------------------------------------------------ family c08tt

type c08activity struct{ el *schema.Task }

func (a c08activity) NextAction(ctx context.Context, flow bpmn.Flow) chan bpmn.IAction { return nil }
func (a c08activity) Element() schema.FlowNodeInterface                                { return a.el }
func (a c08activity) Type() bpmn.ActivityType                                          { return bpmn.TaskActivity }
func (a c08activity) Cancel() <-chan bool {
	ch := make(chan bool, 1)
	ch <- true
	return ch
}

func c08newActivity() bpmn.Activity {
	t := schema.DefaultTask()
	id := schema.Id("T")
	t.SetId(&id)
	return c08activity{el: &t}
}

const (
	c08pointSend    = "tasktrace.do.before_send"
	c08pointForward = "tasktrace.process.forwarding"
)

type c08ttCase struct {
	k       int
	mode    string // seq | conc | parked | procheld
	variant string // none | cancel_before | cancel_parked | timeout_before | timeout_parked | cancel_noreader_before | cancel_noreader_parked
	perturb int    // 0 none, 1 yields, 2 yields and micro-sleeps
}

func c08outText(r bpmn.DoResponse) string {
	if r.Err != nil {
		if r.Err == context.Canceled || r.Err == context.DeadlineExceeded {
			return "err ctx"
		}
		if te, ok := r.Err.(bpmnerrors.TaskExecError); ok && te.Reason == "timed out" {
			return "err timeout"
		}
		return "err other"
	}
	if v, ok := r.Results["who"]; ok {
		return fmt.Sprintf("val %v", v)
	}
	return "err other"
}

// c08reader plays the task goroutine: it receives whatever the response channel delivers, for as long as the case runs
// (a second value would be a second effective answer).
type c08reader struct {
	mu   sync.Mutex
	vals []string
}

func (r *c08reader) run(ch <-chan bpmn.DoResponse, stop <-chan struct{}) {
	for {
		select {
		case v := <-ch:
			r.mu.Lock()
			r.vals = append(r.vals, c08outText(v))
			r.mu.Unlock()
		case <-stop:
			return
		}
	}
}

func (r *c08reader) got() []string {
	r.mu.Lock()
	defer r.mu.Unlock()
	return append([]string(nil), r.vals...)
}

// c08waitOut waits until the reader holds a value (the process goroutine has answered by itself).
func c08waitOut(r *c08reader, d time.Duration) bool {
	deadline := time.Now().Add(d)
	for len(r.got()) == 0 {
		if time.Now().After(deadline) {
			return false
		}
		time.Sleep(100 * time.Microsecond)
	}
	return true
}

func c08ttRun(out *rec.Out, c c08ttCase, seed uint64, stats map[string]int) {
	out.Begin("c08tt", c.k, c.mode, c.variant)
	defer out.End()
	stats["cases"]++
	stats[fmt.Sprintf("k%d_%s_%s_p%d", c.k, c.mode, c.variant, c.perturb)]++
	fc, rc, dc := bpmn.VerifTaskTraceCaps()
	out.Line("caps %d %d %d", fc, rc, dc)

	ctl := sched.Install()
	defer ctl.Remove()
	if c.perturb > 0 {
		ctl.Perturb(seed, c.perturb)
	}
	ctx, cancel := context.WithCancel(context.Background())
	defer cancel()
	var timeout time.Duration
	if strings.HasPrefix(c.variant, "timeout") {
		timeout = 3 * time.Millisecond
	}
	if c.mode == "parked" {
		ctl.Hold(c08pointSend)
	}
	if c.mode == "procheld" {
		ctl.Hold(c08pointForward)
	}
	tt := bpmn.VerifNewTaskTraceFor(ctx, timeout, c08newActivity())
	// the reader of the response channel (the task goroutine); in the `noreader` variants it has left on ctx.Done()
	noReader := strings.Contains(c.variant, "noreader")
	reader := &c08reader{}
	stopReader := make(chan struct{})
	defer close(stopReader)
	if !noReader {
		go reader.run(tt.Out, stopReader)
	}

	fail := func(format string, a ...any) { out.Line("harness-error "+format, a...) }
	envBefore := func() bool {
		if strings.HasPrefix(c.variant, "cancel") {
			cancel()
		}
		if c.variant != "none" {
			if !noReader && !c08waitOut(reader, 10*time.Second) {
				fail("process goroutine did not answer after %s", c.variant)
				return false
			}
			if !c08settle(10 * time.Second) {
				fail("no quiescence after %s", c.variant)
				return false
			}
		}
		return true
	}
	if strings.HasSuffix(c.variant, "_before") {
		if !envBefore() {
			return
		}
	}

	returned := make([]chan struct{}, c.k)
	launch := func(i int) {
		returned[i] = make(chan struct{})
		go func() {
			defer close(returned[i])
			// (a Do call that panics takes the caller down: recorded, the goroutine counts as returned)
			defer func() {
				if r := recover(); r != nil {
					out.Line("dopanic %d %s", i, strings.Join(strings.Fields(fmt.Sprint(r)), "_"))
					stats["do_calls_that_panicked"]++
				}
			}()
			opts := []bpmn.DoOption{bpmn.DoWithResults(map[string]any{"who": i})}
			if (i+c.k)%2 == 0 {
				// every other caller also hands a value to the answer's context (DoWithValue)
				type c08key struct{}
				opts = append(opts, bpmn.DoWithValue(c08key{}, i))
				stats["do_calls_with_context_value"]++
			}
			tt.Trace.Do(opts...)
		}()
	}
	isBack := func(i int) bool {
		select {
		case <-returned[i]:
			return true
		default:
			return false
		}
	}
	switch c.mode {
	case "seq", "procheld":
		// the next call starts as soon as the previous one has returned, or is parked with nothing else able to run
		for i := 0; i < c.k; i++ {
			launch(i)
			deadline := time.Now().Add(10 * time.Second)
			quiet := 0
			for !isBack(i) {
				runtime.Gosched()
				if c08busy() == 0 {
					quiet++
					if quiet >= 3 {
						break
					}
				} else {
					quiet = 0
					time.Sleep(20 * time.Microsecond)
				}
				if time.Now().After(deadline) {
					fail("do %d neither returned nor parked", i)
					return
				}
			}
		}
		if c.mode == "procheld" {
			if !c08settle(10 * time.Second) {
				fail("no quiescence with the process goroutine held")
				return
			}
			out.Line("hits %s %d", c08pointForward, ctl.Hits(c08pointForward))
			ctl.Release(c08pointForward)
		}
	case "conc":
		for i := 0; i < c.k; i++ {
			launch(i)
		}
	case "parked":
		for i := 0; i < c.k; i++ {
			launch(i)
		}
		if !c08settle(10 * time.Second) {
			fail("no quiescence with the callers parked")
			return
		}
		out.Line("hits %s %d", c08pointSend, ctl.Hits(c08pointSend))
		if strings.HasSuffix(c.variant, "_parked") {
			if !envBefore() {
				return
			}
		}
		ctl.Release(c08pointSend)
	}
	if !c08settle(10 * time.Second) {
		fail("no quiescence at the end")
		return
	}
	nblocked := 0
	for i := 0; i < c.k; i++ {
		if isBack(i) {
			out.Line("do %d returned", i)
		} else {
			out.Line("do %d blocked", i)
			nblocked++
		}
	}
	if noReader && cap(tt.Out) > 0 {
		// what is left in the buffer nobody reads (an unbuffered channel is not touched: receiving would release the sender)
		for n := 0; n < 4; n++ {
			select {
			case r := <-tt.Out:
				out.Line("out %s", c08outText(r))
				continue
			default:
			}
			break
		}
	}
	for _, v := range reader.got() {
		out.Line("out %s", v)
	}
	stats[fmt.Sprintf("blocked_%d", nblocked)]++
}

func c08ttCases(tier string) []c08ttCase {
	var cs []c08ttCase
	reps := 2
	if tier == "thorough" {
		reps = 12
	}
	// 1..3 callers, and forward capacity + 2 of them: the size of the Lean witness at whatever capacity the code has
	ks := []int{1, 2, 3}
	if fc, _, _ := bpmn.VerifTaskTraceCaps(); fc+2 > 3 && fc+2 <= 5 {
		ks = append(ks, fc+2)
	}
	for _, k := range ks {
		for _, mode := range []string{"seq", "conc", "parked", "procheld"} {
			variants := []string{"none", "cancel_before", "timeout_before", "cancel_noreader_before"}
			if mode == "parked" {
				variants = append(variants, "cancel_parked", "timeout_parked", "cancel_noreader_parked")
			}
			for _, v := range variants {
				if mode == "procheld" && v != "none" {
					continue // the process goroutine never reaches the held point on the ctx / timeout branch
				}
				cs = append(cs, c08ttCase{k, mode, v, 0})
				if mode == "seq" || mode == "conc" {
					for r := 0; r < reps; r++ {
						cs = append(cs, c08ttCase{k, mode, v, 1 + r%2})
					}
				}
			}
		}
	}
	return cs
}

func c08tt(out *rec.Out, rng *rec.Rng, tier string, stats map[string]int) {
	for _, c := range c08ttCases(tier) {
		c08ttRun(out, c, rng.U64(), stats)
	}
}

// ------------------------------------------------------------------ family c08filter

type c08kv struct {
	k string
	v any
}

var c08kinds = []struct {
	kind string
	mk   func(n int) any
}{
	{"int", func(n int) any { return n }},
	{"str", func(n int) any { return fmt.Sprintf("s%d", n) }},
	{"bool", func(n int) any { return n%2 == 0 }},
	{"float", func(n int) any { return float64(n) + 0.5 }},
	{"list", func(n int) any { return []any{n, "x"} }},
	{"map", func(n int) any { return map[string]any{"a": n} }},
}

func c08text(v any) string {
	return strings.ReplaceAll(strings.ReplaceAll(fmt.Sprintf("%v", v), " ", "_"), ",", ";")
}

func c08names(ns []string) string {
	if len(ns) == 0 {
		return "-"
	}
	return strings.Join(ns, ",")
}

// one case: an element with the given declarations, a supplied map; what the two filters keep
func c08filterCase(out *rec.Out, kind string, hasField bool, declared []string, supplied []c08kv, stats map[string]int) {
	t := schema.DefaultServiceTask()
	ext := &schema.ExtensionElements{}
	if kind == "results" {
		if hasField {
			ext.ResultsField = &schema.Result{}
			for _, d := range declared {
				ext.ResultsField.Field = append(ext.ResultsField.Field, &schema.Item{Name: d})
			}
		}
	} else {
		for _, d := range declared {
			ext.DataOutput = append(ext.DataOutput, schema.ExtensionAssociation{Name: d, TargetRef: d})
		}
	}
	t.SetExtensionElements(ext)
	m := map[string]any{}
	parts := []string{}
	for _, kv := range supplied {
		m[kv.k] = kv.v
		parts = append(parts, kv.k+"="+c08text(kv.v))
	}
	sort.Strings(parts)
	out.Begin("c08filter", kind, rec.B(hasField))
	defer out.End()
	out.Line("decl %s", c08names(declared))
	out.Line("supplied %s", c08names(parts))
	var stored []string
	func() {
		defer func() {
			if r := recover(); r != nil {
				out.Line("panic %s", c08text(r))
			}
		}()
		var res map[string]interface {
			Value() any
		}
		_ = res
		if kind == "results" {
			for k, it := range bpmn.ApplyTaskResult(&t, m) {
				stored = append(stored, k+"="+c08text(it.Value()))
			}
		} else {
			for k, it := range bpmn.ApplyTaskDataOutput(&t, m) {
				stored = append(stored, k+"="+c08text(it.Value()))
			}
		}
	}()
	sort.Strings(stored)
	out.Line("stored %s", c08names(stored))
	stats["cases"]++
	stats[fmt.Sprintf("%s_declared%d_supplied%d", kind, len(declared), len(supplied))]++
}

func c08filter(out *rec.Out, rng *rec.Rng, tier string, stats map[string]int) {
	names := []string{"a", "b", "c", "d"}
	// exhaustive: declared sub-lists x supplied subsets of four names, both filters, value kinds rotating
	n := 0
	for _, kind := range []string{"results", "outputs"} {
		for dm := 0; dm < 16; dm++ {
			for sm := 0; sm < 16; sm++ {
				var decl []string
				var sup []c08kv
				for i, nm := range names {
					if dm>>i&1 == 1 {
						decl = append(decl, nm)
					}
					if sm>>i&1 == 1 {
						k := c08kinds[(n+i)%len(c08kinds)]
						sup = append(sup, c08kv{nm, k.mk(n%7 + i)})
					}
				}
				n++
				c08filterCase(out, kind, true, decl, sup, stats)
				if kind == "results" && dm == 0 {
					c08filterCase(out, kind, false, nil, sup, stats) // no olive:results element at all
				}
			}
		}
	}
	// seeded: longer declaration lists with repeated names and a different order than the supplied map
	N := 300
	if tier == "thorough" {
		N = 6000
	}
	pool := []string{"a", "b", "c", "d", "e", "f", "r1", "r2"}
	for i := 0; i < N; i++ {
		var decl []string
		for j, m := 0, rng.Intn(7); j < m; j++ {
			decl = append(decl, pool[rng.Intn(len(pool))])
		}
		var sup []c08kv
		seen := map[string]bool{}
		for j, m := 0, rng.Intn(7); j < m; j++ {
			nm := pool[rng.Intn(len(pool))]
			if seen[nm] {
				continue
			}
			seen[nm] = true
			sup = append(sup, c08kv{nm, c08kinds[rng.Intn(len(c08kinds))].mk(rng.Intn(9))})
		}
		kind := "results"
		if rng.Bool() {
			kind = "outputs"
		}
		c08filterCase(out, kind, true, decl, sup, stats)
	}
}

// ------------------------------------------------------------------ family c08retry

func c08retry(out *rec.Out, rng *rec.Rng, tier string, stats map[string]int) {
	emit := func(script []int) {
		// script: -100 = Step, otherwise Reset(value); IsContinue is observed after every operation
		out.Begin("c08retry")
		defer out.End()
		var r bpmn.Retry
		out.Line("cont %d", rec.B(r.IsContinue()))
		for _, op := range script {
			if op == -100 {
				r.Step()
				out.Line("step")
			} else {
				r.Reset(int32(op))
				out.Line("reset %d", op)
			}
			out.Line("cont %d", rec.B(r.IsContinue()))
		}
		stats["cases"]++
	}
	// exhaustive: limit in -2..4, 0..5 steps, re-reset to every limit
	for l := -2; l <= 4; l++ {
		for st := 0; st <= 5; st++ {
			for l2 := -2; l2 <= 4; l2++ {
				sc := []int{l}
				for i := 0; i < st; i++ {
					sc = append(sc, -100)
				}
				sc = append(sc, l2, -100)
				emit(sc)
			}
		}
	}
	N := 200
	if tier == "thorough" {
		N = 4000
	}
	for i := 0; i < N; i++ {
		var sc []int
		for j, m := 0, 1+rng.Intn(12); j < m; j++ {
			if rng.Intn(3) == 0 {
				sc = append(sc, rng.Intn(9)-2)
			} else {
				sc = append(sc, -100)
			}
		}
		emit(sc)
	}
}

// ------------------------------------------------------------------ family c08eng

type c08ans struct {
	ok      bool
	mode    int   // 0 no handler, 1 retry, 2 skip, 3 exit, other: no case of the switch
	retries int32 // handler.Retries
	results map[string]int
	objs    map[string]int
	// lateMs > 0: the error answer is given at once, its handler's DECISION only lateMs later (the channel is empty when Do
	// is called) — the token waits for it however long it takes, also past the task's own timeout
	lateMs int
	// further Do calls on the same request: right after the first one returned / after the engine has come to rest
	extraNow, extraLate []c08ans
}

type c08engCase struct {
	tag            string
	timeoutMs      int      // > 0: olive:taskDefinition timeout of T (how long a request may stay unanswered)
	td             int      // olive:taskDefinition retries of T
	hist           []c08ans // answers to the requests of T, in order
	down           []c08ans // answers to the requests of the task behind the gateway, in order (default: ok)
	errWithResults bool     // the error answers also carry results (only judged by this property's own model)
	// shape of the process: "" = T -> exclusive gateway -> A|B|C; "direct" = conditional flows directly on T
	// (x == 1 -> A, x != 1 -> B); "loop" = T --[x < 3]--> T, T --[!(x < 3)]--> end, x a declared result of T
	shape string
}

func c08okAns(res, objs map[string]int) c08ans { return c08ans{ok: true, results: res, objs: objs} }
func c08errAns(mode int, retries int32) c08ans { return c08ans{mode: mode, retries: retries} }

func c08engCases(tier string) []c08engCase {
	var cs []c08engCase
	// 1. successful answers: declared / undeclared result names, declared / undeclared data outputs
	for m := 0; m < 8; m++ {
		res := map[string]int{}
		if m&1 != 0 {
			res["r1"] = 1
		}
		if m&2 != 0 {
			res["r2"] = 9
		}
		if m&4 != 0 {
			res["u"] = 7
		}
		if m&1 != 0 {
			res["rs"] = (m >> 1) & 1 // a string: "" or "x"
		}
		for o := 0; o < 4; o++ {
			objs := map[string]int{}
			if o&1 != 0 {
				objs["o1"] = 3
			}
			if o&2 != 0 {
				objs["p"] = 4
			}
			if tier != "thorough" && (m+o)%2 == 1 && m != 7 {
				continue
			}
			cs = append(cs, c08engCase{tag: "ok", td: m % 3, hist: []c08ans{c08okAns(res, objs)}})
		}
	}
	cs = append(cs, c08engCase{tag: "ok", hist: []c08ans{c08okAns(map[string]int{"r1": 0, "r2": 2}, nil)}})
	// 2. an error without handler / skip / exit / a mode outside the switch
	for _, mode := range []int{0, 2, 3, 7} {
		for _, td := range []int{0, 2} {
			cs = append(cs, c08engCase{tag: "err", td: td, hist: []c08ans{c08errAns(mode, 2)}})
		}
	}
	// 3. retry with count n, f failures, then success
	for _, n := range []int32{-1, 0, 1, 2, 3} {
		for f := 0; f <= 4; f++ {
			var h []c08ans
			for i := 0; i < f; i++ {
				h = append(h, c08errAns(1, n))
			}
			h = append(h, c08okAns(map[string]int{"r1": 1, "u": 7}, map[string]int{"o1": f}))
			cs = append(cs, c08engCase{tag: "retry", td: int(3 - n), hist: h})
		}
	}
	// 4. retries followed by skip / exit / no handler
	for _, n := range []int32{1, 2} {
		for f := 1; f <= 2; f++ {
			for _, mode := range []int{0, 2, 3} {
				var h []c08ans
				for i := 0; i < f; i++ {
					h = append(h, c08errAns(1, n))
				}
				h = append(h, c08errAns(mode, 0))
				cs = append(cs, c08engCase{tag: "retrythen", hist: h})
			}
		}
	}
	// 5. the limit changes from answer to answer (the code overwrites it every time)
	for _, ns := range [][]int32{{3, 1, 2}, {1, 3, 3, 3}, {2, 2, 0}, {0, 3}, {3, 3, -1, 0, 5}, {-1, -1, 1}, {1, -1, -1, -1, 2}} {
		var h []c08ans
		for _, n := range ns {
			h = append(h, c08errAns(1, n))
		}
		h = append(h, c08okAns(map[string]int{"r1": 1}, nil))
		cs = append(cs, c08engCase{tag: "retryvar", hist: h})
	}
	// 6. the attempts counter belongs to the token, not to the task: a later task of the same token starts from it
	for _, up := range []int{0, 1, 2} {
		for _, n := range []int32{1, 2, 3} {
			var h []c08ans
			for i := 0; i < up; i++ {
				h = append(h, c08errAns(1, 3))
			}
			h = append(h, c08okAns(map[string]int{"r1": 1}, nil))
			d := []c08ans{c08errAns(1, n), c08errAns(1, n), c08errAns(1, n), c08errAns(1, n), c08okAns(nil, nil)}
			if tier != "thorough" && (up+int(n))%2 == 0 {
				continue
			}
			cs = append(cs, c08engCase{tag: "retrydown", hist: h, down: d})
		}
	}
	// 7. error answers that also carry results and data objects (no handler / skip keep them, exit and retry do not)
	for _, mode := range []int{0, 2, 3, 1} {
		a := c08errAns(mode, 1)
		a.results = map[string]int{"r1": 1, "u": 7}
		a.objs = map[string]int{"o1": 6, "p": 4}
		cs = append(cs, c08engCase{tag: "errres", hist: []c08ans{a, c08okAns(map[string]int{"r2": 8}, nil)}, errWithResults: true})
	}
	// 12. the same successful answers in a process that also declares the data object and contains a sub-process
	for m := 1; m < 8; m += 2 {
		for o := 1; o < 4; o++ {
			res := map[string]int{"r1": 1}
			if m&2 != 0 {
				res["r2"] = 9
			}
			if m&4 != 0 {
				res["u"] = 7
			}
			objs := map[string]int{}
			if o&1 != 0 {
				objs["o1"] = 3
			}
			if o&2 != 0 {
				objs["p"] = 4
			}
			cs = append(cs, c08engCase{tag: "withsub", shape: "withsub", hist: []c08ans{c08okAns(res, objs)}})
		}
	}
	cs = append(cs, c08engCase{tag: "withsub", shape: "withsub", hist: []c08ans{c08okAns(map[string]int{"r1": 0}, map[string]int{"o1": 5})}})
	// 11. the handler decides LATE: the error answer comes at once, the decision 1.8 s later — longer than the task's own
	//     timeout of 1.2 s, which bounds how long a REQUEST may stay unanswered, not how long a handler may think
	for _, mode := range []int{3, 1, 2} {
		a := c08errAns(mode, 2)
		a.lateMs = 1800
		h := []c08ans{a}
		if mode == 1 {
			h = append(h, c08okAns(map[string]int{"r1": 1}, nil))
		}
		cs = append(cs, c08engCase{tag: "latehandler", timeoutMs: 1200, hist: h})
	}
	// 9. conditions on the answered task's OWN outgoing flows read the result it has just stored
	for _, x := range []int{1, 2, 0} {
		cs = append(cs, c08engCase{tag: "direct", shape: "direct", hist: []c08ans{c08okAns(map[string]int{"x": x, "u": 7}, nil)}})
	}
	cs = append(cs, c08engCase{tag: "direct", shape: "direct", hist: []c08ans{c08errAns(1, 2), c08okAns(map[string]int{"x": 1}, nil)}})
	cs = append(cs, c08engCase{tag: "direct", shape: "direct", hist: []c08ans{c08errAns(2, 0)}})
	// 10. the answered task is the last node of the process (implicit end: no outgoing sequence flow)
	cs = append(cs, c08engCase{tag: "last", shape: "last", hist: []c08ans{c08okAns(map[string]int{"x": 5, "r1": 2, "u": 7}, nil)}})
	cs = append(cs, c08engCase{tag: "last", shape: "last", td: 2, hist: []c08ans{c08errAns(1, 2), c08errAns(1, 2), c08okAns(map[string]int{"x": 1}, nil)}})
	cs = append(cs, c08engCase{tag: "last", shape: "last", hist: []c08ans{c08errAns(2, 0)}})
	cs = append(cs, c08engCase{tag: "last", shape: "last", hist: []c08ans{c08errAns(3, 0)}})
	cs = append(cs, c08engCase{tag: "last", shape: "last", hist: []c08ans{c08errAns(0, 0)}})
	loopOf := func(xs ...int) []c08ans {
		var h []c08ans
		for _, x := range xs {
			// rs: a string result rewritten in every round, every other time with the empty string
			h = append(h, c08okAns(map[string]int{"x": x, "rs": x % 2}, nil))
		}
		return h
	}
	cs = append(cs, c08engCase{tag: "loop", shape: "loop", hist: loopOf(1, 2, 3)})
	cs = append(cs, c08engCase{tag: "loop", shape: "loop", hist: loopOf(3)})
	cs = append(cs, c08engCase{tag: "loop", shape: "loop", hist: loopOf(1, 1, 2, 5)})
	cs = append(cs, c08engCase{tag: "loop", shape: "loop", hist: loopOf(2, 0, 4)})
	cs = append(cs, c08engCase{tag: "loop", shape: "loop",
		hist: []c08ans{c08okAns(map[string]int{"x": 1}, nil), c08errAns(1, 1), c08okAns(map[string]int{"x": 2}, nil), c08errAns(2, 0), c08okAns(map[string]int{"x": 3}, nil)}})
	// 8. a second (and third) answer to the same request: no effect, whatever it carries
	{
		first := c08okAns(map[string]int{"r1": 1}, map[string]int{"o1": 2})
		other := c08okAns(map[string]int{"r1": 0, "r2": 3}, map[string]int{"o1": 9})
		a := first
		a.extraNow = []c08ans{other}
		cs = append(cs, c08engCase{tag: "double", hist: []c08ans{a}})
		b := first
		b.extraLate = []c08ans{other, c08errAns(3, 0)}
		cs = append(cs, c08engCase{tag: "double", hist: []c08ans{b}})
		c := c08errAns(2, 0)
		c.extraLate = []c08ans{first}
		cs = append(cs, c08engCase{tag: "double", hist: []c08ans{c}})
		d := c08errAns(1, 1)
		d.extraNow = []c08ans{first}
		cs = append(cs, c08engCase{tag: "double", hist: []c08ans{d, first}})
	}
	if tier == "thorough" {
		// seeded histories: drawn inside the case from the case's own generator (see c08engRandom)
		for i := 0; i < 400; i++ {
			cs = append(cs, c08engCase{tag: "random"})
		}
	}
	return cs
}

// c08engRandom draws the answer histories of a `random` case.
func c08engRandom(rng *rec.Rng) c08engCase {
	var h []c08ans
	for j, m := 0, rng.Intn(6); j < m; j++ {
		switch rng.Intn(6) {
		case 0:
			h = append(h, c08errAns([]int{0, 2, 3, 7}[rng.Intn(4)], int32(rng.Intn(4))))
		default:
			h = append(h, c08errAns(1, int32(rng.Intn(6))-1))
		}
	}
	res := map[string]int{}
	for _, nm := range []string{"r1", "r2", "u"} {
		if rng.Bool() {
			res[nm] = rng.Intn(3)
		}
	}
	h = append(h, c08okAns(res, map[string]int{"o1": rng.Intn(5)}))
	var d []c08ans
	for j, m := 0, rng.Intn(4); j < m; j++ {
		d = append(d, c08errAns(1, int32(rng.Intn(5))-1))
	}
	return c08engCase{tag: "random", td: rng.Intn(4), hist: h, down: d}
}

// c08engXMLShape: the processes whose task carries its conditional flows itself (built with the shared graph builder).
func c08engXMLShape(shape string, td int) (string, map[string]string) {
	g := eng.NewGraph()
	st := g.Add("startEvent", "start", "")
	t := g.Add("serviceTask", "T", "")
	t.Results = []string{"x", "r1", "rs"}
	t.HasTaskDef = true
	t.Retries = td
	g.Connect(st, t, nil)
	switch shape {
	case "direct":
		a := g.Add("serviceTask", "A", "")
		b := g.Add("serviceTask", "B", "")
		en := g.Add("endEvent", "end", "")
		g.Connect(t, a, &eng.Cond{Op: "eq", Var: "x", K: 1})
		g.Connect(t, b, &eng.Cond{Op: "ne", Var: "x", K: 1})
		g.Connect(a, en, nil)
		g.Connect(b, en, nil)
	case "last":
		// T is the END of the process: no outgoing sequence flow, no end event (its answer is handled like any other)
	case "loop":
		a := g.Add("serviceTask", "A", "")
		en := g.Add("endEvent", "end", "")
		again := &eng.Cond{Op: "lt", Var: "x", K: 3}
		g.Connect(t, t, again)
		g.Connect(t, a, &eng.Cond{Op: "not", L: again})
		g.Connect(a, en, nil)
	}
	return g.XML(), g.CondRPN
}

// withSub: the process also DECLARES the data object o1 and contains an embedded sub-process (behind task C; most runs never
// enter it) — what a task is handed as its data inputs does not depend on what else the process contains
func c08engXMLSub(td, timeoutMs int) (string, map[string]string) {
	x, rpn := c08engXML(td, timeoutMs)
	x = strings.Replace(x, `<bpmn:startEvent id="start">`, `<bpmn:dataObject id="o1" name="o1"/>
<bpmn:startEvent id="start">`, 1)
	x = strings.Replace(x, `<bpmn:sequenceFlow id="f8" sourceRef="C" targetRef="end"/>`,
		`<bpmn:sequenceFlow id="f8" sourceRef="C" targetRef="SP"/>
<bpmn:subProcess id="SP"><bpmn:incoming>f8</bpmn:incoming><bpmn:outgoing>f9</bpmn:outgoing>
<bpmn:startEvent id="sps"><bpmn:outgoing>g1</bpmn:outgoing></bpmn:startEvent>
<bpmn:endEvent id="spe"><bpmn:incoming>g1</bpmn:incoming></bpmn:endEvent>
<bpmn:sequenceFlow id="g1" sourceRef="sps" targetRef="spe"/>
</bpmn:subProcess>
<bpmn:sequenceFlow id="f9" sourceRef="SP" targetRef="end"/>`, 1)
	x = strings.Replace(x, `<bpmn:incoming>f8</bpmn:incoming></bpmn:endEvent>`, `<bpmn:incoming>f9</bpmn:incoming></bpmn:endEvent>`, 1)
	return x, rpn
}

func c08engXML(td, timeoutMs int) (string, map[string]string) {
	tmo := ""
	if timeoutMs > 0 {
		tmo = fmt.Sprintf(` timeout="%dms"`, timeoutMs)
	}
	c1 := &eng.Cond{Op: "eq", Var: "r1", K: 1}
	c2 := &eng.Cond{Op: "eq", Var: "u", K: 7}
	rpn := map[string]string{c1.Expr(): c1.RPN(), c2.Expr(): c2.RPN()}
	reader := func(id, in, outf string) string {
		return fmt.Sprintf(`<bpmn:serviceTask id=%q><bpmn:extensionElements>
<olive:taskDefinition type="service" retries="0"/>
<olive:properties>
<olive:property name="r1" value="" type="integer"/><olive:property name="r2" value="" type="integer"/><olive:property name="u" value="" type="integer"/>
</olive:properties>
<olive:dataInput name="o1" targetRef="o1"/><olive:dataInput name="p" targetRef="p"/>
</bpmn:extensionElements><bpmn:incoming>%s</bpmn:incoming><bpmn:outgoing>%s</bpmn:outgoing></bpmn:serviceTask>
`, id, in, outf)
	}
	x := `<?xml version="1.0" encoding="UTF-8"?>
<bpmn:definitions xmlns:bpmn="http://www.omg.org/spec/BPMN/20100524/MODEL" xmlns:olive="http://olive.io/spec/BPMN/MODEL" xmlns:xsi="http://www.w3.org/2001/XMLSchema-instance" id="defs" targetNamespace="http://bpmn.io/schema/bpmn" expressionLanguage="https://github.com/expr-lang/expr">
<bpmn:process id="proc" isExecutable="true">
<bpmn:startEvent id="start"><bpmn:outgoing>f1</bpmn:outgoing></bpmn:startEvent>
<bpmn:serviceTask id="T"><bpmn:extensionElements>
` + fmt.Sprintf(`<olive:taskDefinition type="service" retries="%d"%s/>`, td, tmo) + `
<olive:results><olive:field name="r1" type="integer"/><olive:field name="r2" type="integer"/><olive:field name="rs" type="string"/></olive:results>
<olive:dataOutput name="o1" targetRef="o1"/>
</bpmn:extensionElements><bpmn:incoming>f1</bpmn:incoming><bpmn:outgoing>f2</bpmn:outgoing></bpmn:serviceTask>
<bpmn:exclusiveGateway id="X" default="f5"><bpmn:incoming>f2</bpmn:incoming><bpmn:outgoing>f3</bpmn:outgoing><bpmn:outgoing>f4</bpmn:outgoing><bpmn:outgoing>f5</bpmn:outgoing></bpmn:exclusiveGateway>
` + reader("A", "f3", "f6") + reader("B", "f4", "f7") + reader("C", "f5", "f8") + `
<bpmn:endEvent id="end"><bpmn:incoming>f6</bpmn:incoming><bpmn:incoming>f7</bpmn:incoming><bpmn:incoming>f8</bpmn:incoming></bpmn:endEvent>
<bpmn:sequenceFlow id="f1" sourceRef="start" targetRef="T"/>
<bpmn:sequenceFlow id="f2" sourceRef="T" targetRef="X"/>
<bpmn:sequenceFlow id="f3" sourceRef="X" targetRef="A"><bpmn:conditionExpression xsi:type="bpmn:tFormalExpression">` + c1.Expr() + `</bpmn:conditionExpression></bpmn:sequenceFlow>
<bpmn:sequenceFlow id="f4" sourceRef="X" targetRef="B"><bpmn:conditionExpression xsi:type="bpmn:tFormalExpression">` + c2.Expr() + `</bpmn:conditionExpression></bpmn:sequenceFlow>
<bpmn:sequenceFlow id="f5" sourceRef="X" targetRef="C"/>
<bpmn:sequenceFlow id="f6" sourceRef="A" targetRef="end"/>
<bpmn:sequenceFlow id="f7" sourceRef="B" targetRef="end"/>
<bpmn:sequenceFlow id="f8" sourceRef="C" targetRef="end"/>
</bpmn:process>
</bpmn:definitions>
`
	return x, rpn
}

func c08itemsText(m map[string]data.IItem) string {
	parts := []string{}
	for k, it := range m {
		if it == nil {
			continue
		}
		parts = append(parts, k+"="+c08text(it.Value()))
	}
	sort.Strings(parts)
	return c08names(parts)
}

func c08doOpts(a c08ans) []bpmn.DoOption {
	var opts []bpmn.DoOption
	if !a.ok {
		if a.mode == 0 {
			opts = append(opts, bpmn.DoWithErr(eng.WorkerError()))
		} else {
			ch := make(chan bpmn.ErrHandler, 1)
			ch <- bpmn.ErrHandler{Mode: bpmn.ErrHandleMode(a.mode), Retries: a.retries}
			opts = append(opts, bpmn.DoWithErrHandle(eng.WorkerError(), ch))
		}
	}
	if a.results != nil {
		res := map[string]any{}
		for k, v := range a.results {
			res[k] = c08resultValue(k, v)
		}
		opts = append(opts, bpmn.DoWithResults(res))
	}
	if a.objs != nil {
		objs := map[string]any{}
		for k, v := range a.objs {
			objs[k] = v
		}
		opts = append(opts, bpmn.DoWithObjects(objs))
	}
	return opts
}

// c08engExtra issues a further Do on an answered request; it is NOT an op of the history (the models never see it):
// if it had any effect the recorded run would differ from the model's.
func c08engExtra(in *eng.Inst, q *eng.Req, a c08ans, when string) {
	status := "returned"
	if !eng.DoWithDeadline(q.Trace, 3*time.Second, c08doOpts(a)...) {
		status = "blocked"
	}
	in.Note("c08 extra %s %d %s %s", q.Node, q.Occ, when, status)
}

func c08engAnswer(in *eng.Inst, q *eng.Req, a c08ans) {
	defer func() {
		for _, x := range a.extraNow {
			c08engExtra(in, q, x, "now")
		}
		if len(a.extraLate) > 0 {
			in.Quiesce(10 * time.Second)
			for _, x := range a.extraLate {
				c08engExtra(in, q, x, "late")
			}
		}
	}()
	q.Done = true
	var opts []bpmn.DoOption
	if a.ok {
		in.Op("answer %s %d ok %s", q.Node, q.Occ, fmtVars(a.results))
	} else {
		in.Op("answer %s %d err %d %d", q.Node, q.Occ, a.mode, a.retries)
		if a.mode == 0 {
			opts = append(opts, bpmn.DoWithErr(eng.WorkerError()))
		} else {
			ch := make(chan bpmn.ErrHandler, 1)
			if a.lateMs > 0 {
				go func() {
					time.Sleep(time.Duration(a.lateMs) * time.Millisecond)
					ch <- bpmn.ErrHandler{Mode: bpmn.ErrHandleMode(a.mode), Retries: a.retries}
				}()
				defer func() {
					// nothing may happen to the token before the decision is there
					time.Sleep(time.Duration(a.lateMs+150) * time.Millisecond)
				}()
			} else {
				ch <- bpmn.ErrHandler{Mode: bpmn.ErrHandleMode(a.mode), Retries: a.retries}
			}
			opts = append(opts, bpmn.DoWithErrHandle(eng.WorkerError(), ch))
		}
		if a.results != nil {
			in.Note("c08 errres %s", fmtVars(a.results))
		}
	}
	if a.results != nil {
		res := map[string]any{}
		for k, v := range a.results {
			res[k] = c08resultValue(k, v)
		}
		opts = append(opts, bpmn.DoWithResults(res))
	}
	if a.objs != nil {
		objs := map[string]any{}
		for k, v := range a.objs {
			objs[k] = v
		}
		opts = append(opts, bpmn.DoWithObjects(objs))
		in.Note("c08 objs %s", fmtVars(a.objs))
	}
	if !eng.DoWithDeadline(q.Trace, 3*time.Second, opts...) {
		in.Note("obs ret do %s %d blocked", q.Node, q.Occ)
	}
}

// c08resultValue: the declared result field `rs` is answered with a STRING — v letters x, so 0 is the empty string (a value
// like any other: a name that is answered "" holds "" afterwards); every other name is answered with the integer.
func c08resultValue(name string, v int) any {
	if name == "rs" {
		return strings.Repeat("x", v)
	}
	return v
}

// c08decodeVars turns `rs=xx` of the rendered variables back into the number the models carry
func c08decodeVars(vars string) string {
	parts := strings.Split(vars, ",")
	for i, p := range parts {
		if strings.HasPrefix(p, "rs=") && strings.Trim(p[3:], "x") == "" {
			parts[i] = fmt.Sprintf("rs=%d", len(p)-3)
		}
	}
	return strings.Join(parts, ",")
}

func c08plan(h []c08ans) string {
	var p []string
	for _, a := range h {
		if a.ok {
			p = append(p, "ok")
		} else {
			p = append(p, fmt.Sprintf("e%d:%d", a.mode, a.retries))
		}
	}
	return c08names(p)
}

func c08engRun(out *rec.Out, c c08engCase, stats map[string]int) {
	xmlText, rpn := c08engXML(c.td, c.timeoutMs)
	if c.shape == "withsub" {
		xmlText, rpn = c08engXMLSub(c.td, c.timeoutMs)
	} else if c.shape != "" {
		xmlText, rpn = c08engXMLShape(c.shape, c.td)
	}
	out.Begin("c08eng", c.tag)
	defer out.End()
	varsInt := map[string]int{"r2": 5, "u": 0, "z": 4}
	if c.shape != "" && c.shape != "withsub" {
		varsInt["x"] = 0
	}
	vars := map[string]any{}
	for k, v := range varsInt {
		vars[k] = v
	}
	in, defs, err := eng.Start(xmlText, vars)
	if err != nil {
		out.Line("harness-error %v", err)
		return
	}
	for _, l := range eng.ProgLines(&(*defs.Processes())[0], rpn) {
		out.Line("prog %s", l)
	}
	out.Line("prog vars %s", fmtVars(varsInt))
	// declarations as the PARSED definitions carry them
	for _, fe := range (*defs.Processes())[0].FlowElements() {
		be, ok := fe.(schema.BaseElementInterface)
		if !ok {
			continue
		}
		ext, found := be.ExtensionElements()
		if !found || ext == nil {
			continue
		}
		var rs, os []string
		if ext.ResultsField != nil {
			for _, f := range ext.ResultsField.Field {
				rs = append(rs, f.Name)
			}
		}
		for _, o := range ext.DataOutput {
			os = append(os, o.Name)
		}
		if id, ok := be.Id(); ok {
			out.Line("c08 decl %s results=%s outputs=%s", *id, c08names(rs), c08names(os))
		}
	}
	out.Line("c08 plan T %s", c08plan(c.hist))
	stats["cases"]++
	stats["tag_"+c.tag]++
	nT, nDown := 0, 0
	quiet := true
	for steps := 0; steps < 40; steps++ {
		if !in.Quiesce(10 * time.Second) {
			in.Note("obs noquiesce")
			quiet = false
			break
		}
		p := in.Pending()
		if len(p) == 0 {
			break
		}
		q := p[0]
		a := c08okAns(nil, nil)
		if q.Node == "T" {
			if nT < len(c.hist) {
				a = c.hist[nT]
			}
			nT++
		} else {
			// what a later task sees of the results and data outputs of T
			in.Note("c08 seen %s %d props=%s objs=%s", q.Node, q.Occ, c08itemsText(q.Trace.GetProperties()),
				c08itemsText(q.Trace.GetDataObjects()))
			if nDown == 0 && len(c.down) > 0 {
				in.Note("c08 plan %s %s", q.Node, c08plan(c.down))
			}
			if nDown < len(c.down) {
				a = c.down[nDown]
			}
			nDown++
		}
		if a.ok {
			stats["answers_ok"]++
		} else {
			stats[fmt.Sprintf("answers_err_mode%d", a.mode)]++
		}
		c08engAnswer(in, q, a)
	}
	complete := false
	if quiet {
		complete = in.WaitComplete(300 * time.Millisecond)
		in.Quiesce(2 * time.Second)
	}
	for _, l := range in.Lines() {
		out.Line("%s", l)
	}
	out.Line("c08 items %s", c08itemsText(in.Proc.Locator().CloneItems(data.LocatorObject)))
	out.Line("obs final complete=%d vars=%s", rec.B(complete), c08decodeVars(in.Vars()))
	in.Stop(2 * time.Second)
	stats[fmt.Sprintf("requests_T_%d", nT)]++
}
