package main

import (
	"fmt"

	"verifharness/internal/eng"
	"verifharness/internal/rec"
)

// Family c12fork: an embedded sub-process whose content FORKS WITHOUT JOINING — k inner branches, each a task, running
// into ONE shared inner end event or into an end event of their own — followed by a task N behind the sub-process. The
// parent's token continues (N is requested) exactly once and only after EVERY inner token has been consumed, whatever the
// order in which the inner tasks are answered (all k! orders). Judged like a C01 run (token game).
func init() {
	caseFamilies["c12fork"] = &caseFamily{
		Shard: 1, Par: 12,
		Count: func(tier string) int { return len(c12forkCases()) },
		Run: func(out *rec.Out, idx int, rng *rec.Rng, tier string, stats map[string]int) {
			c12fork(out, c12forkCases()[idx], rng, stats)
		},
	}
}

type c12forkCase struct {
	k      int
	shared bool // one inner end event for all branches
	gw     string
	order  []int
	nested bool // the forking sub-process sits inside another sub-process
}

func c12forkCases() []c12forkCase {
	var cs []c12forkCase
	for k := 2; k <= 3; k++ {
		for _, shared := range []bool{true, false} {
			for _, gw := range []string{"parallelGateway", "task"} {
				for _, o := range perms(k) {
					cs = append(cs, c12forkCase{k: k, shared: shared, gw: gw, order: o})
				}
			}
		}
	}
	for _, o := range perms(2) {
		cs = append(cs, c12forkCase{k: 2, shared: true, gw: "parallelGateway", order: o, nested: true})
	}
	return cs
}

func c12fork(out *rec.Out, c c12forkCase, rng *rec.Rng, stats map[string]int) {
	g := eng.NewGraph()
	st := g.Add("startEvent", "start", "")
	p := g.Add("task", "P", "")
	outerPar := ""
	var outer *eng.Node
	if c.nested {
		outer = g.SubBegin("")
		outerPar = outer.ID
	}
	u := g.SubBegin(outerPar)
	us := g.Add("startEvent", "us", u.ID)
	// the fork: a parallel gateway, or an activity with k unconditional outgoing flows
	f := g.Add(c.gw, "F", u.ID)
	g.Connect(us, f, nil)
	var shared *eng.Node
	if c.shared {
		shared = g.Add("endEvent", "ue", u.ID)
	}
	for i := 0; i < c.k; i++ {
		b := g.Add("task", fmt.Sprintf("B%d", i), u.ID)
		g.Connect(f, b, nil)
		if c.shared {
			g.Connect(b, shared, nil)
		} else {
			e := g.Add("endEvent", fmt.Sprintf("ue%d", i), u.ID)
			g.Connect(b, e, nil)
		}
	}
	n := g.Add("task", "N", "")
	en := g.Add("endEvent", "end", "")
	g.Connect(st, p, nil)
	if c.nested {
		os := g.Add("startEvent", "os", outer.ID)
		oe := g.Add("endEvent", "oe", outer.ID)
		g.Connect(os, u, nil)
		g.Connect(u, oe, nil)
		g.Connect(p, outer, nil)
		g.Connect(outer, n, nil)
	} else {
		g.Connect(p, u, nil)
		g.Connect(u, n, nil)
	}
	g.Connect(n, en, nil)
	out.Begin("c12fork", c.k, rec.B(c.shared), c.gw, fmt.Sprint(c.order), rec.B(c.nested))
	defer out.End()
	if sh := rng.Fork(); sh.Intn(2) == 0 {
		g.ShuffleDecl(sh.Intn)
	}
	in, defs, err := eng.Start(g.XML(), nil)
	if err != nil {
		out.Line("harness-error %v", err)
		return
	}
	for _, l := range eng.ProgLines(&(*defs.Processes())[0], g.CondRPN) {
		out.Line("prog %s", l)
	}
	out.Line("prog vars -")
	stats["cases"]++
	next := 0
	for steps := 0; steps < 20; steps++ {
		if !in.Quiesce(4 * timeSecond) {
			in.Note("obs noquiesce")
			break
		}
		pd := in.Pending()
		if len(pd) == 0 {
			break
		}
		q := pd[0]
		// the inner tasks in the order of the case
		if next < len(c.order) {
			want := fmt.Sprintf("B%d", c.order[next])
			for _, x := range pd {
				if x.Node == want {
					q = x
					next++
					break
				}
			}
		}
		in.AnswerOK(q, nil)
	}
	complete := in.WaitComplete(300 * timeMillisecond)
	in.Quiesce(2 * timeSecond)
	for _, l := range in.Lines() {
		out.Line("%s", l)
	}
	out.Line("obs final complete=%d vars=%s", rec.B(complete), in.Vars())
	in.Stop(2 * timeSecond)
}
