package main

import (
	"fmt"

	"verifharness/internal/eng"
	"verifharness/internal/rec"
)

// Family c03two: TWO (or three) parallel joins collecting at the same time — a parallel block nested in a branch of
// another, and two sibling parallel blocks — with EVERY order of answering the branch tasks: while one join holds a waiting
// token, arrivals are processed at another. Each gateway counts its own tokens. Judged like a C01 run (token game).
func init() {
	caseFamilies["c03two"] = &caseFamily{
		Shard: 1, Par: 12,
		Count: func(tier string) int { return len(c03twoCases()) },
		Run: func(out *rec.Out, idx int, rng *rec.Rng, tier string, stats map[string]int) {
			c03two(out, c03twoCases()[idx], rng, stats)
		},
	}
}

type c03twoCase struct {
	shape string // nested | siblings
	order []int
}

func c03twoCases() []c03twoCase {
	var cs []c03twoCase
	for _, o := range perms(3) {
		cs = append(cs, c03twoCase{"nested", o})
	}
	for _, o := range perms(4) {
		cs = append(cs, c03twoCase{"siblings", o})
	}
	return cs
}

func c03two(out *rec.Out, c c03twoCase, rng *rec.Rng, stats map[string]int) {
	g := eng.NewGraph()
	pg := func(id string) *eng.Node { return g.Add("parallelGateway", id, "") }
	task := func(id string) *eng.Node { return g.Add("task", id, "") }
	st := g.Add("startEvent", "start", "")
	of, oj := pg("OF"), pg("OJ")
	z := task("Z")
	en := g.Add("endEvent", "end", "")
	g.Connect(st, of, nil)
	var names []string
	switch c.shape {
	case "nested":
		a := task("A")
		g.Connect(of, a, nil)
		g.Connect(a, oj, nil)
		inf, inj := pg("IF"), pg("IJ")
		g.Connect(of, inf, nil)
		for _, n := range []string{"B", "C"} {
			t := task(n)
			g.Connect(inf, t, nil)
			g.Connect(t, inj, nil)
		}
		g.Connect(inj, oj, nil)
		names = []string{"A", "B", "C"}
	default:
		for k, pair := range [][]string{{"A", "B"}, {"C", "D"}} {
			f, j := pg(fmt.Sprintf("F%d", k)), pg(fmt.Sprintf("J%d", k))
			g.Connect(of, f, nil)
			for _, n := range pair {
				t := task(n)
				g.Connect(f, t, nil)
				g.Connect(t, j, nil)
			}
			g.Connect(j, oj, nil)
		}
		names = []string{"A", "B", "C", "D"}
	}
	g.Connect(oj, z, nil)
	g.Connect(z, en, nil)
	out.Begin("c03two", c.shape, fmt.Sprint(c.order))
	defer out.End()
	if sh := rng.Fork(); sh.Intn(2) == 0 {
		g.ShuffleDecl(sh.Intn)
	}
	in, defs, err := eng.Start(g.XML(), nil)
	if err != nil {
		out.Line("harness-error %v", err)
		return
	}
	for _, l := range eng.ProgLines(&(*defs.Processes())[0], g.CondRPN) {
		out.Line("prog %s", l)
	}
	out.Line("prog vars -")
	stats["cases"]++
	stats["shape_"+c.shape]++
	next := 0
	for steps := 0; steps < 12; steps++ {
		if !in.Quiesce(4 * timeSecond) {
			in.Note("obs noquiesce")
			break
		}
		pd := in.Pending()
		if len(pd) == 0 {
			break
		}
		q := pd[0]
		if next < len(c.order) {
			for _, x := range pd {
				if x.Node == names[c.order[next]] {
					q = x
					next++
					break
				}
			}
		}
		in.AnswerOK(q, nil)
	}
	complete := in.WaitComplete(300 * timeMillisecond)
	in.Quiesce(2 * timeSecond)
	for _, l := range in.Lines() {
		out.Line("%s", l)
	}
	out.Line("obs final complete=%d vars=%s", rec.B(complete), in.Vars())
	in.Stop(2 * timeSecond)
}
