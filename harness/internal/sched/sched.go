// Package sched drives the schedule points compiled into /repo under the build tag `verif`
// (internal/verifhook.Point): it can perturb them (seeded yields / micro-sleeps that widen race windows)
// or enforce an order (park the goroutine that reaches a named point until the controller releases it),
// which is how a model-found witness schedule is replayed on the real engine.
package sched

import (
	"runtime"
	"sync"
	"sync/atomic"
	"time"

	bpmn "github.com/olive-io/bpmn/v2"
)

type Controller struct {
	mu      sync.Mutex
	hits    map[string]int            // how often each point was reached
	gates   map[string]chan struct{}  // points currently held: goroutines reaching them park
	arrived map[string]chan struct{}  // closed when a goroutine first parks at the point
	departAt atomic.Int64             // unix nanos: goroutines released from a gate leave it together at this instant
	seed    uint64
	perturb atomic.Bool
	level   int
}

// Install makes c the process-global handler. Call Remove when done.
func Install() *Controller {
	c := &Controller{hits: map[string]int{}, gates: map[string]chan struct{}{}, arrived: map[string]chan struct{}{}}
	bpmn.VerifSetHook(c.point)
	return c
}

func (c *Controller) Remove() {
	bpmn.VerifSetHook(nil)
	c.mu.Lock()
	for _, g := range c.gates {
		select {
		case <-g:
		default:
			close(g)
		}
	}
	c.gates = map[string]chan struct{}{}
	c.mu.Unlock()
}

// Perturb switches seeded perturbation on: level 1 = yields, 2 = yields and micro-sleeps up to 200µs.
func (c *Controller) Perturb(seed uint64, level int) {
	c.seed = seed*0x9E3779B97F4A7C15 + 1
	c.level = level
	c.perturb.Store(level > 0)
}

// Hold makes every goroutine that reaches point park until Release(point). Returns a channel closed when
// the first goroutine has parked there.
func (c *Controller) Hold(point string) <-chan struct{} {
	c.mu.Lock()
	defer c.mu.Unlock()
	c.gates[point] = make(chan struct{})
	a := make(chan struct{})
	c.arrived[point] = a
	return a
}

func (c *Controller) Release(point string) {
	c.mu.Lock()
	if g, ok := c.gates[point]; ok {
		// synchronised departure: everybody parked here spins until one common instant, so that goroutines released
		// together really run the next statements at the same time (given idle cores)
		c.departAt.Store(time.Now().Add(400 * time.Microsecond).UnixNano())
		close(g)
		delete(c.gates, point)
	}
	c.mu.Unlock()
}

// WaitArrived waits until some goroutine is parked at a held point (or the timeout passes).
func WaitArrived(a <-chan struct{}, d time.Duration) bool {
	select {
	case <-a:
		return true
	case <-time.After(d):
		return false
	}
}

func (c *Controller) Hits(point string) int {
	c.mu.Lock()
	defer c.mu.Unlock()
	return c.hits[point]
}

func (c *Controller) AllHits() map[string]int {
	c.mu.Lock()
	defer c.mu.Unlock()
	m := map[string]int{}
	for k, v := range c.hits {
		m[k] = v
	}
	return m
}

func (c *Controller) point(name string) {
	c.mu.Lock()
	c.hits[name]++
	g := c.gates[name]
	if g != nil {
		if a, ok := c.arrived[name]; ok {
			close(a)
			delete(c.arrived, name)
		}
	}
	var r uint64
	if c.perturb.Load() {
		c.seed += 0x9E3779B97F4A7C15
		z := c.seed
		z = (z ^ (z >> 30)) * 0xBF58476D1CE4E5B9
		z = (z ^ (z >> 27)) * 0x94D049BB133111EB
		r = z ^ (z >> 31)
	}
	c.mu.Unlock()
	if g != nil {
		<-g
		if at := c.departAt.Load(); at != 0 {
			for i := 0; i < 1<<22 && time.Now().UnixNano() < at; i++ {
			}
		}
		return
	}
	if r != 0 {
		switch {
		case r%4 == 0:
			runtime.Gosched()
		case c.level >= 2 && r%16 == 1:
			time.Sleep(time.Duration(r%200) * time.Microsecond)
		}
	}
}
