// Package rec holds the canonical line writer and the seeded PRNG shared by all harness families.
package rec

import (
	"bufio"
	"fmt"
	"os"
	"sync"
)

// Out is the line writer: one line per operation / observation, flushed at the end of each case
// so that a crash loses at most the running case.
type Out struct {
	mu sync.Mutex
	w  *bufio.Writer
	n  int
	// Only, when > 0, mutes every case but that one (replay of a single case under the same seed)
	Only int
	mute bool
	// MaxCaseLines bounds the lines of one case (0: DefaultMaxCaseLines). An engine that never comes to rest emits traces
	// for as long as the harness waits: past the bound one line `obs overflow <bound>` is written and the rest of the case
	// is dropped (a history of that size is not a behaviour any model accepts, and no driver should have to read it).
	MaxCaseLines int
	inCase       int
}

// DefaultMaxCaseLines: the largest case of the unchanged tree has a few thousand lines (families that print long id
// streams set their own bound)
const DefaultMaxCaseLines = 40000

func NewOut() *Out { return &Out{w: bufio.NewWriterSize(os.Stdout, 1<<16)} }

func (o *Out) Line(format string, a ...any) {
	o.mu.Lock()
	defer o.mu.Unlock()
	if o.mute {
		return
	}
	max := o.MaxCaseLines
	if max <= 0 {
		max = DefaultMaxCaseLines
	}
	o.inCase++
	if o.inCase > max {
		if o.inCase == max+1 {
			fmt.Fprintf(o.w, "obs overflow %d\n", max)
		}
		return
	}
	fmt.Fprintf(o.w, format, a...)
	o.w.WriteByte('\n')
}

func (o *Out) Begin(family string, params ...any) int {
	o.mu.Lock()
	o.n++
	n := o.n
	o.mute = o.Only > 0 && n != o.Only
	if o.mute {
		o.mu.Unlock()
		return n
	}
	o.inCase = 0
	fmt.Fprintf(o.w, "case begin %s %d", family, n)
	for _, p := range params {
		fmt.Fprintf(o.w, " %v", p)
	}
	o.w.WriteByte('\n')
	o.mu.Unlock()
	return n
}

func (o *Out) End() {
	o.mu.Lock()
	if !o.mute {
		o.w.WriteString("case end\n")
		o.w.Flush()
	}
	o.mu.Unlock()
}

// SetNext makes the next Begin use case number n.
func (o *Out) SetNext(n int) { o.mu.Lock(); o.n = n - 1; o.mu.Unlock() }

func (o *Out) Flush() { o.mu.Lock(); o.w.Flush(); o.mu.Unlock() }

// Rng is splitmix64: every random choice of a run derives from one seed.
type Rng struct{ s uint64 }

func NewRng(seed uint64) *Rng { return &Rng{s: seed*0x9E3779B97F4A7C15 + 0x1234567} }

func (r *Rng) U64() uint64 {
	r.s += 0x9E3779B97F4A7C15
	z := r.s
	z = (z ^ (z >> 30)) * 0xBF58476D1CE4E5B9
	z = (z ^ (z >> 27)) * 0x94D049BB133111EB
	return z ^ (z >> 31)
}

func (r *Rng) Intn(n int) int {
	if n <= 0 {
		return 0
	}
	return int(r.U64() % uint64(n))
}

func (r *Rng) Bool() bool { return r.U64()&1 == 1 }

// Fork derives an independent stream (for per-case reproducibility).
func (r *Rng) Fork() *Rng { return NewRng(r.U64()) }

func B(b bool) int {
	if b {
		return 1
	}
	return 0
}
