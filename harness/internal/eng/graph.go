// Package eng builds BPMN processes from combinators, runs them on the real engine, paces the run by
// detecting quiescence of the whole Go process, and records a canonical history.
package eng

import (
	"fmt"
	"sort"
	"strings"
	"sync"
)

// Cond is a condition over integer variables. It is printed twice: as expr-lang source for the XML
// and as RPN tokens for the Lean model (the two printers are validated against each other by the
// condition differential of C04).
type Cond struct {
	Op   string // true false eq ne lt and or not informal nonbool
	Var  string
	K    int
	L, R *Cond
	// Lang: the condition names its OWN expression language (the `language` attribute of the formal expression): "expr" /
	// "xpath"; "" = the language of the definitions
	Lang string
}

// ref: how a condition names its operand: an instance variable by its name, a DATA OBJECT (name starting with "@")
// through the expression engine's getDataObject function
func ref(v string) string {
	if strings.HasPrefix(v, "@") {
		return "getDataObject('" + v[1:] + "')"
	}
	return v
}

func (c *Cond) Expr() string {
	switch c.Op {
	case "true":
		return "true"
	case "false":
		return "false"
	case "eq":
		return fmt.Sprintf("%s == %d", ref(c.Var), c.K)
	case "ne":
		return fmt.Sprintf("%s != %d", ref(c.Var), c.K)
	case "lt":
		return fmt.Sprintf("%s < %d", ref(c.Var), c.K)
	case "and":
		return "(" + c.L.Expr() + ") && (" + c.R.Expr() + ")"
	case "or":
		return "(" + c.L.Expr() + ") || (" + c.R.Expr() + ")"
	case "not":
		return "!(" + c.L.Expr() + ")"
	case "informal":
		return "whatever"
	case "nonbool":
		return fmt.Sprintf("%s + %d", ref(c.Var), c.K)
	}
	panic("cond op " + c.Op)
}

// XPathExpr: the same condition in XPath 1.0 syntax (instance variables are child elements of the context node)
func (c *Cond) XPathExpr() string {
	switch c.Op {
	case "true":
		return "true()"
	case "false":
		return "false()"
	case "eq":
		return fmt.Sprintf("%s = %d", c.Var, c.K)
	case "ne":
		return fmt.Sprintf("%s != %d", c.Var, c.K)
	case "lt":
		return fmt.Sprintf("%s < %d", c.Var, c.K)
	case "and":
		return "(" + c.L.XPathExpr() + ") and (" + c.R.XPathExpr() + ")"
	case "or":
		return "(" + c.L.XPathExpr() + ") or (" + c.R.XPathExpr() + ")"
	case "not":
		return "not(" + c.L.XPathExpr() + ")"
	case "informal":
		return "whatever"
	case "nonbool":
		return fmt.Sprintf("%s + %d", c.Var, c.K)
	}
	panic("cond op " + c.Op)
}

// RPN: comma separated postfix tokens; `none` is used for "no condition".
func (c *Cond) RPN() string {
	switch c.Op {
	case "true", "false", "informal":
		return c.Op
	case "eq", "ne", "lt":
		return fmt.Sprintf("v:%s,k:%d,%s", c.Var, c.K, c.Op)
	case "nonbool":
		return fmt.Sprintf("v:%s,k:%d,nonbool", c.Var, c.K)
	case "and", "or":
		return c.L.RPN() + "," + c.R.RPN() + "," + c.Op
	case "not":
		return c.L.RPN() + ",not"
	}
	panic("cond op " + c.Op)
}

type EventDef struct {
	Kind string // signal | message | timer
	Name string // signal / message name; timer: definition text
	Sub  string // timer: date | duration | cycle
	Op   string // message: operationRef (optional)
}

type Node struct {
	ID      string
	Kind    string // startEvent endEvent task serviceTask userTask … exclusiveGateway parallelGateway inclusiveGateway eventBasedGateway intermediateCatchEvent intermediateThrowEvent subProcess boundaryEvent
	In, Out []string
	Default string
	Parent  string // enclosing sub-process id, "" for the process
	// activities
	Results    []string // olive:results fields
	Outputs    []string // olive:dataOutput names
	Retries    int
	HasTaskDef bool
	// events
	Defs             []EventDef
	ParallelMultiple bool
	Attached         string
	Interrupting     bool
	// Extra: further attributes of the element, verbatim (descriptive attributes without token semantics)
	Extra string
}

type SeqFlow struct {
	ID, Src, Dst string
	Parent       string
	Cond         *Cond
}

type Graph struct {
	Nodes []*Node
	Flows []*SeqFlow
	byID  map[string]*Node
	nn    int
	nf    int
	// CondRPN maps the expression text found in the parsed definitions back to RPN
	CondRPN map[string]string
	// XPath: the definitions declare XPath as their expression language and every condition is written in XPath
	XPath      bool
	Executable bool
	ProcID     string
}

func NewGraph() *Graph {
	return &Graph{byID: map[string]*Node{}, CondRPN: map[string]string{}, Executable: true, ProcID: "proc"}
}

func (g *Graph) Node(id string) *Node { return g.byID[id] }

// Add creates a node; an empty id gets a generated one from the kind.
func (g *Graph) Add(kind, id, parent string) *Node {
	if id == "" {
		g.nn++
		id = fmt.Sprintf("%s%d", short(kind), g.nn)
	}
	n := &Node{ID: id, Kind: kind, Parent: parent}
	g.Nodes = append(g.Nodes, n)
	g.byID[id] = n
	return n
}

func short(kind string) string {
	switch kind {
	case "startEvent":
		return "s"
	case "endEvent":
		return "e"
	case "exclusiveGateway":
		return "x"
	case "parallelGateway":
		return "p"
	case "inclusiveGateway":
		return "i"
	case "eventBasedGateway":
		return "g"
	case "intermediateCatchEvent":
		return "c"
	case "intermediateThrowEvent":
		return "h"
	case "subProcess":
		return "u"
	case "boundaryEvent":
		return "b"
	}
	return "t"
}

// Connect adds a sequence flow (appended to the source's outgoing and the target's incoming list).
func (g *Graph) Connect(src, dst *Node, cond *Cond) *SeqFlow {
	g.nf++
	f := &SeqFlow{ID: fmt.Sprintf("f%d", g.nf), Src: src.ID, Dst: dst.ID, Parent: src.Parent, Cond: cond}
	g.Flows = append(g.Flows, f)
	src.Out = append(src.Out, f.ID)
	dst.In = append(dst.In, f.ID)
	if cond != nil {
		g.CondRPN[strings.TrimSpace(cond.Expr())] = cond.RPN()
		if !strings.Contains(cond.RPN(), "v:@") {
			g.CondRPN[strings.TrimSpace(cond.XPathExpr())] = cond.RPN()
		}
	}
	return f
}

const header = `<?xml version="1.0" encoding="UTF-8"?>
<bpmn:definitions xmlns:bpmn="http://www.omg.org/spec/BPMN/20100524/MODEL" xmlns:bpmndi="http://www.omg.org/spec/BPMN/20100524/DI" xmlns:dc="http://www.omg.org/spec/DD/20100524/DC" xmlns:di="http://www.omg.org/spec/DD/20100524/DI" xmlns:olive="http://olive.io/spec/BPMN/MODEL" xmlns:xsi="http://www.w3.org/2001/XMLSchema-instance" id="defs" targetNamespace="http://bpmn.io/schema/bpmn" expressionLanguage="https://github.com/expr-lang/expr">
`

// ShuffleDecl permutes the order in which nodes and sequence flows are DECLARED in the XML document (a seeded
// Fisher-Yates driven by next). The incoming/outgoing lists of the nodes — the order that carries meaning — are
// untouched, so an engine that derives a gateway's flow order from the declaration order instead of the gateway's
// own <outgoing> list shows up.
func (g *Graph) ShuffleDecl(next func(n int) int) {
	for i := len(g.Flows) - 1; i > 0; i-- {
		j := next(i + 1)
		g.Flows[i], g.Flows[j] = g.Flows[j], g.Flows[i]
	}
	for i := len(g.Nodes) - 1; i > 0; i-- {
		j := next(i + 1)
		g.Nodes[i], g.Nodes[j] = g.Nodes[j], g.Nodes[i]
	}
	g.DecorateInert(next)
}

// DecorateInert gives nodes descriptive attributes that carry NO token semantics in this engine (a gateway's behaviour
// is defined by its incoming and outgoing flows, whatever `gatewayDirection` says; a `name` is documentation): a
// program must run the same with and without them.
func (g *Graph) DecorateInert(next func(n int) int) {
	dirs := []string{"", "Unspecified", "Converging", "Diverging", "Mixed"}
	for _, n := range g.Nodes {
		if strings.HasSuffix(n.Kind, "Gateway") {
			if d := dirs[next(len(dirs))]; d != "" {
				n.Extra += fmt.Sprintf(" gatewayDirection=%q", d)
			}
		}
		if next(4) == 0 {
			n.Extra += fmt.Sprintf(" name=%q", "the "+n.Kind+" "+n.ID)
		}
	}
}

// InsertThrows puts an intermediate throw event WITHOUT event definition (a "none" event: it throws nothing anybody could
// catch) in front of one or two tasks / exclusive gateways: all incoming flows of the chosen node now end at the event,
// one flow leads from the event to the node. Every token that went to the node passes the event first — one per branch
// when the node merges branches, one per round when it sits in a loop. Returns the number of events inserted.
func (g *Graph) InsertThrows(next func(n int) int) int {
	var cands []*Node
	for _, n := range g.Nodes {
		// (top level only: a sub-process TRIGGERS the throw events inside it when it is entered — they are entry
		// points there, by the engine's design — which is not part of the modelled token game)
		if len(n.In) == 0 || n.Attached != "" || n.Parent != "" {
			continue
		}
		if strings.HasSuffix(n.Kind, "ask") || n.Kind == "exclusiveGateway" {
			cands = append(cands, n)
			if len(n.In) >= 2 { // merging nodes are the interesting ones
				cands = append(cands, n, n)
			}
		}
	}
	done := 0
	for k := 1 + next(2); k > 0 && len(cands) > 0; k-- {
		x := cands[next(len(cands))]
		rest := cands[:0]
		for _, c := range cands {
			if c != x {
				rest = append(rest, c)
			}
		}
		cands = rest
		h := g.Add("intermediateThrowEvent", "", x.Parent)
		for _, f := range g.Flows {
			if f.Dst == x.ID {
				f.Dst = h.ID
			}
		}
		h.In, x.In = x.In, nil
		g.Connect(h, x, nil)
		done++
	}
	return done
}

// XML renders the graph as a BPMN document with a single process.
// XML renders the document and remembers which graph it came from, so that Start can compare what the parser read with
// what the generator wrote (Describe).
func (g *Graph) XML() string {
	text := g.xmlText()
	lastMu.Lock()
	lastGraph, lastXML = g, text
	lastMu.Unlock()
	return text
}

var (
	lastMu    sync.Mutex
	lastGraph *Graph
	lastXML   string
)

// Describe: what the generator wrote, in the vocabulary of ProgLines — per element id the beginning of its `prog` line
// (kind, incoming and outgoing flows in order, scope, default flow, host and kind of a boundary event; source, target,
// scope and condition of a sequence flow).
func (g *Graph) Describe() map[string]string {
	d := map[string]string{}
	list := func(xs []string) string {
		if len(xs) == 0 {
			return "-"
		}
		return strings.Join(xs, ",")
	}
	for _, n := range g.Nodes {
		line := fmt.Sprintf("node %s %s in=%s out=%s parent=%s", n.ID, n.Kind, list(n.In), list(n.Out), orDash(n.Parent))
		switch n.Kind {
		case "exclusiveGateway", "inclusiveGateway":
			if n.Default != "" {
				line += " default=" + n.Default
			}
		case "boundaryEvent":
			line += fmt.Sprintf(" attached=%s interrupting=%d", n.Attached, b2i(n.Interrupting))
		}
		d[n.ID] = line
	}
	for _, f := range g.Flows {
		cond := "none"
		if f.Cond != nil {
			cond = f.Cond.RPN()
			if f.Cond.Op == "informal" {
				cond = "informal"
			}
		}
		d[f.ID] = fmt.Sprintf("flow %s %s %s %s %s", f.ID, f.Src, f.Dst, orDash(f.Parent), cond)
	}
	return d
}

func (g *Graph) xmlText() string {
	var sb strings.Builder
	if g.XPath {
		sb.WriteString(strings.Replace(header, `expressionLanguage="https://github.com/expr-lang/expr"`, `expressionLanguage="http://www.w3.org/1999/XPath"`, 1))
	} else {
		sb.WriteString(header)
	}
	for _, n := range g.Nodes {
		for _, d := range n.Defs {
			_ = d
		}
	}
	fmt.Fprintf(&sb, "<bpmn:process id=%q isExecutable=\"%v\">\n", g.ProcID, g.Executable)
	declared := map[string]bool{}
	for _, n := range g.Nodes {
		for _, o := range n.Outputs {
			if !declared[o] {
				declared[o] = true
				fmt.Fprintf(&sb, "<bpmn:dataObject id=%q name=%q/>\n", o, o)
			}
		}
	}
	g.container(&sb, "")
	sb.WriteString("</bpmn:process>\n</bpmn:definitions>\n")
	return sb.String()
}

func (g *Graph) container(sb *strings.Builder, parent string) {
	for _, n := range g.Nodes {
		if n.Parent != parent {
			continue
		}
		fmt.Fprintf(sb, "<bpmn:%s id=%q", n.Kind, n.ID)
		if n.Default != "" {
			fmt.Fprintf(sb, " default=%q", n.Default)
		}
		if n.Kind == "boundaryEvent" {
			fmt.Fprintf(sb, " attachedToRef=%q cancelActivity=\"%v\"", n.Attached, n.Interrupting)
		}
		if n.ParallelMultiple {
			sb.WriteString(" parallelMultiple=\"true\"")
		}
		sb.WriteString(n.Extra)
		sb.WriteString(">\n")
		if len(n.Results) > 0 || len(n.Outputs) > 0 || n.HasTaskDef {
			sb.WriteString("<bpmn:extensionElements>\n")
			if n.HasTaskDef {
				fmt.Fprintf(sb, "<olive:taskDefinition type=\"service\" retries=\"%d\"/>\n", n.Retries)
			}
			if len(n.Results) > 0 {
				sb.WriteString("<olive:results>\n")
				for _, r := range n.Results {
					fmt.Fprintf(sb, "<olive:field name=%q type=\"integer\"/>\n", r)
				}
				sb.WriteString("</olive:results>\n")
			}
			for _, o := range n.Outputs {
				fmt.Fprintf(sb, "<olive:dataOutput name=%q targetRef=%q/>\n", o, o)
			}
			sb.WriteString("</bpmn:extensionElements>\n")
		}
		for _, f := range n.In {
			fmt.Fprintf(sb, "<bpmn:incoming>%s</bpmn:incoming>\n", f)
		}
		for _, f := range n.Out {
			fmt.Fprintf(sb, "<bpmn:outgoing>%s</bpmn:outgoing>\n", f)
		}
		for i, d := range n.Defs {
			switch d.Kind {
			case "signal":
				fmt.Fprintf(sb, "<bpmn:signalEventDefinition id=\"%s_d%d\" signalRef=%q/>\n", n.ID, i, d.Name)
			case "message":
				if d.Op != "" {
					fmt.Fprintf(sb, "<bpmn:messageEventDefinition id=\"%s_d%d\" messageRef=%q><bpmn:operationRef>%s</bpmn:operationRef></bpmn:messageEventDefinition>\n", n.ID, i, d.Name, d.Op)
				} else {
					fmt.Fprintf(sb, "<bpmn:messageEventDefinition id=\"%s_d%d\" messageRef=%q/>\n", n.ID, i, d.Name)
				}
			case "timer":
				tag := map[string]string{"date": "timeDate", "duration": "timeDuration", "cycle": "timeCycle"}[d.Sub]
				fmt.Fprintf(sb, "<bpmn:timerEventDefinition id=\"%s_d%d\"><bpmn:%s xsi:type=\"bpmn:tFormalExpression\">%s</bpmn:%s></bpmn:timerEventDefinition>\n", n.ID, i, tag, d.Name, tag)
			}
		}
		if n.Kind == "subProcess" {
			g.container(sb, n.ID)
		}
		fmt.Fprintf(sb, "</bpmn:%s>\n", n.Kind)
	}
	for _, f := range g.Flows {
		if f.Parent != parent {
			continue
		}
		fmt.Fprintf(sb, "<bpmn:sequenceFlow id=%q sourceRef=%q targetRef=%q", f.ID, f.Src, f.Dst)
		if f.Cond == nil {
			sb.WriteString("/>\n")
			continue
		}
		if f.Cond.Op == "informal" {
			fmt.Fprintf(sb, "><bpmn:conditionExpression>%s</bpmn:conditionExpression></bpmn:sequenceFlow>\n", f.Cond.Expr())
		} else {
			text := f.Cond.Expr()
			if g.XPath {
				text = f.Cond.XPathExpr()
			}
			lang := ""
			switch f.Cond.Lang {
			case "expr":
				text, lang = f.Cond.Expr(), ` language="https://github.com/expr-lang/expr"`
			case "xpath":
				text, lang = f.Cond.XPathExpr(), ` language="http://www.w3.org/1999/XPath"`
			}
			fmt.Fprintf(sb, "><bpmn:conditionExpression xsi:type=\"bpmn:tFormalExpression\"%s>%s</bpmn:conditionExpression></bpmn:sequenceFlow>\n",
				lang, xmlEsc(text))
		}
	}
}

func xmlEsc(s string) string {
	r := strings.NewReplacer("&", "&amp;", "<", "&lt;", ">", "&gt;")
	return r.Replace(s)
}

// ---------------------------------------------------------------- fragments (block combinators)

// Frag is a single-entry single-exit piece of a process.
type Frag struct{ Entry, Exit *Node }

func (g *Graph) Task(kind, id, parent string, results ...string) Frag {
	n := g.Add(kind, id, parent)
	for _, r := range results {
		if strings.HasPrefix(r, "@") {
			n.Outputs = append(n.Outputs, r[1:]) // a data output (data object of the same name, declared by XML())
		} else {
			n.Results = append(n.Results, r)
		}
	}
	return Frag{n, n}
}

func (g *Graph) Seq(fr ...Frag) Frag {
	for i := 0; i+1 < len(fr); i++ {
		g.Connect(fr[i].Exit, fr[i+1].Entry, nil)
	}
	return Frag{fr[0].Entry, fr[len(fr)-1].Exit}
}

// Split builds split-gateway → branches → join-gateway. conds[i]==nil means unconditional;
// def is the index of the default branch or -1. defPos chooses where the default flow sits in the
// gateway's outgoing list (it is simply the branch order). Empty branches (Entry==nil) connect
// the split directly to the join.
func (g *Graph) Split(kind, joinKind, parent string, branches []Frag, conds []*Cond, def int) Frag {
	s := g.Add(kind, "", parent)
	j := g.Add(joinKind, "", parent)
	for i, b := range branches {
		var c *Cond
		if conds != nil {
			c = conds[i]
		}
		var f *SeqFlow
		if b.Entry == nil {
			f = g.Connect(s, j, c)
		} else {
			f = g.Connect(s, b.Entry, c)
			g.Connect(b.Exit, j, nil)
		}
		if i == def {
			s.Default = f.ID
		}
	}
	return Frag{s, j}
}

// Loop: merge(xor) → body → split(xor): back to merge while cond, else exit (default).
func (g *Graph) Loop(parent string, body Frag, again *Cond) Frag {
	m := g.Add("exclusiveGateway", "", parent)
	s := g.Add("exclusiveGateway", "", parent)
	x := g.Add("exclusiveGateway", "", parent) // exit node so that the fragment has a plain exit
	g.Connect(m, body.Entry, nil)
	g.Connect(body.Exit, s, nil)
	g.Connect(s, m, again)
	d := g.Connect(s, x, nil)
	s.Default = d.ID
	return Frag{m, x}
}

// Sub wraps a fragment into an embedded sub-process with its own start and end event. The inner
// fragment must have been built with parent == the returned node's id, so the id is chosen first.
func (g *Graph) SubBegin(parent string) *Node { return g.Add("subProcess", "", parent) }

func (g *Graph) SubEnd(sub *Node, inner Frag) Frag {
	st := g.Add("startEvent", "", sub.ID)
	en := g.Add("endEvent", "", sub.ID)
	g.Connect(st, inner.Entry, nil)
	g.Connect(inner.Exit, en, nil)
	return Frag{sub, sub}
}

// Wrap adds the process start and end events around a top-level fragment.
func (g *Graph) Wrap(fr Frag) {
	st := g.Add("startEvent", "start", "")
	en := g.Add("endEvent", "end", "")
	g.Connect(st, fr.Entry, nil)
	g.Connect(fr.Exit, en, nil)
}

// WrapImplicitEnd: like Wrap, but when the fragment ends in an activity the activity is the END of the process — it has
// no outgoing sequence flow (BPMN: an implicit end; the token is consumed there, after the task's answer has been
// handled like any other).
func (g *Graph) WrapImplicitEnd(fr Frag) {
	if !strings.HasSuffix(fr.Exit.Kind, "ask") && fr.Exit.Kind != "callActivity" {
		g.Wrap(fr)
		return
	}
	st := g.Add("startEvent", "start", "")
	g.Connect(st, fr.Entry, nil)
}

func sortedKeys(m map[string]int) []string {
	ks := make([]string, 0, len(m))
	for k := range m {
		ks = append(ks, k)
	}
	sort.Strings(ks)
	return ks
}
