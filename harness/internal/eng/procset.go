package eng

// Extension for C18 (process sets): definitions with several processes, a collaboration with participants
// and message flows, and a recorder for the set's tracer. Nothing of the single-process API is changed.

import (
	"context"
	"fmt"
	"sort"
	"strings"
	"time"

	"github.com/olive-io/bpmn/schema"
	bpmn "github.com/olive-io/bpmn/v2"
	"github.com/olive-io/bpmn/v2/pkg/tracing"
)

// MsgFlow is a message flow of the collaboration: Src is a throw event, Dst a start event of a
// non-executable (waiting) process or a catch event of another process.
type MsgFlow struct{ ID, Src, Dst string }

// SetXML renders several graphs as ONE definitions element: a collaboration (one participant per process,
// the message flows) followed by one process per graph. Node and sequence-flow ids must be unique across the
// graphs (PrefixIDs takes care of that).
func SetXML(gs []*Graph, flows []MsgFlow) string {
	var sb strings.Builder
	sb.WriteString(header)
	sb.WriteString("<bpmn:collaboration id=\"collab\">\n")
	for _, g := range gs {
		fmt.Fprintf(&sb, "<bpmn:participant id=\"part_%s\" name=%q processRef=%q/>\n", g.ProcID, g.ProcID, g.ProcID)
	}
	for _, f := range flows {
		fmt.Fprintf(&sb, "<bpmn:messageFlow id=%q sourceRef=%q targetRef=%q/>\n", f.ID, f.Src, f.Dst)
	}
	sb.WriteString("</bpmn:collaboration>\n")
	for _, g := range gs {
		fmt.Fprintf(&sb, "<bpmn:process id=%q isExecutable=\"%v\">\n", g.ProcID, g.Executable)
		g.container(&sb, "")
		sb.WriteString("</bpmn:process>\n")
	}
	sb.WriteString("</bpmn:definitions>\n")
	return sb.String()
}

// PrefixIDs renames every node and sequence flow of g to "<ProcID>_<id>" so that several graphs can share
// one definitions element. Call it once, after the graph is complete.
func (g *Graph) PrefixIDs() {
	p := g.ProcID + "_"
	ren := func(s string) string {
		if s == "" {
			return s
		}
		return p + s
	}
	by := map[string]*Node{}
	for _, n := range g.Nodes {
		n.ID = ren(n.ID)
		n.Default = ren(n.Default)
		n.Parent = ren(n.Parent)
		n.Attached = ren(n.Attached)
		for i := range n.In {
			n.In[i] = ren(n.In[i])
		}
		for i := range n.Out {
			n.Out[i] = ren(n.Out[i])
		}
		by[n.ID] = n
	}
	g.byID = by
	for _, f := range g.Flows {
		f.ID, f.Src, f.Dst, f.Parent = ren(f.ID), ren(f.Src), ren(f.Dst), ren(f.Parent)
	}
}

// SetInst runs a process set on the real engine and records every trace of the set's tracer. The embedded
// Inst (its Proc is nil) provides Quiesce / Pending / AnswerOK / Op / Note.
type SetInst struct {
	*Inst
	PS    *bpmn.ProcessSet
	Defs  *schema.Definitions
	procs []string // process ids, longest first (instance → process resolution by node-id prefix)
	// Sink, when set before anything is started, receives every recorded line at once (raw: member traces
	// carry "@<instance id>" instead of a label; ResolveLabels turns them into labels). A crash of the
	// process then loses only what had not been recorded yet.
	Sink func(line string)
}

// SetsWithOwnTracer counts the sets that were given their tracer as an option.
var SetsWithOwnTracer int

// NewSet parses nothing: defs come from schema.Parse. The recording subscriber is registered before anything
// is started, has a large buffer and its own goroutine.
func NewSet(defs *schema.Definitions, sink func(string), opts ...bpmn.Option) (*SetInst, error) {
	ctx, cancel := context.WithCancel(context.Background())
	in := &Inst{Ctx: ctx, Cancel: cancel, occ: map[string]int{}, flowNo: map[string]int{}, recDone: make(chan struct{})}
	s := &SetInst{Inst: in, Defs: defs, Sink: sink}
	for i := range *defs.Processes() {
		if id, ok := (*defs.Processes())[i].Id(); ok {
			s.procs = append(s.procs, *id)
		}
	}
	sort.Slice(s.procs, func(i, j int) bool { return len(s.procs[i]) > len(s.procs[j]) })
	all := append([]bpmn.Option{bpmn.WithContext(ctx)}, opts...)
	// every second set (by its number of processes and of nodes in the first one) is given its tracer EXPLICITLY, as an
	// application that wants to own it does: the set's tracer is the set's, each member still traces on its own
	if ps := *defs.Processes(); (len(ps)+len(ps[0].FlowElements()))%2 == 0 {
		all = append(all, bpmn.WithTracer(tracing.NewTracer(ctx)))
		SetsWithOwnTracer++
	}
	e := bpmn.NewEngine(bpmn.WithEngineContext(ctx))
	ps, err := e.NewProcessSet(defs, all...)
	if err != nil {
		cancel()
		return nil, fmt.Errorf("newprocessset: %w", err)
	}
	s.PS = ps
	in.sub = ps.Tracer().SubscribeChannel(make(chan tracing.ITrace, 1<<14))
	go func() {
		defer close(in.recDone)
		for t := range in.sub {
			in.mu.Lock()
			l := "obs " + s.canonSet(t)
			in.lines = append(in.lines, l)
			in.ntraces++
			if s.Sink != nil {
				s.Sink(l)
			}
			in.mu.Unlock()
		}
	}()
	return s, nil
}

// canonSet: "@<instance id> <trace>" for traces relayed from a member process, "set <trace>" for the set's own.
func (s *SetInst) canonSet(t tracing.ITrace) string {
	inst := ""
	for {
		if it, ok := t.(bpmn.InstanceTrace); ok {
			inst = it.InstanceId.String()
			t = it.Trace
			continue
		}
		break
	}
	var body string
	switch x := tracing.Unwrap(t).(type) {
	case bpmn.CeaseProcessSetTrace:
		body = "ceaseset"
	case bpmn.CeaseFlowTrace:
		body = "cease " + nodeID(x.Process)
	default:
		body = s.Inst.canon(t)
	}
	if inst == "" {
		return "set " + body
	}
	return "@" + inst + " " + body
}

// Say records a harness line (an `op …` or an `obs …` of the harness itself) and hands it to the sink at once.
func (s *SetInst) Say(format string, a ...any) {
	l := fmt.Sprintf(format, a...)
	s.Inst.mu.Lock()
	s.Inst.lines = append(s.Inst.lines, l)
	if s.Sink != nil {
		s.Sink(l)
	}
	s.Inst.mu.Unlock()
}

// Answer answers a pending task request (recorded through Say, so that the line is out before the engine reacts).
func (s *SetInst) Answer(q *Req, results map[string]int) bool {
	res := map[string]any{}
	keys := make([]string, 0, len(results))
	for k := range results {
		keys = append(keys, k)
	}
	sort.Strings(keys)
	kv := make([]string, 0, len(keys))
	for _, k := range keys {
		res[k] = results[k]
		kv = append(kv, fmt.Sprintf("%s=%d", k, results[k]))
	}
	s.Say("op answer %s %d ok %s", q.Node, q.Occ, orDash(strings.Join(kv, ",")))
	q.Done = true
	ok := DoWithDeadline(q.Trace, 3*time.Second, bpmn.DoWithResults(res))
	if !ok {
		s.Say("obs ret do %s %d blocked", q.Node, q.Occ)
	}
	return ok
}

// Lines: the history with instance ids replaced by labels (see ResolveLabels).
func (s *SetInst) Lines() []string { return ResolveLabels(s.Inst.Lines(), s.procs) }

// ResolveLabels replaces "@<instance id>" by "<process id>#<k>" (k-th instance of that process in order of
// first appearance). An instance whose process cannot be told (no trace naming one of its nodes) is "?#k".
// procs: the process ids of the definitions.
func ResolveLabels(raw []string, procs []string) []string {
	procs = append([]string(nil), procs...)
	sort.Slice(procs, func(i, j int) bool { return len(procs[i]) > len(procs[j]) })
	procOfToken := func(tok string) string {
		for _, p := range procs {
			if tok == p || strings.HasPrefix(tok, p+"_") {
				return p
			}
		}
		return ""
	}
	procOf := map[string]string{}
	var order []string
	for _, l := range raw {
		w := strings.Fields(l)
		if len(w) < 3 || w[0] != "obs" || !strings.HasPrefix(w[1], "@") {
			continue
		}
		id := w[1][1:]
		if _, seen := procOf[id]; !seen {
			procOf[id] = ""
			order = append(order, id)
		}
		if procOf[id] != "" {
			continue
		}
		for _, tok := range w[3:] {
			if p := procOfToken(tok); p != "" {
				procOf[id] = p
				break
			}
		}
	}
	label := map[string]string{}
	count := map[string]int{}
	for _, id := range order {
		p := procOf[id]
		if p == "" {
			p = "?"
		}
		count[p]++
		label[id] = fmt.Sprintf("%s#%d", p, count[p])
	}
	out := make([]string, 0, len(raw))
	for _, l := range raw {
		w := strings.Fields(l)
		if len(w) >= 3 && w[0] == "obs" && strings.HasPrefix(w[1], "@") {
			w[1] = label[w[1][1:]]
			l = strings.Join(w, " ")
		}
		out = append(out, l)
	}
	return out
}

// Wait calls ProcessSet.WaitUntilComplete under a deadline.
func (s *SetInst) Wait(d time.Duration) bool {
	ctx, cancel := context.WithTimeout(context.Background(), d)
	defer cancel()
	return s.PS.WaitUntilComplete(ctx)
}

// Stop cancels the set's context.
func (s *SetInst) Stop() { s.Cancel() }
