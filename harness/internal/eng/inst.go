package eng

import (
	"context"
	"fmt"
	"github.com/olive-io/bpmn/v2/pkg/data"
	"hash/fnv"
	"io"
	"reflect"
	"regexp"
	"runtime"
	"sort"
	"strings"
	"sync"
	"sync/atomic"
	"time"
	"unicode"

	"github.com/olive-io/bpmn/schema"
	bpmn "github.com/olive-io/bpmn/v2"
	"github.com/olive-io/bpmn/v2/pkg/event"
	"github.com/olive-io/bpmn/v2/pkg/tracing"
)

// ------------------------------------------------------------------ program lines from parsed definitions

func kindOf(e any) string {
	t := reflect.TypeOf(e)
	for t.Kind() == reflect.Ptr {
		t = t.Elem()
	}
	n := t.Name()
	r := []rune(n)
	r[0] = unicode.ToLower(r[0])
	return string(r)
}

func qnames(q *[]schema.QName) string {
	if q == nil || len(*q) == 0 {
		return "-"
	}
	s := make([]string, len(*q))
	for i, x := range *q {
		s[i] = string(x)
	}
	return strings.Join(s, ",")
}

type flowContainer interface {
	FlowElements() []schema.FlowElementInterface
}

// ProgLines describes the PARSED definitions (not the generator's idea of them): one `node` line per
// flow node, one `flow` line per sequence flow. condRPN maps condition source text to RPN tokens.
func ProgLines(proc *schema.Process, condRPN map[string]string) []string {
	var out []string
	var walk func(c flowContainer, parent string)
	walk = func(c flowContainer, parent string) {
		els := c.FlowElements()
		for _, e := range els {
			switch x := e.(type) {
			case *schema.SequenceFlow:
				id, _ := x.Id()
				cond := "none"
				if ce, ok := x.ConditionExpression(); ok {
					switch ex := ce.Expression.(type) {
					case *schema.FormalExpression:
						txt := strings.TrimSpace(*ex.TextPayload())
						if r, ok := condRPN[txt]; ok {
							cond = r
						} else {
							cond = "unknown"
						}
					case *schema.Expression:
						cond = "informal"
						// the program is what the DOCUMENT says: a condition the generator wrote as a formal
						// expression stays that condition even if the parser took it for an informal one
						if tp := ex.TextPayload(); tp != nil {
							if r, ok := condRPN[strings.TrimSpace(*tp)]; ok && strings.TrimSpace(*tp) != "whatever" {
								cond = r
							}
						}
					}
				}
				out = append(out, Canon(fmt.Sprintf("flow %s %s %s %s %s", *id, *x.SourceRef(), *x.TargetRef(), orDash(parent), cond)))
			default:
				fn, ok := e.(schema.FlowNodeInterface)
				if !ok {
					continue
				}
				id, _ := fn.Id()
				kind := kindOf(e)
				line := fmt.Sprintf("node %s %s in=%s out=%s parent=%s", *id, kind, qnames(fn.Incomings()), qnames(fn.Outgoings()), orDash(parent))
				switch g := e.(type) {
				case *schema.ExclusiveGateway:
					if d, ok := g.Default(); ok {
						line += " default=" + string(*d)
					}
				case *schema.InclusiveGateway:
					if d, ok := g.Default(); ok {
						line += " default=" + string(*d)
					}
				case *schema.BoundaryEvent:
					line += fmt.Sprintf(" attached=%s interrupting=%d", string(*g.AttachedToRef()), b2i(g.CancelActivity()))
				}
				if be, ok := e.(schema.BaseElementInterface); ok {
					if ext, found := be.ExtensionElements(); found && ext != nil {
						if ext.ResultsField != nil {
							var names []string
							for _, f := range ext.ResultsField.Field {
								names = append(names, f.Name)
							}
							if len(names) > 0 {
								line += " results=" + strings.Join(names, ",")
							}
						}
						if len(ext.DataOutput) > 0 {
							var names []string
							for _, o := range ext.DataOutput {
								names = append(names, o.Name)
							}
							line += " outputs=" + strings.Join(names, ",")
						}
						if ext.TaskDefinitionField != nil {
							line += fmt.Sprintf(" retries=%d", ext.TaskDefinitionField.Retries)
						}
					}
				}
				if ce, ok := e.(schema.CatchEventInterface); ok {
					line += fmt.Sprintf(" defs=%d pm=%d", len(ce.EventDefinitions()), b2i(ce.ParallelMultiple()))
				}
				out = append(out, line)
				if sp, ok := e.(*schema.SubProcess); ok {
					walk(sp, *id)
				}
			}
		}
	}
	walk(proc, "")
	sort.Strings(out)
	for k := range out {
		out[k] = Canon(out[k])
	}
	return out
}

func orDash(s string) string {
	if s == "" {
		return "-"
	}
	return s
}

func b2i(b bool) int {
	if b {
		return 1
	}
	return 0
}

// ------------------------------------------------------------------ quiescence of the whole process

var stackBuf = make([]byte, 1<<20)

// busyGoroutines counts goroutines other than the caller that are able to run now.
func busyGoroutines() int {
	for {
		n := runtime.Stack(stackBuf, true)
		if n < len(stackBuf) {
			return countBusy(stackBuf[:n])
		}
		stackBuf = make([]byte, 2*len(stackBuf))
	}
}

func countBusy(b []byte) int {
	busy := 0
	first := true
	for len(b) > 0 {
		// find "goroutine N [state"
		i := indexAt(b, "goroutine ")
		if i < 0 {
			break
		}
		b = b[i:]
		j := indexByte(b, '[')
		k := indexByte(b, ']')
		if j < 0 || k < 0 || k < j {
			break
		}
		state := string(b[j+1 : k])
		if c := strings.IndexByte(state, ','); c >= 0 {
			state = state[:c]
		}
		if first {
			first = false // the caller itself
		} else {
			switch {
			case state == "running", state == "runnable", state == "syscall", state == "sleep",
				strings.HasPrefix(state, "GC "), state == "copystack", state == "preempted", state == "waiting":
				busy++
			}
		}
		b = b[k:]
	}
	return busy
}

func indexAt(b []byte, s string) int {
	// header lines start at the beginning of a line
	for i := 0; i+len(s) <= len(b); i++ {
		if (i == 0 || b[i-1] == '\n') && string(b[i:i+len(s)]) == s {
			return i
		}
	}
	return -1
}

func indexByte(b []byte, c byte) int {
	for i := range b {
		if b[i] == c {
			return i
		}
	}
	return -1
}

// ------------------------------------------------------------------ instance + recorder

type Req struct {
	Node  string
	Occ   int // occurrence number of this node's requests, from 1
	Trace bpmn.TaskTrace
	Done  bool
}

type Inst struct {
	Proc    *bpmn.Process
	Ctx     context.Context
	Cancel  context.CancelFunc
	mu      sync.Mutex
	lines   []string
	ntraces int
	reqs    []*Req
	occ     map[string]int
	flowNo  map[string]int
	sub     chan tracing.ITrace
	recDone chan struct{}
	Panics  []string
	// NoWait: the next driver actions are issued without waiting for quiescence in between; they are
	// recorded as `opnw` so that the driver compares observations only at the end of the batch.
	NoWait bool
	// the LAGGING subscriber (LagSubscriber): a second subscription with a large buffer that only keeps the trace VALUES
	// and looks at them when the run is over — what a slow or buffered subscriber sees. traceLines: the prompt recorder's
	// renderings of the traces alone (no driver actions, no notes), in order.
	lagSub      chan tracing.ITrace
	lagged      []tracing.ITrace
	lagDone     chan struct{}
	traceLines  []string
	evs         map[string]event.IEvent
	reuseEvents bool
}

// LagSubscriber: instances created while it is set carry a lagging subscriber (see Inst.LagDiff)
var LagSubscriber bool

func nodeID(n any) string {
	if be, ok := n.(schema.BaseElementInterface); ok && be != nil {
		if !reflect.ValueOf(n).IsNil() {
			if id, present := be.Id(); present {
				return *id
			}
		}
	}
	return "-"
}

func (in *Inst) fno(id fmt.Stringer) string {
	s := id.String()
	n, ok := in.flowNo[s]
	if !ok {
		n = len(in.flowNo) + 1
		in.flowNo[s] = n
	}
	return fmt.Sprintf("F%d", n)
}

func errClass(err error) string {
	switch err.(type) {
	case bpmn.ExclusiveNoEffectiveSequenceFlows:
		return "noeffective-exclusive"
	case bpmn.InclusiveNoEffectiveSequenceFlows:
		return "noeffective-inclusive"
	}
	t := reflect.TypeOf(err)
	if t == nil {
		return "nil"
	}
	return strings.ToLower(t.Name())
}

// canon renders one trace; must be called with in.mu held.
func (in *Inst) canon(t tracing.ITrace) string {
	t = tracing.Unwrap(t)
	switch x := t.(type) {
	case bpmn.NewFlowTrace:
		return "newflow " + in.fno(x.FlowId)
	case bpmn.VisitTrace:
		return "visit " + nodeID(x.Node)
	case bpmn.LeaveTrace:
		return "leave " + nodeID(x.Node)
	case bpmn.FlowTrace:
		parts := make([]string, len(x.Flows))
		for i, s := range x.Flows {
			sf := "-"
			if q := s.SequenceFlow(); q != nil {
				if id, ok := q.Id(); ok {
					sf = *id
				}
			}
			parts[i] = in.fno(s.Id()) + ":" + sf
		}
		return "flow " + nodeID(x.Source) + " " + strings.Join(parts, ",")
	case bpmn.TerminationTrace:
		return "term " + in.fno(x.FlowId) + " " + nodeID(x.Source)
	case bpmn.CompletionTrace:
		return "complete " + nodeID(x.Node)
	case bpmn.CeaseFlowTrace:
		return "cease"
	case bpmn.TaskTrace:
		id := Canon(nodeID(x.GetActivity().Element()))
		in.occ[id]++
		in.reqs = append(in.reqs, &Req{Node: id, Occ: in.occ[id], Trace: x})
		cancelled := 0
		if x.Context().Err() != nil {
			cancelled = 1
		}
		return fmt.Sprintf("task %s %d ctxdone=%d", id, in.occ[id], cancelled)
	case bpmn.ErrorTrace:
		return "error " + errClass(x.Error)
	case bpmn.ActiveBoundaryTrace:
		return fmt.Sprintf("boundary %d %s", b2i(x.Start), nodeID(x.Node))
	case bpmn.CancellationFlowTrace:
		return "cancelflow " + in.fno(x.FlowId) + " " + nodeID(x.Node)
	case bpmn.CancellationFlowNodeTrace:
		return "cancelnode " + nodeID(x.Node)
	case bpmn.ActiveListeningTrace:
		return "listening " + nodeID(x.Node)
	case bpmn.EventObservedTrace:
		return "observed " + nodeID(x.Node)
	case bpmn.DeterminationMadeTrace:
		return "determ " + nodeID(x.Node)
	case bpmn.IncomingFlowProcessedTrace:
		return "pgin " + nodeID(x.Node) + " " + in.fno(x.Flow.Id())
	case bpmn.InstantiationTrace:
		return "instantiation"
	}
	return "other " + reflect.TypeOf(t).String()
}

// Start parses the XML with the real parser, creates and starts an instance, and begins recording.
// The recording subscriber is registered BEFORE the start so nothing is missed, has a large buffer
// and its own goroutine so that recording never back-pressures the engine.
// EarlierDocuments counts the decoy documents run by Start (for the evidence).
var EarlierDocuments int

var (
	reCond   = regexp.MustCompile(`(<bpmn:conditionExpression[^>]*>)[^<]*(</bpmn:conditionExpression>)`)
	reRef    = regexp.MustCompile(`(signalRef|messageRef)="([^"]*)"`)
	reCancel = regexp.MustCompile(`cancelActivity="(true|false)"`)
)

// earlierDocument: the same document — same process, element and definition ids — with other behaviour: every condition
// false, every signal / message another one, every boundary event of the other kind.
func earlierDocument(xmlText string) string {
	f := "false"
	if strings.Contains(xmlText, `expressionLanguage="http://www.w3.org/1999/XPath"`) {
		f = "false()"
	}
	x := reCond.ReplaceAllString(xmlText, "${1}"+f+"${2}")
	x = reRef.ReplaceAllString(x, `${1}="${2}_earlier_document"`)
	x = reCancel.ReplaceAllStringFunc(x, func(m string) string {
		if strings.Contains(m, "true") {
			return `cancelActivity="false"`
		}
		return `cancelActivity="true"`
	})
	return x
}

// Start parses and starts one instance. For a quarter of the documents (chosen by a hash of the text, so that a case is
// reproducible) ANOTHER document with the same ids but other behaviour is instantiated, started and stopped first in the
// same program: whatever the engine keeps per package, per id or per text must not carry anything over.
func Start(xmlText string, vars map[string]any, opts ...bpmn.Option) (*Inst, *schema.Definitions, error) {
	var written *Graph
	lastMu.Lock()
	if lastGraph != nil && lastXML == xmlText {
		written = lastGraph
	}
	lastMu.Unlock()
	h := fnv.New32a()
	h.Write([]byte(xmlText))
	if h.Sum32()%4 == 0 && len(opts) == 0 {
		if d0, err := schema.Parse([]byte(earlierDocument(xmlText))); err == nil {
			other := map[string]any{"vu": 1} // `vu`: a variable only the EARLIER document's instance ever defines
			for k := range vars {
				other[k] = 2
			}
			if in0, err := StartDefs(d0, other); err == nil || in0 != nil {
				// a few steps, so that its tokens evaluate conditions, reach gateways and events
				for k := 0; k < 3 && in0.Quiesce(2*time.Second); k++ {
					p0 := in0.Pending()
					if len(p0) == 0 {
						break
					}
					in0.AnswerOK(p0[0], nil)
				}
				in0.Quiesce(2 * time.Second)
				in0.Stop(2 * time.Second)
				EarlierDocuments++
			}
		}
	}
	// the namespace prefix is the document's own business: a fifth of the documents bind the BPMN namespace to the
	// prefix other modelers write (`bpmn2:`, `semantic:`), also in the QName values of xsi:type
	switch h.Sum32() % 10 {
	case 3:
		xmlText = OtherPrefix(xmlText, "bpmn2")
	case 7:
		xmlText = OtherPrefix(xmlText, "semantic")
	}
	// ids are opaque names: a fifth of the documents carry activity and sequence-flow ids that END IN another element's
	// id (`H__P` next to `P`, `f2__f1` next to `f1`, the shorter one declared first); everything recorded is named by the
	// part before `__` again (Canon)
	switch h.Sum32() % 10 {
	case 1, 5:
		xmlText = ContainIDs(xmlText)
	}
	defs, err := schema.Parse([]byte(xmlText))
	if err != nil {
		return nil, nil, fmt.Errorf("parse: %w", err)
	}
	if written != nil && len(*defs.Processes()) == 1 {
		// the parser has read what the generator wrote: kinds, flow lists in order, scopes, defaults, hosts, conditions
		read := map[string]string{}
		for _, l := range ProgLines(&(*defs.Processes())[0], written.CondRPN) {
			if w := strings.Fields(l); len(w) > 1 {
				read[w[1]] = l
			}
		}
		for id, want := range written.Describe() {
			got, ok := read[id]
			for _, more := range []string{" results=", " outputs=", " retries=", " defs="} {
				if i := strings.Index(got, more); i >= 0 {
					got = got[:i]
				}
			}
			if !ok || got != want {
				return nil, nil, fmt.Errorf("document-read-differently: written [%s] read [%s]", want, got)
			}
		}
		DocumentsCompared++
	}
	in, err := StartDefs(defs, vars, opts...)
	return in, defs, err
}

// InstancesWithOwnTracer counts the instances that were given their tracer as an option.
var InstancesWithOwnTracer int

// EngineDefaultContext counts the instances created by an engine that was given no context.
var EngineDefaultContext int

// DocumentsCompared counts the documents whose parse was compared with what the generator wrote.
var DocumentsCompared int

// ContainedIDDocuments counts the documents whose ids were made to contain each other.
var ContainedIDDocuments int

var (
	idElemRe = regexp.MustCompile(`<[A-Za-z0-9]+:(task|serviceTask|userTask|scriptTask|sendTask|receiveTask|manualTask|businessRuleTask|callActivity|subProcess|sequenceFlow) id="([^"]+)"`)
	canonRe  = regexp.MustCompile(`([A-Za-z0-9_]*[A-Za-z0-9])__[A-Za-z0-9_]+`)
)

// ContainIDs renames every second activity and every second sequence flow (in document order) to `<id>__<id of the one
// before it>`: the new id ends in the id of an element declared earlier.
func ContainIDs(xmlText string) string {
	var acts, flows []string
	for _, m := range idElemRe.FindAllStringSubmatch(xmlText, -1) {
		if strings.Contains(m[2], "__") {
			return xmlText
		}
		if m[1] == "sequenceFlow" {
			flows = append(flows, m[2])
		} else {
			acts = append(acts, m[2])
		}
	}
	var pairs []string
	for _, ids := range [][]string{acts, flows} {
		for i := 1; i < len(ids); i += 2 {
			nw := ids[i] + "__" + ids[i-1]
			pairs = append(pairs, `"`+ids[i]+`"`, `"`+nw+`"`, `>`+ids[i]+`<`, `>`+nw+`<`)
		}
	}
	if len(pairs) == 0 {
		return xmlText
	}
	ContainedIDDocuments++
	return strings.NewReplacer(pairs...).Replace(xmlText)
}

// Canon names an element by the id the generator gave it (see ContainIDs).
func Canon(line string) string {
	if !strings.Contains(line, "__") {
		return line
	}
	return canonRe.ReplaceAllString(line, "$1")
}

// OtherPrefixDocuments counts the documents that ran under another namespace prefix.
var OtherPrefixDocuments int

// OtherPrefix rewrites a document written with the prefix `bpmn:` to the same document under prefix `pfx`.
func OtherPrefix(xmlText, pfx string) string {
	if !strings.Contains(xmlText, `xmlns:bpmn="`) {
		return xmlText
	}
	OtherPrefixDocuments++
	r := strings.NewReplacer("<bpmn:", "<"+pfx+":", "</bpmn:", "</"+pfx+":", `xmlns:bpmn="`, `xmlns:`+pfx+`="`, `="bpmn:t`, `="`+pfx+`:t`)
	return r.Replace(xmlText)
}

func StartDefs(defs *schema.Definitions, vars map[string]any, opts ...bpmn.Option) (*Inst, error) {
	in, err := NewInst(defs, vars, opts...)
	if err != nil {
		return nil, err
	}
	if err := in.Proc.StartAll(in.Ctx); err != nil {
		return in, fmt.Errorf("startall: %w", err)
	}
	return in, nil
}

// NewInst creates the instance and the recorder but does not start it.
func NewInst(defs *schema.Definitions, vars map[string]any, opts ...bpmn.Option) (*Inst, error) {
	ctx, cancel := context.WithCancel(context.Background())
	in := &Inst{Ctx: ctx, Cancel: cancel, occ: map[string]int{}, flowNo: map[string]int{}, recDone: make(chan struct{})}
	all := []bpmn.Option{bpmn.WithContext(ctx)}
	if vars != nil {
		all = append(all, bpmn.WithVariables(vars))
	}
	all = append(all, opts...)
	if ps := *defs.Processes(); len(opts) == 0 && len(ps) > 0 && len(ps[0].FlowElements())%3 == 2 {
		// a third of the instances created without further options are given their tracer EXPLICITLY (an application
		// that wants to own it): it is the instance's tracer like the one the engine would have made
		all = append(all, bpmn.WithTracer(tracing.NewTracer(ctx)))
		InstancesWithOwnTracer++
	}
	// the ENGINE's context is the instance's own for half of the documents and the engine's default (never cancelled)
	// for the others: an instance lives and ends on the context it was given, whatever the engine was created with
	eng := bpmn.NewEngine(bpmn.WithEngineContext(ctx))
	if ps := *defs.Processes(); len(ps) > 0 && len(ps[0].FlowElements())%2 == 1 {
		eng = bpmn.NewEngine()
		EngineDefaultContext++
	}
	proc, err := eng.NewProcess(defs, all...)
	if err != nil {
		cancel()
		return nil, fmt.Errorf("newprocess: %w", err)
	}
	in.Proc = proc
	in.sub = proc.Tracer().SubscribeChannel(make(chan tracing.ITrace, 1<<14))
	if LagSubscriber {
		in.lagSub = proc.Tracer().SubscribeChannel(make(chan tracing.ITrace, 1<<14))
		in.lagDone = make(chan struct{})
		go func() {
			defer close(in.lagDone)
			for t := range in.lagSub {
				in.mu.Lock()
				in.lagged = append(in.lagged, t) // the VALUE is kept; nothing of it is read now
				in.mu.Unlock()
			}
		}()
	}
	go func() {
		defer close(in.recDone)
		for t := range in.sub {
			in.mu.Lock()
			l := "obs " + Canon(in.canon(t))
			in.lines = append(in.lines, l)
			if in.lagSub != nil {
				in.traceLines = append(in.traceLines, l)
			}
			in.ntraces++
			in.mu.Unlock()
		}
	}()
	return in, nil
}

// LagDiff renders what the lagging subscriber holds — now, after the run — and compares it with what the prompt recorder
// rendered when each trace arrived: n = traces compared, at = index of the first difference (-1: none).
func (in *Inst) LagDiff() (n, at int, prompt, lagged string) {
	in.mu.Lock()
	defer in.mu.Unlock()
	shadow := &Inst{occ: map[string]int{}, flowNo: map[string]int{}}
	n = len(in.traceLines)
	if len(in.lagged) < n {
		n = len(in.lagged)
	}
	for i := 0; i < n; i++ {
		l := "obs " + Canon(shadow.canon(in.lagged[i]))
		// (whether a task's context is done is a fact about the moment of reading, not about the trace)
		if stripCtxDone(l) != stripCtxDone(in.traceLines[i]) {
			return n, i, in.traceLines[i], l
		}
	}
	return n, -1, "", ""
}

func stripCtxDone(l string) string {
	if i := strings.Index(l, " ctxdone="); i >= 0 {
		return l[:i]
	}
	return l
}

// Op records a driver action in the history at the current position.
func (in *Inst) Op(format string, a ...any) {
	in.mu.Lock()
	w := "op "
	if in.NoWait {
		w = "opnw "
	}
	in.lines = append(in.lines, w+fmt.Sprintf(format, a...))
	in.mu.Unlock()
}

func (in *Inst) Note(format string, a ...any) {
	in.mu.Lock()
	in.lines = append(in.lines, fmt.Sprintf(format, a...))
	in.mu.Unlock()
}

func (in *Inst) NTraces() int { in.mu.Lock(); defer in.mu.Unlock(); return in.ntraces }

// Quiesce waits until no goroutine of the process can run and the trace count is stable.
// Returns false on timeout (a livelock / busy loop in the engine, or a timer-driven process).
func (in *Inst) Quiesce(timeout time.Duration) bool {
	deadline := time.Now().Add(timeout)
	stable := 0
	last := -1
	for {
		runtime.Gosched()
		n := in.NTraces()
		if busyGoroutines() == 0 && n == last {
			stable++
			// three quiet looks in a row, spread over at least 150 µs (seen once in 14000 thorough cases: two looks a few
			// microseconds apart both found every goroutine parked while a task request was still on its way)
			if stable >= 3 {
				return true
			}
		} else {
			stable = 0
		}
		last = n
		if time.Now().After(deadline) {
			return false
		}
		if stable == 0 {
			time.Sleep(30 * time.Microsecond)
		} else {
			time.Sleep(75 * time.Microsecond)
		}
	}
}

// Pending returns the unanswered task requests in the order they were observed.
func (in *Inst) Pending() []*Req {
	in.mu.Lock()
	defer in.mu.Unlock()
	var r []*Req
	for _, q := range in.reqs {
		if !q.Done {
			r = append(r, q)
		}
	}
	return r
}

func (in *Inst) AllReqs() []*Req {
	in.mu.Lock()
	defer in.mu.Unlock()
	return append([]*Req(nil), in.reqs...)
}

// DoWithDeadline calls Do on a request in a goroutine and reports whether it returned in time.
func DoWithDeadline(t bpmn.TaskTrace, d time.Duration, opts ...bpmn.DoOption) bool {
	done := make(chan struct{})
	go func() { t.Do(opts...); close(done) }()
	select {
	case <-done:
		return true
	case <-time.After(d):
		return false
	}
}

// AnswerOK answers a pending request successfully with integer results.
// SetVar: the host changes an instance variable through the process's locator (recorded as a driver action)
func (in *Inst) SetVar(name string, v int) {
	in.Op("setvar %s=%d", name, v)
	in.Proc.Locator().SetVariable(name, v)
}

func (in *Inst) AnswerOK(q *Req, results map[string]int) bool {
	res := map[string]any{}
	keys := make([]string, 0, len(results))
	for k := range results {
		keys = append(keys, k)
	}
	sort.Strings(keys)
	kv := make([]string, 0, len(keys))
	objs := map[string]any{}
	for _, k := range keys {
		if strings.HasPrefix(k, "@") { // a data output: DoWithObjects
			objs[k[1:]] = results[k]
		} else {
			res[k] = results[k]
		}
		kv = append(kv, fmt.Sprintf("%s=%d", k, results[k]))
	}
	in.Op("answer %s %d ok %s", q.Node, q.Occ, orDash(strings.Join(kv, ",")))
	q.Done = true
	opts := []bpmn.DoOption{bpmn.DoWithResults(res)}
	if len(objs) > 0 {
		opts = append(opts, bpmn.DoWithObjects(objs))
	}
	ok := DoWithDeadline(q.Trace, 3*time.Second, opts...)
	if !ok {
		in.Note("obs ret do %s %d blocked", q.Node, q.Occ)
	}
	return ok
}

// AnswerErr answers with an error and an optional handler (mode 0 = no handler).
func (in *Inst) AnswerErr(q *Req, mode bpmn.ErrHandleMode, retries int32) bool {
	in.Op("answer %s %d err %d %d", q.Node, q.Occ, int(mode), retries)
	q.Done = true
	var ok bool
	werr := WorkerError()
	if mode == 0 {
		ok = DoWithDeadline(q.Trace, 3*time.Second, bpmn.DoWithErr(werr))
	} else {
		ch := make(chan bpmn.ErrHandler, 1)
		ch <- bpmn.ErrHandler{Mode: mode, Retries: retries}
		ok = DoWithDeadline(q.Trace, 3*time.Second, bpmn.DoWithErrHandle(werr, ch))
	}
	if !ok {
		in.Note("obs ret do %s %d blocked", q.Node, q.Occ)
	}
	return ok
}

var workerErrNo atomic.Int64

// WorkerError: WHICH error a worker answers with is the worker's business — a plain one, or its own downstream call's
// timeout / cancellation / end of input wrapped with %w. The instance's context is alive: to the engine they are all
// the same task error.
func WorkerError() error {
	switch workerErrNo.Add(1) % 4 {
	case 1:
		return fmt.Errorf("downstream call: %w", context.DeadlineExceeded)
	case 2:
		return fmt.Errorf("downstream call: %w", context.Canceled)
	case 3:
		return fmt.Errorf("read reply: %w", io.EOF)
	}
	return fmt.Errorf("boom")
}

// Deliver hands an event to the instance under a deadline.
func (in *Inst) Deliver(kind, name string, d time.Duration) bool {
	return in.DeliverEvent(in.EventValue(kind, name), kind, name, d)
}

// EventValue: the event value to hand in. Every second instance is handed THE SAME value again and again (one object per
// kind and name, as an application that keeps its events in variables does); the others get a fresh value per delivery.
func (in *Inst) EventValue(kind, name string) event.IEvent {
	in.mu.Lock()
	defer in.mu.Unlock()
	if in.evs == nil {
		in.evs = map[string]event.IEvent{}
		// (decided by how many traces the instance has sent when it gets its first event: the same on every replay)
		in.reuseEvents = (int64(in.ntraces)+instNo.Add(1))%2 == 0
	}
	ev := in.evs[kind+" "+name]
	if ev == nil || !in.reuseEvents {
		if kind == "message" {
			ev = event.NewMessageEvent(name, nil)
		} else {
			ev = event.NewSignalEvent(name)
		}
		in.evs[kind+" "+name] = ev
	}
	return ev
}

var instNo atomic.Int64

// DeliverEvent hands an event VALUE of any kind to the instance under a deadline; it is recorded as `deliver <kind> <name>`.
func (in *Inst) DeliverEvent(ev event.IEvent, kind, name string, d time.Duration) bool {
	in.Op("deliver %s %s", kind, name)
	done := make(chan struct{})
	go func() {
		defer func() {
			if r := recover(); r != nil {
				in.mu.Lock()
				in.Panics = append(in.Panics, fmt.Sprint(r))
				in.mu.Unlock()
			}
			close(done)
		}()
		in.Proc.ConsumeEvent(ev)
	}()
	select {
	case <-done:
		in.Note("obs ret deliver %s returned", name)
		return true
	case <-time.After(d):
		in.Note("obs ret deliver %s blocked", name)
		return false
	}
}

// WaitComplete calls WaitUntilComplete with a timeout and records the result.
func (in *Inst) WaitComplete(d time.Duration) bool {
	ctx, cancel := context.WithTimeout(context.Background(), d)
	defer cancel()
	ok := in.Proc.WaitUntilComplete(ctx)
	return ok
}

// Vars returns the instance variables in canonical text form.
func (in *Inst) Vars() string { return in.vars(false) }

// VarsAndObjects: the variables and, as "@name", every data object that holds a value (for families whose answers
// write data objects through AnswerOK's "@name" results).
func (in *Inst) VarsAndObjects() string { return in.vars(true) }

func (in *Inst) vars(withObjects bool) string {
	m := in.Proc.Locator().CloneVariables()
	keys := make([]string, 0, len(m))
	for k := range m {
		keys = append(keys, k)
	}
	sort.Strings(keys)
	parts := make([]string, 0, len(keys))
	for _, k := range keys {
		parts = append(parts, fmt.Sprintf("%s=%v", k, m[k].Value()))
	}
	// data objects that hold a value, as "@name" (sorted before the variables: '@' < letters)
	if loc, found := in.Proc.Locator().FindIItemAwareLocator(data.LocatorObject); found && withObjects {
		if c, ok := loc.(interface{ Clone() map[string]data.IItem }); ok {
			objs := c.Clone()
			names := make([]string, 0, len(objs))
			for k := range objs {
				names = append(names, k)
			}
			sort.Strings(names)
			var op []string
			for _, k := range names {
				if objs[k] != nil && objs[k].Value() != nil {
					op = append(op, fmt.Sprintf("@%s=%v", k, objs[k].Value()))
				}
			}
			parts = append(op, parts...)
		}
	}
	return orDash(strings.Join(parts, ","))
}

// Lines returns the recorded history so far.
func (in *Inst) Lines() []string {
	in.mu.Lock()
	defer in.mu.Unlock()
	return append([]string(nil), in.lines...)
}

// Stop cancels the instance and waits (bounded) for the tracer to finish; returns whether it did.
func (in *Inst) Stop(d time.Duration) bool {
	in.Cancel()
	select {
	case <-in.Proc.Tracer().Done():
		select {
		case <-in.recDone:
		case <-time.After(d):
		}
		return true
	case <-time.After(d):
		return false
	}
}
