#!/bin/bash
# Run every stored seeded change against the check of the property it breaks (scratch copies, /repo untouched):
#   runner/seeded_sweep.sh [jobs] -> build/seeded_sweep.txt  (one line per change: id verdict)
jobs=${1:-4}
cd /verif
mkdir -p build
ls seeded | xargs -P "$jobs" -I{} bash -c '
  id={}; if grep -q "\"retired\"" seeded/$id/meta.json; then echo "$id - RETIRED"; exit 0; fi; prop=$(python3 -c "import json;print(json.load(open(\"seeded/$id/meta.json\"))[\"breaks_property\"])")
  out=$(runner/mutant_eval.sh seeded/$id/patch.diff $prop 2>&1 | grep -E "^(OK|VIOLATION|MACHINERY|PATCH)" | head -1 | cut -c1-120)
  echo "$id $prop ${out:-NO-VERDICT}"
' > build/seeded_sweep.txt 2>&1
sort build/seeded_sweep.txt
