from props import TB_COMMON
ENTRY = dict(
    level="proof",
    level_text=("Lean 4 theorems about the cancellation PROTOCOL of the engine, for every table of goroutine kinds, every "
                "configuration of live goroutines and every schedule: if each blocking operation of each goroutine kind has a "
                "ctx.Done alternative or a guaranteed partner, each kind that sends traces is a registered sender and "
                "registration and Done() go together, then after `cancel` exactly measure(s) goroutine steps remain, no live "
                "goroutine is ever unable to step, and one more turn of the broadcaster closes the subscriber channels "
                "(cancel_drains, cancel_drains_any_schedule); the broadcaster's post-cancel polling is futile exactly while a "
                "registered sender is counted and is bounded by measure(s) under the hot loop (tracer_spin_bounded); task "
                "requests emitted after the cancel carry a cancelled context and none follows the run loop's observation of it "
                "(no_request_after_cancel, on the code shape of genericTask.run). For every way a row can fail a side condition "
                "there is a kernel-checked stuck witness (unregistered sender parked in tracer.Send after the tracer ended; "
                "registered sender parked for good => tracer never done, polls for ever; handle never Done). The side conditions "
                "are evaluated by `decide` on two tables REGENERATED from /repo on every run (every `go` statement with "
                "sends/registers/callsDone; every blocking channel operation reachable in a goroutine body with its ctx.Done "
                "alternative and channel capacity), as dichotomies that build on either side of a repair, plus a no-regression "
                "obligation that breaks when a row that is fine today loses its cancellation alternative, buffered reply or "
                "registration. Tied to the code by a cancellation-point sweep on the real engine: 13 programs (16 thorough) "
                "covering all node kinds x every cancellation point (number of traces before the cancel), one OS process per "
                "case, goroutine census by function and parking site, CPU-based spin detection; every leftover goroutine is "
                "compared with what the tables predict."),
    level_note=("PARTIAL: the theorems are about the cancellation protocol over the extracted tables, not about Go goroutines: "
                "real goroutine exit, closed channels and absence of spinning are OBSERVED by the sweep at every cancellation "
                "point of the corpus, not proved. On the unchanged tree the tables do NOT meet the side conditions: the failing "
                "rows (unregistered senders of the generic task / sub-process / harness helper, harness.NextAction's synchronous "
                "receive, unbuffered replies of node loops to tokens that may have left, the flow tracker that never "
                "unsubscribes and has no cancellation alternative, the sub-process tracer under a detached context, StartWith's "
                "unregistered Send) carry witnesses and are re-observed by the sweep as known findings (schedule dependent: a run "
                "that does not see one prints nothing for it). Whether the partner of an operation without ctx.Done alternative "
                "is guaranteed is a hand-maintained justification list in Props/C07Current.lean (buffered one-shot replies and "
                "inboxes are additionally checked for capacity >= 1); node inboxes are ASSUMED never full. Goroutines started "
                "after the cancel are counted as live from the cancel on (sound for registered parents); sync.WaitGroup waits "
                "of helper goroutines are not actor operations; one tracer at a time. The extractor is syntactic (go/ast) and "
                "over-approximates calls it cannot resolve."),
    technique="Lean 4 proof (invariant + measure over a protocol model, dichotomies over extracted tables) + exhaustive cancellation-point sweep of the real engine",
    lean_modules=["Bpmn.Props.C07", "Bpmn.Props.C07Current"],
    families=["c07", "c13"],
    harness_files=["c13.go", "c13e2.go"],
    exhaustive=True,
    multi_seed=False,
    rule=("family c13 seen through C07: pkg/timer on the mock clock — every case ends by cancelling the context (also cancellations that race a clock jump to a due instant): every goroutine of pkg/timer is gone afterwards (leak:timer_goroutine_after_cancel / _blocked); "
          "c07: for each program of the corpus (two tasks in sequence; parallel fork/join; exclusive split/merge; inclusive "
          "fork/join; signal catch event; timer catch event on the mock clock; embedded sub-process with an inner task; "
          "non-interrupting boundary event armed / fired; event-based gateway; loop; throw event; task answered with an error and an error-handler channel on which the driver never sends a decision; thorough adds sub-process "
          "with a parallel block, parallel block with a catch event, exclusive inside inclusive, each x 3 repetitions with "
          "schedule perturbation 0/1/2) and EVERY cancellation point i = 0..(number of traces of the uncancelled run)+1: the "
          "real engine is run until i traces have been broadcast (tasks answered, signals delivered, the clock advanced by a "
          "fixed policy at quiescence), the context is cancelled from the subscriber that counted the i-th trace, and within "
          "2 s: Tracer().Done() closed, subscriber channel closed, WaitUntilComplete (fresh 300 ms context, then the cancelled "
          "one) returns, no goroutine started by the instance is left (runtime.Stack census keyed by goroutine function @ "
          "parking site#state), the process consumes no CPU during a 200 ms idle window and no engine goroutine is running in "
          "two snapshots, every task request rendered after the cancel has ctxdone=1 and none arrives later than 500 ms; "
          "non-trivial = the cancel happened before the run was over; distinct by (program, i, repetition, history)"),
    trusted_base=TB_COMMON + [
        "runtime.Stack goroutine dump (census, states), syscall.Getrusage (CPU of the process), whole-process quiescence detection",
        "the hand-maintained partner justification list in Props/C07Current.lean"],
    assumptions=["node inboxes (capacity 2*incoming+1) are never full",
                 "subscribers outside the engine keep reading until they unsubscribe (API contract of SubscribeChannel)",
                 "a scheduler that eventually runs every enabled goroutine; select eventually takes a ready ctx.Done case"],
)
