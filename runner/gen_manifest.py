#!/usr/bin/env python3
"""Regenerates MANIFEST.json from runner/props.py (run after adding a property)."""
import json, os, sys
ROOT = os.path.dirname(os.path.dirname(os.path.abspath(__file__)))
sys.path.insert(0, os.path.join(ROOT, "runner"))
from props import PROPS, NOT_APPLICABLE, HOOK_COMMITS, NOT_READY

ids = [json.loads(l)["id"] for l in open(os.path.join(ROOT, "properties.jsonl"))]
checks = []
for p in ids:
    if p not in PROPS or p in NOT_READY:
        continue
    c = PROPS[p]
    checks.append(dict(
        property_id=p,
        quick_cmd=f"./check {p} --tier quick",
        thorough_cmd=f"./check {p} --tier thorough",
        evidence_file=f"/verif/evidence/{p}.json",
        replay_cmd_template="./check replay {path}",
        engine="lean4-model+go-harness",
        level_claimed=dict(category=c["level"], text=c["level_text"], design_ref=c.get("design_ref", f"DESIGN.md section 8, {p}")),
        level_note=c["level_note"],
        technique=c["technique"],
    ))
na = [dict(property_id=p, reason=NOT_APPLICABLE.get(p, "check not built yet in this round (no claim made)"))
      for p in ids if p not in PROPS or p in NOT_READY]
m = dict(
    version=1,
    setup_cmd="./check setup",
    hooks=dict(guard="verif", enable="go build -tags verif (the harness module replaces github.com/olive-io/bpmn/v2 and .../schema by /repo)",
               baseline_off_cmd="cd /repo && go test -vet=off -count=1 -timeout 25m ./... && cd schema && go test -mod=mod -vet=off -count=1 ./...",
               source_commits=HOOK_COMMITS, add_only=True),
    engines=[dict(name="lean4-model+go-harness", path="/verif/check",
                  serves_properties=[c["property_id"] for c in checks],
                  kind_free_text="Lean 4 models + theorems (lean/), fact extractor (extract/), differential Go harness (harness/), python runner (check)")],
    checks=checks,
    notes="See DESIGN.md. Each check regenerates facts from /repo, rebuilds the proofs, rebuilds the harness against /repo with -tags verif, replays implementation behaviour through the Lean model and evaluates the property predicate on it.",
    not_applicable=na,
)
json.dump(m, open(os.path.join(ROOT, "MANIFEST.json"), "w"), indent=1)
print("checks:", [c["property_id"] for c in checks], "not claimed:", [n["property_id"] for n in na])
