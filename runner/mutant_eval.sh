#!/bin/bash
# Evaluate the checks against a seeded change WITHOUT touching /repo (other work may be using it):
#   runner/mutant_eval.sh <patch.diff> <Cxx> [<Cyy> …]
# A scratch worktree of /repo gets the patch; a scratch copy of /verif (with its Lean build cache) is pointed at it.
# Prints each check's verdict lines; removes both scratch trees afterwards.
set -u
patch=$(readlink -f "$1"); shift
id=$$
wt=/tmp/meval/repo_$id
vc=/tmp/meval/verif_$id
mkdir -p /tmp/meval
git -C /repo worktree add -q --detach "$wt" HEAD || exit 3
( cd "$wt" && git apply "$patch" ) || { echo "PATCH-DOES-NOT-APPLY"; git -C /repo worktree remove --force "$wt"; exit 3; }
# hooks that are still uncommitted in /repo (other workers' verif_export files) are needed by some harnesses
( cd /repo && git ls-files --others --exclude-standard | grep 'verif_export' | while read f; do mkdir -p "$wt/$(dirname $f)"; cp "$f" "$wt/$f"; done )
rsync -a --exclude .git --exclude build/run --exclude build/cover --exclude replays /verif/ "$vc/"
sed -i "s|=> /repo/schema|=> $wt/schema|; s|=> /repo\$|=> $wt|" "$vc/harness/go.mod"
rc=0
for p in "$@"; do
  echo "== $p"
  ( cd "$vc" && VERIF_REPO="$wt" timeout 1500 ./check "$p" ${TIER:+--tier $TIER} 2>&1 | grep -E "^(OK|VIOLATION|KNOWN-FINDING|MACHINERY|driver build|setup|harness)" | cut -c1-300 )
done
# what each replay says (signature and detail), for the seeded change's metadata
python3 - "$vc" <<'PY'
import json,glob,sys
for f in sorted(glob.glob(sys.argv[1]+'/replays/*.json')):
    try: d=json.load(open(f))
    except Exception: continue
    print("REPLAY", f.split('/')[-1], "family="+str(d.get('family')), "case="+str(d.get('case')), "sig="+str(d.get('signature')), "|", str(d.get('detail'))[:260])
PY
if [ -n "${KEEP:-}" ]; then echo "kept: $wt $vc"; exit 0; fi
git -C /repo worktree remove --force "$wt"
rm -rf "$vc"
git -C /repo worktree prune
