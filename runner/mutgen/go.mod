module mutgen

go 1.23
