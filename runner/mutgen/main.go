// mutgen: enumerate small syntactic mutants of one Go source file (a SEARCH aid for gaps of the checks;
// see DESIGN.md 12.6). Usage: mutgen -file path.go -out dir [-max N] [-seed S]
// Writes dir/<k>.go (the mutated file) and dir/<k>.txt (one line: operator, line, description).
package main

import (
	"bytes"
	"flag"
	"fmt"
	"go/ast"
	"go/parser"
	"go/printer"
	"go/token"
	"math/rand"
	"os"
	"path/filepath"
	"strconv"
)

type mutation struct {
	desc  string
	line  int
	apply func() // mutate the AST in place
	undo  func()
}

func main() {
	file := flag.String("file", "", "")
	out := flag.String("out", "", "")
	max := flag.Int("max", 0, "")
	seed := flag.Int64("seed", 1, "")
	flag.Parse()
	fset := token.NewFileSet()
	f, err := parser.ParseFile(fset, *file, nil, parser.ParseComments)
	if err != nil {
		fmt.Fprintln(os.Stderr, err)
		os.Exit(2)
	}
	var ms []mutation
	add := func(pos token.Pos, desc string, apply, undo func()) {
		ms = append(ms, mutation{desc: desc, line: fset.Position(pos).Line, apply: apply, undo: undo})
	}
	swaps := map[token.Token][]token.Token{
		token.EQL: {token.NEQ}, token.NEQ: {token.EQL},
		token.LSS: {token.LEQ, token.GEQ}, token.LEQ: {token.LSS}, token.GTR: {token.GEQ, token.LEQ}, token.GEQ: {token.GTR},
		token.LAND: {token.LOR}, token.LOR: {token.LAND},
		token.ADD: {token.SUB}, token.SUB: {token.ADD},
	}
	var visitBlock func(list *[]ast.Stmt)
	visitBlock = func(list *[]ast.Stmt) {
		for i := range *list {
			i := i
			st := (*list)[i]
			deletable := ""
			switch s := st.(type) {
			case *ast.ExprStmt:
				deletable = "call"
			case *ast.AssignStmt:
				if s.Tok != token.DEFINE {
					deletable = "assign"
				}
			case *ast.SendStmt:
				deletable = "send"
			case *ast.IncDecStmt:
				deletable = "incdec"
			case *ast.DeferStmt:
				deletable = "defer"
			case *ast.GoStmt:
				deletable = "go"
				add(s.Pos(), "go statement made synchronous", func() { (*list)[i] = &ast.ExprStmt{X: s.Call} }, func() { (*list)[i] = s })
			case *ast.BranchStmt:
				if s.Tok == token.BREAK && s.Label == nil {
					add(s.Pos(), "break -> continue", func() { s.Tok = token.CONTINUE }, func() { s.Tok = token.BREAK })
				} else if s.Tok == token.CONTINUE && s.Label == nil {
					add(s.Pos(), "continue -> break", func() { s.Tok = token.BREAK }, func() { s.Tok = token.CONTINUE })
				}
			case *ast.ReturnStmt:
				if len(s.Results) == 0 {
					deletable = "return"
				}
			}
			if deletable != "" {
				add(st.Pos(), "delete "+deletable+" statement", func() { (*list)[i] = &ast.EmptyStmt{Implicit: false, Semicolon: st.Pos()} }, func() { (*list)[i] = st })
			}
			if i+1 < len(*list) {
				// swap two adjacent simple statements
				a, b := (*list)[i], (*list)[i+1]
				simple := func(x ast.Stmt) bool {
					switch x.(type) {
					case *ast.ExprStmt, *ast.SendStmt, *ast.IncDecStmt, *ast.GoStmt:
						return true
					case *ast.AssignStmt:
						return x.(*ast.AssignStmt).Tok != token.DEFINE
					}
					return false
				}
				if simple(a) && simple(b) {
					add(a.Pos(), "swap with next statement", func() { (*list)[i], (*list)[i+1] = b, a }, func() { (*list)[i], (*list)[i+1] = a, b })
				}
			}
		}
	}
	ast.Inspect(f, func(n ast.Node) bool {
		switch x := n.(type) {
		case *ast.BlockStmt:
			visitBlock(&x.List)
		case *ast.CaseClause:
			visitBlock(&x.Body)
		case *ast.CommClause:
			visitBlock(&x.Body)
		case *ast.SelectStmt:
			cl := x.Body.List
			if len(cl) >= 2 {
				for i := range cl {
					i := i
					orig := x.Body.List
					add(cl[i].Pos(), "remove select case", func() {
						nl := append([]ast.Stmt{}, orig[:i]...)
						nl = append(nl, orig[i+1:]...)
						x.Body.List = nl
					}, func() { x.Body.List = orig })
				}
			}
		case *ast.BinaryExpr:
			for _, t := range swaps[x.Op] {
				t, o := t, x.Op
				add(x.OpPos, fmt.Sprintf("%s -> %s", o, t), func() { x.Op = t }, func() { x.Op = o })
			}
		case *ast.IfStmt:
			c := x.Cond
			add(x.Cond.Pos(), "negate if condition", func() { x.Cond = &ast.UnaryExpr{Op: token.NOT, X: &ast.ParenExpr{X: c}} }, func() { x.Cond = c })
			if x.Else != nil {
				e := x.Else
				add(x.Else.Pos(), "drop else branch", func() { x.Else = nil }, func() { x.Else = e })
			}
		case *ast.UnaryExpr:
			if x.Op == token.NOT {
				in := x.X
				add(x.OpPos, "remove ! (double negation)", func() { x.X = &ast.UnaryExpr{Op: token.NOT, X: &ast.ParenExpr{X: in}} }, func() { x.X = in })
			}
		case *ast.BasicLit:
			if x.Kind == token.INT {
				if v, err := strconv.Atoi(x.Value); err == nil {
					old := x.Value
					add(x.Pos(), fmt.Sprintf("int %d -> %d", v, v+1), func() { x.Value = strconv.Itoa(v + 1) }, func() { x.Value = old })
					if v > 0 {
						add(x.Pos(), fmt.Sprintf("int %d -> %d", v, v-1), func() { x.Value = strconv.Itoa(v - 1) }, func() { x.Value = old })
					}
				}
			}
		case *ast.Ident:
			if x.Name == "true" || x.Name == "false" {
				old := x.Name
				nw := map[string]string{"true": "false", "false": "true"}[old]
				add(x.Pos(), old+" -> "+nw, func() { x.Name = nw }, func() { x.Name = old })
			}
		}
		return true
	})
	idx := rand.New(rand.NewSource(*seed)).Perm(len(ms))
	if *max > 0 && len(idx) > *max {
		idx = idx[:*max]
	}
	os.MkdirAll(*out, 0o755)
	base := filepath.Base(*file)
	for k, j := range idx {
		m := ms[j]
		m.apply()
		var buf bytes.Buffer
		cfg := printer.Config{Mode: printer.UseSpaces | printer.TabIndent, Tabwidth: 8}
		cfg.Fprint(&buf, fset, f)
		m.undo()
		os.WriteFile(filepath.Join(*out, fmt.Sprintf("%03d.go", k)), buf.Bytes(), 0o644)
		os.WriteFile(filepath.Join(*out, fmt.Sprintf("%03d.txt", k)), []byte(fmt.Sprintf("%s:%d %s\n", base, m.line, m.desc)), 0o644)
	}
	fmt.Printf("%d sites, %d written\n", len(ms), len(idx))
}
