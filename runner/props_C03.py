from props import TB_COMMON
ENTRY = dict(
    level="proof",
    level_text=("TRANSLATED KERNEL (Props/C03Current): gateway.go distributeFlows is translated into Lean statement by statement on every run (extract/facts_c03.go -> Gen/C03.replyGen) and proved equal, for every number of waiting tokens, outgoing flows and loop index, to the kernel Gateway.reply the theorems below are about (reply_is_source); every flow handed out is marked unconditional (all_handed_flows_unconditional). ENGINE LEVEL (Props/EngineSteps, any program / state / configuration): an arrival at a parallel gateway that still misses an incoming token is held (nothing continues, nothing observed: par_step_holds); the arrival that completes the set clears the record and sends out exactly one token per outgoing flow (par_step_releases_all, from distribute_partition); lifted to arrival SEQUENCES of any length, in any order, by tokens of any identity: par_join_waits (fewer arrivals than incoming flows: nothing continues, nothing observed, the record is the arrivals in order) and par_join_fires (the completing arrival: one token per outgoing flow, record empty again — ready for the next activation). KERNEL: Lean 4 theorems for every number of waiting tokens, outgoing flows, arrival sequence and number of "
                "activations: distribute hands every outgoing flow to exactly one waiting token (the concatenation of the "
                "slices is 0..M-1), consumes exactly N-M surplus tokens, and the gateway actor releases nothing before the "
                "N-th arrival, releases on it, and returns to its initial state (k releases after k*N+r arrivals). Tied to "
                "the code by an exhaustive function differential of distributeFlows and by running the real gateway for all "
                "N x M in 1..4, all arrival permutations, 1..3 activations in lock-step with the engine model."),
    level_note=("trusted: Lean kernel, harness, whole-process quiescence detection; modelled: channels/goroutines as atomic "
                "message handling of the gateway's run loop; hypothesis stated in the theorems: the arrivals of one activation "
                "are N tokens (the code counts tokens, not incoming flows)"),
    technique="Lean 4 proof (induction over arrivals) + exhaustive differential against the real gateway",
    lean_modules=["Bpmn.Props.C03Current", "Bpmn.Props.EngineSteps", "Bpmn.Props.C03", "Bpmn.Props.EngineCurrent"],
    harness_files=["c01patient.go"],
    families=["c03fn", "c03", "c03burst", "c03two", "c01patient", "c03bnd", "c03ctx"],
    exhaustive=True,
    facts_from=["Engine"],
    rule=("c03ctx: the tokens meeting at a parallel join were started under DIFFERENT live contexts (one instance, 2..3 start events each started by its own StartWith with a WithCancel / WithValue child context), 1..2 outgoing flows: the join waits for all of them and releases one token per outgoing flow; c03bnd: a parallel block inside an embedded sub-process that carries an (interrupting / non-interrupting) boundary event, the event's signal delivered after 0..n of the n upstream tasks have been answered — the join releases exactly once when every upstream task has been answered, whatever the boundary event does; c01patient: a token waiting at a parallel join for 6.2 s of real time before its sibling arrives; c03two: two or three parallel joins collecting at the same time (a parallel block nested in a branch of another; two sibling blocks), every order of answering the 3 / 4 branch tasks; c03fn: distributeFlows for all (waiting, outgoing) in 0..12 x 0..12 (thorough 0..40) compared with the model and "
          "checked for partition/completions; c03: process start -> loop(fork 1->N, N tasks, join N->M, M tasks, sync) run on "
          "the real engine for all N, M in 1..4, arrival permutations (quick: all for N<=3, one third for N=4; thorough: "
          "all), 1..3 activations; after every answer the requests/completions observed at quiescence must equal the "
          "model's; c03burst: k = 2..4 activations of a 2->m join back to back (fork 1->2k through two exclusive merges, no task in between), half of the cases under schedule perturbation; non-trivial = the case ran to the end with at least one release; distinct by (N, M, permutation, activations)"),
    trusted_base=TB_COMMON + ["whole-process quiescence detection via runtime.Stack goroutine states"],
    assumptions=["tokens of one activation arrive on distinct incoming flows (block-structured use)"],
)
