"""Runner entry for C16 (values survive storage; nothing panics)."""

TB_COMMON = [
    "Lean 4.33.0 kernel (axioms allowed: propext, Classical.choice, Quot.sound; audited by #print axioms on every run)",
    "extract/ (go/ast fact extractor) and harness/ (differential harness, canonicalisation)",
    "Go runtime, standard library and third-party dependencies behave as modelled",
]

ENTRY = dict(
    level="proof",
    level_text=("Lean 4 theorems over an executable port of schema.Value.ValueFrom / ValueFor / NewValue (panics included), "
                "the pkg/data variable store with explicit addresses, and locatorJSONGet / the property assembly of "
                "FetchTaskDataInput; the parts of ValueFrom that decide panics and float loss are FACTS re-read from the "
                "source on every run (kind switch table, declared-integer kinds, float verb, nil guards) and every "
                "fact-dependent theorem is a dichotomy (side condition holds -> property; fails -> explicit witness) "
                "instantiated at the extracted facts; tied to the code by a function differential (every declared type x "
                "every dynamic type, boundary values of all ten integer widths, floats, unicode, deep nesting, random "
                "trees), a store/clone differential, a reference differential and an engine-level round trip"),
    level_note=("trusted: Lean kernel, extractor, harness; modelled not verified: reflect, fmt %v/%f and strconv "
                "(floats are exact dyadics, ParseFloat assumed correctly rounding), sonic/gjson through the single "
                "law parse(print j) = canon j taken as a hypothesis of the theorems (Codec.Lawful)"),
    technique="Lean 4 proof (fact-parametric dichotomies) + model/implementation differential + predicate on implementation outputs",
    lean_modules=["Bpmn.Props.C16", "Bpmn.Props.C16Current"],
    families=["c16", "c16decl"],
    exhaustive=False,
    rule=("c16decl: 60 (thorough 1200) seeded processes declaring 1..4 data objects, each with or without an olive:dataObjectBody of keys of its own, a third of them beside an embedded sub-process that declares one more; two instances, the second with one object replaced through WithDataObjects; what the task is handed (GetDataObjects) and what CloneItems holds at the end must be, per instance and per object, exactly that object's own body / {} / the replacement. "
          "fn: for every generated Go value (boundary values of int..int64 / uint..uint64, ~200 quick / ~4000 thorough "
          "floats incl. >6 decimals, large exponents, subnormals, float32; unicode / numeric / JSON-looking strings; bools; "
          "nil; pointers, nil pointers, *schema.Value, nil *schema.Value, chan/func/complex/uintptr; slices, arrays, maps, "
          "structs, nesting depth up to 40 (400 thorough); seeded random trees) x every declared item type (inferred, "
          "string, integer, boolean, float, array, object, unknown): ValueFrom under recover; stored (type, text) and "
          "Value() are compared with the model, and the C16 predicate (no panic; matching item type; read-back denotes "
          "the stored value) is evaluated on the implementation's outputs. store: random SetVariable / GetVariable / "
          "CloneVariables sequences over several locators with writes into clones. ref: locatorJSONGet and "
          "FetchTaskDataInput properties / headers for present and absent $name.path references. engine: real process "
          "instances (WithVariables, WithDataObjects, DoWithResults, DoWithObjects, olive properties / headers / "
          "results), two instances for isolation; inputs that crash the process are run in a child process. "
          "non-trivial = the case exercised at least one call / lookup / clone; distinct = distinct case content"),
    trusted_base=TB_COMMON + [
        "modelled, not verified: reflect.Kind / accessor panics, fmt %v and %f, strconv.ParseInt / ParseFloat (correct "
        "rounding), bytedance/sonic Marshal / Unmarshal and tidwall/gjson paths of plain components "
        "(law parse(print j) = canon j is a hypothesis of the theorems)"],
    assumptions=[
        "canonical form of a composite value = its JSON document decoded into `any` (numbers as float64, so integers "
        "beyond 2^53 nested in composites are rounded by the canonical form itself), keys sorted",
        "untyped nil and nil pointers are stored as the untyped empty value and read back as \"\" (documented "
        "behaviour, theorem nil_reads_back_empty); not counted as a loss",
        "not covered: NaN / Inf, []byte (base64 by Go's JSON convention), maps with non-string keys, float32 nested "
        "in composites, typed nil slices / maps, gjson paths with wildcards / modifiers",
        "under a declared item type only values of exactly that dynamic type are required to survive (pointers are "
        "followed by the inferred branch only, which is what variables, results and data objects use)"],
)
