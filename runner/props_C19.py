"""C19 — builder output and auto layout (schema/builder.go)."""
from props import TB_COMMON

ENTRY = dict(
    level="proof",
    level_text=("Lean 4 theorems over an executable port of schema/builder.go (ProcessBuilder, DefinitionBuilder, "
                "AutoLayout with levels/rows/coordinates/waypoints/stacking), for build scripts of any length and "
                "every injective id oracle; the produced chain RUNS as the property says — for every number of added "
                "activities the engine model requests them once each in insertion order and then reaches the end event "
                "(Props/C01Chain.chain_conformance, induction along the chain, every code configuration); tied to the code by a bit-exact differential of nodes, flows, shapes, "
                "edges and waypoints, by evaluating the C19 predicates on the implementation's output, by the XML "
                "round trip and by engine runs of the built definitions"),
    level_note=("trusted: Lean kernel, the differential harness; modelled: float64 layout arithmetic as Int in "
                "units of 1/8 (exact on the configuration grid: every value a multiple of 1/4), desiredRow as an exact "
                "quotient, RandBytes as an oracle stream recovered from the produced ids; the engine run and the "
                "XML round trip are tested, not proved"),
    technique="Lean 4 proof (state invariants over build scripts, layout geometry) + bit-exact model/implementation differential",
    lean_modules=["Bpmn.Props.C19", "Bpmn.Props.C19Current", "Bpmn.Props.C01Chain"],
    families=["c19"],
    exhaustive=False,
    multi_seed=False,   # the systematic, exhaustive and grid parts do not depend on the seed
    rule=("builder scripts on the real ProcessBuilder/DefinitionBuilder: every length 0..12 for every activity type "
          "(13 types implementing ActivityInterface) with and without preset ids at the documented default "
          "configuration; every sequence of length <= 2 over type x preset (exhaustive); the configuration grid "
          "(5 origins x 5 origins x 6 column gaps x 5 row gaps x 6 process gaps, sampled 1/6 in quick, complete in "
          "thorough) on a two-process script; seeded random scripts of 1..3 processes x 0..12 activities; every "
          "produced definitions (nodes, flows, incoming/outgoing, participants, shapes, edges, waypoints) is "
          "compared with the Lean model replayed under the id oracle recovered from the produced ids, the C19 "
          "predicates are evaluated on the implementation's output, the definitions go through xml.Marshal + "
          "schema.Parse and must describe the same, and definitions made of the nine task types are run on the "
          "engine (built or re-parsed) answering every task: requests must be the added activities in insertion "
          "order; plus an id stress (300 000 / 2 000 000 consecutive RandBytes(7) calls: repeats beyond what an ideal "
          "generator over 62^7 values gives with probability < 1e-4 — 2 in quick, 7 in thorough — are a failure; "
          "ids inside 300 / 3000 built three-process definitions: every repeat is a failure); "
          "non-trivial = at least one activity added; distinct = distinct canonical case"),
    trusted_base=TB_COMMON + [
        "modelled, not verified: float64 arithmetic of the layout (Int in units of 1/8; the driver rejects "
        "configurations off the exact grid), sort.Slice (unique result for a strict total order), math.Round, "
        "encoding/xml, the engine (observed through task traces and CeaseFlowTrace)"],
    explanation=("proved for the model, all script lengths, all injective id oracles, all configurations: ids of a built "
                 "process unique; processes built one after the other share no id; flow ends exist and list the flow; "
                 "start without incoming, end without outgoing; one shape per flow node, one edge per flow; edges "
                 "start/end on the border of their shapes; distinct nodes of one level get distinct rows (any graph) and "
                 "shapes never overlap when gaps >= sizes (within and across processes). The set of types the AddActivity "
                 "switch stores is an extracted fact and a parameter of model, theorems and driver: C19_general (switch "
                 "complete => full statement) / C19_counterexample_activity_not_stored (any unstored activity type => "
                 "explicit witness script) / C19_holds_partial (stored types, any switch); current_stored_dichotomy and "
                 "current_C19 instantiate them at the extracted switch, so completing the switch needs no model change; a "
                 "type that stops being stored is reported as activity_not_stored_<Type>. Negative side also: "
                 "duplicate_generated_id_witness (a repeating oracle gives equal ids). Tested only: XML round trip, engine "
                 "run, uniqueness of diagram/shape/edge/participant ids (their generation is modelled and diffed)."),
    assumptions=[
        "activities handed to AddActivity are fresh objects (no incoming/outgoing flows yet) and preset ids are "
        "pairwise distinct and differ from generated ids",
        "theorems about unique ids assume an injective id oracle; schema.RandBytes is not one (known finding D14)",
        "the engine run is restricted to the nine task types: a SubProcess added through the builder has no "
        "content and the engine rejects it (no start event); a cease trace lost to the start/monitor race of C02 is "
        "retried on a fresh instance (at most 3 attempts)",
    ],
)
