#!/usr/bin/env python3
"""Which statements of /repo do the quick families execute? (generator-quality measurement, not a check)
   runner/coverage.py [Cxx ...]   -> build/cover/func.txt, build/cover/uncovered.txt
Builds each property's harness with -cover over the engine packages, runs its families at the quick tier with
GOCOVERDIR set (child processes inherit it), merges the counters."""
import os, subprocess, sys, shutil
ROOT = os.path.dirname(os.path.dirname(os.path.abspath(__file__)))
sys.path.insert(0, os.path.join(ROOT, "runner"))
from props import PROPS
ENV = dict(os.environ, GOFLAGS="-mod=mod", GOPROXY="off", GOSUMDB="off", GOTOOLCHAIN="local")
out = os.path.join(ROOT, "build", "cover")
props = sys.argv[1:] or sorted(PROPS)
os.makedirs(out, exist_ok=True)
d = os.path.join(ROOT, "harness", "cmd", "vh")
for p in props:
    cd = os.path.join(out, "data", p)
    shutil.rmtree(cd, ignore_errors=True)
    os.makedirs(cd)
    base = ["main.go", "util.go", "c01.go"]
    own = sorted(f for f in os.listdir(d) if f.startswith(p.lower()) and f.endswith(".go"))
    files = []
    for f in base + own + PROPS[p].get("harness_files", []):
        if f not in files and os.path.exists(os.path.join(d, f)):
            files.append(f)
    exe = os.path.join(out, "vh-" + p)
    r = subprocess.run(["go", "build", "-tags", "verif", "-cover",
                        "-coverpkg=all",
                        "-o", exe] + files, cwd=d, env=ENV, capture_output=True, text=True)
    if r.returncode != 0:
        print(p, "build failed", r.stderr[-500:]); continue
    for fam in PROPS[p].get("families", []):
        e = dict(ENV, GOCOVERDIR=cd, GOMEMLIMIT="8GiB")
        try:
            subprocess.run([exe, "-seed", "1", "-tier", "quick", fam], stdout=subprocess.DEVNULL,
                           stderr=subprocess.DEVNULL, env=e, timeout=1500)
        except subprocess.TimeoutExpired:
            print(p, fam, "timeout")
    print(p, "done", len(os.listdir(cd)), "files", flush=True)
dirs = ",".join(os.path.join(out, "data", p) for p in os.listdir(os.path.join(out, "data")))
prof = os.path.join(out, "profile.txt")
subprocess.run(["go", "tool", "covdata", "textfmt", "-i=" + dirs, "-pkg=github.com/olive-io/bpmn/v2,github.com/olive-io/bpmn/v2/pkg/clock,github.com/olive-io/bpmn/v2/pkg/data,github.com/olive-io/bpmn/v2/pkg/event,github.com/olive-io/bpmn/v2/pkg/expression,github.com/olive-io/bpmn/v2/pkg/expression/expr,github.com/olive-io/bpmn/v2/pkg/expression/xpath,github.com/olive-io/bpmn/v2/pkg/id,github.com/olive-io/bpmn/v2/pkg/logic,github.com/olive-io/bpmn/v2/pkg/timer,github.com/olive-io/bpmn/v2/pkg/tracing,github.com/olive-io/bpmn/v2/pkg/errors,github.com/olive-io/bpmn/schema", "-o", prof], env=ENV, check=True, stderr=subprocess.DEVNULL)
r = subprocess.run(["go", "tool", "cover", "-func=" + prof], cwd="/repo", env=ENV, capture_output=True, text=True)
open(os.path.join(out, "func.txt"), "w").write(r.stdout + r.stderr)
print(r.stdout.strip().split("\n")[-1])
