#!/bin/bash
# Re-confirm a STORED seeded change against /repo HEAD (after /repo moved): runner/seed_reconfirm.sh <id> [<replacement patch>]
# suite passes with the patch, demo fails with it and passes without; on success a replacement patch is stored (the old one
# kept as patch.before-<HEAD>.diff) and meta.json gets a `rebased` note. Then the property's check is run on the change.
set -u
id=$1; d=/verif/seeded/$id; patch=$(readlink -f "${2:-$d/patch.diff}")
export GOPROXY=off GOSUMDB=off GOTOOLCHAIN=local GOFLAGS=-mod=mod GOWORK=off
read prop ddir run < <(python3 -c "import json;m=json.load(open('$d/meta.json'));print(m['breaks_property'],m.get('demo_dir','.'),m.get('demo_run','.'))")
demo=$(ls $d/*_test.go | head -1)
wt=/tmp/seedrc_$$; head=$(git -C /repo rev-parse --short HEAD)
git -C /repo worktree add -q --detach "$wt" HEAD || exit 3
cd "$wt"; git apply "$patch" || { echo "patch does not apply"; git -C /repo worktree remove --force "$wt"; exit 3; }
suite=""
for attempt in 1 2 3; do
  suite=$( (go build ./... && go test -vet=off -count=1 ./... 2>&1 | grep -v "no test files" | grep -v "^ok"; cd schema && go test -vet=off -count=1 ./... 2>&1 | grep -v "^ok") | tail -5)
  [ -z "$suite" ] && break
done
cp "$demo" "$wt/$ddir/zz_seed_demo_test.go"
(cd "$wt/$ddir" && go test -vet=off -count=1 -run "$run" . >/dev/null 2>&1); with=$?
git apply -R "$patch"
(cd "$wt/$ddir" && go test -vet=off -count=1 -run "$run" . >/dev/null 2>&1); without=$?
git -C /repo worktree remove --force "$wt"; git -C /repo worktree prune; cd /verif
echo "suite(non-ok): [$suite] demo with=$with without=$without"
if [ -z "$suite" ] && [ "$with" != 0 ] && [ "$without" = 0 ]; then
  if [ "$patch" != "$d/patch.diff" ]; then cp "$d/patch.diff" "$d/patch.before-$head.diff"; cp "$patch" "$d/patch.diff"; fi
  python3 - "$d/meta.json" "$head" <<'PY'
import json,sys
m=json.load(open(sys.argv[1])); m.setdefault('rebased',[]).append("re-confirmed against /repo "+sys.argv[2]+" (suite passes with the patch, demo fails with it, passes without)")
json.dump(m,open(sys.argv[1],'w'),indent=1)
PY
  echo "RECONFIRMED $id"; runner/mutant_eval.sh "$d/patch.diff" "$prop" 2>&1 | grep -E "^(OK|VIOLATION|REPLAY)" | cut -c1-250
else echo "NOT-CONFIRMED $id"; fi
