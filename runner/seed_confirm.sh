#!/bin/bash
# Confirm a seeded change in a scratch worktree and store it under /verif/seeded/<id>/:
#   runner/seed_confirm.sh <id> <prop> <patch.diff> <demo file> <dir inside the repo for the demo> [<go test -run regex>]
# Confirms: (1) patched tree builds and the existing suite passes; (2) the demo FAILS with the patch; (3) the demo PASSES without.
set -u
id=$1; prop=$2; patch=$(readlink -f "$3"); demo=$(readlink -f "$4"); ddir=$5; run=${6:-.}
export GOPROXY=off GOSUMDB=off GOTOOLCHAIN=local
wt=/tmp/seedwt_$$
git -C /repo worktree add -q --detach "$wt" HEAD || exit 3
cleanup() { git -C /repo worktree remove --force "$wt"; git -C /repo worktree prune; }
cd "$wt"
git apply "$patch" || { echo "patch does not apply"; cleanup; exit 3; }
suite_root=$( (go build ./... && go test -vet=off -count=1 ./... 2>&1 | grep -v "no test files" | grep -v "^ok" ) | tail -5)
suite_schema=$( (cd schema && go test -vet=off -count=1 ./... 2>&1 | grep -v "^ok") | tail -5)
for attempt in 1 2 3 4; do
  # retries for the baseline's known flaky process-set test (fails on about half of the runs of the unchanged tree)
  [ -z "$suite_root" ] && break
  suite_root=$( (go test -vet=off -count=1 ./... 2>&1 | grep -v "no test files" | grep -v "^ok" ) | tail -5)
done
cp "$demo" "$wt/$ddir/zz_seed_demo_test.go"
with=$( (cd "$wt/$ddir" && go test -vet=off -count=1 -run "$run" . 2>&1) | tail -4)
with_rc=$( (cd "$wt/$ddir" && go test -vet=off -count=1 -run "$run" . >/dev/null 2>&1); echo $?)
git apply -R "$patch"
without=$( (cd "$wt/$ddir" && go test -vet=off -count=1 -run "$run" . 2>&1) | tail -4)
without_rc=$( (cd "$wt/$ddir" && go test -vet=off -count=1 -run "$run" . >/dev/null 2>&1); echo $?)
cleanup; cd /verif
echo "suite(non-ok lines): [$suite_root$suite_schema]"; echo "demo with patch rc=$with_rc"; echo "demo without patch rc=$without_rc"
if [ -z "$suite_root$suite_schema" ] && [ "$with_rc" != "0" ] && [ "$without_rc" = "0" ]; then
  d=/verif/seeded/$id; mkdir -p "$d"
  cp "$patch" "$d/patch.diff"; cp "$demo" "$d/$(basename $demo)"
  python3 - "$d" "$id" "$prop" "$ddir" "$run" "$with" "$without" <<'PY'
import json,sys
d,id_,prop,ddir,run,with_,without=sys.argv[1:8]
meta=dict(id=id_,breaks_property=prop,demo_dir=ddir,demo_run=run,
  confirmed=dict(existing_suite_passes_with_patch=True,demo_fails_with_patch=True,demo_passes_without_patch=True),
  ran=["git apply patch.diff in a scratch worktree of /repo HEAD","go build ./... && go test -vet=off -count=1 ./... (root and schema)",
       f"demo copied to {ddir}/ and run with go test -run {run} with and without the patch"],
  demo_output_with_patch=with_, demo_output_without_patch=without, needs="see notes.md", caught_by=[])
json.dump(meta,open(d+'/meta.json','w'),indent=1)
PY
  echo "CONFIRMED -> $d"
else
  echo "NOT CONFIRMED"
fi
