from props import TB_COMMON
ENTRY = dict(
    level="proof",
    level_text=("ENGINE LEVEL (Props/EngineSteps): an arrival at an inclusive gateway never continues by itself (incl_step_holds); the decision is taken when the work list is empty (settleIncl over the kernel). KERNEL: Lean 4: igDecide (fork) places a token on exactly the flows whose condition is true, else on the default "
                "alone, else none (error), for all lists; the join of a flat inclusive block (counting abstraction of trySync "
                "over the fork's cohort) releases nothing while a token of the fork activation has neither arrived nor ended, "
                "and exactly once when the last one does (window theorem, any number of branches, any order, branches ending "
                "before the join included). For forks nested inside inclusive branches the code's join is NOT BPMN's: "
                "kernel-checked witness on the engine model (task behind the join requested twice). Tied to the code by "
                "exhaustive runs of the real gateways (1..4 conditional branches x default absent / at every position x all "
                "truth assignments x finishing orders x a branch ending early) and seeded nested programs, in lock-step with "
                "the engine model; the specification accepts a release anywhere in the window the property allows "
                "(earliest: reachability; latest: lineage of the fork activation). TRACKER LEVEL (Props/C05Tracker): a port "
                "of the flow tracker's map (handleTrace, activeFlowsInCohort, reachedNode) and of the join decision taken "
                "on a PREFIX of the trace order; proved for a fork activation of any size and any arrival order that the "
                "join releases exactly once, with all tokens, at the last arrival and nothing before, whenever the tracker "
                "has processed the fork's FlowTrace (which its start-up lock guarantees for the first activation: "
                "first_activation_view); kernel-checked witness that a join re-entered in a loop reading the map one "
                "FlowTrace too early fires for the first token alone and again for the second (D33, the history recorded on "
                "the engine; known finding inclusive_join_stale_tracker); the map port is tied to the code by a seeded "
                "function differential of the real tracker (family c05trk)."),
    level_note=("partial: join theorems are for flat blocks under the counting abstraction; nested forks / inclusive blocks "
                "inside parallel or inclusive branches are the known finding inclusive_cohort (D19), re-observed on every run; "
                "in the ENGINE model the tracker is an up-to-date view at quiescence; the tracker-level model makes the view "
                "explicit, but which views the Go scheduler can produce after the first activation is not constrained by any "
                "lock (that is the defect D33), so the join theorem is conditional on a fresh view there; arrivals while a "
                "probing round is in progress are not modelled"),
    technique="Lean 4 proof (fork kernel, join window theorem, kernel-checked witness) + exhaustive lock-step replay",
    lean_modules=["Bpmn.Props.EngineSteps", "Bpmn.Props.C05", "Bpmn.Props.C05Tracker", "Bpmn.Props.EngineCurrent"],
    families=["c05", "c05d", "c05n", "c01re", "c01patient", "c05trk", "c05gone", "c05ebg", "c05err"],
    harness_files=["c03.go", "c01re.go", "c01patient.go", "c06.go"],
    exhaustive=True,
    facts_from=["Engine"],
    rule=("c05err: a condition that fails to evaluate (a number, not a truth value) listed before / between / after conditions of which one is true, at an inclusive fork and at an exclusive gateway, with and without a default flow: it counts as not true and is reported, the conditions listed after it are still evaluated; c05ebg: the event-based-gateway cases of C06 whose alternatives are merged by an INCLUSIVE gateway (sequential deliveries and the enforced schedules in which the loser has taken its own event): a token the gateway withdrew has ended, the inclusive join behind must not wait for it — judged by the C06 replay; c05gone: an inclusive block (inside a sub-process, in a loop) activated again after a token of an earlier activation ENDED at a task inside it — handler mode exit, or a retry budget used up: the join of the later activation does not wait for the token that is gone (D42); c01re: the same inclusive fork / join pair activated 2..3 times in a loop, a different truth assignment in every round (all pairs of assignments for 2 conditions, a third of them for 3; default absent / first / last in the list; branch tasks answered first-first or last-first), judged against the token game; c05: start -> A -> inclusive fork (c conditions `b_i == 1`, optional default at list position d) -> one task per "
          "branch -> inclusive join -> Z; all c in 1..4, d in {none,0..c}, all 2^c truth assignments, branch `early` ending at "
          "its own end event (quick: none / branch 0; thorough: every branch), finishing orders = permutations of the "
          "activated branches (quick: a third when more than two); c05d: 2..4 activated branches running straight from the fork to the join (no activity), optionally one branch with a task, repeated with and without schedule perturbation (the join's first arrival races the tracker); c05trk: 1500 (thorough 40000) seeded sequences of 1..8 FlowTraces / TerminationTraces over 4 tokens and 4 nodes fed to the real flowTracker.handleTrace, cohort of every token and reachedNode compared with the Lean port after every event; c05n: seeded programs nesting inclusive, parallel and "
          "exclusive blocks; non-trivial = judged run; distinct by parameters/program and history"),
    trusted_base=TB_COMMON + ["whole-process quiescence detection via runtime.Stack goroutine states"],
    assumptions=["driver actions are issued at quiescence, so the flow tracker's picture is current when the gateway consults it"],
)
