from props import TB_COMMON
ENTRY = dict(
    level="proof",
    level_text=("Lean 4: igDecide (fork) places a token on exactly the flows whose condition is true, else on the default "
                "alone, else none (error), for all lists; the join of a flat inclusive block (counting abstraction of trySync "
                "over the fork's cohort) releases nothing while a token of the fork activation has neither arrived nor ended, "
                "and exactly once when the last one does (window theorem, any number of branches, any order, branches ending "
                "before the join included). For forks nested inside inclusive branches the code's join is NOT BPMN's: "
                "kernel-checked witness on the engine model (task behind the join requested twice). Tied to the code by "
                "exhaustive runs of the real gateways (1..4 conditional branches x default absent / at every position x all "
                "truth assignments x finishing orders x a branch ending early) and seeded nested programs, in lock-step with "
                "the engine model; the specification accepts a release anywhere in the window the property allows "
                "(earliest: reachability; latest: lineage of the fork activation)."),
    level_note=("partial: join theorems are for flat blocks under the counting abstraction; nested forks / inclusive blocks "
                "inside parallel or inclusive branches are the known finding inclusive_cohort (D19), re-observed on every run; "
                "the tracker is modelled as an up-to-date view at quiescence, the lock protocol between tracker and gateway "
                "is exercised by the runs (perturbation at tracker.before_unlock / inclusive.activity in thorough), not proved"),
    technique="Lean 4 proof (fork kernel, join window theorem, kernel-checked witness) + exhaustive lock-step replay",
    lean_modules=["Bpmn.Props.C05", "Bpmn.Props.EngineCurrent"],
    families=["c05", "c05d", "c05n"],
    harness_files=["c03.go"],
    exhaustive=True,
    facts_from=["Engine"],
    rule=("c05: start -> A -> inclusive fork (c conditions `b_i == 1`, optional default at list position d) -> one task per "
          "branch -> inclusive join -> Z; all c in 1..4, d in {none,0..c}, all 2^c truth assignments, branch `early` ending at "
          "its own end event (quick: none / branch 0; thorough: every branch), finishing orders = permutations of the "
          "activated branches (quick: a third when more than two); c05d: 2..4 activated branches running straight from the fork to the join (no activity), optionally one branch with a task, repeated with and without schedule perturbation (the join's first arrival races the tracker); c05n: seeded programs nesting inclusive, parallel and "
          "exclusive blocks; non-trivial = judged run; distinct by parameters/program and history"),
    trusted_base=TB_COMMON + ["whole-process quiescence detection via runtime.Stack goroutine states"],
    assumptions=["driver actions are issued at quiescence, so the flow tracker's picture is current when the gateway consults it"],
)
