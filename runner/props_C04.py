from props import TB_COMMON
ENTRY = dict(
    level="proof",
    level_text=("ENGINE LEVEL (Props/EngineSteps, any program / state / configuration): a token arriving at an exclusive gateway continues as ONE token — the same token id — on the flow xgDecide picks over the gateway's own outgoing list (xor_step_take; first true condition: xor_routes_first_true; default: xor_routes_default), or is parked with the error observation (xor_step_error); never two tokens (xor_step_at_most_one). KERNEL: Lean 4 theorems: xgDecide returns the first flow (outgoing order, default removed, wherever the default sits) "
                "whose condition is true, else the default, else the error, for all lists; in the gateway actor a message of "
                "one token never touches another token's probing entry nor produces another token's output, and both arrival "
                "orders of {probing report, second next-action} yield exactly one probe and one reply equal to xgDecide of "
                "the token's own report. Tied to the code by running the real gateway exhaustively (1..4 conditional flows x "
                "default absent / at every position x all truth assignments x 1..3 tokens, sequential and concurrent arrival) "
                "in lock-step with the engine model, and by a differential of condition evaluation for both expression engines."),
    level_note=("trusted: Lean kernel, harness, quiescence detection; modelled: expr-lang and xsel evaluation of the generated "
                "condition language (validated by the c04cond differential); the interleaving statement is proved per message "
                "(independence of tokens) and for the two per-token orders, not as one theorem over arbitrary inboxes"),
    technique="Lean 4 proof (decision kernel + per-token independence of the gateway actor) + exhaustive differential",
    lean_modules=["Bpmn.Props.EngineSteps", "Bpmn.Props.C04", "Bpmn.Props.EngineCurrent", "Bpmn.Props.C04Current"],
    families=["c04cond", "c04", "c04host", "c04again"],
    exhaustive=True,
    facts_from=["Engine"],   # plus its own Bpmn.Gen.C04 (xpathVarsReachable: which model of the XPath engine c04cond uses)
    rule=("c04again: ONE token passing ONE exclusive gateway again and again in a loop while the task in the loop rewrites the variable the conditions read (count to K in 1..4 visits; a script of values each taking its own branch), in both expression languages — every visit is decided on the values of that visit; c04host: one token deciding at two exclusive gateways in a row while the HOST rewrites, through Process.Locator().SetVariable, the variable the second decision reads (16 cases: old / new value, written right before the decision or one task earlier, optionally also before the first decision); c04: process fork(k tokens) -> exclusive gateway with c conditional flows (`b_i == 1`) and an optional default at "
          "list position d -> one task per outgoing flow; all c in 1..4, d in {none,0..c}, all 2^c truth assignments, k in 1..3 "
          "(quick: one third of c=4), tokens released one by one or all at once; observations at quiescence compared with the "
          "model and with the token game; c04cond: seeded random conditions (depth <= 3) over 1 or 3 integer variables "
          "evaluated by expr-lang and by the XPath engine, compared with Cond.eval; non-trivial = judged run / non-constant "
          "condition; distinct by parameters and recorded history"),
    trusted_base=TB_COMMON + ["whole-process quiescence detection via runtime.Stack goroutine states"],
    assumptions=["conditions are drawn from the generated language (==, !=, <, &&, ||, !, constants, one non-boolean form)"],
)
