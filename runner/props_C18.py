"""C18 — process set runs all executable processes and reports completion exactly once (process_set.go)."""

_TB = [
    "Lean 4.33.0 kernel (axioms allowed: propext, Classical.choice, Quot.sound; audited by #print axioms on every run)",
    "extract/ (go/ast fact extractor) and harness/ (differential harness, canonicalisation)",
    "Go runtime, standard library and third-party dependencies behave as modelled",
]

ENTRY = dict(
    level="proof",
    level_text=(
        "PARTIAL. Lean 4 theorems over a small-step port of ProcessSet (StartAll's start/register loop, one watcher per member "
        "with its subscription position relative to the member's trace stream, the wait group, the closing goroutine every "
        "WaitUntilComplete call spawns, the run loop with Go's select between a throw message and the closed done channel, the "
        "catch registry and its wake-up goroutines), for every set (any number of executable / waiting processes, any trace "
        "streams, any message flows) and every schedule of any length; five extracted facts (subscription before start and "
        "wg.Add before start at both sites, guarded close). Proved for all facts: a wait returns true only when every member "
        "registered with the wait group before the close has emitted its cease-flow trace, and - when no call precedes the "
        "return of StartAll - only when every executable process has been started and has completed; at most one "
        "CeaseProcessSetTrace, exactly one once done is closed and the set is quiescent; every emitted throw is accounted "
        "for exactly once (instantiated / woken / dropped / in transit / missed), so none is delivered twice, and the "
        "members instantiated for a throw event are exactly run's instantiations; the executable processes are started in "
        "order and every member emits the stream of its own process; a pending wake-up goroutine always belongs to a member "
        "still waiting at its catch event. Proved under extracted facts, as dichotomies with kernel-checked witness schedules "
        "on the other side: completion is reported however quickly members finish, and every throw is handled while run is in "
        "its loop, IFF the watchers subscribe before the start (false on the current tree: fast-process-missed witnesses, "
        "re-observed on the engine under enforced schedules); repeated / concurrent waits never panic IFF the close of done "
        "is guarded (false on the current tree: double-close witnesses, re-observed as a crash of a grandchild process). "
        "Refuted for every value of the facts (C18_not_holds; structural, known finding): the set can be reported complete "
        "while a message flow is still being delivered, and run may drop a pending message at completion."),
    level_note=(
        "full strength (all facts, all sets, all schedules): set_complete_sound, set_complete_sound_exec, cease_set_once, "
        "message_flow_once, member_behaves_alone. under facts: set_complete_live and message_flow_live "
        "(watcherSubscribesBeforeStart, instWatcherSubscribesBeforeStart), set_wait_reentrant (doneClosedOnce); C18_partial "
        "= the statement with clause (1) restricted to members registered before the close and the liveness half of clause "
        "(5) restricted to states where run is in its loop. witnesses (decide): C18_counterexample_fast_process_missed / "
        "_fast_instance_missed / _double_close / _double_close_concurrent / _complete_before_instantiated / "
        "_message_lost_at_completion; C18_not_holds. tested only: the tie between model and engine (recorded histories "
        "accepted by the model at the extracted facts, with a search over the unobservable subscription positions and run's "
        "promptness), each member behaving as it does alone at the level of real traces (multiset of its traces in the set = "
        "alone). modelled, not proved: member processes as abstract trace streams, ps.mch and the subscription channel "
        "unbounded, no context cancellation, sync.WaitGroup misuse panics, liveness as quiescence (a fair scheduler is assumed)"),
    technique=("Lean 4 proof (inductive invariants over a small-step concurrent machine; decide-checked witness schedules; "
               "fact-selected dichotomies) + trace acceptance of real process-set runs (enforced schedules at the verifhook "
               "points, crash observed in a grandchild process)"),
    lean_modules=["Bpmn.Props.C18", "Bpmn.Props.C18Current"],
    families=["c18"],
    exhaustive=False,
    multi_seed=True,
    rule=("sets of 1..3 executable processes (start->end, start->task->end, xor split on a task result, parallel fork/join, "
          "throw shapes, catch shapes) x 0..2 waiting processes x 0..2 message flows (throw -> start event of a waiting process, "
          "throw -> catch event of another member, both, two throws to one start event, a throw without a flow, ONE throw event passed by two tokens — shape thrtwo: every token that reaches a throw event passes it, specification throw_event_swallows_token); wait modes: "
          "single, 2-3 sequential, 2-4 concurrent goroutines issued before completion, an early wait that expires followed by "
          "a late one; schedules: free, watchers held at processset.watcher.before_subscribe until the fast / all processes "
          "have finished, run held at process.startwith.before_trigger until the throwing process has finished, seeded "
          "perturbation (thorough). Every case runs in its own grandchild OS process (a double close kills it; the crash is "
          "recorded). Per case: the C18 predicate on the recorded history (wait results vs. completed members, panic, "
          "CeaseProcessSetTrace count, instantiations / wake-ups per throw, member traces vs. the same process run alone) "
          "and acceptance of the history by the Lean model at the extracted facts. non-trivial = at least two members or at "
          "least two waits; distinct = distinct recorded case content"),
    trusted_base=_TB + [
        "whole-process quiescence detection via runtime.Stack goroutine states; the recorder sits one relay hop behind the "
        "set's watchers (cross-member order of the recording is not causal; the driver reorders only where an effect "
        "precedes its cause)",
        "modelled, not verified: sync.WaitGroup / close / select semantics as in the model; pkg/tracing broadcast delivers "
        "to a subscriber exactly the traces sent after its subscription"],
    assumptions=[
        "catch events of member processes are triggered only through message flows of the set",
        "the context handed to StartAll is not cancelled during the run",
        "a throw event is passed at most once per process instance (the engine's throw event re-fires only once)",
    ],
)
