#!/bin/bash
# Run every stored HARMLESS rewrite (harmless/*.diff: behaviour-preserving refactorings written by sub-agents that saw only
# the repository) against the quick tier of the checks (scratch copies, /repo untouched). Every line must say OK:
#   runner/harmless_sweep.sh [checks…]   (default: all twenty)  -> build/harmless_sweep.txt
cd /verif
checks=${@:-C01 C02 C03 C04 C05 C06 C07 C08 C09 C10 C11 C12 C13 C14 C15 C16 C17 C18 C19 C20}
mkdir -p build; : > build/harmless_sweep.txt
for p in harmless/*.diff; do
  if ! git -C /repo apply --check "$(readlink -f $p)" 2>/dev/null; then echo "$(basename $p) DOES-NOT-APPLY (the repository moved on)" >> build/harmless_sweep.txt; continue; fi
  runner/mutant_eval.sh $p $checks 2>&1 | grep -E "^(OK|VIOLATION|MACHINERY)" | cut -c1-140 | sed "s/^/$(basename $p) /" >> build/harmless_sweep.txt
done
grep -v " OK " build/harmless_sweep.txt || echo "all OK"
