from props import TB_COMMON
ENTRY = dict(
    level="proof",
    level_text=("Lean 4: an executable small-step model of one host activity (task or sub-process) with its harness, "
                "its boundary listeners (catch event + flow), the cancellation once, the activity's request counter and "
                "cancel verdict, the order of the harness's two activation statements, parametric in seven extracted facts (two more are hard-wired and asserted); every label is one atomic step and theorems quantify "
                "over all numbers / kinds of boundary events and ALL schedules (runs of any length). Proved: the exception "
                "flow of a boundary event never continues twice and, once its event was matched, continues exactly once at "
                "quiescence (under the cancellation once; kernel-checked witness of a listener stuck forever without it); "
                "the normal flow of a host that waits for its answer continues when answered WHATEVER the listeners and the "
                "cancel did, for every value of the facts (so the interrupting statement of C10 is false on the faithful "
                "model: D7, witness replayed on the engine in every run); at quiescence continuations + dropped events = "
                "events that reached the boundary event (so 'once per event' holds exactly when nothing was dropped; a "
                "second event on a non-interrupting boundary event is dropped: witness); after completion no run changes "
                "the state (under the active gate; witness without it) and the listeners' wait-group contribution is zero "
                "iff every listener fired (D8 witness; zero always if the listener flows do not share the wait group); an "
                "interrupting event between the harness's active:=1 and the activity's first message strands the host's token "
                "(witness, replayed deterministically through a schedule point) whereas with the two statements in the other "
                "order the host is requested on every schedule (dichotomy in the extracted order). "
                "Tied to the code by replaying real engine runs through the model: hosts task / sub-process x 1..2 boundary "
                "events of either kind x every interleaving of {deliver e1, deliver e2, answer} up to length 4 incl. "
                "event-before-activation, repeats, events after completion, back-to-back batches (all interleavings of the "
                "model's internal steps are explored and the engine's outcome must be one of them) and five enforced "
                "schedules through verifhook points (one parks the tracer so that the answer precedes the event while the relay's "
                "trace send is held up); the C10 reference predicate is evaluated on every recorded history."),
    level_note=("partial: C10 as stated is FALSE of the code and so of the faithful model (C10_fails); what is proved is the "
                "negation with witnesses plus the partial statements under their exact excluding hypotheses "
                "(interrupting_partial, non_interrupting_partial, inert_partial, inert_no_reaction, host_requested_partial). "
                "Model abstractions: one activation of the host (no loop back into it); channel capacities not modelled (C11); each boundary event listens to its own signal; the "
                "paths behind the host / boundary events are abstracted to request counters. Goroutine schedules of the real "
                "engine are sampled (back-to-back batches, four enforced schedules), not quantified; the quantification "
                "over schedules is a theorem about the model. trusted: Lean kernel, extractor, harness, whole-process "
                "quiescence detection."),
    technique="Lean 4 proof (inductive invariants over all schedules of a small-step model, kernel-checked witnesses) + "
              "set-valued lock-step replay of real engine runs + reference predicate on recorded histories",
    lean_modules=["Bpmn.Props.C10", "Bpmn.Props.C10Current"],
    families=["c10", "c10noexc", "c10two"],
    exhaustive=True,
    multi_seed=False,
    rule=("c10two: two tokens waiting in one host activity at the same time (a parallel split into the task, directly or through a task each), one matching event while both wait — the exception flow continues once, the normal flow once per answer; c10noexc: boundary events WITHOUT an exception flow (task / sub-process host, interrupting / non-interrupting, one or two of them), scripts of deliveries before / while / after the host waits — the normal flow is taken only by the host\'s own completion: never before the host was answered, at most once; c10: process start -> P -> H -> N -> end with boundary events B1[,B2] on H leading to X1[,X2] -> own end events "
          "(H: task, or sub-process containing task HI; kinds i / n / ii / in / ni / nn); schedules: every sequence over "
          "{d1[,d2], a} of length <= 4 with at most one answer, P answered first or after the first delivery (event before "
          "activation); quick tier: all up to length 3, a third of length 4 for two boundary events; modes wait "
          "(quiescence before every action), nowait (actions after P back-to-back), nowaitall (P included: the event races "
          "the activation), hold-forward / hold-listener / hold-catch / hold-activation / hold-tracer (a goroutine of the engine parked at "
          "tasktrace.process.forwarding / flow.action / catch.process_event / harness.before_next_action / tracer.broadcast; "
          "under hold-tracer the actions are sequential for the reference: answer, then events). Every Deliver / Do under a deadline. After "
          "the schedule every request on the normal and exception paths is answered and WaitUntilComplete is recorded. The "
          "driver keeps the SET of model states compatible with the recorded requests and cancel traces (closed under internal steps; at "
          "quiescence only states without enabled internal step) - an empty set or a different completion verdict is a "
          "disagreement - and evaluates the reference of Bpmn.Spec.Boundary (racing actions in every order); "
          "non-trivial = the normal flow or an exception flow continued; distinct by (host, kinds, mode, schedule, history)"),
    trusted_base=TB_COMMON + ["whole-process quiescence detection via runtime.Stack goroutine states",
                              "internal/verifhook schedule points and harness/internal/sched (enforced schedules)"],
    assumptions=["one activation of the host activity per instance (no loop leads back into it)",
                 "each boundary event of a host listens to its own signal"],
)
