#!/bin/bash
# One seeded change end to end: confirm (suite passes, demo fails with / passes without), store it under
# seeded/<id>/, then run the named checks against it in scratch copies and record the verdicts in meta.json.
#   runner/seed_round.sh <id> <prop> <dir with patch.diff demo_test.go notes.md> <demo dir in repo> <checks...>
set -u
id=$1; prop=$2; src=$3; ddir=$4; shift 4
cd /verif
runner/seed_confirm.sh "$id" "$prop" "$src/patch.diff" "$src/demo_test.go" "$ddir" 'TestDemo$' 2>&1 | tail -4
[ -d seeded/$id ] || { echo "NOT STORED"; exit 1; }
[ -f "$src/notes.md" ] && cp "$src/notes.md" seeded/$id/notes.md
out=$(TIER=${TIER:-} runner/mutant_eval.sh seeded/$id/patch.diff "$@" 2>&1 | grep -v KNOWN-FINDING)
echo "$out"
python3 - "$id" "$out" <<'PY'
import json,sys
id_,out=sys.argv[1:3]
p=f'/verif/seeded/{id_}/meta.json'
m=json.load(open(p))
m['check_verdicts']=[l for l in out.split('\n') if l.strip()]
json.dump(m,open(p,'w'),indent=1)
PY
