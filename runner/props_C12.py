from props import TB_COMMON
ENTRY = dict(
    level="proof",
    level_text=("Lean 4 on the engine model: the parent token is held while any inner token of the sub-process is alive "
                "(settle releases nothing then), for every configuration, program and state; kernel-checked witnesses that "
                "the two code defects separate the code configuration from the token game (parent never resumes: repaired in "
                "/repo, now an extracted-fact obligation; second activation skips the content: repaired too). UNBOUNDED FAMILIES "
                "for the three clauses of the statement (Props/C12Nest, C12Loop, C12Blind): any nesting depth d around a chain "
                "of any length K (induction on d and along the chain; wrapped = inlined against the chain theorem), a "
                "sub-process entered again and again in a loop for any bound and any number of rounds, and scope-blindness "
                "of every node transition; each carried to the configuration extracted from /repo and tied to the real "
                "engine by running the theorems' own programs (c12nest, c12loop). The general "
                "`wrapped = inlined` statement over ALL block contexts is NOT proved; it is decided per generated pair: every "
                "case runs the same seeded program with its sub blocks wrapped in 1..3 nested embedded sub-processes and with "
                "the content inlined, same data and answer policy, on the real engine; each run is replayed in lock-step "
                "through the engine model and the token game, and the two request histories and final states must coincide. "
                "The inner completion of an activation is the C02 protocol on the inner tracer: at the extracted order of "
                "the activation's start-up steps (monitor subscribed before the inner start — Props/C12Current) the whole "
                "C02 statement holds for it; were the order reversed, the kernel-checked missed-start schedule applies and "
                "the parent waits for ever. Data objects are written and read across the sub-process boundary (D34 found so)."),
    level_note=("STEP CONTRACT of the sub-process node, for every program, state and configuration (Props/C12Steps): a token reaching an idle sub-process node creates exactly one fresh token per inner start event, in document order (enter_sub_tokens), is held without requesting anything (enter_sub_holds_parent), a second concurrent activation is flagged, never merged; a parent token is released only when its scope holds no live token (settle_holds_parent, return_needs_empty_scope) and leaves the active list in the same step, so once per activation (return_sub_once). RUN LEVEL: for every program without inclusive gateways — sub-processes nested to any depth, inside parallel branches, re-entered in loops — the engine model at the configuration extracted from today's /repo IS the token game (sub_programs_are_token_game, from Props/C01Fragment). ANY DEPTH (Props/C12Nest): descend / ascend / nest_run by induction on the nesting depth for every program of the nest shape (d >= 1 sub-process levels around a chain of K >= 1 tasks, one task behind; also induction along the chain: inner_step / inner_chain), inhabited at every depth and length (nestProc d K), nest_as_inline (wrapped = inlined against the chain theorem), nest_run_current at the extracted configuration; RE-ENTRY IN A LOOP (Props/C12Loop): for every bound N, every round and whatever the answers carry — loop_step (one round from any state at round j: the sub-process returns once and is entered again, or the instance ends), loop_rounds, loop_run (k + 1 requests of the inner task for k rounds that stay in the loop), loop_run_current at the extracted configuration; SCOPE-BLINDNESS (Props/C12Blind): arrive at any node that is not a sub-process node, selectFlows and the reply to an answer are invariant under rewriting every scope (arrive_reparent, answerPrep_reparent) — inner activities are handled as they would be inline. Still partial (C12_partial): no unbounded wrapped = inlined theorem over block contexts. Modelled: the inner tracer / relay / completion "
                "monitor as 'parent resumes when the inner scope is empty'; the race between the inner start-up and the relay's "
                "subscription (schedule points subprocess.run.before_subscribe / subprocess.monitor.before_subscribe) is forced "
                "in a third of the paired runs (the monitor / relay held for 20 ms at their subscribe points). Two "
                "concurrent activations of one sub-process node are outside the model (such runs are skipped and counted)."),
    technique="Lean 4 proof (engine-model lemma + kernel-checked witnesses) + paired wrapped/inlined lock-step replay",
    lean_modules=["Bpmn.Props.C12", "Bpmn.Props.C12Current", "Bpmn.Props.EngineCurrent", "Bpmn.Props.C12Steps", "Bpmn.Props.C12Nest", "Bpmn.Props.C12Blind", "Bpmn.Props.C12Loop"],
    harness_files=["c03.go"],
    families=["c12", "c12fork", "c12nest", "c12loop", "c12seq"],
    facts_from=["Engine", "C12", "C02"],
    rule=("c12seq: several sub-processes in one program, some not entered yet (three in sequence; a two-level nest followed by another; a choice between two), with and without the events of the instance looped back to it (ingress and egress on one fan-out); half of the paired cases of c12 run with the events looped back too; c12loop: the program of Props/C12Loop (loopProc N, same element names; a sub-process entered again and again while c < N) run by the real engine for N in 1..6 (thorough 1..24) with rising values, a value that leaves at once and values that stay low, compared round by round with the run of loopProc N in the model at the extracted configuration; c12nest: the program family of Props/C12Nest (nestProc d, same element names) run by the real engine at depth 1..10 (thorough: 16, 24, 32 too), compared step by step with the model's run of nestProc d at the extracted configuration; c12fork: a sub-process whose content forks WITHOUT joining (2..3 inner tasks behind a parallel gateway or an activity with several outgoing flows, running into one shared inner end event or one each; also nested in another sub-process), every order of answering the inner tasks: the task behind the sub-process is requested once, after the last inner answer; pairs of runs of one seeded block-structured program (tasks, seq, exclusive, parallel, loops, sub blocks; <= 12 "
          "nodes quick, <= 20 thorough; each sub block wrapped in 1..3 nested sub-processes vs inlined), identical variables "
          "and answer order (pending requests sorted by name, seeded choice); non-trivial = the program contains a "
          "sub-process and both runs were judged without finding; distinct by program and history"),
    trusted_base=TB_COMMON + ["whole-process quiescence detection via runtime.Stack goroutine states"],
    assumptions=["driver actions are issued at quiescence"],
)
