#!/usr/bin/env python3
"""Mutation sweep: a SEARCH for gaps of the checks (never evidence, never a proof; DESIGN.md 12.6).

  runner/mutsweep.py --name <run> [--max N] [--workers W] [--seed S] <file relative to the repository> ...

For every syntactic mutant of the given files (runner/mutgen): build it in a scratch worktree, run the repository's own
test suite (a mutant the suite kills is of no interest), then run the quick checks of the properties anchored at that file
until one reports a VIOLATION. Writes build/mutsweep/<run>.jsonl, one line per mutant:
  {file, k, desc, tests: pass|fail|nobuild, verdicts: {Cxx: OK|VIOLATION|VIOLATION-nfi|MACHINERY|...}, survived: bool, diff}
/repo and /verif are never touched: every worker owns a scratch worktree and a scratch copy of /verif under /tmp/msw.
"""
import argparse, collections, json, os, queue, shutil, subprocess, sys, threading, time

ROOT = os.path.dirname(os.path.dirname(os.path.abspath(__file__)))
ENV = dict(os.environ, GOPROXY="off", GOSUMDB="off", GOTOOLCHAIN="local")
ENV.pop("GOFLAGS", None)

def sh(cmd, cwd=None, env=None, timeout=None):
    try:
        p = subprocess.run(cmd, cwd=cwd, env=env or ENV, shell=isinstance(cmd, str), timeout=timeout,
                           stdout=subprocess.PIPE, stderr=subprocess.STDOUT, text=True)
        return p.returncode, p.stdout
    except subprocess.TimeoutExpired as e:
        return 124, (e.stdout or "") if isinstance(e.stdout, str) else ""

# the checks tried first for a file (at most three: a surviving mutant costs every listed check)
PRIMARY = {
    "flow.go": ["C01", "C08", "C07"], "activity.go": ["C10", "C01", "C07"], "task_generic.go": ["C08", "C10", "C07"],
    "process.go": ["C02", "C11", "C07"], "subprocess.go": ["C12", "C07", "C10"], "gateway_exclusive.go": ["C04", "C01"],
    "gateway_inclusive.go": ["C05", "C01"], "gateway_event_based.go": ["C06", "C17"], "gateway_parallel.go": ["C03", "C01"],
    "gateway.go": ["C03", "C05"], "event_catch.go": ["C11", "C06", "C13"], "event_start.go": ["C11", "C14", "C01"],
    "event_end.go": ["C01", "C07"], "event_throw.go": ["C11", "C07"], "pkg/tracing/tracer.go": ["C09", "C07", "C02"],
    "pkg/tracing/retry.go": ["C09", "C18"], "process_set.go": ["C18", "C07"], "pkg/timer/timer.go": ["C13", "C07"],
    "pkg/timer/event.go": ["C13", "C07"], "pkg/data/impl.go": ["C16", "C08", "C17"], "pkg/data/container.go": ["C16", "C17"],
    "schema/builder.go": ["C19"], "schema/schema_item.go": ["C16", "C15"], "schema/schema.go": ["C15", "C19"],
    "sequence_flow.go": ["C01", "C04"], "flow_wiring.go": ["C01", "C10"], "flow_mapping.go": ["C01"], "flow_node.go": ["C01"],
    "flow_action.go": ["C01", "C06"], "engine.go": ["C18", "C01"], "pkg/event/fanout.go": ["C11", "C13"],
}


def anchors():
    m = collections.defaultdict(list)
    for l in open(os.path.join(ROOT, "properties.jsonl")):
        p = json.loads(l)
        for f in p["anchors"]["files"]:
            m[f].append(p["id"])
    return m

def main():
    ap = argparse.ArgumentParser()
    ap.add_argument("--name", required=True)
    ap.add_argument("--max", type=int, default=0)
    ap.add_argument("--workers", type=int, default=4)
    ap.add_argument("--seed", type=int, default=1)
    ap.add_argument("--props", default="")
    ap.add_argument("files", nargs="+")
    a = ap.parse_args()
    base = "/tmp/msw/" + a.name
    shutil.rmtree(base, ignore_errors=True)
    os.makedirs(base)
    outdir = os.path.join(ROOT, "build", "mutsweep")
    os.makedirs(outdir, exist_ok=True)
    outp = os.path.join(outdir, a.name + ".jsonl")
    anc = anchors()
    tasks = queue.Queue()
    n = 0
    for f in a.files:
        d = os.path.join(base, "mut", f.replace("/", "_"))
        rc, o = sh([os.path.join(ROOT, "build", "mutgen"), "-file", "/repo/" + f, "-out", d, "-max", str(a.max), "-seed", str(a.seed)])
        print(f, o.strip(), flush=True)
        ks = sorted(x[:-3] for x in os.listdir(d) if x.endswith(".go"))
        for k in ks:
            tasks.put((f, d, k)); n += 1
    lock = threading.Lock()
    done = [0]
    outf = open(outp, "w")

    def worker(w):
        wt = f"{base}/repo_{w}"; vc = f"{base}/verif_{w}"
        sh(["git", "-C", "/repo", "worktree", "add", "-q", "--detach", wt, "HEAD"])
        sh(f"rsync -a --exclude .git --exclude build/run --exclude build/cover --exclude build/mutsweep --exclude replays {ROOT}/ {vc}/")
        sh(f"sed -i 's|=> /repo/schema|=> {wt}/schema|; s|=> /repo$|=> {wt}|' {vc}/harness/go.mod")
        while True:
            try:
                f, d, k = tasks.get_nowait()
            except queue.Empty:
                break
            rec = dict(file=f, k=k, desc=open(f"{d}/{k}.txt").read().strip(), verdicts={})
            shutil.copy(f"{d}/{k}.go", f"{wt}/{f}")
            rec["diff"] = sh(["git", "-C", wt, "diff", "-U1", "--", f])[1][-6000:]
            mod = wt + "/schema" if f.startswith("schema/") else wt
            rc, o = sh("go build ./... && go build -tags verif ./...", cwd=mod, timeout=300)
            if rc != 0:
                rec["tests"] = "nobuild"
            else:
                rc1, o1 = sh("go test -vet=off -count=1 -timeout 120s ./...", cwd=wt, timeout=400)
                rc2, o2 = sh("go test -vet=off -count=1 -timeout 120s ./...", cwd=wt + "/schema", timeout=400)
                if rc1 != 0 and "process_set" in o1 and rc2 == 0:   # the baseline's flaky test: once more
                    rc1, o1 = sh("go test -vet=off -count=1 -timeout 120s ./...", cwd=wt, timeout=400)
                rec["tests"] = "pass" if rc1 == 0 and rc2 == 0 else "fail"
            if rec["tests"] == "pass":
                props = a.props.split(",") if a.props else PRIMARY.get(f, anc.get(f, [])[:3])
                caught = False
                for p in props:
                    t0 = time.time()
                    rc, o = sh(["./check", p], cwd=vc, env=dict(ENV, VERIF_REPO=wt), timeout=1500)
                    v = [l for l in o.split("\n") if l.startswith(("OK ", "VIOLATION", "MACHINERY"))]
                    if any(l.startswith("VIOLATION") for l in v):
                        verdict = "VIOLATION-nfi" if any("no-failing-input-found" in l for l in v) else "VIOLATION"
                    elif rc == 0 and any(l.startswith("OK ") for l in v):
                        verdict = "OK"
                    else:
                        verdict = f"rc{rc}:" + (v[0][:80] if v else o[-200:].replace("\n", " "))
                    rec["verdicts"][p] = verdict
                    rec.setdefault("secs", {})[p] = round(time.time() - t0, 1)
                    if verdict.startswith("VIOLATION"):
                        caught = True
                        break
                rec["survived"] = not caught
            sh(["git", "-C", wt, "checkout", "--", "."])
            with lock:
                outf.write(json.dumps(rec) + "\n"); outf.flush()
                done[0] += 1
                print(f"[{done[0]}/{n}] {rec['desc']} tests={rec['tests']} {rec['verdicts']}", flush=True)
        sh(["git", "-C", "/repo", "worktree", "remove", "--force", wt])
        shutil.rmtree(vc, ignore_errors=True)

    ths = [threading.Thread(target=worker, args=(w,)) for w in range(a.workers)]
    for t in ths: t.start()
    for t in ths: t.join()
    sh(["git", "-C", "/repo", "worktree", "prune"])
    shutil.rmtree(base, ignore_errors=True)
    recs = [json.loads(l) for l in open(outp)]
    c = collections.Counter(r["tests"] for r in recs)
    surv = [r for r in recs if r.get("survived")]
    print("tests:", dict(c), "passed the suite:", c["pass"], "caught by a check:", c["pass"] - len(surv), "survived:", len(surv))
    for r in surv:
        print("SURVIVED", r["desc"], r["verdicts"])

if __name__ == "__main__":
    main()
