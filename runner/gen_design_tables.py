#!/usr/bin/env python3
"""Regenerates DESIGN.md sections 12.3 (findings ledger, from known_findings.json) and 12.4 (seeded changes, from
seeded/*/meta.json). Run at the end of a round: python3 runner/gen_design_tables.py"""
import json, os, re
ROOT = os.path.dirname(os.path.dirname(os.path.abspath(__file__)))
d = open(os.path.join(ROOT, "DESIGN.md")).read()
k = json.load(open(os.path.join(ROOT, "known_findings.json")))["entries"]
fixed, known = {}, []
for e in k:
    if e["status"] == "fixed":
        fixed.setdefault((e["property"], e.get("commit", "?")), []).append(e.get("signature", "?"))
    else:
        known.append(e)
out = ["### 12.3 Findings ledger (generated from known_findings.json by runner/gen_design_tables.py)", ""]
commits = sorted({c for (_, c) in fixed})
out.append(f"Repaired in /repo by `fix:` commits ({len(commits)} commits; each entry is `fixed: property=<id> <commit> <what failed>` "
           "in known_findings.json and suppresses nothing):")
out.append("")
for (p, c), sigs in sorted(fixed.items()):
    out.append(f"* {p} `{c}` — signatures: " + ", ".join(f"`{s}`" for s in sorted(set(sigs))))
out.append("")
out.append("Recorded as known findings (re-observed by the check before being printed; no small safe repair found, or the "
           "repair is outside this task's scope):")
out.append("")
for e in known:
    out.append(f"* {e['property']} `{e.get('signature','?')}` — {e.get('line','')[:330]}")
out.append("")
sec3 = "\n".join(out)
rows = ["### 12.4 Seeded changes (written by fresh sub-agents from the property text only) and what catches them", "",
        "| id | needs | caught by |", "|---|---|---|"]
first_missed = []
sd = os.path.join(ROOT, "seeded")
for i in sorted(os.listdir(sd)):
    m = json.load(open(os.path.join(sd, i, "meta.json")))
    needs = m.get("needs", "").replace("|", "/").replace("\n", " ")
    cb = "; ".join(m.get("caught_by", [])).replace("|", "/").replace("\n", " ")
    if m.get("retired"):
        cb = "RETIRED — " + m["retired"].replace("|", "/") + " Before: " + cb
    rows.append(f"| {i} | {needs[:400]} | {cb[:600]} |")
    if "missed" in cb.lower():
        first_missed.append(i)
rows.append("")
rows.append(f"{len(os.listdir(sd))} changes stored. First MISSED and then caught after the check was strengthened: "
            + ", ".join(first_missed) + ". Caught only through a broken obligation (extracted fact moved, no failing input "
            "found by the quick search): see the rows that say so.")
rows.append("")
sec4 = "\n".join(rows)
i3 = d.index("### 12.3 Findings ledger")
i4 = d.index("### 12.4 Seeded changes")
m = re.search(r"\n### 12\.5 |\n## 13", d[i4:])
end = i4 + m.start() + 1 if m else len(d)
d = d[:i3] + sec3 + "\n" + sec4 + d[end:]
open(os.path.join(ROOT, "DESIGN.md"), "w").write(d)
print("12.3:", len(known), "known,", len(commits), "fix commits; 12.4:", len(os.listdir(sd)), "seeded, first missed:", first_missed)
