from props import TB_COMMON
ENTRY = dict(
    level="proof",
    level_text=("Lean 4: one executable engine semantics parametric in the code's deviations (Cfg); Cfg.ideal is the BPMN token "
                "game. Proved for all flow lists, condition outcomes and states: selectFlows (the flowAction branch of "
                "flow.Start) hands exactly one token to every effective outgoing flow, in list order, the arriving token "
                "travelling on the first effective one, never staying, consumed iff none is effective (under the extracted "
                "fact firstFlowDecides = false; the negation is a kernel-checked witness that reproduces the repaired defect "
                "D1); forked tokens get pairwise distinct fresh ids; a token arriving at an activity yields exactly one request "
                "and parks (never skipped, never twice); end events consume; undeclared result names never change a variable. "
                "The remaining obligations are the extracted facts (D1 and D10 repaired). Tied to the code by lock-step "
                "replay: generated block-structured programs run on the real engine, paced by whole-process quiescence, every "
                "segment of requests / completions / error traces and the final variables compared with the model at the "
                "extracted configuration, and with the token game (the property)."),
    level_note=("UNCONDITIONAL on the fragment without inclusive gateways (Props/C01Fragment, C01FragmentCurrent): for EVERY program whose nodes are start / end events, activities with any conditional outgoing flows, exclusive and parallel gateways, catch / throw events and embedded sub-processes (any nesting, re-entered in loops) — any graph, structured or not, any size — every data and every sequence of answers (ok / error with any handler mode), the run of the engine model at the configuration extracted from today's /repo never logs a deviation and IS, state by state, the run of the BPMN token game Cfg.ideal (noIncl_conformance, current_noIncl_conformance; for programs also without sub-processes it holds whatever the two sub-process switches are: fragment_conformance). So the inclusive gateway is the only node kind on which today's engine model can leave the token game (noIncl_hypothesis_needed: it does). Intermediate throw events reached by tokens are part of the model (every token passes, all outgoing flows: extracted fact throwFuse, obligation current_throwPasses_ok; the hypothesis is needed — throwFuse_hypothesis_needed is the kernel-checked witness of D38, the second token consumed at the event); throw events INSIDE a sub-process are entry points there by the engine's design (triggered when the sub-process is entered) and are not modelled. BLOCK LEVEL, chains (Props/C01Chain): for every chain start -> a1 -> ... -> an -> end of any length (ids pairwise distinct), every code configuration, data and answers: StartAll requests a1, each answer is followed by exactly one request — of the next activity in insertion order — and the last by the end event (chain_conformance, by induction along the chain), hence identical to the token game step by step (chain_matches_token_game). Other block kinds have no block-level theorem. Refinement proved (Props/C01Conformance): for every code configuration, program, data and answer sequence, a "
                "run that logs no deviation cause IS a run of the token game under an admissible inclusive-join policy "
                "(every join decision inside the interval the property allows), and equals the run of Cfg.ideal when the "
                "cohort switch is off; the naive statement 'equals Cfg.ideal' is refuted by a kernel-checked witness. The "
                "block-level denotational theorem is not attempted. The switches still on (inclusive cohort, sub-process "
                "re-entry) are known findings with their own signatures. Atomicity abstraction: each node handles one message "
                "atomically and tokens run to quiescence between driver actions; two scheduling variants of the code "
                "configuration are accepted. Goroutine schedules are sampled by the runs, not quantified by a theorem."),
    technique="Lean 4 proof (kernel theorems on the engine model) + lock-step model/implementation replay",
    lean_modules=["Bpmn.Props.C01", "Bpmn.Props.C01Conformance", "Bpmn.Props.EngineCurrent", "Bpmn.Props.C01Chain", "Bpmn.Props.C01Fragment", "Bpmn.Props.C01FragmentCurrent", "Bpmn.Props.EngineSteps"],
    families=["c01", "c01d", "c01re", "c01twin", "c01patient", "c01twins"],
    facts_from=["Engine"],
    rule=("c01twins: 2..3 tokens sent by a parallel fork into ONE node at the same time, for the node kinds that keep something per node (task, exclusive gateway with conditions, exclusive merge followed by a one-incoming parallel gateway, signal throw event, end event, sub-process with an exclusive block inside), both answer orders — every token does what a single one would (the question D43 answered for the sub-process, asked of the others); a quarter of the generated c01 programs get one or two intermediate throw events without event definition in front of a top-level task / exclusive gateway (all its incoming flows end at the event: one token per merged branch, one per loop round passes it); c01patient: tokens waiting at a parallel join, an inclusive join, inside a sub-process and at tasks while the driver does nothing for 6.2 s of real time (waiting is not an event), then the run goes on; c01twin: TWO instances of one parsed definitions value with different data, alive at the same time, answered in a seeded interleaving (the second created after 0..3 answers of the first): each run judged on its own — nothing may carry over from one instance into the other; c01re: RE-ENTRY — the same inclusive fork / join pair activated 2..3 times in a loop with a different truth assignment in every round (what a gateway keeps between two activations must not leak from one decision into the next); c01d: 48 DIRECTED programs for the data a condition sees — [exclusive split on a variable]? -> parallel / inclusive "
          "fork -> A || B (writes y) [|| sub-process whose inner task writes z]? -> join -> exclusive split on y / z: every "
          "fixed order of answering the pending tasks (it decides which token survives the join) x values written; the "
          "variable written by another token must be seen by the next condition, whichever token evaluates it. "
          "c01: seeded block-structured programs (tasks of all nine kinds, seq, exclusive / parallel / inclusive blocks with "
          "defaults at random positions and empty branches, loops, embedded sub-processes, optionally a final activity with "
          "conditional outgoing flows; <= 14 nodes and nesting 3 quick, <= 26 / 4 thorough), random initial variables, "
          "pending requests answered in a seeded order at quiescence with declared and undeclared results; non-trivial = at "
          "least two requests and a gateway or sub-process; distinct by program and history"),
    trusted_base=TB_COMMON + ["whole-process quiescence detection via runtime.Stack goroutine states",
                              "Go-side Block -> XML emitter and condition printers (program lines are re-extracted from the parsed definitions)"],
    assumptions=["driver actions are issued at quiescence (races between an answer and running tokens are explored by C17 / thorough perturbation, not here)"],
)
