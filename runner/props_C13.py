"""C13 — timers never fire early and fire exactly as often as their definition says."""

_TB = [
    "Lean 4.33.0 kernel (axioms allowed: propext, Classical.choice, Quot.sound; audited by #print axioms on every run)",
    "extract/ (go/ast fact extractor) and harness/ (differential harness, canonicalisation)",
    "Go runtime, standard library and third-party dependencies behave as modelled",
]

ENTRY = dict(
    level="proof",
    level_text=(
        "Lean 4 theorems over an executable port of the mock clock's wake-up delivery (pending wake-ups, sort by due "
        "time, delivery of the NEW clock reading into capacity-1 channels) and of the timer goroutines (dateTimeTimer, "
        "recurringTimer: repetitions, interval from the last delivered time, end bound, cancel) as a state machine "
        "over events advance / set / cancel / goroutine-step(choice), where the choice resolves Go's select among "
        "ready cases. All theorems are for every definition, every event sequence of any length (any interleaving of "
        "clock jumps, also backwards, cancellation and goroutine steps) and every choice; tied to the code by an actor "
        "differential of the real timers over the real mock clock (firings with clock reading, channel closed, armed "
        "wake-ups after every operation) and by evaluating the C13 predicate on the implementation's own firings."),
    level_note=(
        "trusted: Lean kernel, harness quiescence detection (goroutine states from runtime.Stack), extractor; modelled: "
        "Go select as an explicit choice, receive-to-next-select of a goroutine as one step, the consumer of the "
        "timer channel always ready; tested only (family c13e, not proved): the engine-level clause (a timer catch "
        "event continues once per firing it was listening for)"),
    technique="Lean 4 proof (inductive invariants over a small-step machine) + exhaustive actor differential on the grid of the quantifier",
    lean_modules=["Bpmn.Props.C13", "Bpmn.Props.C13Current"],
    families=["c13", "c13e", "c13e2", "c13many", "c13two"],
    exhaustive=True,
    multi_seed=False,
    rule=("c13two: 2..3 tokens (a parallel fork straight into it) wait at ONE timer catch event (duration / date) when its timer fires once at its due time: each of them continues exactly once; c13many: a cycle timer with an end bound on a mock clock that holds 0 / 500 / 30000 / 50000 OTHER pending wake-ups, one clock change passing the next due time, the bound and all of them (three attempts each): nothing is delivered once the clock reads beyond the bound; definitions: date (future / now / past), duration (10 s / 0), cycles R0..R3 and unbounded x {no start, start "
          "ahead, start passed} x {no end, end between / exactly on a due time, end before start, R/start/end}; "
          "through timer.New (ISO 8601 text) and, for start+interval+end together, through the verif export of "
          "recurringTimer; histories: every strictly increasing sequence of up to 6 (quick: 2) clock settings from "
          "the grid {due-1, due, first due+1, three far-beyond points, end-1, end} x cancellation before each "
          "operation / after the last / never, plus seeded random histories of up to 8 operations (Set backwards, "
          "Add of 0 / negative, cancel anywhere) and histories with a cancel racing a clock jump; after every "
          "operation the harness waits until every pkg/timer goroutine is parked and records firings (with the mock "
          "clock reading), channel closure and the mock's armed wake-ups; each is compared with the Lean model (some "
          "resolution of the selects must reproduce the history) and the C13 predicate is evaluated on the "
          "implementation's own firings; non-trivial = at least one firing, or operations after a cancellation; "
          "distinct = distinct (definition, history). Family c13e: the definitions with a due time ahead (date, "
          "duration, cycles R0..R3/unbounded with and without start / end) behind a timer intermediate catch event in a "
          "process start -> catch -> end run by the real engine on the mock clock (one OS process per case), every "
          "increasing sequence of up to 2 (thorough: 3) clock settings from the same grid; after each the harness waits "
          "until no goroutine can run and records listening / timer event observed / continued / end completed / "
          "armed wake-ups; compared with the timer model feeding a one-token catch event, and the clause 'continues "
          "exactly once per firing it was listening for' is evaluated on the traces. Family c13e2: two or three "
          "instances of that process (duration PT10S, cycle R2/PT10S, a date) created from the same parsed definitions "
          "through ONE engine, ONE fan-out and ONE timer definition-instance builder (as /repo/model does) at "
          "different clock readings (second instance before / just before / after the first one's due time), then "
          "every increasing sequence of up to 2 (thorough: 3) clock settings around each instance's own due time; per "
          "instance: compared with its own timer model armed at its creation time, and on the traces: continues exactly "
          "once, at the first setting reaching ITS OWN due time, never before"),
    trusted_base=_TB + [
        "modelled, not verified: Go's select (an explicit choice among the ready cases), channel rendezvous with an "
        "always-ready consumer, qri-io/iso8601 parsing (the harness feeds ISO text through timer.New and the parsed "
        "values to the model)"],
    assumptions=[
        "cycle intervals are non-negative (ISO 8601 durations); quiescence claims need a positive interval",
        "after cancellation means after the timer goroutine has observed it; a cancel issued while a wake-up is "
        "already delivered may still be followed by one firing (Go select), which the model exhibits and the race "
        "histories exercise",
        "with an end bound, or when a clock jump skips several due times, a cycle fires fewer than n times: exactly n "
        "is claimed for completion without end bound and without cancellation",
    ],
)
