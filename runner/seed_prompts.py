#!/usr/bin/env python3
"""Prepare a round of seeded-change requests: runner/seed_prompts.py <round> [<Cxx> ...]
For every property: a scratch worktree /tmp/seedwork/<Cxx>-r<round>-wt of /repo HEAD, an output directory
/tmp/seedwork/<Cxx>-r<round>-out and a prompt /tmp/seedwork/prompts/<Cxx>-r<round>.txt for a fresh sub-agent. The prompt holds
the text of the property (properties.jsonl), the rules for the change, and one line per earlier change of that property
saying what it needed (so that the next author chooses another mechanism) — nothing about the checks."""
import json, os, subprocess, sys, glob
ROOT = os.path.dirname(os.path.dirname(os.path.abspath(__file__)))
rnd = sys.argv[1]
only = set(sys.argv[2:])
os.makedirs("/tmp/seedwork/prompts", exist_ok=True)
for l in open(os.path.join(ROOT, "properties.jsonl")):
    p = json.loads(l)
    pid = p["id"]
    if only and pid not in only:
        continue
    tag = f"{pid}-r{rnd}"
    wt, outd = f"/tmp/seedwork/{tag}-wt", f"/tmp/seedwork/{tag}-out"
    if not os.path.isdir(wt):
        subprocess.run(["git", "-C", "/repo", "worktree", "add", "-q", "--detach", wt, "HEAD"], check=True)
    os.makedirs(outd, exist_ok=True)
    used = []
    for m in sorted(glob.glob(os.path.join(ROOT, "seeded", pid + "-*", "meta.json"))):
        n = json.load(open(m)).get("needs", "")
        if n and n != "see notes.md":
            used.append("     - " + n.replace("\n", " ")[:420])
    anchors = ", ".join(p["anchors"]["files"])
    txt = f"""You are helping to evaluate a verification tool for the Go library olive-io/bpmn (a lightweight BPMN 2.0 workflow engine: one goroutine per flow node, tokens as flows, gateways, events, timers, sub-processes, an XML schema model under schema/). You act as the author of a realistic REGRESSION: a code change that a maintainer might plausibly commit (an optimisation, a clean-up, a refactoring, a 'robustness fix') that BREAKS the semantic property below while the code still compiles and the existing test suite still passes.

PROPERTY {pid} — {p['title']}
{p['statement']}
It is meant to hold for: {p['quantifier']['text']}

Your scratch git worktree of the repository is {wt} (already created; work ONLY there and in {outd}; never touch /repo or /verif, and do not read anything under /verif). Every shell call needs: export GOFLAGS=-mod=mod GOWORK=off GOPROXY=off GOSUMDB=off GOTOOLCHAIN=local   (no network; nothing can be fetched). The schema package is its own module in {wt}/schema (run its tests from inside that directory).

What to produce, in {outd}/ :
 1. patch.diff — `git diff` of your change to NON-test source files of the library (keep it small: ideally < 40 changed lines). Do not touch *_test.go files, files with the build tag `verif` (verif_export*.go, internal/verifhook) — those are instrumentation; leave their call sites where they are.
 2. demo_test.go — ONE Go test file with a test function named TestDemo (and helpers) that FAILS on the patched tree and PASSES on the unpatched tree, reliably (run each ≥ 5 times; if the failure needs a schedule, make the demo force or repeat it until it shows, deterministically enough to fail ≥ 4 of 5 runs patched and pass 5 of 5 unpatched). Say in notes.md which directory/package it belongs in (repository root `package bpmn_test`, or a sub-package).
 3. notes.md — what the change does, why it breaks the property, WHAT IT NEEDS IN ORDER TO MANIFEST (one paragraph, precise, under a heading containing the word "needs"), how to run the demo, and the observed results with and without the patch, and the result of the existing suite with the patch.

NEVER use `git stash` (the stash is shared by all worktrees of the repository and other people work in sibling worktrees): to compare patched and unpatched trees use `git diff > file`, `git apply -R file`, `git apply file`. The machine is shared and busy: give timing-dependent demos generous margins.

Requirements on the change:
 * With the patch, `go build ./... && go test -vet=off -count=1 ./...` in the root AND `go test -vet=off -count=1 ./...` in schema/ must pass (run them; one pre-existing test, TestNonInterruptingEvent, hangs about once in a few hundred runs on the unchanged tree — re-run to tell).
 * It must need something SPECIFIC to manifest — a particular interleaving, a fault or cancel at a particular point, a multi-step sequence of operations, an unusual input or program shape, or two cooperating sites that each look fine alone. NOT something ordinary use or a trivial smoke test would expose at once.
 * It must be a genuine violation of the property as stated above (re-read it), not of something adjacent.
 * It should look like something a real contributor could have written in good faith.
 * Ideas ALREADY USED by earlier changes for this property — choose a DIFFERENT mechanism and a different place in the code (a different file if you can):
{chr(10).join(used) if used else '     (none yet)'}

Code anchors for this property (a starting point, read whatever else you need): {anchors}

When done, reply with a short summary: the files you wrote, the one-paragraph 'needs', and the pass/fail counts you observed. Leave the worktree with the patch reverted (git apply -R; remove any demo file you placed there)."""
    open(f"/tmp/seedwork/prompts/{tag}.txt", "w").write(txt)
    print(tag, len(used), "earlier ideas")
