"""C15 — XML round trip (see DESIGN.md section 8, C15)."""
from props import TB_COMMON

ENTRY = dict(
    level="proof",
    level_text=("Lean 4 theorems over a generic XML codec (marshal / parse over Node and Xml trees of unbounded size and "
                "depth) parametric in a schema table that is regenerated from the Go struct tags and method bodies on "
                "every run. Proved for EVERY table that passes a decidable check (rtTableB) and every well-typed "
                "definitions tree, by mutual structural induction over the tree: parse (marshal n) = n up to trimming "
                "of the text PreMarshal trims and the olive Item defaults (roundtrip_general; the result has the same "
                "shape, and is n itself when nothing is trimmed and no default applies); marshal stores back only "
                "trimmed text and is idempotent; the generated FindBy traversal lists cover every place an id-carrying "
                "element can be. The check is evaluated by the kernel on the table extracted from the current tree "
                "(current_rt_table, current_roundtrip, current_C15); a table that fails it has concrete kernel-checked "
                "witnesses (undeclared xsi prefix: a formal expression comes back informal; value-typed AnExpression "
                "field under a pointer-receiver marshaler: expression lost), both repaired in /repo. Tied to the code "
                "by a three-way tree differential (model, tokenised xml.Marshal output, re-parsed model) on every "
                "bundled .bpmn file, hand-made definitions over every flow-node kind and random definitions over every "
                "struct of the schema package, and by evaluating the C15 predicate on the implementation's own data"),
    level_note=("trusted: Lean kernel, the extractor's reading of tags / MarshalXML / FindBy bodies, the reflection "
                "walker and tokeniser of the harness; modelled, validated by the differential only: encoding/xml "
                "(field flattening and shadowing, escaping, namespace resolution), strconv formatting of attribute values"),
    technique="Lean 4 proof (structural induction over a table-driven codec, kernel-evaluated table checks) + "
              "model/implementation tree differential + property predicate on implementation data",
    lean_modules=["Bpmn.Props.C15", "Bpmn.Props.C15Current"],
    families=["c15"],
    exhaustive=False,
    multi_seed=True,
    rule=("every .bpmn file found under /repo (parse, marshal, parse); hand-made definitions for each of 17 flow-node "
          "kinds x {formal, formal+language, informal, no condition} with gateway defaults, timer/signal/message "
          "definitions, data objects, olive extension elements, collaboration, DI; seeded random definitions filled "
          "by reflection over every struct type of the schema package (120 quick / 1500 thorough per seed); 8 engine "
          "runs original vs re-parsed. Per case: model marshal = tokenised output, model parse = re-parsed model, "
          "original ≡ re-parsed up to whitespace-only text, model unchanged by marshalling, FindBy(ExactId) on every "
          "id. non-trivial = output tokenised and re-parsed; distinct = distinct canonical case content"),
    trusted_base=TB_COMMON + [
        "modelled, not verified: encoding/xml (struct flattening, attribute/element escaping, prefix resolution of "
        "the decoder), reflect, strconv; the schema table extractor (extract/facts_c15.go)"],
    assumptions=[
        "element content is compared as the concatenation of its character data (position of text between child "
        "elements is not part of the model)",
        "attribute values are compared in their canonical strconv form",
        "an olive Item whose type is empty is equivalent to one of type \"string\" (both MarshalXML and UnmarshalXML "
        "normalise it)",
        "ids are looked up on the original model; duplicate ids: only the first occurrence is expected back"],
)
