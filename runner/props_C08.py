"""C08 — task requests: one effective answer, declared results stored, error modes kept
(activity.go taskTrace, task_generic.go, flow.go error switch, retry.go)."""
from props import TB_COMMON

ENTRY = dict(
    level="proof",
    level_text=(
        "Lean 4 theorems over a small-step port of one task request (any number of Do callers x the process goroutine x "
        "the reader of the response channel; forward/response capacities and the shape of Do's send are parameters "
        "regenerated from activity.go on every run), of Retry and of the flow loop's error switch. Proved for every "
        "schedule of any length and any number of callers, for every value of the facts: the response channel receives "
        "at most one value and it is the value of the first Do whose send completed or process's own ctx/timeout error "
        "(tt_first_answer_wins); a Do after done is closed returns in one step and changes nothing "
        "(tt_late_do_no_effect); retry bound for every count n, every failure pattern and every earlier use of the "
        "token's counter, exactly min(n, failures) for a fresh token, -1 unbounded, error trace first, skip/none "
        "continue, exit/exhausted end (retry_bound); stored = supplied restricted to declared names, everything else "
        "unchanged (applyDeclared_spec, applyOutputs_spec). Non-blocking is a DICHOTOMY on the facts: if the send sits "
        "in a select with default, or with a <-done alternative and a buffered response channel, every Do that is not "
        "returned always has an enabled step of its own or of process, takes at most 3 own steps and is returned after "
        "a fixed 9-step run of itself and process (tt_do_returns); otherwise an explicit witness schedule parks caller "
        "0 in front of its send for ever (C08_counterexample_third_do_blocks, for every forward capacity c: c+2 "
        "callers). PARTIAL on the current tree: the send is a plain blocking send, so the negative side is the one "
        "that instantiates (current_do_returns, current_verdict = not C08_statement); the witness is enforced on the "
        "real taskTrace through the schedule points on every run (known finding D6)."),
    level_note=(
        "full strength, any facts: tt_first_answer_wins, tt_reader_gets_logged, tt_late_do_no_effect, tt_done_stable, "
        "retry_bound, applyDeclared_spec, applyOutputs_spec (C08_partial). Under the side condition Ok on the extracted "
        "facts: tt_do_returns, C08_general. Refuted at the current facts with an explicit schedule: C08_cex, "
        "C08_counterexample_third_do_blocks(_current). Liveness is stated as bounded progress (never stuck + strictly "
        "increasing program counters + a fixed continuation that returns), which assumes a scheduler that eventually "
        "runs an enabled goroutine. tested only: the tie between model and code (c08tt: the recorded outcome of every "
        "case must be an outcome of the model explored exhaustively under the case's scheduling constraints; c08filter, "
        "c08retry: function differentials; c08eng: lock-step replay through the engine model), visibility of stored "
        "results to later conditions and tasks (engine runs), value kinds (opaque in the filter differential; C16 owns "
        "value fidelity). modelled, not proved: channels and select as in the Go memory model (buffer = FIFO list, "
        "unbuffered send = hand-over to a receiver parked in select), int32 retry counter as Int"),
    technique=("Lean 4 proof (inductive invariants over a small-step concurrent machine, fact-selected dichotomy with a "
               "computable witness schedule) + actor differential against the real taskTrace with enforced and perturbed "
               "schedules + function differentials + engine lock-step replay"),
    lean_modules=["Bpmn.Props.C08", "Bpmn.Props.C08Current"],
    families=["c08tt", "c08filter", "c08retry", "c08eng", "c08par", "c08kind"],
    exhaustive=True,
    facts_from=["Engine"],
    rule=("c08kind: a declared result stored TWICE by one token with values of different kinds (int then string, string then int, bool then string, int then bool, float then string, string then list; one control with the kind unchanged), a gateway in between, the condition behind the second store reading the new value (expr language): the token takes the flow the stored value demands, no error trace; c08par: declared results stored while another token of the instance is inside an embedded sub-process (a parallel block: sub-process — one or two levels — on one branch, a plain task on the other; both orders of answering), read behind the join by a condition and in the final variables; c08tt: a real taskTrace (bpmn.VerifNewTaskTraceFor), 1..3 Do calls x {sequential, concurrent, all callers "
          "parked behind the done check through the schedule point tasktrace.do.before_send and then released (the "
          "witness), process goroutine parked at tasktrace.process.forwarding} x {no event, context cancelled before / "
          "while parked, timeout before / while parked} x seeded perturbation levels; blocked = the Do goroutine is still "
          "parked when no goroutine of the process can run; every value the response channel delivers is recorded; the "
          "outcome (blocked set, delivered values) must be one the Lean model reaches at the extracted facts under the "
          "same constraints, and the C08 predicate (at most one value, from a caller that returned or the ctx/timeout "
          "error, first call decisive when sequential, nobody blocked) is evaluated on it. c08filter: ApplyTaskResult / "
          "ApplyTaskDataOutput for all declared x supplied subsets of four names (both filters, with and without an "
          "olive:results element, six value kinds) + seeded lists with repeated names. c08retry: Retry for all limits "
          "-2..4 x 0..5 steps x re-reset + seeded scripts. c08eng: start -> T(results r1,r2; dataOutput o1; "
          "taskDefinition retries) -> xor(r1==1 -> A | u==7 -> B | default C) -> end on the real engine, one process per "
          "case: ok answers with declared/undeclared results and data objects, error with no handler / skip / exit / "
          "unknown mode, retry n in -1..3 x 0..4 failures then success, retries then skip/exit/none, changing n, retry on "
          "a later task of the same token, error answers carrying results, double answers; plus two shapes with the "
          "conditional flows directly ON the task (x==1 -> A | x!=1 -> B on the declared result x it has just stored; "
          "self-loop T --[x<3]--> T counted by x, also with retry/skip answers in between): which activity is requested "
          "next and how often T is requested; judged by the engine model in lock-step "
          "(requests, completions, errors, final variables), by the token model (request counts), and by retry bound, "
          "error-trace-first, data-output filter and what the later task read. non-trivial: tt k>=2 or an event; filter "
          "both lists non-empty; retry >= 1 step; eng >= 2 answers"),
    trusted_base=TB_COMMON + [
        "whole-process quiescence detection via runtime.Stack goroutine states (also what classifies a Do as blocked)",
        "harness/internal/sched + internal/verifhook schedule points (enforcement of the witness schedule)",
        "modelled, not verified: Go channel and select semantics, context cancellation, time.After"],
    assumptions=[
        "a scheduler that eventually runs every enabled goroutine (liveness is proved as bounded progress)",
        "fewer than 2^31 attempts per token (Retry's int32 counter is modelled over Int)",
        "one reader of the response channel that either receives once or leaves on context cancellation (task_generic.go)",
    ],
)

HOOKS = ["/repo/verif_export_c08.go (uncommitted, //go:build verif): VerifNewTaskTraceFor — a task trace with an "
         "activity attached, without which the timeout branch of taskTrace.process dereferences nil"]
