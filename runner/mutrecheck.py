#!/usr/bin/env python3
"""Second pass over the survivors of a mutation sweep: run the REMAINING checks anchored at the mutated file.
   runner/mutrecheck.py <run name> [--workers W]    -> build/mutsweep/<run>.recheck.jsonl"""
import json, os, subprocess, sys, collections, concurrent.futures as cf
ROOT = os.path.dirname(os.path.dirname(os.path.abspath(__file__)))
run = sys.argv[1]
workers = int(sys.argv[sys.argv.index("--workers") + 1]) if "--workers" in sys.argv else 3
anc = collections.defaultdict(list)
for l in open(os.path.join(ROOT, "properties.jsonl")):
    p = json.loads(l)
    for f in p["anchors"]["files"]:
        anc[f].append(p["id"])
recs = [json.loads(l) for l in open(os.path.join(ROOT, "build", "mutsweep", run + ".jsonl"))]
surv = [r for r in recs if r.get("survived")]
outp = os.path.join(ROOT, "build", "mutsweep", run + ".recheck.jsonl")
done = set()
if os.path.exists(outp):
    done = {json.loads(l)["desc"] for l in open(outp)}
os.makedirs("/tmp/mrc", exist_ok=True)

def one(r):
    rest = [p for p in anc.get(r["file"], []) if p not in r["verdicts"]]
    if not rest:
        return dict(desc=r["desc"], verdicts={}, survived=True, diff=r["diff"])
    d = r["diff"]
    d = d[d.find("diff --git"):]
    pf = f"/tmp/mrc/{abs(hash(r['desc']))}.diff"
    open(pf, "w").write(d if d.endswith("\n") else d + "\n")
    p = subprocess.run([os.path.join(ROOT, "runner", "mutant_eval.sh"), pf] + rest, stdout=subprocess.PIPE, stderr=subprocess.STDOUT, text=True)
    v, cur = {}, None
    for ln in p.stdout.split("\n"):
        if ln.startswith("== "):
            cur = ln[3:].strip()
        elif cur and ln.startswith("VIOLATION"):
            v[cur] = "VIOLATION-nfi" if "no-failing-input-found" in ln else "VIOLATION"
        elif cur and ln.startswith("OK ") and cur not in v:
            v[cur] = "OK"
        elif ln.startswith("PATCH-DOES-NOT-APPLY"):
            v["patch"] = "does-not-apply"
    os.remove(pf)
    return dict(desc=r["desc"], verdicts=v, survived=not any(x.startswith("VIOLATION") for x in v.values()), diff=r["diff"])

with cf.ThreadPoolExecutor(workers) as ex, open(outp, "a") as of:
    for res in ex.map(one, [r for r in surv if r["desc"] not in done]):
        of.write(json.dumps(res) + "\n"); of.flush()
        print(("SURVIVED " if res["survived"] else "caught   ") + res["desc"], res["verdicts"], flush=True)
