"""C17 — no data race and no panic inside the engine under concurrent use.

Level `other` (partial): Lean carries the lock-set DISCIPLINE (abstract trace theorem + regenerated lock / ownership
tables checked in the kernel); actual races and panics are SEARCHED for dynamically (`go build -race`, one child process
per case), never proved absent."""
import json
import os
import re
import subprocess
import time

_TB = [
    "Lean 4.33.0 kernel (axioms allowed: propext, Classical.choice, Quot.sound; audited by #print axioms on every run)",
    "extract/ (go/ast fact extractor) and harness/ (differential harness, canonicalisation)",
    "Go runtime, standard library and third-party dependencies behave as modelled",
]

_HERE = os.path.dirname(os.path.abspath(__file__))
_RUN = os.path.join(os.path.dirname(_HERE), "build", "run")


def _judge(vh, driver, fam_label, seed, tier, env_extra, rd):
    """vh c17 | driver_C17, result in the shape check() expects from run_family."""
    os.makedirs(rd, exist_ok=True)
    tag = f"C17-{fam_label}-{tier}-{seed}"
    lines = os.path.join(rd, tag + ".lines")
    stats = os.path.join(rd, tag + ".stats.json")
    outp = os.path.join(rd, tag + ".out")
    env = dict(os.environ)
    env.setdefault("GOMEMLIMIT", "8GiB")
    env.update(env_extra)
    t0 = time.time()
    with open(lines, "w") as lf:
        cmd = [vh, "-seed", str(seed), "-tier", tier, "-stats", stats, "c17"]
        try:
            p = subprocess.run(cmd, stdout=lf, stderr=subprocess.PIPE, text=True, env=env, timeout=3000)
            hrc, herr = p.returncode, p.stderr
        except subprocess.TimeoutExpired:
            hrc, herr = 124, "harness timeout"
    with open(lines) as lf, open(outp, "w") as of:
        p = subprocess.run([driver], stdin=lf, stdout=of, stderr=subprocess.PIPE, text=True)
        drc, derr = p.returncode, p.stderr
    res = dict(family=fam_label, lines=lines, out=outp, harness_rc=hrc, harness_err=herr[-4000:], driver_rc=drc,
               driver_err=derr[-2000:], wall=time.time() - t0, diffs=[], specs=[], bads=[], summary={}, stats={},
               infos=[], seed=seed)
    for ln in open(outp):
        w = ln.rstrip("\n").split(" ")
        if w[0] == "case" and len(w) >= 3:
            if w[2] == "diff":
                res["diffs"].append((w[1], " ".join(w[3:])))
            elif w[2] == "spec":
                res["specs"].append((w[1], w[3].rstrip(":") if len(w) > 3 else "?", " ".join(w[3:])))
            elif w[2] == "bad":
                res["bads"].append((w[1], " ".join(w[3:])))
            elif w[2] == "info":
                res["infos"].append((w[1], " ".join(w[3:])))
        elif w[0] == "summary":
            for kv in w[1:]:
                k, _, v = kv.partition("=")
                res["summary"][k] = int(v)
    if os.path.exists(stats):
        try:
            res["stats"] = json.load(open(stats))
        except Exception:
            pass
    return res


def _custom(ctx, fam_results, broken):
    """The race search: the same family built with `-race` (binary cached under build/), every case in its own child,
    race-detector logs under build/run/c17race, judged by the same driver. Appended to the family results, so its
    spec lines (race:<a>|<b>, panic:<f>, …) go through the ordinary known-finding / violation protocol."""
    cov = {}
    rc, out, vh_race = ctx["build_harness"](race=True, prop="C17")
    if rc != 0:
        cov["race_detector"] = "UNAVAILABLE: go build -race failed (" + out.strip().split("\n")[-1][:200] + \
                               "); fell back to tables + non-race stress (panics only)"
        return cov
    cov["race_detector"] = "go build -race -tags verif (CGO_ENABLED=1), GORACE=halt_on_error=0 exitcode=0 log_path=build/run/c17race/<case>"
    driver = os.path.join(ctx["root"], "lean", ".lake", "build", "bin", "driver_C17")
    rd = os.path.join(ctx["build"], "run")
    seeds = [ctx["seed"]] if ctx["tier"] == "quick" else [ctx["seed"], ctx["seed"] + 1000003]
    pairs = {}
    for sd in seeds:
        r = _judge(vh_race, driver, "c17race", sd, ctx["tier"],
                   {"VERIF_C17_DIR": os.path.join(rd, "c17race")}, rd)
        fam_results.append(r)
        for (_cid, sig, _d) in r["specs"]:
            pairs[sig] = pairs.get(sig, 0) + 1
    cov["race_search_signatures"] = dict(sorted(pairs.items()))
    cov["race_search_cases"] = sum(r["summary"].get("cases", 0) for r in fam_results if r["family"] == "c17race")
    # the hand-listed rows the discipline is NOT claimed for (kept next to the numbers they qualify)
    try:
        txt = open(os.path.join(ctx["root"], "lean", "Bpmn", "Props", "C17Current.lean")).read()
        cov["lock_table_rows_not_claimed"] = [
            dict(field=m.group(1), function=m.group(2), write=m.group(3) == "true", why=m.group(4))
            for m in re.finditer(r'key := \("([^"]+)", "([^"]+)", (true|false)\), why := \.(\w+)', txt)]
    except Exception:
        pass
    return cov


ENTRY = dict(
    level="other",
    level_text=(
        "PARTIAL, two separate parts. (1) PROOF of the discipline, not of the code: a Lean 4 theorem over an abstract trace "
        "semantics (threads performing acquire / release of reader-writer locks, goroutine creation, plain and atomic reads and "
        "writes; any number of threads, locks, locations, any trace length): if every pair of conflicting accesses shares a "
        "lock with one side in write mode (or both are atomic, or the location has one owner) then in every interleaving that "
        "respects the lock semantics every conflicting pair is ordered by happens-before (lockset_sound, policy_sound, "
        "table_sound). The engine enters through two tables regenerated from the Go source on every run: a lock table (every "
        "syntactic access site of 23 hand-listed shared fields / variables with the sibling mutexes held there, atomic or not) "
        "and an ownership table (every access to a field of a flow-node struct, classified constructor / run / run-only "
        "helper / other); the pairwise lock-set check and the ownership check are evaluated on the extracted rows in the "
        "kernel (lockTable_ok, current_no_regression, ownership_ok), the rows that do not satisfy the syntactic discipline on "
        "the unchanged tree being listed by hand (knownUnprotected: suspect / protocol). (2) SEARCH, never proof: the same "
        "harness built with `go build -race`, one child process per case, real instances (generated C01-style programs, "
        "event-based gateway, boundary events, catch events, data outputs, two instances on one locator) driven from many "
        "goroutines (concurrent and duplicate task answers, event deliveries, tracer subscribe/unsubscribe, locator readers "
        "and a writer, several WaitUntilComplete callers) under seeded schedule perturbation; every race report is "
        "canonicalised to the pair of top engine frames, every dead child to its panic; the C01-style runs are also judged "
        "against the sequential token semantics."),
    level_note=(
        "A data race is a property of Go's memory model on real executions; no theorem about a model exhibits or excludes one. "
        "What Lean proves: the lock-set logic is sound on abstract traces (unbounded), and the EXTRACTED tables satisfy it "
        "except for the listed rows. Not proved, only assumed: that the extractor's syntactic, intra-procedural, "
        "flow-insensitive notion of `held` under-approximates what is held at run time; that the hand-listed fields are all the "
        "shared state (fields not listed, third-party state, values reachable through interfaces are outside the tables); that "
        "constructor accesses precede publication; `protocol` rows (FlowNodeMapping filled under a lock held across functions, "
        "the event-gateway map filled before the channel hand-off) are argued, not proved. Channel-based ordering is outside "
        "the lock-set theory altogether. Races and panics are searched for on sampled programs and schedules only: finding "
        "none is not absence. The third conjunct (outcome allowed by the sequential token semantics) is checked only for the "
        "C01-style cases, through C01's judge, with concurrent batches restricted to answers that write no value a condition "
        "reads (so that the recorded order is replayable); event cases (C06/C10/C11 shapes) are searched for races and panics "
        "only."),
    technique=("Lean 4 proof of lock-set soundness over abstract traces + kernel-checked regenerated lock / ownership tables "
               "(discipline only) + dynamic race and panic search with the Go race detector (search, not proof)"),
    lean_modules=["Bpmn.Props.C17", "Bpmn.Props.C17Current"],
    families=["c17"],
    env={"VERIF_C17_DIR": os.path.join(_RUN, "c17")},
    custom=_custom,
    exhaustive=False,
    multi_seed=True,
    explanation=(
        "other = proof about the discipline + dynamic search for the property itself. obligations/discharged count the Lean "
        "theorems (trace theorem, table instantiations at the extracted rows); evaluations / distinct_nontrivial / "
        "race_search_* count executions of real instances under concurrent drivers, once without and once with the race "
        "detector. A run prints KNOWN-FINDING only for a race pair re-observed in that run; not observing a listed race is "
        "not a failure (races are schedule dependent)."),
    rule=("per case (own child process, seeded): kind in {prog x5, ebg, bnd, catch, dobj, loc} per 10 cases; prog = generated "
          "block program (tasks of the nine kinds, seq, xor, par, incl, loop, sub, conditional flows leaving an activity; "
          "up to ~14 nodes) answered in batches of 1..3 pending requests at once, each request by 1..3 goroutines racing to "
          "Do it; around every batch a burst of 2..4 locator readers (GetVariable, CloneVariables, CloneItems of the three "
          "containers, FindIItemAwareLocator), one SetVariable writer, 1..2 subscribe/unsubscribe goroutines, 0..2 deliveries of "
          "an unrelated signal, and 2..4 WaitUntilComplete callers for the whole run; schedule perturbation level 0/1/2; ebg / "
          "bnd / catch = 2..3 competing signal / message events delivered from different goroutines together with answers; "
          "dobj = parallel tasks answered with DoWithObjects while readers clone the data-object container; loc = further "
          "instances created on the same locator while the first runs. The family runs twice: plain (panic search, outcome "
          "judged) and built with -race (race search). non-trivial = at least one batch and at least three kinds of concurrent "
          "operations actually ran; distinct = distinct recorded case content"),
    trusted_base=_TB + [
        "the Go race detector (ThreadSanitizer) reports only races that occur on the executed schedule; its reports are "
        "canonicalised to the top frame inside /repo of each of the two stacks",
        "extract/facts_c17.go: local type inference without go/types; `held` = Lock/RLock textually before the site in the "
        "same function or literal with no non-deferred unlock in between, on a sibling mutex field of the same base expression",
    ],
    assumptions=[
        "the 23 listed fields / variables and 13 node structs are the shared state of interest; anything else is outside the tables",
        "accesses in the function that creates an object (rows marked fresh) happen before the object is shared",
        "sync.Mutex / RWMutex / atomic behave as in the trace semantics (write-mode exclusive, read-mode shared, release "
        "synchronises with a later acquisition unless both are read-mode); channel synchronisation is not modelled",
        "concurrent answer batches write no variable a condition reads; the judged outcome is requests / end events / final variables",
    ],
)
