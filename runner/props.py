"""Per-property configuration of the runner (what to build, which harness families to run,
what the evidence says about rule / trusted base / assumptions)."""

TB_COMMON = [
    "Lean 4.33.0 kernel (axioms allowed: propext, Classical.choice, Quot.sound; audited by #print axioms on every run)",
    "extract/ (go/ast fact extractor) and harness/ (differential harness, canonicalisation)",
    "Go runtime, standard library and third-party dependencies behave as modelled",
]

PROPS = {}
NOT_APPLICABLE = {}
HOOK_COMMITS = ['2d739c2', '5b36563', '0378f89', '258053c', 'd712161', '609e415', 'fc00301', '356c1bb', "6c5aa29"]
# properties whose check exists in the tree but is not yet claimed (still being built / reviewed)
NOT_READY = set()

PROPS["C14"] = dict(
    level="proof",
    level_text=("Lean 4 theorems over an executable port of both Satisfy functions, for histories of any length and any "
                "number of definitions (invariant: per-definition match count = firings + chains holding it; some "
                "definition is held by every open chain); tied to the code by an exhaustive differential of the real "
                "satisfiers (result and chain index) and by evaluating the property on the implementation's answers"),
    level_note=("trusted: Lean kernel, the differential harness; modelled: event matching abstracted to the index of the "
                "first matching definition, bitset as List Bool. The matching rule itself (message / signal events against their "
                "definitions) is TRANSLATED from pkg/event/events.go on every run and proved equal to the kernel EventMatch.matchesInst "
                "(Props/C11MatchCurrent: message_match_is_source, signal_match_is_source)"),
    technique="Lean 4 proof (inductive invariant) + exhaustive model/implementation differential",
    lean_modules=["Bpmn.Props.C14", "Bpmn.Props.C14Current", "Bpmn.Props.C11MatchCurrent"],
    families=["c14", "c14eng"],
    exhaustive=True,
    rule=("every history over n=1..4 definitions plus a non-matching event up to length 5..9 (exhaustive, "
          "catch parallel / catch plain / throw), plus seeded random histories of length 10..70 over 1..6 "
          "definitions (half of them balanced multisets); each Satisfy result (matched, chain index) is "
          "compared with the Lean model and the C14 predicate is evaluated on the implementation's answers; "
          "non-trivial = the satisfier fired at least once; distinct = distinct (kind, par, n, history); c14eng: a "
          "(parallel-)multiple intermediate catch event with 1..3 signal definitions inside a loop on the real engine, "
          "seeded event histories delivered at quiescence with re-entries of the node, firings (requests of the task "
          "behind it) compared with the satisfier model kept across activations and with the C14 predicate over the "
          "events the node observed while listening"),
    trusted_base=TB_COMMON + [
        "modelled, not verified: event.MatchesEventInstance (an event is abstracted to the index of the first "
        "definition it matches), bits-and-blooms/bitset as List Bool"],
    assumptions=["event definitions of one catch event are pairwise non-matching (an event matches at most one "
                 "definition); the Go code only ever looks at the first match"],
)


# per-property entries living in their own files: runner/props_Cxx.py defining ENTRY (and optionally
# NOT_APPLICABLE_REASON / HOOKS)
import glob as _glob, importlib.util as _ilu, os as _os
for _f in sorted(_glob.glob(_os.path.join(_os.path.dirname(_os.path.abspath(__file__)), "props_C*.py"))):
    _name = _os.path.basename(_f)[:-3]
    _spec = _ilu.spec_from_file_location(_name, _f)
    _m = _ilu.module_from_spec(_spec)
    _spec.loader.exec_module(_m)
    _pid = _name.split("_")[1]
    if hasattr(_m, "ENTRY"):
        PROPS[_pid] = _m.ENTRY
    if hasattr(_m, "NOT_APPLICABLE_REASON"):
        NOT_APPLICABLE[_pid] = _m.NOT_APPLICABLE_REASON
