from props import TB_COMMON
ENTRY = dict(
    level="proof",
    level_text=("Lean 4 theorems over a small-step port of StartAll/StartWith, the cease-flow monitor(s), the tracer's "
                "broadcast with bounded subscriber buffers, the completion lock and WaitUntilComplete, quantified over all "
                "schedules and all histories of calls (repeated, concurrent, expired), any number of start events. SAFETY, "
                "for all values of the extracted facts: the cease-flow trace is emitted only in a state where every start "
                "event has fired and the wait-group counter is 0, at most once per monitor, and nothing but cease traces "
                "follows it except traces of goroutines the wait group does not count (cease_sound; none of those, hence cease "
                "strictly last, when the fact boundaryEndTraceDetached is false: cease_last); a call issued after StartAll "
                "returned returns true only after it (wait_sound). "
                "LIVENESS as bounded progress (complete_live): if the monitor subscribes before Trigger, StartAll creates "
                "one monitor and the signal channel is buffered, then StartAll is never blocked for good and from every "
                "reachable state with all starts fired and no token some goroutine can move, every move counts a measure "
                "down, new calls add 3 to it, and after that many moves the cease trace is out, the lock free and every "
                "present and future call has returned. For the negations the faithful model has witnesses proved stuck "
                "under EVERY continuation (missed start, second monitor stalling the tracer on its 11th unread trace, "
                "helper of an expired wait keeping the lock) plus a witness that the boundary-end trace of an activity can "
                "follow the cease trace; the five facts are re-read from process.go / tracer.go / activity.go on every "
                "run and the instantiation is an if-then-else dichotomy, so today's tree builds the witness side (the "
                "full statement is FALSE on today's code: D2, D3, D4, D33 are known findings re-observed on the real "
                "engine) and a repaired tree builds the positive side (checked for all 8 combinations of the three "
                "repairs, and by running the check against the candidate patches)."),
    level_note=("partial on today's tree: C02_statement is proved false at the current facts (C02_not_holds_today); what "
                "holds unconditionally is the safety half; C02_holds_partial needs the three repairs of complete_live plus "
                "the ordered boundary-end trace (C02_single_start_partial: without the one-monitor repair for processes "
                "with one start event). trusted: Lean kernel, extractor, harness, "
                "whole-process quiescence detection; modelled not verified: Go channels, sync.RWMutex (any waiter may win), "
                "sync.WaitGroup as a counter fed by an environment that only creates tokens from live tokens or start "
                "events and lets a start event's token report before it dies; the relay of the instance tracer and outside "
                "subscribers always read; cancellation is not modelled (C07); a start event without outgoing flow emits no "
                "trace the monitor counts (not generated)"),
    technique="Lean 4 proof (inductive invariants, progress measure, stuck invariants) + lock-step replay of real runs with enforced schedules",
    lean_modules=["Bpmn.Props.C02", "Bpmn.Props.C02Current"],
    families=["c02", "c02obs"],
    exhaustive=False,
    multi_seed=True,
    rule=("c02obs: an observer of the instance tracer with a small buffer (0, 1, 2, 4, 6) stops reading once it has answered the last of 1..2 tasks and then calls WaitUntilComplete itself, a second waiter beside it: completion is reported to both within the bound although the observer lags, and the cease-flow trace is there once when it reads on; scenario `partial`: the start events are fired one by one with StartWith (shapes start->end, start->task->end, and `subfirst`: the first start event leads into an embedded sub-process with a start event of its own), a wait before the last one fires — completion is reported only once every start event of the PROCESS has fired (cease_before_all_starts, wait_true_before_all_starts); family c02, one process instance per case (own OS process): processes with 1..3 start events (start->end; "
          "start->task->end; start->fork->2 tasks->join->end; several starts into a parallel join / an exclusive merge "
          "->task->end) x 8 wait histories (sequential, concurrent, tiny timeout while a task is pending then repeated, "
          "calls spanning the completion) started freely (thorough: also under 3 seeded perturbations of the hook points), "
          "plus enforced schedules through internal/verifhook: StartWith held between Trigger and monitor creation until "
          "the start's traces are out (missed start), a helper parked at process.wait.locked until its caller expired, the "
          "second StartWith held before / after its Trigger until quiescence (2..3 start events; the layout of StartWith "
          "is probed so the choreography works before and after the repair). StartAll runs in a "
          "goroutine; 'blocked' = not returned at whole-process quiescence. The driver (a) evaluates the C02 predicate on "
          "the recorded history: cease once, last, not while a task request is unanswered, no true before cease, cease "
          "after the last answer, waits true after cease; (b) replays the history through the model at the extracted "
          "facts (enforced schedules, and free runs whenever one monitor exists): every observed trace must be acceptable "
          "to the model's tracer, cease count, StartAll's return and every call's result must agree - in particular the "
          "exact trace at which the tracer stalls (a model with buffer 9 instead of 10 is rejected); where the history "
          "does not pin the start-up race (free runs, release before a Trigger) every lag of the starter behind the "
          "token's traces is tried. non-trivial = the run reached the end of the answers and made at "
          "least one call; distinct by (shape, starts, scenario, history, perturbation, recorded lines)"),
    trusted_base=TB_COMMON + ["whole-process quiescence detection via runtime.Stack goroutine states",
                              "internal/verifhook schedule points (process.startwith.*, process.wait.locked) park the "
                              "goroutine exactly where the model's starter / helper steps are separated"],
    assumptions=["no cancellation during the run", "every start event has at least one outgoing sequence flow",
                 "each start event is triggered at most once (StartAll)"],
)
