"""C20 — generated identifiers never collide (pkg/id: sno generator, fallback generator)."""

_TB = [
    "Lean 4.33.0 kernel (axioms allowed: propext, Classical.choice, Quot.sound; audited by #print axioms on every run)",
    "extract/ (go/ast fact extractor) and harness/ (differential harness, canonicalisation)",
    "Go runtime, standard library and third-party dependencies behave as modelled",
]

ENTRY = dict(
    level="proof",
    level_text=(
        "Lean 4 theorems over a small-step port of muyo/sno Generator.New (one step per atomic load/add/store/CAS, "
        "clock read and regression-lock operation; explicit schedules of thread steps, clock ticks, overflow-ticker "
        "firings and snapshot/restore) and of the fallback generator, for schedules of any length and any number of "
        "threads/generators. The statement C20_statementFor has three extracted facts as parameters (SnoGenerator.New "
        "serialised by a mutex; fallback counter advanced atomically; fallback prefix carries a per-program serial "
        "number) and is DECIDED for every value of them (C20_decided: it holds iff all three are true; otherwise a "
        "kernel-checked witness refutes it). On the current tree the first two are true (D15 repaired) and the third "
        "is false: PARTIAL — everything except uniqueness across fallback generators created within one clock reading, "
        "which is refuted on the model (fallback_counterexample_same_clock) and re-observed on the code under "
        "concurrent creation (known finding fallback_same_prefix). With a serial number in the prefix the full "
        "statement is proved (C20_partial / current_statement)."),
    level_note=(
        "full strength, whatever the facts: fallback_unique, fallback_unique_across (given distinct prefixes), "
        "sno_unique_single_goroutine (one drawing goroutine, no mutex), sno_partition_any_schedule + "
        "sno_distinct_generators_disjoint, genPartition_injective. selected by facts (both sides proved): "
        "snoNewSerialised -> sno_unique_serialised / sno_lex_increasing (all schedules of the mutex-protected machine) "
        "| C20_counterexample_stale_time, _reset_window; fallbackCounterAtomic -> fallback_unique | "
        "fallback_counterexample_nonatomic; fallbackPrefixSerial -> fallback_unique_program (any clock readings, no "
        "distinct-prefix hypothesis) | fallback_counterexample_same_clock. tested only: the model/implementation tie "
        "(decoded single-goroutine traces replayed through the same step function, snapshot fields, restore "
        "continuation, consecutive serial numbers of fallback generators), engine-level flow/instance ids. modelled, "
        "not proved: monotone 4 ms clock, uint32 sequence never wraps, overflow-ticker body atomic, JSON round trip of "
        "the snapshot is the identity, snapshots are taken between draws"),
    technique=("Lean 4 proof (inductive invariant over a small-step concurrent machine; decide-checked counterexample "
               "schedules; fact-selected dichotomy) + trace validation of decoded ids + concurrent duplicate detection"),
    lean_modules=["Bpmn.Props.C20", "Bpmn.Props.C20Current"],
    families=["c20"],
    exhaustive=False,
    multi_seed=False,
    rule=("engine ctx: 1500 (thorough 6000) instances created one after the other, each bound to a context of its own that is cancelled as soon as its ids have been seen (every 16th one also runs): no instance or flow id twice; "
          "sno: one goroutine drawing from 1..8 live generators in a seeded order with pauses across 4 ms ticks and "
          "0..4 snapshot/restore points (every id decoded into time/tick/meta/partition/sequence and replayed through "
          "the Lean step function; snapshots compared field by field), one tight single-goroutine burst, concurrent "
          "stress of 1..16 goroutines x up to 10^6 draws on 1..8 generators with duplicate detection in the harness; "
          "fallback: the same three shapes plus 16x concurrent / back-to-back creation of generators (equal "
          "prefixes?); engine: 6 testdata processes x {engine-default sno, fallback builder, one sno generator shared "
          "by concurrent instances}, instance ids and NewFlowTrace flow ids pairwise distinct. non-trivial = at least "
          "two ids and (single-goroutine cases) at least one tick crossed; distinct = distinct recorded case content"),
    trusted_base=_TB + [
        "modelled, not verified: Go atomics and sync.Mutex/Cond semantics (sequentially consistent, one step each), "
        "time.Now as a monotone counter of 4 ms units, sonic JSON round trip of sno.GeneratorSnapshot, base-32 / "
        "base-36 renderings of ids are injective (the harness re-encodes every decoded fallback id and compares)"],
    assumptions=[
        "wall clock does not run backwards during a run (the regression branch is ported and replayed but the "
        "uniqueness theorems assume ticks only)",
        "fewer than 2^64 draws per fallback generator; sno sequence counter (uint32) does not wrap inside one tick",
        "snapshots are taken while no New is in flight on that generator, and the snapshotted generator is not "
        "used after the restored one starts (a restored generator shares its partition with its source)",
        "at most 65536 sno generators per program (genPartition), sno generators with pairwise distinct partitions",
    ],
)
