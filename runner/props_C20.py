"""C20 — generated identifiers never collide (pkg/id: sno generator, fallback generator)."""

_TB = [
    "Lean 4.33.0 kernel (axioms allowed: propext, Classical.choice, Quot.sound; audited by #print axioms on every run)",
    "extract/ (go/ast fact extractor) and harness/ (differential harness, canonicalisation)",
    "Go runtime, standard library and third-party dependencies behave as modelled",
]

ENTRY = dict(
    level="proof",
    level_text=(
        "PARTIAL. Lean 4 theorems over a small-step port of muyo/sno Generator.New (one step per atomic load/add/"
        "store/CAS, clock read and regression-lock operation; explicit schedules of thread steps, clock ticks, "
        "overflow-ticker firings and snapshot/restore) and of the fallback generator. Proved for schedules of any "
        "length and any number of threads/generators: fallback ids are pairwise distinct under every interleaving "
        "(atomic fetch-add) and across generators with distinct creation-time prefixes; sno ids strictly increase "
        "lexicographically in (time, sequence) and are pairwise distinct, also across snapshot/restore and across "
        "generators with distinct partitions, WHEN SnoGenerator.New is serialised by a mutex (C20_partial). For the "
        "code as it is (no mutex; fact extracted on every run) the full statement is refuted on the model by two "
        "kernel-checked witness schedules (stale time read, sequence-reset window) and the refutation is re-observed "
        "on the real library by the concurrent stress harness (known finding sno_concurrent_duplicate)."),
    level_note=(
        "full strength, for the code as it is: fallback_unique, fallback_unique_across, sno_unique_single_goroutine (one "
        "drawing goroutine, no mutex, any ticks/overflow/restore), sno_partition_any_schedule + "
        "sno_distinct_generators_disjoint (ids of generators with different partitions never coincide, any schedule, "
        "serialised or not), genPartition_injective. under the hypothesis `New serialised`: sno_unique_serialised / "
        "sno_lex_increasing (all schedules of the mutex-protected machine), sno_unique_across_generators. partial: concurrent draws from one "
        "sno generator are NOT unique (C20_counterexample_stale_time / _reset_window, C20_not_holds); two fallback "
        "generators created within one clock reading share all ids (fallback_same_prefix_collides; observed under "
        "concurrent creation). tested only: the model/implementation tie (decoded single-goroutine traces replayed "
        "through the same step function, snapshot fields, restore continuation), engine-level flow/instance ids. "
        "modelled, not proved: monotone 4 ms clock, uint32 sequence never wraps, overflow-ticker body atomic, JSON "
        "round trip of the snapshot is the identity, snapshots are taken between draws"),
    technique=("Lean 4 proof (inductive invariant over a small-step concurrent machine; decide-checked counterexample "
               "schedules; fact-selected dichotomy) + trace validation of decoded ids + concurrent duplicate detection"),
    lean_modules=["Bpmn.Props.C20", "Bpmn.Props.C20Current"],
    families=["c20"],
    exhaustive=False,
    multi_seed=False,
    rule=("sno: one goroutine drawing from 1..8 live generators in a seeded order with pauses across 4 ms ticks and "
          "0..4 snapshot/restore points (every id decoded into time/tick/meta/partition/sequence and replayed through "
          "the Lean step function; snapshots compared field by field), one tight single-goroutine burst, concurrent "
          "stress of 1..16 goroutines x up to 10^6 draws on 1..8 generators with duplicate detection in the harness; "
          "fallback: the same three shapes plus 16x concurrent / back-to-back creation of generators (equal "
          "prefixes?); engine: 6 testdata processes x {engine-default sno, fallback builder, one sno generator shared "
          "by concurrent instances}, instance ids and NewFlowTrace flow ids pairwise distinct. non-trivial = at least "
          "two ids and (single-goroutine cases) at least one tick crossed; distinct = distinct recorded case content"),
    trusted_base=_TB + [
        "modelled, not verified: Go atomics and sync.Mutex/Cond semantics (sequentially consistent, one step each), "
        "time.Now as a monotone counter of 4 ms units, sonic JSON round trip of sno.GeneratorSnapshot, base-32 / "
        "base-36 renderings of ids are injective (the harness re-encodes every decoded fallback id and compares)"],
    assumptions=[
        "wall clock does not run backwards during a run (the regression branch is ported and replayed but the "
        "uniqueness theorems assume ticks only)",
        "fewer than 2^64 draws per fallback generator; sno sequence counter (uint32) does not wrap inside one tick",
        "snapshots are taken while no New is in flight on that generator, and the snapshotted generator is not "
        "used after the restored one starts (a restored generator shares its partition with its source)",
        "at most 65536 sno generators per program (genPartition), sno generators with pairwise distinct partitions",
    ],
)
