from props import TB_COMMON
ENTRY = dict(
    level="proof",
    level_text=("Lean 4 theorems over an executable port of the event nodes' inboxes and readers (event_catch.go, event_start.go) "
                "and of the sequential forwarding of an event to every registered consumer (pkg/event ForwardEvent, process.go), "
                "for any number of consumers, incoming flows, definitions and any history: a delivery gives every catch event in "
                "front of a blocking consumer exactly one copy; a listening matching one releases ALL its waiting tokens exactly "
                "once and is disarmed, a non-matching or not-listening one is unchanged; events that reach an inbox before the "
                "node is activated (everything delivered before it was reached) are worked off before the activating message "
                "and have no effect later; tokens are conserved over any message sequence. Boundedness is a dichotomy over the "
                "extracted facts (inbox capacity, where the reader is started, shape of the send): with a reader started by the "
                "constructor or a send that cannot block every delivery returns in every reachable state after one send per "
                "consumer; otherwise an explicit witness for every incoming-flow count (capacity+1 deliveries to a never-reached "
                "node) blocks the caller for every continuation that does not reach the node. Tied to the code by running the "
                "real engine on enumerated and seeded delivery/arming scripts under a deadline in lock-step with the model. What a "
                "MATCHING listener is, is itself proved: the port of MatchesEventInstance of every event kind matches a "
                "definition instance iff both denote the same thing (kind, references, operation incl. its absence, link "
                "sources and target, instance identity for timer/conditional events), tied to the code by an exhaustive function differential."),
    level_note=("PARTIAL on the current tree: the facts extracted from /repo select the witness side (known findings "
                "deliver_blocks_unreached_inbox, deliver_blocks_unstarted_instance, re-observed on the real engine in every run); "
                "trusted: Lean kernel, extractor, harness, whole-process quiescence detection; modelled, validated by the "
                "differential only: Go channels (FIFO buffer + FIFO of blocked senders), one reader step per message as an atomic "
                "step, running readers have drained their inbox between driver actions; deliveries are sequential (one at a "
                "time, at quiescence); parallel-multiple satisfiers are covered by the theorems that do not assume `Plain` "
                "(conservation, stale events) and by C14, not by the release theorem"),
    technique="Lean 4 proof (dichotomy over extracted facts, invariants over operation histories) + lock-step differential under deadlines",
    lean_modules=["Bpmn.Props.C11MatchCurrent", "Bpmn.Props.C11", "Bpmn.Props.C11Current", "Bpmn.Props.C11Match", "Bpmn.Props.EngineCurrent"],
    families=["c11", "c11match"],
    exhaustive=False,
    multi_seed=False,   # the enumerated scripts do not depend on the seed; the thorough tier draws more seeded ones instead
    facts_from=["Engine"],
    rule=("c11match: EXHAUSTIVE function differential of MatchesEventInstance (pkg/event/events.go) against the Lean port "
          "over every event kind (end, none, cancel, terminate, signal, compensation, message with/without operation, "
          "escalation, link with 0..3 sources and optional target, error, timer and conditional bound to a definition "
          "instance) x every definition-instance shape over a 2..3-name domain with each attribute present or absent (55 "
          "events x 54 instances); the specification `matching = same identity` (Props/C11Match.matches_spec) is evaluated "
          "on the implementation's own answers (nonmatching_listener_reacts / matching_listener_ignored). "
          "c11: 15 program shapes (1..3 intermediate catch events with signal / message / two definitions, in sequence, in "
          "parallel branches, behind a never-taken exclusive-gateway branch registered before or after the reached one, two "
          "or three tokens meeting at one catch event at different times, a catch event inside a loop (four rounds), two "
          "catch events behind an event-based gateway), tasks around every catch event; driver scripts = words over {deliver "
          "one of the shape's events incl. a non-matching and a same-name-other-kind one, answer the 1st/2nd pending task, "
          "start}: all words up to length 3 (quick: half of the length-3 words for the larger alphabets, length 4 for the "
          "smallest shape; thorough: 4 / 5), inbox-filling scripts (4..8 deliveries before arming, then arm and deliver), "
          "re-firing scripts (the same node fires 3..5 times, with non-matching events in between and 8 late deliveries "
          "afterwards), BURSTS (listener armed, then 5..10 events handed in back to back without waiting, the matching one "
          "last or in the middle, from 1 or 2 goroutines, with and without a trace subscriber that takes 1 ms per trace; in "
          "the re-firing shapes also one burst per round), late events for the losing alternative of the event-based "
          "gateway, deliveries before StartAll, seeded scripts with 5..8 deliveries (4 per shape; thorough 160); every "
          "delivery / burst under a deadline (700 ms, +100 ms per event of a burst; a call that missed it is re-examined at "
          "quiescence so that a slow call is not taken for a blocked one); after every action the requests, completions, "
          "listener traces (listening / observed / fired) and the return status observed at quiescence must equal the "
          "model's (a burst = its deliveries one after the other: a send to a running reader waits, it never drops; the "
          "event-based-gateway shape is judged by the predicate only), and the C11 predicate is evaluated on the "
          "implementation's own traces; non-trivial = some listener fired or some delivery blocked; distinct by shape, "
          "script and recorded history"),
    trusted_base=TB_COMMON + ["whole-process quiescence detection via runtime.Stack goroutine states",
                              "a delivery that has not returned after 700 ms is taken as blocked"],
    assumptions=["deliveries are issued one at a time at quiescence (no delivery concurrent with a token arriving at a catch event)",
                 "start events carry no event definitions; catch events are plain (not parallel multiple) in the harness programs",
                 "the reader itself never blocks (tokens wait on their reply channel, the tracer accepts traces); the late-loser "
                 "case behind an event-based gateway (D21, repaired in /repo) is guarded by the predicate on the ebg shape only",
                 "activities carry no boundary events, so their ConsumeEvent forwards to nobody and returns; only start and "
                 "intermediate catch events are inbox consumers in the programs (no intermediate throw events)"],
)
