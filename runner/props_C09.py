from props import TB_COMMON
ENTRY = dict(
    level="proof",
    level_text=("Lean 4 theorems over a small-step model of the broadcaster goroutine of pkg/tracing (unbuffered request "
                "channels, ordered subscriber list, bounded subscriber buffers incl. capacity 0, swap-removal, the draining "
                "Unsubscribe loop) with an explicit scheduler, for ALL action lists - any number of senders, subscribers, "
                "buffer sizes, consumer speeds, joins and leaves, of any length - by inductive invariants: every subscriber "
                "holds (received ++ drained ++ queued) exactly the contiguous segment of the one global send order between "
                "its subscription and its removal (tracer_segment, tracer_same_order); the global order restricted to a "
                "sender is its program order (tracer_sender_order); with the other consumers willing, every run of the "
                "goroutines inside the protocol is at most mu(state) steps long and can always be extended while a "
                "Send/Subscribe/Unsubscribe has not returned (tracer_unsub_progress; kernel-checked deadlock schedule when "
                "Unsubscribe does not drain); swap-removal leaves the other subscribers untouched; a relay subscribed before "
                "the first Send forwards the whole stream (witness schedule otherwise); and the causality grammar holds for "
                "every interleaving of flows that send in flow.go's order (flows_causal). Tied to the code by extracted "
                "facts, by an actor differential of the real tracer replayed through the model, and by evaluating the "
                "grammar on real engine histories."),
    level_note=("trusted: Lean kernel, extractor, harness. Modelled, not verified: Go channels/select as atomic channel "
                "operations; tracer termination (ctx.Done/terminate/Done) is not modelled (C07). Usage discipline built into "
                "the model: a fresh channel per subscription, the consumer stops reading before it calls Unsubscribe, a sender "
                "is a sequential goroutine. Unsubscribe of a channel that is not subscribed spins for ever (theorem "
                "unsubscribe_unsubscribed_spins) - outside the statement. The causality theorem is about an abstract model of "
                "flow.go's sending order (FlowOrder), not derived from the layer-2 engine model; its tie to the engine is the "
                "grammar evaluated on recorded histories (family c09g). Liveness is bounded progress of the model, assuming "
                "every enabled goroutine is eventually scheduled; on the implementation it is a deadline on every call."),
    technique="Lean 4 proof (inductive invariants over all schedules of a channel-level model) + actor differential with model replay + grammar on engine histories",
    lean_modules=["Bpmn.Props.C09", "Bpmn.Props.C09Current"],
    families=["c09", "c09g", "c09c", "c09x", "c09relay", "c09turns", "c06", "c06loop", "c10", "c11"],
    harness_files=["c06.go", "c06loop.go", "c10.go", "c11.go", "c11gen.go", "c11match.go", "c12turns.go"],
    exhaustive=False,
    rule=("c09turns: the histories of c12turns (several tokens in one sub-process node at once) through the causality grammar — nothing of the inner scope is relayed twice or dropped (D43); c09relay: the context the process was CREATED with cancelled while the context it was started with stays alive (2 or 12 tasks in sequence, the cancel after 0..2 answers) — everything sent afterwards still reaches the subscriber of the instance\'s tracer (all task requests, the end event, the cease-flow trace), a late subscriber joins and leaves; c09x: the shutdown phase — 1..3 REGISTERED senders keep sending after the tracer's context is cancelled at a seeded position, 2..3 subscribers (one fast, the others with buffers 0..2 and pacing consumers) stay until their channels are closed: each holds every trace, all in one order, sender order kept; c09: seeded plans of 1..8 sender goroutines (1..40 numbered traces each, thorough 1..120), 1..4 subscriber slots "
          "with 1..3 subscription episodes each (fresh channel, capacity in {0,1,2,3,5,10,64}, consumer pace 0..3, join at a "
          "generated position of the stream, concurrently with the senders or with the senders paused, leave after a "
          "generated number of traces or stay to the end) against the real tracer, plus a permanent witness subscriber "
          "(index 0, never blocks) that defines the global order; a quarter (thorough: half) of the cases with the "
          "tracer.broadcast schedule point perturbed; every call under a 4 s deadline monitor. The driver checks the "
          "witness (every trace once, every sender in program order), every episode (a contiguous segment of the witness "
          "order that starts inside the window in which its SubscribeChannel ran and reaches the end if it read to the "
          "end), and replays the operation sequence through Model.Tracer.step comparing what each episode received. "
          "c10, c11: the boundary-event and catch-event histories of C10 / C11 (listener flows, interrupted hosts, refiring catch events, sub-processes with events) through the causality grammar; c06, c06loop: the event-based-gateway histories of C06 (withdrawn tokens: flows that end without reaching an end event; the gateway re-entered in a loop) through the same causality grammar; c09g: the block-structured programs of C01's generator (two thirds) and loops around 3..7-way parallel forks "
          "(one third) on the real engine, every second case with the engine's schedule points perturbed; Spec.causal is "
          "evaluated on the recorded trace stream (relayed sub-process traces handled explicitly). c09c: such programs "
          "(and 2..5-way forks) with the instance context cancelled at a seeded moment - 0..300 us after a task was "
          "answered (preferably the last pending one, whose token then runs to an end event), or with the flow.action "
          "schedule point held so that the cancellation lands exactly between a flow taking its action and acting on it, "
          "or under perturbation of all schedule points; recording continues until the tracer is done (3 s deadline) and "
          "the grammar is evaluated including CancellationFlowTrace (nothing of a flow follows its termination or "
          "cancellation trace). non-trivial = some "
          "episode received traces (c09) / the history contains a FlowTrace announcing a new flow (c09g); distinct by "
          "plan and recorded history"),
    trusted_base=TB_COMMON + ["whole-process quiescence detection via runtime.Stack goroutine states (c09g pacing)",
                              "the deadline monitor of family c09 (4 s per call) stands for 'never'"],
    assumptions=["every subscribed consumer other than the unsubscriber eventually takes what is pushed to it",
                 "one subscription per channel; the consumer does not read its channel after calling Unsubscribe",
                 "a sender id names one sequential goroutine",
                 "flow ids are unique (C20)"],
)
