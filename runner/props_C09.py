from props import TB_COMMON
ENTRY = dict(
    level="proof",
    level_text="(being built)",
    level_note="(being built)",
    technique="Lean 4 proof (inductive invariants of a small-step model of the broadcaster) + actor differential of the real tracer + grammar on engine histories",
    lean_modules=["Bpmn.Props.C09", "Bpmn.Props.C09Current"],
    families=["c09", "c09g"],
    exhaustive=False,
    rule="(being built)",
    trusted_base=TB_COMMON,
    assumptions=[],
)
