"""C06 — event-based gateway: exactly one alternative wins and the instance completes."""
from props import TB_COMMON

ENTRY = dict(
    level="proof",
    level_text=(
        "PARTIAL for the code as it is (two defects, both re-observed on the real engine in every run). Lean 4 theorems "
        "over a small-step model of the winner/loser hand-off at channel granularity (k alternative flows with program "
        "counters starting / selecting / gotAction / inTransformer / notifying(+loop target) / continued / terminated / "
        "completed, one termination channel per alternative of capacity ebgTermCap, the compare-and-swap flag, the "
        "captured map variable the winner reassigns, catch nodes with inbox, activation flag and parked reply channel of "
        "capacity catchReplyCap, deliveries in flight), quantified over every number of alternatives, every sequence of "
        "deliveries (sequential or overlapping) and every schedule. Proved for every value of the facts: at most one "
        "alternative passes the compare-and-swap, a winner exists as soon as any flow is past it, an observed event "
        "reaches the compare-and-swap unhindered (ebg_one_winner); every internal step decreases a measure bounded by "
        "9k+1+3k*deliveries (ebg_bounded, bounded_from_init); late deliveries move no token (ebg_late_events_inert_partial). "
        "Proved under 1 <= ebgTermCap and the map variable not reassigned: the winner never blocks, and every quiescent "
        "state after an observed event has exactly one branch continued, all other flows terminated or completed and the "
        "wait group at 1 (ebg_no_block). Proved under 1 <= catchReplyCap: late events block no node and no caller "
        "(ebg_late_events_inert). For the facts extracted from the code today (ebgTermCap = 0, catchReplyCap = 0) the "
        "statement is refuted by kernel-checked witness schedules (C06_counterexample_deadlock = D5, "
        "C06_counterexample_late_event_blocks = D21; C06_cex, C06_today_fails), and both witnesses are replayed on the "
        "real engine through the schedule points and fail there too."),
    level_note=(
        "full strength: ebg_one_winner, ebg_bounded / bounded_from_init, ebg_late_events_inert_partial (all facts). "
        "under hypotheses on the facts (dichotomy, the side that holds is selected by the facts regenerated from /repo on "
        "every run): ebg_no_block / ebg_winner_never_blocks, ebg_late_events_inert, C06_general. refuted at today's facts: "
        "C06_counterexample_deadlock (D5: hang, no branch continues), C06_counterexample_late_event_blocks + "
        "late_delivery_blocked0/1 (D21: catch node stuck, caller of ConsumeEvent blocked); additionally "
        "C06_counterexample_late_select shows that buffering the channels alone is not a complete repair while the "
        "transformer still reassigns the captured map variable. tested only: the tie between model and code (lock-step "
        "on every sequential delivery incl. returned/blocked, outcome-reachability search for racy deliveries, enforced "
        "witness replays). modelled, not proved: Go select picks any ready case, unbuffered send = rendezvous, map "
        "iteration order arbitrary, one registration per flow at its catch node, each catch event has one definition and "
        "one incoming flow, tracer sends never block, liveness is bounded progress (assumes a scheduler that runs enabled "
        "goroutines)"),
    technique=("Lean 4 proof (inductive invariants over a small-step concurrent machine, progress measure, simp-evaluated "
               "witness schedules, fact-selected dichotomy) + exhaustive differential against the real engine with "
               "enforced witness replay through verifhook schedule points"),
    lean_modules=["Bpmn.Props.C06", "Bpmn.Props.C06Current"],
    families=["c06", "c06loop", "c06term", "c06burst"],
    exhaustive=True,
    multi_seed=False,
    rule=("c06burst: the decisive competing event at the end of a burst of 4 / 8 unrelated events handed in back to back from 1..2 goroutines while a slow trace subscriber holds every node loop up (the inboxes of the listening catch events are full): one determination, the task of the winner, completion; c06term: a gateway with 2..3 alternatives one of which is TERMINAL (its catch event has no outgoing sequence flow), every first event x every second event (or none): exactly one determination, exactly the task of the winner (none for the terminal alternative), the instance completes; c06loop: the gateway RE-ENTERED through a loop (start -> merge -> G -> C0 -> T0 -> back to the merge; G -> C1 -> T1 -> end; "
          "with 3 alternatives a second looping one): every word of 0..3 (thorough 5) looping rounds followed by the leaving "
          "alternative, with and without the other alternatives' events delivered while nobody listens; judged per "
          "activation on the recorded traces: one determination, exactly the delivered alternative's task requested, no "
          "blocked delivery, no panic, completion at the end. c06: process start -> event-based gateway -> k in {2,3} intermediate catch events (signal sigA, message sigB, signal "
          "sigC) -> one task per branch -> end, run on the real engine, one OS process per case. Histories: EVERY non-empty "
          "sequence of the competing events up to length 4 (quick: length 3 for k=3) x {delivered one by one at quiescence, "
          "back to back without waiting, all at once from different goroutines}; every ConsumeEvent under a 400 ms "
          "deadline; then the requested branch task(s) are answered, completion awaited, and the losing events delivered "
          "again (6 times after single-event sequences, so that a stuck catch node shows as a blocked caller). Enforced "
          "replays: the D5 witness for every ordered pair (winner, loser) via sched.Hold/Release on "
          "ebg.transformer.before_notify, two alternatives held at ebg.transformer.enter and released into the "
          "compare-and-swap together, and a forked flow held at flow.await until the winner has run the whole "
          "transformer. thorough: all of the above plus seeded perturbation (levels 1, 2) of every schedule point for all "
          "racy histories up to length 3. The Lean driver evaluates the C06 predicate on the recorded history "
          "(ebg_no_branch_continues, ebg_two_branches_continue, ebg_instance_never_completes, "
          "ebg_late_event_blocks_delivery, ebg_late_event_has_effect) and compares with the model at the extracted "
          "facts: lock-step for sequential deliveries (winner, fate of every loser, returned/blocked of EVERY delivery), "
          "outcome reachability search for racy ones. non-trivial = at least one competing event was delivered while "
          "a catch node listened and the run was judged ok; distinct by (k, mode, sequence, perturbation) and recorded history"),
    trusted_base=TB_COMMON + [
        "whole-process quiescence detection via runtime.Stack goroutine states; internal/verifhook schedule points and "
        "harness/internal/sched (Hold/Release/Perturb)",
        "modelled, not verified: Go channel/select/atomic semantics, random map iteration order, tracer sends"],
    assumptions=[
        "each alternative's catch event has exactly one event definition and one incoming flow (inbox capacity "
        "len(incoming)*2+1 = 3), each flow registers once at its catch node",
        "the event consumers of the instance are the gateway's catch nodes (no other node's inbox can block ConsumeEvent)",
        "deliveries start after the gateway's token has arrived; a delivery that finds a catch node not yet activated is "
        "dropped by that node (modelled)",
    ],
)
