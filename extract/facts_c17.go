package main

// C17 — lock table and ownership table.
//
// Lock table: for a hand-listed set of shared fields (and one package variable, one captured local variable)
// every SYNTACTIC access site: enclosing function (`$k` = k-th function literal inside it; a literal is its own
// scope because it may run later / on another goroutine), read or write, through sync/atomic or not, whether the
// object was created in this very function (not shared yet), and the sibling mutex fields of the SAME base
// expression that are syntactically held at the site.
//
// "Held" is flow-insensitive and intra-procedural: a mutex counts as held at a position if a Lock/RLock call on
// `<base>.<mutex>` textually precedes the position inside the same scope with no non-deferred Unlock/RUnlock of the
// same mutex in between (a deferred unlock keeps it held to the end of the scope). Locks taken by callers, or taken
// in one function and released in another (FlowNodeMapping: NewLocked… → Finalize), are invisible to it; such rows
// show up as unprotected and are listed by hand, with the protocol that covers them, in Props/C17Current.lean.
//
// Ownership table: every syntactic access to a declared field of a flow-node struct (and the tracer), with the
// context it sits in: the constructor (object created in that function), the struct's `run` method outside function
// literals, a method only ever called from `run`, or anything else.
//
// Types are resolved by a small local inference (receiver, parameters, composite literals, constructor results,
// type assertions, struct field types) — no go/types, so no dependency on the module's import graph.

import (
	"fmt"
	"go/ast"
	"go/token"
	"os"
	"path/filepath"
	"sort"
	"strings"
)

func init() { registry = append(registry, factsC17) }

type c17Pkg struct {
	dir     string
	files   []*ast.File
	structs map[string]map[string]string // type -> field -> type text ("T", "sync.RWMutex", "chan", "")
	order   map[string][]string          // type -> declared field order
	funcs   []*ast.FuncDecl
	funcRet map[string]string // function name -> first result type (local type name)
}

var c17pkgs = map[string]*c17Pkg{}

func c17typeText(e ast.Expr) string {
	switch x := e.(type) {
	case *ast.Ident:
		return x.Name
	case *ast.StarExpr:
		return c17typeText(x.X)
	case *ast.SelectorExpr:
		return exprString(x)
	case *ast.ChanType:
		return "chan"
	case *ast.ArrayType:
		return "[]" + c17typeText(x.Elt)
	case *ast.MapType:
		return "map"
	case *ast.FuncType:
		return "func"
	}
	return ""
}

func c17load(dir string) *c17Pkg {
	if p, ok := c17pkgs[dir]; ok {
		return p
	}
	p := &c17Pkg{dir: dir, structs: map[string]map[string]string{}, order: map[string][]string{}, funcRet: map[string]string{}}
	c17pkgs[dir] = p
	ents, err := os.ReadDir(filepath.Join(repo, dir))
	if err != nil {
		return p
	}
	for _, e := range ents {
		n := e.Name()
		if e.IsDir() || !strings.HasSuffix(n, ".go") || strings.HasSuffix(n, "_test.go") || strings.HasPrefix(n, "verif_") {
			continue
		}
		f := load(filepath.Join(dir, n))
		if f == nil {
			continue
		}
		p.files = append(p.files, f)
		for _, d := range f.Decls {
			switch x := d.(type) {
			case *ast.GenDecl:
				if x.Tok != token.TYPE {
					continue
				}
				for _, s := range x.Specs {
					ts := s.(*ast.TypeSpec)
					st, ok := ts.Type.(*ast.StructType)
					if !ok {
						continue
					}
					m := map[string]string{}
					for _, fl := range st.Fields.List {
						for _, nm := range fl.Names {
							m[nm.Name] = c17typeText(fl.Type)
							p.order[ts.Name.Name] = append(p.order[ts.Name.Name], nm.Name)
						}
					}
					p.structs[ts.Name.Name] = m
				}
			case *ast.FuncDecl:
				p.funcs = append(p.funcs, x)
				if x.Recv == nil && x.Type.Results != nil && len(x.Type.Results.List) > 0 {
					p.funcRet[x.Name.Name] = c17typeText(x.Type.Results.List[0].Type)
				}
			}
		}
	}
	return p
}

func c17recv(fd *ast.FuncDecl) (name, typ string) {
	if fd.Recv == nil || len(fd.Recv.List) != 1 {
		return "", ""
	}
	r := fd.Recv.List[0]
	if len(r.Names) == 1 {
		name = r.Names[0].Name
	}
	return name, c17typeText(r.Type)
}

func c17funcName(fd *ast.FuncDecl) string {
	if _, t := c17recv(fd); t != "" {
		return t + "." + fd.Name.Name
	}
	return fd.Name.Name
}

type c17var struct {
	typ   string
	fresh bool
}

// c17env: variable -> type for one function declaration (literals included: closures share the variables).
func c17env(p *c17Pkg, fd *ast.FuncDecl) map[string]c17var {
	env := map[string]c17var{}
	if n, t := c17recv(fd); n != "" {
		env[n] = c17var{typ: t}
	}
	addFields := func(fl *ast.FieldList) {
		if fl == nil {
			return
		}
		for _, f := range fl.List {
			for _, n := range f.Names {
				env[n.Name] = c17var{typ: c17typeText(f.Type)}
			}
		}
	}
	addFields(fd.Type.Params)
	addFields(fd.Type.Results)
	var rhsType func(e ast.Expr) (string, bool)
	rhsType = func(e ast.Expr) (string, bool) {
		switch x := e.(type) {
		case *ast.UnaryExpr:
			if x.Op == token.AND {
				return rhsType(x.X)
			}
		case *ast.CompositeLit:
			if x.Type != nil {
				return c17typeText(x.Type), true
			}
		case *ast.CallExpr:
			if id, ok := x.Fun.(*ast.Ident); ok {
				if id.Name == "new" && len(x.Args) == 1 {
					return c17typeText(x.Args[0]), true
				}
				if t, ok := p.funcRet[id.Name]; ok {
					return t, strings.HasPrefix(strings.ToLower(id.Name), "new")
				}
			}
		case *ast.TypeAssertExpr:
			if x.Type != nil {
				return c17typeText(x.Type), false
			}
		}
		return "", false
	}
	ast.Inspect(fd, func(n ast.Node) bool {
		switch x := n.(type) {
		case *ast.FuncLit:
			addFields(x.Type.Params)
		case *ast.AssignStmt:
			for i, l := range x.Lhs {
				id, ok := l.(*ast.Ident)
				if !ok {
					continue
				}
				var r ast.Expr
				if len(x.Rhs) == len(x.Lhs) {
					r = x.Rhs[i]
				} else if len(x.Rhs) == 1 && i == 0 {
					r = x.Rhs[0]
				}
				if r == nil {
					continue
				}
				if t, fresh := rhsType(r); t != "" {
					if _, known := p.structs[t]; known {
						env[id.Name] = c17var{typ: t, fresh: fresh}
					}
				}
			}
		case *ast.ValueSpec:
			for _, n := range x.Names {
				if x.Type != nil {
					env[n.Name] = c17var{typ: c17typeText(x.Type)}
				}
			}
		}
		return true
	})
	return env
}

func c17typeOf(p *c17Pkg, env map[string]c17var, e ast.Expr) string {
	switch x := e.(type) {
	case *ast.Ident:
		return env[x.Name].typ
	case *ast.ParenExpr:
		return c17typeOf(p, env, x.X)
	case *ast.StarExpr:
		return c17typeOf(p, env, x.X)
	case *ast.UnaryExpr:
		return c17typeOf(p, env, x.X)
	case *ast.SelectorExpr:
		t := c17typeOf(p, env, x.X)
		if m, ok := p.structs[t]; ok {
			return m[x.Sel.Name]
		}
	case *ast.CallExpr:
		if id, ok := x.Fun.(*ast.Ident); ok {
			return p.funcRet[id.Name]
		}
	case *ast.TypeAssertExpr:
		if x.Type != nil {
			return c17typeText(x.Type)
		}
	case *ast.CompositeLit:
		if x.Type != nil {
			return c17typeText(x.Type)
		}
	}
	return ""
}

func c17rootIdent(e ast.Expr) string {
	for {
		switch x := e.(type) {
		case *ast.Ident:
			return x.Name
		case *ast.SelectorExpr:
			e = x.X
		case *ast.ParenExpr:
			e = x.X
		case *ast.StarExpr:
			e = x.X
		case *ast.IndexExpr:
			e = x.X
		default:
			return ""
		}
	}
}

// ---------------------------------------------------------------- scopes, lock events, accesses

type c17scope struct {
	name   string
	body   ast.Node
	goLit  bool // literal launched by a `go` statement
	isDecl bool
	fd     *ast.FuncDecl
}

// c17scopes: the declaration body and every function literal inside it, each as its own scope.
func c17scopes(fd *ast.FuncDecl) []c17scope {
	if fd.Body == nil {
		return nil
	}
	out := []c17scope{{name: c17funcName(fd), body: fd.Body, isDecl: true, fd: fd}}
	k := 0
	goLits := map[*ast.FuncLit]bool{}
	ast.Inspect(fd.Body, func(n ast.Node) bool {
		if g, ok := n.(*ast.GoStmt); ok {
			if fl, ok := g.Call.Fun.(*ast.FuncLit); ok {
				goLits[fl] = true
			}
		}
		return true
	})
	ast.Inspect(fd.Body, func(n ast.Node) bool {
		if fl, ok := n.(*ast.FuncLit); ok {
			k++
			out = append(out, c17scope{name: fmt.Sprintf("%s$%d", c17funcName(fd), k), body: fl.Body, goLit: goLits[fl], fd: fd})
		}
		return true
	})
	return out
}

// c17walk visits the nodes of one scope (not descending into nested function literals) with the ancestor stack.
func c17walk(root ast.Node, visit func(n ast.Node, stack []ast.Node)) {
	var stack []ast.Node
	ast.Inspect(root, func(n ast.Node) bool {
		if n == nil {
			stack = stack[:len(stack)-1]
			return true
		}
		if fl, ok := n.(*ast.FuncLit); ok && ast.Node(fl.Body) != root {
			_ = fl
			return false // own scope; note: no push, Inspect does not call with nil after a false return
		}
		visit(n, stack)
		stack = append(stack, n)
		return true
	})
}

type c17lockEv struct {
	pos      token.Pos
	base     string
	mutex    string
	op       string // Lock RLock Unlock RUnlock
	deferred bool
}

func c17lockEvents(root ast.Node) []c17lockEv {
	var evs []c17lockEv
	c17walk(root, func(n ast.Node, stack []ast.Node) {
		c, ok := n.(*ast.CallExpr)
		if !ok {
			return
		}
		sel, ok := c.Fun.(*ast.SelectorExpr)
		if !ok {
			return
		}
		switch sel.Sel.Name {
		case "Lock", "RLock", "Unlock", "RUnlock":
		default:
			return
		}
		ev := c17lockEv{pos: c.Pos(), op: sel.Sel.Name}
		switch m := sel.X.(type) {
		case *ast.SelectorExpr:
			ev.base, ev.mutex = exprString(m.X), m.Sel.Name
		case *ast.Ident:
			ev.base, ev.mutex = "", m.Name
		default:
			return
		}
		if len(stack) > 0 {
			if _, isDefer := stack[len(stack)-1].(*ast.DeferStmt); isDefer {
				ev.deferred = true
			}
		}
		evs = append(evs, ev)
	})
	sort.Slice(evs, func(i, j int) bool { return evs[i].pos < evs[j].pos })
	return evs
}

// heldAt: mutexes of `base` held at pos, as (mutex, mode) sorted by name.
func c17heldAt(evs []c17lockEv, base string, pos token.Pos) [][2]string {
	held := map[string]string{}
	for _, e := range evs {
		if e.pos >= pos {
			break
		}
		if e.base != base {
			continue
		}
		switch e.op {
		case "Lock":
			held[e.mutex] = "w"
		case "RLock":
			if held[e.mutex] == "" {
				held[e.mutex] = "r"
			}
		case "Unlock", "RUnlock":
			if !e.deferred {
				delete(held, e.mutex)
			}
		}
	}
	var out [][2]string
	for m, mode := range held {
		out = append(out, [2]string{m, mode})
	}
	sort.Slice(out, func(i, j int) bool { return out[i][0] < out[j][0] })
	return out
}

// c17paramWrites: does function `name` (searched in every loaded package) write through its idx-th parameter
// (a pointer)? Unknown function → true (conservative).
func c17paramWrites(name string, idx int) bool {
	for _, p := range c17pkgs {
		for _, fd := range p.funcs {
			if fd.Recv != nil || fd.Name.Name != name || fd.Body == nil {
				continue
			}
			k := 0
			param := ""
			for _, f := range fd.Type.Params.List {
				for _, n := range f.Names {
					if k == idx {
						param = n.Name
					}
					k++
				}
			}
			if param == "" {
				return true
			}
			writes := false
			ast.Inspect(fd.Body, func(n ast.Node) bool {
				switch x := n.(type) {
				case *ast.AssignStmt:
					for _, l := range x.Lhs {
						e := l
						for {
							if ie, ok := e.(*ast.IndexExpr); ok {
								e = ie.X
							} else if pe, ok := e.(*ast.ParenExpr); ok {
								e = pe.X
							} else {
								break
							}
						}
						if se, ok := e.(*ast.StarExpr); ok {
							if id, ok := se.X.(*ast.Ident); ok && id.Name == param {
								writes = true
							}
						}
					}
				case *ast.CallExpr:
					// passing the pointer on, or delete(*p, …)
					for _, a := range x.Args {
						if id, ok := a.(*ast.Ident); ok && id.Name == param {
							writes = true
						}
					}
					if id, ok := x.Fun.(*ast.Ident); ok && id.Name == "delete" && len(x.Args) > 0 {
						if se, ok := x.Args[0].(*ast.StarExpr); ok {
							if pid, ok := se.X.(*ast.Ident); ok && pid.Name == param {
								writes = true
							}
						}
					}
				}
				return true
			})
			return writes
		}
	}
	return true
}

type c17access struct {
	pos    token.Pos
	write  bool
	read   bool
	atomic bool
}

var c17atomicReads = map[string]bool{"Load": true}
var c17atomicWrites = map[string]bool{"Store": true, "Add": true, "Swap": true, "CompareAndSwap": true, "And": true, "Or": true}

// c17classify: how is the expression `target` (a selector or identifier found at stack top) used?
func c17classify(target ast.Expr, stack []ast.Node) c17access {
	acc := c17access{pos: target.Pos()}
	var top ast.Node = target
	i := len(stack) - 1
	// climb through index / paren / slice / star chains that still denote (part of) the same object
	for i >= 0 {
		switch p := stack[i].(type) {
		case *ast.IndexExpr:
			if p.X == top {
				top = p
				i--
				continue
			}
		case *ast.ParenExpr:
			top = p
			i--
			continue
		case *ast.SliceExpr:
			if p.X == top {
				top = p
				i--
				continue
			}
		}
		break
	}
	if i < 0 {
		acc.read = true
		return acc
	}
	switch p := stack[i].(type) {
	case *ast.AssignStmt:
		onLhs := false
		for _, l := range p.Lhs {
			if l == top {
				onLhs = true
			}
		}
		if onLhs {
			acc.write = true
			if p.Tok != token.ASSIGN && p.Tok != token.DEFINE {
				acc.read = true
			}
			// writing an element reads the map / slice header
			if top != ast.Node(target) {
				acc.read = true
			}
		} else {
			acc.read = true
		}
	case *ast.IncDecStmt:
		acc.write, acc.read = true, true
	case *ast.SelectorExpr:
		// target.Method(...) on a typed atomic
		if p.X == top && i-1 >= 0 {
			if c, ok := stack[i-1].(*ast.CallExpr); ok && c.Fun == ast.Expr(p) {
				if c17atomicReads[p.Sel.Name] {
					acc.read, acc.atomic = true, true
					return acc
				}
				if c17atomicWrites[p.Sel.Name] {
					acc.write, acc.atomic = true, true
					return acc
				}
			}
		}
		acc.read = true
	case *ast.UnaryExpr:
		if p.Op == token.AND && i-1 >= 0 {
			if c, ok := stack[i-1].(*ast.CallExpr); ok {
				fn := exprString(c.Fun)
				if strings.HasPrefix(fn, "atomic.") {
					op := strings.TrimPrefix(fn, "atomic.")
					switch {
					case strings.HasPrefix(op, "Load"):
						acc.read, acc.atomic = true, true
					default:
						acc.write, acc.atomic = true, true
					}
					return acc
				}
				idx := -1
				for k, a := range c.Args {
					if a == ast.Expr(p) {
						idx = k
					}
				}
				name := fn
				if j := strings.LastIndex(name, "."); j >= 0 {
					name = name[j+1:]
				}
				acc.read = true
				if idx < 0 || c17paramWrites(name, idx) {
					acc.write = true
				}
				return acc
			}
			acc.read, acc.write = true, true // address escapes
			return acc
		}
		acc.read = true
	case *ast.CallExpr:
		if id, ok := p.Fun.(*ast.Ident); ok && id.Name == "delete" && len(p.Args) > 0 && p.Args[0] == top {
			acc.write, acc.read = true, true
			return acc
		}
		acc.read = true
	default:
		acc.read = true
	}
	return acc
}

type c17row struct {
	field  string
	fn     string
	write  bool
	atomic bool
	fresh  bool
	held   [][2]string
}

func (r c17row) key() string {
	return fmt.Sprintf("%s|%s|%v|%v|%v|%v", r.field, r.fn, r.write, r.atomic, r.fresh, r.held)
}

type c17target struct {
	dir   string
	typ   string // struct type; "" for a package variable; "func:<Recv.Name>" for a local variable of that function
	field string
}

var c17targets = []c17target{
	{".", "Process", "eventConsumers"},
	{".", "harness", "eventConsumers"},
	{".", "subProcess", "eventConsumers"},
	{".", "harness", "active"},
	{".", "genericTask", "active"},
	{".", "subProcess", "active"},
	{".", "ProcessSet", "catchCh"},
	{".", "FlowNodeMapping", "mapping"},
	{".", "flowTracker", "flows"},
	{".", "func:eventBasedGateway.run", "terminationChannels"},
	{"pkg/data", "FlowDataLocator", "locators"},
	{"pkg/data", "FlowDataLocator", "variables"},
	{"pkg/data", "ObjectContainer", "dataObjectsByName"},
	{"pkg/data", "ObjectContainer", "dataObjects"},
	{"pkg/data", "ObjectContainer", "dataObjectReferencesByName"},
	{"pkg/data", "ObjectContainer", "dataObjectReferences"},
	{"pkg/data", "ObjectContainer", "propertiesByName"},
	{"pkg/data", "ObjectContainer", "properties"},
	{"pkg/data", "HeaderContainer", "items"},
	{"pkg/data", "PropertyContainer", "items"},
	{"pkg/data", "Container", "item"},
	{"pkg/event", "FanOut", "eventConsumers"},
	{"pkg/expression", "", "enginesMap"},
}

// node structs for the ownership table
var c17owners = []struct{ dir, typ string }{
	{".", "parallelGateway"}, {".", "exclusiveGateway"}, {".", "inclusiveGateway"}, {".", "eventBasedGateway"},
	{".", "catchEvent"}, {".", "startEvent"}, {".", "endEvent"}, {".", "throwEvent"},
	{".", "harness"}, {".", "genericTask"}, {".", "subProcess"}, {".", "flowTracker"},
	{"pkg/tracing", "tracer"},
}

func c17pkgLabel(dir string) string {
	if dir == "." {
		return ""
	}
	return filepath.Base(dir) + "."
}

func factsC17() {
	for _, d := range []string{".", "pkg/data", "pkg/event", "pkg/expression", "pkg/tracing"} {
		c17load(d)
	}
	var rows []c17row
	seen := map[string]bool{}
	found := map[string]bool{}
	addRow := func(r c17row) {
		if !seen[r.key()] {
			seen[r.key()] = true
			rows = append(rows, r)
		}
	}
	lockField := map[string]bool{} // "dir|Type.field" handled by the lock table (excluded from ownership)
	for _, t := range c17targets {
		lockField[t.dir+"|"+t.typ+"."+t.field] = true
	}

	for _, t := range c17targets {
		p := c17pkgs[t.dir]
		label := c17pkgLabel(t.dir) + t.typ + "." + t.field
		if t.typ == "" {
			label = c17pkgLabel(t.dir) + t.field
		}
		if strings.HasPrefix(t.typ, "func:") {
			label = strings.TrimPrefix(t.typ, "func:") + "." + t.field
		}
		for _, fd := range p.funcs {
			if strings.HasPrefix(t.typ, "func:") && c17funcName(fd) != strings.TrimPrefix(t.typ, "func:") {
				continue
			}
			env := c17env(p, fd)
			for _, sc := range c17scopes(fd) {
				evs := c17lockEvents(sc.body)
				c17walk(sc.body, func(n ast.Node, stack []ast.Node) {
					var base string
					var target ast.Expr
					fresh := false
					switch x := n.(type) {
					case *ast.SelectorExpr:
						if t.typ == "" || strings.HasPrefix(t.typ, "func:") || x.Sel.Name != t.field {
							return
						}
						if c17typeOf(p, env, x.X) != t.typ {
							return
						}
						target, base = x, exprString(x.X)
						if id := c17rootIdent(x.X); id != "" {
							fresh = env[id].fresh
						}
					case *ast.Ident:
						if !(t.typ == "" || strings.HasPrefix(t.typ, "func:")) || x.Name != t.field {
							return
						}
						// skip the selector part of x.field and key of composite literals
						if len(stack) > 0 {
							if se, ok := stack[len(stack)-1].(*ast.SelectorExpr); ok && se.Sel == x {
								return
							}
							if kv, ok := stack[len(stack)-1].(*ast.KeyValueExpr); ok && kv.Key == ast.Expr(x) {
								return
							}
							if vs, ok := stack[len(stack)-1].(*ast.ValueSpec); ok {
								for _, nm := range vs.Names {
									if nm == x {
										return // package-level declaration
									}
								}
							}
						}
						target, base = x, ""
					default:
						return
					}
					found[label] = true
					a := c17classify(target, stack)
					// the declaring assignment of a local variable initialises it before any closure exists
					if strings.HasPrefix(t.typ, "func:") && len(stack) > 0 {
						if as, ok := stack[len(stack)-1].(*ast.AssignStmt); ok && as.Tok == token.DEFINE {
							fresh = true
						}
					}
					held := c17heldAt(evs, base, target.Pos())
					if a.read {
						addRow(c17row{field: label, fn: sc.name, write: false, atomic: a.atomic, fresh: fresh, held: held})
					}
					if a.write {
						addRow(c17row{field: label, fn: sc.name, write: true, atomic: a.atomic, fresh: fresh, held: held})
					}
				})
			}
		}
		if !found[label] {
			// the construct is gone: an explicit marker row that can never pass the pairwise check
			addRow(c17row{field: label, fn: "<not-found>", write: true})
		}
	}
	sort.SliceStable(rows, func(i, j int) bool {
		if rows[i].field != rows[j].field {
			return rows[i].field < rows[j].field
		}
		if rows[i].fn != rows[j].fn {
			return rows[i].fn < rows[j].fn
		}
		return !rows[i].write && rows[j].write
	})

	// ------------------------------------------------------------ ownership table
	type ownRow struct {
		owner, field, fn string
		write, atomic    bool
		ctx              string
	}
	var own []ownRow
	ownSeen := map[string]bool{}
	for _, o := range c17owners {
		p := c17pkgs[o.dir]
		fields := p.structs[o.typ]
		if fields == nil {
			own = append(own, ownRow{owner: c17pkgLabel(o.dir) + o.typ, field: "<not-found>", fn: "<not-found>", write: true, ctx: "other"})
			continue
		}
		// helper methods: every call site `x.m(` with x of type o.typ lies in o.typ.run proper or in another helper
		callers := map[string]map[string]bool{} // method -> set of calling scopes
		for _, fd := range p.funcs {
			env := c17env(p, fd)
			for _, sc := range c17scopes(fd) {
				c17walk(sc.body, func(n ast.Node, stack []ast.Node) {
					c, ok := n.(*ast.CallExpr)
					if !ok {
						return
					}
					sel, ok := c.Fun.(*ast.SelectorExpr)
					if !ok {
						return
					}
					if c17typeOf(p, env, sel.X) != o.typ {
						return
					}
					if callers[sel.Sel.Name] == nil {
						callers[sel.Sel.Name] = map[string]bool{}
					}
					callers[sel.Sel.Name][sc.name] = true
				})
			}
		}
		helper := map[string]bool{}
		for changed := true; changed; {
			changed = false
			for m, cs := range callers {
				if helper[m] || m == "run" || len(cs) == 0 {
					continue
				}
				all := true
				for c := range cs {
					if c == o.typ+".run" {
						continue
					}
					if strings.HasPrefix(c, o.typ+".") && !strings.Contains(c, "$") && helper[strings.TrimPrefix(c, o.typ+".")] {
						continue
					}
					all = false
				}
				if all {
					helper[m] = true
					changed = true
				}
			}
		}
		for _, fd := range p.funcs {
			env := c17env(p, fd)
			_, recvT := c17recv(fd)
			for _, sc := range c17scopes(fd) {
				c17walk(sc.body, func(n ast.Node, stack []ast.Node) {
					x, ok := n.(*ast.SelectorExpr)
					if !ok {
						return
					}
					ft, declared := fields[x.Sel.Name]
					if !declared || c17typeOf(p, env, x.X) != o.typ {
						return
					}
					if lockField[o.dir+"|"+o.typ+"."+x.Sel.Name] {
						return
					}
					// synchronisation objects and channels carry their own synchronisation
					if ft == "chan" || strings.HasPrefix(ft, "sync.") || strings.HasPrefix(ft, "atomic.") {
						return
					}
					a := c17classify(x, stack)
					ctx := "other"
					fresh := false
					if id := c17rootIdent(x.X); id != "" {
						fresh = env[id].fresh
					}
					switch {
					case fresh:
						ctx = "ctor"
					case recvT == o.typ && fd.Name.Name == "run" && sc.isDecl:
						ctx = "run"
					case recvT == o.typ && sc.isDecl && helper[fd.Name.Name]:
						ctx = "helper"
					}
					emit := func(w bool) {
						r := ownRow{owner: c17pkgLabel(o.dir) + o.typ, field: x.Sel.Name, fn: sc.name, write: w, atomic: a.atomic, ctx: ctx}
						k := fmt.Sprint(r)
						if !ownSeen[k] {
							ownSeen[k] = true
							own = append(own, r)
						}
					}
					if a.read {
						emit(false)
					}
					if a.write {
						emit(true)
					}
				})
			}
		}
	}
	sort.SliceStable(own, func(i, j int) bool {
		a, b := own[i], own[j]
		if a.owner != b.owner {
			return a.owner < b.owner
		}
		if a.field != b.field {
			return a.field < b.field
		}
		if a.fn != b.fn {
			return a.fn < b.fn
		}
		return !a.write && b.write
	})

	// ------------------------------------------------------------ Lean text
	b := func(v bool) string {
		if v {
			return "true"
		}
		return "false"
	}
	var sb strings.Builder
	sb.WriteString("open Bpmn.Model.Lockset in\n")
	sb.WriteString("/-- lock table: every syntactic access site of the hand-listed shared fields -/\n")
	sb.WriteString("def lockTable : List Bpmn.Model.Lockset.Row := [\n")
	for i, r := range rows {
		var hs []string
		for _, h := range r.held {
			hs = append(hs, fmt.Sprintf("(%q, .%s)", h[0], h[1]))
		}
		sep := ","
		if i == len(rows)-1 {
			sep = ""
		}
		fmt.Fprintf(&sb, "  { field := %q, fn := %q, write := %s, atomic := %s, fresh := %s, held := [%s] }%s\n",
			r.field, r.fn, b(r.write), b(r.atomic), b(r.fresh), strings.Join(hs, ", "), sep)
	}
	sb.WriteString("]\n\n")
	sb.WriteString("open Bpmn.Model.Lockset in\n")
	sb.WriteString("/-- ownership table: every syntactic access to a declared field of a flow-node struct -/\n")
	sb.WriteString("def ownTable : List Bpmn.Model.Lockset.OwnRow := [\n")
	for i, r := range own {
		sep := ","
		if i == len(own)-1 {
			sep = ""
		}
		fmt.Fprintf(&sb, "  { owner := %q, field := %q, fn := %q, write := %s, atomic := %s, ctx := .%s }%s\n",
			r.owner, r.field, r.fn, b(r.write), b(r.atomic), r.ctx, sep)
	}
	sb.WriteString("]\n\n")
	addRaw("C17", []string{"Bpmn.Model.Lockset"}, sb.String())
	add("C17", "lockRows", "Nat", fmt.Sprint(len(rows)), "number of rows of the lock table (access sites of the listed shared fields)")
	add("C17", "ownRows", "Nat", fmt.Sprint(len(own)), "number of rows of the ownership table (accesses to node-struct fields)")
	nf := 0
	for _, t := range c17targets {
		_ = t
		nf++
	}
	add("C17", "lockFields", "Nat", fmt.Sprint(nf), "number of hand-listed shared fields / variables")
}
