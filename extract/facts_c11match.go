package main

import (
	"go/ast"
	"go/token"
	"strings"
)

func init() { registry = append(registry, factsC11Match) }

// factsC11Match TRANSLATES two methods of pkg/event/events.go into Lean, statement by statement:
//
//	(*MessageEvent).MatchesEventInstance -> messageMatchGen : r op dr dop ↦ Bool
//	(*SignalEvent).MatchesEventInstance  -> signalMatchGen  : r dr ↦ Bool
//
// r = the event's reference, op = its operation reference (none = nil pointer); dr, dop = the definition's attributes
// (none = absent). Only the part behind the type assertion is translated (the assertion selects the definition kind the
// Lean function is about). `Props/C11MatchCurrent` proves the result equal to the hand-written kernel `EventMatch.matchesInst`.
//
// Supported Go: `x, p := definition.Attr()` (also as the init of an if), `if c { return b }`, `if c { … } else { … }`,
// `return e`; expressions: identifiers bound so far, true / false, !, ==, !=, `ev.<field>`, `*ev.<field>`, `<ptr> == nil`,
// `string(*x)`. Anything else makes the translation `none` (and the obligation fail).
func factsC11Match() {
	f := load("pkg/event/events.go")
	msg := translateMatcher(funcDecl(f, "MessageEvent", "MatchesEventInstance"), "MessageEventDefinition",
		map[string]string{"messageRef": "r"}, map[string]string{"operationRef": "op"},
		map[string]string{"MessageRef": "dr", "OperationRef": "dop"})
	sig := translateMatcher(funcDecl(f, "SignalEvent", "MatchesEventInstance"), "SignalEventDefinition",
		map[string]string{"signalRef": "r"}, nil, map[string]string{"SignalRef": "dr"})
	var sb strings.Builder
	sb.WriteString("\n/-- pkg/event/events.go `(*MessageEvent).MatchesEventInstance` behind its type assertion, translated statement by\n")
	sb.WriteString("statement (r, op: the event's message and operation; dr, dop: the definition's; none = nil / absent) -/\n")
	if msg == "" {
		sb.WriteString("def messageMatchGen : Option (Nat → Option Nat → Option Nat → Option Nat → Bool) := none\n")
	} else {
		sb.WriteString("def messageMatchGen : Option (Nat → Option Nat → Option Nat → Option Nat → Bool) := some (fun r op dr dop =>\n" + msg + ")\n")
	}
	sb.WriteString("\n/-- `(*SignalEvent).MatchesEventInstance`, likewise -/\n")
	if sig == "" {
		sb.WriteString("def signalMatchGen : Option (Nat → Option Nat → Bool) := none\n")
	} else {
		sb.WriteString("def signalMatchGen : Option (Nat → Option Nat → Bool) := some (fun r dr =>\n" + sig + ")\n")
	}
	addRaw("C11", nil, sb.String())
}

type matchTr struct {
	ok      bool
	recv    string            // receiver name
	defVar  string            // the variable holding the asserted definition
	valFld  map[string]string // receiver fields holding a plain value -> Lean term
	ptrFld  map[string]string // receiver fields holding a pointer -> Lean Option term
	attrs   map[string]string // definition accessor -> Lean Option term
	bindVal map[string]string // Go identifier (a *QName from an accessor) -> Lean Option term
	bindB   map[string]string // Go identifier (a bool) -> Lean Bool term
}

func (t *matchTr) bindAccessor(lhs []ast.Expr, rhs ast.Expr) bool {
	c, ok := rhs.(*ast.CallExpr)
	if !ok || len(c.Args) != 0 || len(lhs) != 2 {
		return false
	}
	sel, ok := c.Fun.(*ast.SelectorExpr)
	if !ok {
		return false
	}
	x, ok := sel.X.(*ast.Ident)
	if !ok || x.Name != t.defVar {
		return false
	}
	term, ok := t.attrs[sel.Sel.Name]
	if !ok {
		return false
	}
	if id, ok := lhs[0].(*ast.Ident); ok && id.Name != "_" {
		t.bindVal[id.Name] = term
	}
	if id, ok := lhs[1].(*ast.Ident); ok && id.Name != "_" {
		t.bindB[id.Name] = term + ".isSome"
	}
	return true
}

// value: a Lean Nat term for a Go string-valued expression
func (t *matchTr) value(e ast.Expr) string {
	switch x := e.(type) {
	case *ast.ParenExpr:
		return t.value(x.X)
	case *ast.CallExpr: // string(*x)
		if id, ok := x.Fun.(*ast.Ident); ok && id.Name == "string" && len(x.Args) == 1 {
			return t.value(x.Args[0])
		}
	case *ast.StarExpr:
		switch y := x.X.(type) {
		case *ast.Ident:
			if term, ok := t.bindVal[y.Name]; ok {
				return term + ".getD 0"
			}
		case *ast.SelectorExpr:
			if r, ok := y.X.(*ast.Ident); ok && r.Name == t.recv {
				if term, ok := t.ptrFld[y.Sel.Name]; ok {
					return term + ".getD 0"
				}
			}
		}
	case *ast.SelectorExpr:
		if r, ok := x.X.(*ast.Ident); ok && r.Name == t.recv {
			if term, ok := t.valFld[x.Sel.Name]; ok {
				return term
			}
		}
	}
	t.ok = false
	return "0"
}

func (t *matchTr) boolean(e ast.Expr) string {
	switch x := e.(type) {
	case *ast.ParenExpr:
		return "(" + t.boolean(x.X) + ")"
	case *ast.Ident:
		if x.Name == "true" || x.Name == "false" {
			return x.Name
		}
		if term, ok := t.bindB[x.Name]; ok {
			return term
		}
	case *ast.UnaryExpr:
		if x.Op == token.NOT {
			return "(!" + t.boolean(x.X) + ")"
		}
	case *ast.BinaryExpr:
		if x.Op == token.EQL || x.Op == token.NEQ {
			// pointer against nil
			if id, ok := x.Y.(*ast.Ident); ok && id.Name == "nil" {
				if sel, ok := x.X.(*ast.SelectorExpr); ok {
					if r, ok := sel.X.(*ast.Ident); ok && r.Name == t.recv {
						if term, ok := t.ptrFld[sel.Sel.Name]; ok {
							if x.Op == token.EQL {
								return term + ".isNone"
							}
							return term + ".isSome"
						}
					}
				}
				t.ok = false
				return "false"
			}
			l, r := t.value(x.X), t.value(x.Y)
			if x.Op == token.EQL {
				return "(" + l + " == " + r + ")"
			}
			return "(" + l + " != " + r + ")"
		}
	}
	t.ok = false
	return "false"
}

func (t *matchTr) stmts(ss []ast.Stmt, ind string) string {
	if len(ss) == 0 {
		t.ok = false
		return ind + "false"
	}
	switch s := ss[0].(type) {
	case *ast.AssignStmt:
		if s.Tok == token.DEFINE && len(s.Rhs) == 1 && t.bindAccessor(s.Lhs, s.Rhs[0]) {
			return t.stmts(ss[1:], ind)
		}
	case *ast.ReturnStmt:
		if len(s.Results) == 1 && len(ss) == 1 {
			return ind + t.boolean(s.Results[0])
		}
	case *ast.IfStmt:
		if s.Init != nil {
			as, ok := s.Init.(*ast.AssignStmt)
			if !ok || as.Tok != token.DEFINE || len(as.Rhs) != 1 || !t.bindAccessor(as.Lhs, as.Rhs[0]) {
				t.ok = false
				return ind + "false"
			}
		}
		c := t.boolean(s.Cond)
		a := t.stmts(s.Body.List, ind+"  ")
		var b string
		if s.Else == nil {
			b = t.stmts(ss[1:], ind+"  ")
		} else if eb, ok := s.Else.(*ast.BlockStmt); ok && len(ss) == 1 {
			b = t.stmts(eb.List, ind+"  ")
		} else {
			t.ok = false
		}
		return ind + "if " + c + " then\n" + a + "\n" + ind + "else\n" + b
	}
	t.ok = false
	return ind + "false"
}

func translateMatcher(fd *ast.FuncDecl, defType string, valFld, ptrFld, attrs map[string]string) string {
	if fd == nil || fd.Body == nil || fd.Recv == nil || len(fd.Recv.List) != 1 || len(fd.Recv.List[0].Names) != 1 {
		return ""
	}
	t := &matchTr{ok: true, recv: fd.Recv.List[0].Names[0].Name, valFld: valFld, ptrFld: ptrFld, attrs: attrs,
		bindVal: map[string]string{}, bindB: map[string]string{}}
	if t.ptrFld == nil {
		t.ptrFld = map[string]string{}
	}
	ss := fd.Body.List
	// 1. `definition, ok := instance.EventDefinition().(*schema.<defType>)` ; `if !ok { return false }`
	if len(ss) < 3 {
		return ""
	}
	as, ok := ss[0].(*ast.AssignStmt)
	if !ok || len(as.Lhs) != 2 || len(as.Rhs) != 1 {
		return ""
	}
	ta, ok := as.Rhs[0].(*ast.TypeAssertExpr)
	if !ok || !strings.HasSuffix(exprString(ta.Type), "schema."+defType) || !strings.HasSuffix(exprString(ta.X), ".EventDefinition()") {
		return ""
	}
	dv, _ := as.Lhs[0].(*ast.Ident)
	okv, _ := as.Lhs[1].(*ast.Ident)
	if dv == nil || okv == nil {
		return ""
	}
	t.defVar = dv.Name
	guard, ok := ss[1].(*ast.IfStmt)
	if !ok || guard.Init != nil || guard.Else != nil || exprString(guard.Cond) != "!"+okv.Name || len(guard.Body.List) != 1 {
		return ""
	}
	if r, ok := guard.Body.List[0].(*ast.ReturnStmt); !ok || len(r.Results) != 1 || exprString(r.Results[0]) != "false" {
		return ""
	}
	out := t.stmts(ss[2:], "  ")
	if !t.ok {
		return ""
	}
	return out
}
