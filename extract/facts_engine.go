package main

import (
	"go/ast"
	"strings"
)

func init() { registry = append(registry, factsEngine) }

// factsEngine: the switches of the layer-2 engine model (lean/Bpmn/Model/Engine.lean `Cfg`).
func factsEngine() {
	// firstFlowDecides: in flow.Start the token itself always tries `sequences[0]` and only the
	// remaining flows are forked (D1). Detected by the statement `current := sequences[0]` followed by a
	// call handleSequenceFlow(ctx, current, …). After a repair that lets the first EFFECTIVE flow carry the
	// token, handleSequenceFlow is called inside a loop over the sequence flows instead.
	{
		f := load("flow.go")
		fd := funcDecl(f, "flow", "Start")
		val := ""
		if fd != nil {
			hasCurrentFirst := false
			inLoop := false
			ast.Inspect(fd, func(n ast.Node) bool {
				switch x := n.(type) {
				case *ast.AssignStmt:
					if len(x.Lhs) == 1 && len(x.Rhs) == 1 && exprString(x.Lhs[0]) == "current" &&
						exprString(x.Rhs[0]) == "sequences[0]" {
						hasCurrentFirst = true
					}
				case *ast.RangeStmt:
					ast.Inspect(x.Body, func(m ast.Node) bool {
						if c, ok := m.(*ast.CallExpr); ok && strings.HasSuffix(exprString(c.Fun), "handleSequenceFlow") {
							inLoop = true
						}
						return true
					})
				}
				return true
			})
			called := callPos(fd, "handleSequenceFlow") != 0
			switch {
			case hasCurrentFirst && called && !inLoop:
				val = "true"
			case called && inLoop && !hasCurrentFirst:
				val = "false"
			}
		}
		add("Engine", "firstFlowDecides", "Bool", val,
			"flow.Start: the token only ever continues on the first listed outgoing flow (true) / on the first effective one (false)")
	}
	// subNeverReturns: subProcess.NextAction starts the inner completion monitor on the PARENT's tracer
	// (`sp.wr.tracer`), while subProcess.run waits for the cease-flow trace on the inner tracer.
	{
		f := load("subprocess.go")
		val := ""
		if f != nil {
			// find `sp.ceaseFlowMonitor(X)` wherever the monitor is created (NextAction today; the activation
			// goroutine of run after a repair that creates one monitor per activation) and resolve a local alias
			// `tracer := sp.wr.tracer` inside the same function
			args := map[string]bool{}
			for _, d := range f.Decls {
				fd, ok := d.(*ast.FuncDecl)
				if !ok || fd.Body == nil || fd.Name.Name == "ceaseFlowMonitor" {
					continue
				}
				alias := map[string]string{}
				ast.Inspect(fd, func(n ast.Node) bool {
					if a, ok := n.(*ast.AssignStmt); ok && len(a.Lhs) == 1 && len(a.Rhs) == 1 {
						alias[exprString(a.Lhs[0])] = exprString(a.Rhs[0])
					}
					return true
				})
				ast.Inspect(fd, func(n ast.Node) bool {
					if c, ok := n.(*ast.CallExpr); ok {
						if strings.HasSuffix(exprString(c.Fun), "ceaseFlowMonitor") && len(c.Args) == 1 {
							arg := exprString(c.Args[0])
							if v, ok := alias[arg]; ok {
								arg = v
							}
							args[arg] = true
						}
					}
					return true
				})
			}
			inner, parent := false, false
			for a := range args {
				if strings.HasSuffix(a, "subTracer") {
					inner = true
				} else if strings.HasSuffix(a, "wr.tracer") {
					parent = true
				}
			}
			switch {
			case inner && !parent:
				val = "false"
			case parent && !inner:
				val = "true"
			}
		}
		add("Engine", "subNeverReturns", "Bool", val,
			"subprocess.go: the inner completion monitor listens on the parent's tracer (true) / the inner tracer (false)")
	}
	// inclCohort: the inclusive gateway decides from flowTracker.activeFlowsInCohort
	{
		f := load("gateway_inclusive.go")
		fd := funcDecl(f, "inclusiveGateway", "run")
		val := ""
		if fd != nil {
			if callPos(fd, "activeFlowsInCohort") != 0 {
				val = "true"
			} else {
				val = "false"
			}
		}
		add("Engine", "inclCohort", "Bool", val,
			"gateway_inclusive.go: the join awaits the tracker's cohort of the activating flow")
	}
	// subStartSticky: nothing in subprocess.go resets the inner start events' `activated` flag
	{
		f := load("subprocess.go")
		val := ""
		if f != nil {
			found := false
			ast.Inspect(f, func(n ast.Node) bool {
				if c, ok := n.(*ast.CallExpr); ok {
					s := exprString(c.Fun)
					if strings.HasSuffix(s, "activated.Store") {
						found = true
					}
				}
				return true
			})
			if found {
				val = "false"
			} else {
				val = "true"
			}
		}
		add("Engine", "subStartSticky", "Bool", val,
			"subprocess.go never re-arms the inner start events, so a second activation completes at once")
	}
	// throwFuse: in throwEvent.run the reply to a token's nextActionMessage depends on the `activated` flag
	// (flowAction the first time, completeAction afterwards: D38) — or every token gets flowAction.
	{
		f := load("event_throw.go")
		fd := funcDecl(f, "throwEvent", "run")
		val := ""
		if fd != nil {
			var clause *ast.CaseClause
			ast.Inspect(fd, func(n ast.Node) bool {
				if cc, ok := n.(*ast.CaseClause); ok && len(cc.List) == 1 && exprString(cc.List[0]) == "nextActionMessage" {
					clause = cc
				}
				return true
			})
			if clause != nil {
				// entryOnly: the guard also asks whether the event was used as an entry point (`triggered`): tokens
				// that REACH an event nobody triggered are not subject to it
				flows, completes, guarded, entryOnly := 0, 0, false, false
				for _, st := range clause.Body {
					ast.Inspect(st, func(n ast.Node) bool {
						switch x := n.(type) {
						case *ast.IfStmt:
							if c := exprString(x.Cond); strings.Contains(c, "activated") {
								guarded = true
								if strings.Contains(c, "triggered") && strings.Contains(c, "&&") && !strings.Contains(c, "||") {
									entryOnly = true
								}
							}
						case *ast.SendStmt:
							v := exprString(x.Value)
							if strings.HasPrefix(v, "flowAction") {
								flows++
							}
							if strings.HasPrefix(v, "completeAction") {
								completes++
							}
						}
						return true
					})
				}
				switch {
				case flows == 1 && completes == 0 && !guarded:
					val = "false"
				case flows == 1 && completes == 1 && guarded && entryOnly:
					val = "false"
				case flows == 1 && completes == 1 && guarded:
					val = "true"
				}
			}
		}
		add("Engine", "throwFuse", "Bool", val,
			"event_throw.go: only the first token to reach an intermediate throw event passes it (true) / every token does, unless the event was used as an entry point (false)")
	}
}
