package main

// C15 — the schema table: every struct of the schema package that takes part in (un)marshalling,
// its fields with their xml tags, what its MarshalXML / UnmarshalXML / FindBy methods do, plus the
// namespace facts of PreMarshal and AnExpression. Written as raw Lean text into Bpmn.Gen.C15.
//
// All names are interned: the Lean table holds Nat ids, `names` maps them back to strings.

import (
	"fmt"
	"go/ast"
	"go/token"
	"reflect"
	"sort"
	"strconv"
	"strings"
)

func init() { registry = append(registry, factsC15) }

type c15Field struct {
	goName    string
	ns, name  string
	kind      string // attr elem chardata innerxml any anyattr omit embed
	omitempty bool
	rep       string // val ptr slice slicePtr
	ty        string
}

type c15Struct struct {
	name    string
	fields  []c15Field
	methods map[string]*ast.FuncDecl
}

type c15Intern struct {
	ids  map[string]int
	list []string
}

func (n *c15Intern) id(s string) int {
	if i, ok := n.ids[s]; ok {
		return i
	}
	if n.ids == nil {
		n.ids = map[string]int{}
	}
	n.ids[s] = len(n.list)
	n.list = append(n.list, s)
	return len(n.list) - 1
}

func leanStr(s string) string {
	var sb strings.Builder
	sb.WriteByte('"')
	for _, r := range s {
		switch {
		case r == '"' || r == '\\':
			sb.WriteByte('\\')
			sb.WriteRune(r)
		case r < 0x20 || r == 0x7f:
			sb.WriteString(fmt.Sprintf("\\x%02x", r))
		default:
			sb.WriteRune(r)
		}
	}
	sb.WriteByte('"')
	return sb.String()
}

func leanStrList(l []string) string {
	q := make([]string, len(l))
	for i, s := range l {
		q[i] = leanStr(s)
	}
	return "[" + strings.Join(q, ", ") + "]"
}

func c15StrLit(e ast.Expr, consts map[string]string) (string, bool) {
	switch x := e.(type) {
	case *ast.BasicLit:
		if x.Kind == token.STRING {
			s, err := strconv.Unquote(x.Value)
			return s, err == nil
		}
	case *ast.Ident:
		s, ok := consts[x.Name]
		return s, ok
	case *ast.BinaryExpr:
		if x.Op == token.ADD {
			a, ok1 := c15StrLit(x.X, consts)
			b, ok2 := c15StrLit(x.Y, consts)
			return a + b, ok1 && ok2
		}
	}
	return "", false
}

func factsC15() {
	srcs := []string{"schema/schema.go", "schema/schema_item.go", "schema/schema_generated.go", "schema/schema_di_generated.go"}
	structs := map[string]*c15Struct{}
	simple := map[string]string{} // named non-struct type → underlying ident ("string", "float64", …)
	alias := map[string]string{}  // type A = B
	ifaces := map[string]*ast.InterfaceType{}
	consts := map[string]string{}
	var mappingLit *ast.CompositeLit
	ok := true
	for _, rel := range srcs {
		f := load(rel)
		if f == nil {
			ok = false
			continue
		}
		for _, d := range f.Decls {
			switch x := d.(type) {
			case *ast.GenDecl:
				for _, sp := range x.Specs {
					switch s := sp.(type) {
					case *ast.TypeSpec:
						switch t := s.Type.(type) {
						case *ast.StructType:
							structs[s.Name.Name] = &c15Struct{name: s.Name.Name, methods: map[string]*ast.FuncDecl{}}
							structs[s.Name.Name].fields = c15Fields(t)
						case *ast.InterfaceType:
							ifaces[s.Name.Name] = t
						case *ast.Ident:
							if s.Assign != token.NoPos {
								alias[s.Name.Name] = t.Name
							} else {
								simple[s.Name.Name] = t.Name
							}
						}
					case *ast.ValueSpec:
						for i, n := range s.Names {
							if i < len(s.Values) {
								if x.Tok == token.CONST {
									if v, isStr := c15StrLit(s.Values[i], consts); isStr {
										consts[n.Name] = v
									}
								}
								if n.Name == "mapping" {
									if cl, isCl := s.Values[i].(*ast.CompositeLit); isCl {
										mappingLit = cl
									}
								}
							}
						}
					}
				}
			}
		}
	}
	// methods (pointer or value receiver)
	for _, rel := range srcs {
		f := load(rel)
		if f == nil {
			continue
		}
		for _, d := range f.Decls {
			fd, isFn := d.(*ast.FuncDecl)
			if !isFn || fd.Recv == nil || len(fd.Recv.List) != 1 {
				continue
			}
			t := fd.Recv.List[0].Type
			if s, isStar := t.(*ast.StarExpr); isStar {
				t = s.X
			}
			if id, isId := t.(*ast.Ident); isId {
				if st, has := structs[id.Name]; has {
					st.methods[fd.Name.Name] = fd
				}
			}
		}
	}

	// resolve aliases in field types
	resolve := func(t string) string {
		for i := 0; i < 8; i++ {
			if a, isAlias := alias[t]; isAlias {
				t = a
			} else {
				break
			}
		}
		return t
	}
	names := &c15Intern{}
	names.id("") // id 0 = the empty name
	nss := &c15Intern{}
	nss.id("") // 0 = no namespace
	pfxs := &c15Intern{}
	pfxs.id("") // 0 = no prefix

	// struct order: sorted by name; struct index = type id
	snames := make([]string, 0, len(structs))
	for n := range structs {
		snames = append(snames, n)
	}
	sort.Strings(snames)
	tyId := map[string]int{}
	for i, n := range snames {
		tyId[n] = i
	}
	// simple types: ids after the structs, in first-use order
	var simpleList []string
	simpleId := func(t string) int {
		if i, has := tyId[t]; has {
			return i
		}
		tyId[t] = len(snames) + len(simpleList)
		simpleList = append(simpleList, t)
		return tyId[t]
	}
	for _, n := range snames {
		for i := range structs[n].fields {
			f := &structs[n].fields[i]
			f.ty = resolve(f.ty)
			simpleId(f.ty)
		}
	}

	// method set with promotion through embedded structs: (owner, decl) of the shallowest provider
	var method func(s string, m string, depth int) (string, *ast.FuncDecl)
	method = func(s string, m string, depth int) (string, *ast.FuncDecl) {
		st := structs[s]
		if st == nil || depth > 12 {
			return "", nil
		}
		if fd := st.methods[m]; fd != nil {
			return s, fd
		}
		// breadth-first: nearest embedding level wins; ambiguity at one level = not in the method set
		level := []string{s}
		for d := 0; d < 12 && len(level) > 0; d++ {
			var next []string
			for _, l := range level {
				for _, f := range structs[l].fields {
					if f.kind == "embed" && structs[f.ty] != nil {
						next = append(next, f.ty)
					}
				}
			}
			owner, cnt := "", 0
			for _, n := range next {
				if structs[n].methods[m] != nil {
					owner = n
					cnt++
				}
			}
			if cnt == 1 {
				return owner, structs[owner].methods[m]
			}
			if cnt > 1 {
				return "", nil
			}
			level = next
		}
		return "", nil
	}

	// BaseElementInterface method names (embedded interfaces expanded)
	var ifaceMethods func(n string, depth int) []string
	ifaceMethods = func(n string, depth int) []string {
		it := ifaces[n]
		if it == nil || depth > 8 {
			return nil
		}
		var out []string
		for _, m := range it.Methods.List {
			if len(m.Names) == 0 {
				if id, isId := m.Type.(*ast.Ident); isId {
					out = append(out, ifaceMethods(id.Name, depth+1)...)
				}
				continue
			}
			for _, nm := range m.Names {
				out = append(out, nm.Name)
			}
		}
		return out
	}
	baseMethods := ifaceMethods("BaseElementInterface", 0)

	prefixOf := func(s string) string { return strings.TrimSuffix(s, ":") }

	var sb strings.Builder
	sb.WriteString("open Bpmn.Model.Xml\n\n")
	var structDefs []string
	for i, n := range snames {
		st := structs[n]
		var fl []string
		for _, f := range st.fields {
			fl = append(fl, fmt.Sprintf("⟨%d,%d,%d,.%s,%s,.%s,%d⟩", names.id(f.goName), nss.id(f.ns), names.id(f.name),
				f.kind, boolLit(f.omitempty), f.rep, tyId[f.ty]))
		}
		// MarshalXML
		mk, byValue := ".none", false
		if _, fd := method(n, "MarshalXML", 0); fd != nil {
			mk = c15MarshalKind(fd, consts, names, pfxs, prefixOf)
			if len(fd.Recv.List) == 1 {
				_, isPtr := fd.Recv.List[0].Type.(*ast.StarExpr)
				byValue = !isPtr
			}
		}
		uk, uown := ".none", i
		if owner, fd := method(n, "UnmarshalXML", 0); fd != nil {
			uk = c15UnmarshalKind(fd, consts, names)
			uown = tyId[owner]
		}
		text := "none"
		_, g := method(n, "TextPayload", 0)
		_, s := method(n, "SetTextPayload", 0)
		if g != nil && s != nil {
			// the field both accessors touch
			gf, sf := c15RecvFields(g), c15RecvFields(s)
			if len(gf) == 1 && len(sf) == 1 && gf[0] == sf[0] {
				text = fmt.Sprintf("some %d", names.id(gf[0]))
			} else {
				text = "some 0"
			}
		}
		fb := "none"
		if fd := st.methods["FindBy"]; fd != nil {
			var ids []string
			seen := map[string]bool{}
			declared := map[string]bool{}
			for _, f := range st.fields {
				declared[f.goName] = true
			}
			for _, fn := range c15RecvFields(fd) {
				if declared[fn] && !seen[fn] {
					seen[fn] = true
					ids = append(ids, strconv.Itoa(names.id(fn)))
				}
			}
			fb = "some [" + strings.Join(ids, ",") + "]"
		}
		base := len(baseMethods) > 0
		for _, m := range baseMethods {
			if _, fd := method(n, m, 0); fd == nil {
				base = false
			}
		}
		sb.WriteString(fmt.Sprintf("def s%d : Struct := ⟨%d, [%s], %s, %s, %s, %d, %s, %s, %s⟩ -- %s\n", i, names.id(n),
			strings.Join(fl, ","), mk, boolLit(byValue), uk, uown, text, fb, boolLit(base), n))
		structDefs = append(structDefs, fmt.Sprintf("s%d", i))
	}
	sb.WriteString("\ndef structs : List Struct := [" + strings.Join(structDefs, ", ") + "]\n\n")

	// simple types: name and base kind (0 string, 1 bool, 2 integer, 3 float, 4 other)
	var sl []string
	for _, t := range simpleList {
		u := t
		if b, has := simple[t]; has {
			u = resolve(b)
		}
		k := 4
		switch {
		case u == "string":
			k = 0
		case u == "bool":
			k = 1
		case strings.HasPrefix(u, "int") || strings.HasPrefix(u, "uint"):
			k = 2
		case strings.HasPrefix(u, "float"):
			k = 3
		}
		sl = append(sl, fmt.Sprintf("(%d,%d)", names.id(t), k))
	}
	sb.WriteString("/-- simple (non-struct) types, type id = structs.length + position: (name, base kind) -/\n")
	sb.WriteString("def simpleTypes : List (Nat × Nat) := [" + strings.Join(sl, ",") + "]\n\n")
	// a simple type may have its own MarshalXML (QName)
	var sm []string
	for _, rel := range srcs {
		f := load(rel)
		if f == nil {
			continue
		}
		for _, t := range simpleList {
			if fd := funcDecl(f, t, "MarshalXML"); fd != nil {
				sm = append(sm, fmt.Sprintf("(%d, %s)", tyId[t], c15MarshalKind(fd, consts, names, pfxs, prefixOf)))
			}
		}
	}
	sb.WriteString("/-- simple types with a hand-written MarshalXML: (type id, what it does) -/\n")
	sb.WriteString("def simpleMarshal : List (Nat × MarshalKind) := [" + strings.Join(sm, ", ") + "]\n\n")

	// mapping: namespace → prefix
	var mp []string
	if mappingLit != nil {
		for _, e := range mappingLit.Elts {
			kv, isKv := e.(*ast.KeyValueExpr)
			if !isKv {
				continue
			}
			k, ok1 := c15StrLit(kv.Key, consts)
			v, ok2 := c15StrLit(kv.Value, consts)
			if ok1 && ok2 {
				mp = append(mp, fmt.Sprintf("(%d,%d)", nss.id(k), pfxs.id(prefixOf(v))))
			} else {
				ok = false
			}
		}
	} else {
		ok = false
	}
	sb.WriteString("def nsPrefix : List (Nat × Nat) := [" + strings.Join(mp, ",") + "]\n\n")

	// PreMarshal: xmlns declarations put on the root element, and the root name
	var decls []string
	declared := map[string]string{}
	rootName := ""
	if pm := funcDecl(load("schema/schema.go"), "", "PreMarshal"); pm != nil {
		ast.Inspect(pm, func(x ast.Node) bool {
			switch v := x.(type) {
			case *ast.CompositeLit:
				if exprString(v.Type) != "xml.Attr" {
					return true
				}
				local, value := "", ""
				for _, e := range v.Elts {
					kv, isKv := e.(*ast.KeyValueExpr)
					if !isKv {
						continue
					}
					switch exprString(kv.Key) {
					case "Name":
						if cl, isCl := kv.Value.(*ast.CompositeLit); isCl {
							for _, e2 := range cl.Elts {
								if kv2, isKv2 := e2.(*ast.KeyValueExpr); isKv2 && exprString(kv2.Key) == "Local" {
									local, _ = c15StrLit(kv2.Value, consts)
								}
							}
						}
					case "Value":
						value, _ = c15StrLit(kv.Value, consts)
					}
				}
				if strings.HasPrefix(local, "xmlns:") && value != "" {
					p := strings.TrimPrefix(local, "xmlns:")
					decls = append(decls, fmt.Sprintf("(%d,%d)", pfxs.id(p), nss.id(value)))
					declared[p] = value
				}
			case *ast.AssignStmt:
				if len(v.Lhs) == 1 && len(v.Rhs) == 1 && exprString(v.Lhs[0]) == "start.Name.Local" {
					if s, isStr := c15StrLit(v.Rhs[0], consts); isStr {
						rootName = s
					}
				}
			}
			return true
		})
	} else {
		ok = false
	}
	sb.WriteString("def rootDecls : List (Nat × Nat) := [" + strings.Join(decls, ",") + "]\n\n")

	// AnExpression: attribute written by MarshalXML, namespace required by UnmarshalXML
	attrLocal, formalVal, informalVal := "", "", ""
	if an := structs["AnExpression"]; an != nil && an.methods["MarshalXML"] != nil {
		ast.Inspect(an.methods["MarshalXML"], func(x ast.Node) bool {
			cc, isCC := x.(*ast.CaseClause)
			if !isCC || len(cc.List) != 1 {
				return true
			}
			which := exprString(cc.List[0])
			ast.Inspect(cc, func(y ast.Node) bool {
				cl, isCl := y.(*ast.CompositeLit)
				if !isCl || exprString(cl.Type) != "xml.Attr" {
					return true
				}
				for _, e := range cl.Elts {
					kv, isKv := e.(*ast.KeyValueExpr)
					if !isKv {
						continue
					}
					switch exprString(kv.Key) {
					case "Name":
						if c2, isC2 := kv.Value.(*ast.CompositeLit); isC2 {
							for _, e2 := range c2.Elts {
								if kv2, isKv2 := e2.(*ast.KeyValueExpr); isKv2 && exprString(kv2.Key) == "Local" {
									attrLocal, _ = c15StrLit(kv2.Value, consts)
								}
							}
						}
					case "Value":
						v, _ := c15StrLit(kv.Value, consts)
						if which == "*FormalExpression" {
							formalVal = v
						} else if which == "*Expression" {
							informalVal = v
						}
					}
				}
				return true
			})
			return true
		})
	}
	xsiNs, typeLocalU := "", ""
	var formalAccepted []string
	if an := structs["AnExpression"]; an != nil && an.methods["UnmarshalXML"] != nil {
		ast.Inspect(an.methods["UnmarshalXML"], func(x ast.Node) bool {
			switch v := x.(type) {
			case *ast.BinaryExpr:
				if v.Op != token.EQL {
					return true
				}
				l := exprString(v.X)
				r, isStr := c15StrLit(v.Y, consts)
				if !isStr {
					return true
				}
				switch {
				case strings.HasSuffix(l, ".Name.Space"):
					xsiNs = r
				case strings.HasSuffix(l, ".Name.Local"):
					typeLocalU = r
				case strings.HasSuffix(l, ".Value"):
					formalAccepted = append(formalAccepted, "="+r)
				}
			case *ast.CallExpr:
				if exprString(v.Fun) == "strings.HasSuffix" && len(v.Args) == 2 {
					if r, isStr := c15StrLit(v.Args[1], consts); isStr {
						formalAccepted = append(formalAccepted, "*"+r)
					}
				}
			}
			return true
		})
	}
	xsiPfx, typeLocalM := "", attrLocal
	if i := strings.Index(attrLocal, ":"); i >= 0 {
		xsiPfx, typeLocalM = attrLocal[:i], attrLocal[i+1:]
	}
	if attrLocal == "" || xsiNs == "" || typeLocalU == "" || formalVal == "" {
		ok = false
	}
	sort.Strings(formalAccepted)
	rootPfx, rootLocal := "", rootName
	if i := strings.Index(rootName, ":"); i >= 0 {
		rootPfx, rootLocal = rootName[:i], rootName[i+1:]
	}
	for _, need := range []string{"AnExpression", "FormalExpression", "Expression", "Definitions"} {
		if structs[need] == nil {
			ok = false
		}
	}
	// does the value the marshaler writes for a formal expression pass the unmarshaler's test?
	formalAcceptedOk := false
	for _, a := range formalAccepted {
		if (a[0] == '=' && a[1:] == formalVal) || (a[0] == '*' && strings.HasSuffix(formalVal, a[1:])) {
			formalAcceptedOk = true
		}
	}
	informalRejectedOk := true
	for _, a := range formalAccepted {
		if (a[0] == '=' && a[1:] == informalVal) || (a[0] == '*' && strings.HasSuffix(informalVal, a[1:])) {
			informalRejectedOk = false
		}
	}

	sb.WriteString(fmt.Sprintf(`def schema : Schema := {
  structs := structs, nsPrefix := nsPrefix, rootDecls := rootDecls,
  xsiPrefix := %d, typeLocal := %d, xsiNs := %d,
  anExprTy := %d, formalTy := %d, informalTy := %d,
  rootTy := %d, rootPrefix := %d, rootLocal := %d,
  simpleMarshal := simpleMarshal, formalValue := %s, informalValue := %s }

`, pfxs.id(xsiPfx), names.id(typeLocalM), nss.id(xsiNs), tyId["AnExpression"], tyId["FormalExpression"], tyId["Expression"],
		tyId["Definitions"], pfxs.id(rootPfx), names.id(rootLocal), leanStr(formalVal), leanStr(informalVal)))
	// ids the concrete witness of Props/C15Current is built from
	sb.WriteString("/-- ids used to build the concrete witness: a process with one sequence flow carrying a condition -/\n")
	for _, c := range [][2]string{{"tyProcess", "Process"}, {"tySequenceFlow", "SequenceFlow"}, {"tyAssignment", "Assignment"}} {
		v := -1
		if _, has := structs[c[1]]; has {
			v = tyId[c[1]]
		}
		if v < 0 {
			ok = false
			v = 0
		}
		sb.WriteString(fmt.Sprintf("def %s : Nat := %d\n", c[0], v))
	}
	for _, c := range [][3]string{{"goProcessField", "Definitions", "ProcessField"}, {"goSequenceFlowField", "Process", "SequenceFlowField"},
		{"goConditionExpressionField", "SequenceFlow", "ConditionExpressionField"}, {"goIdField", "BaseElement", "IdField"}, {"goFromField", "Assignment", "FromField"}} {
		found := false
		if st := structs[c[1]]; st != nil {
			for _, f := range st.fields {
				if f.goName == c[2] {
					found = true
				}
			}
		}
		if !found {
			ok = false
		}
		sb.WriteString(fmt.Sprintf("def %s : Nat := %d\n", c[0], names.id(c[2])))
	}
	sb.WriteString("\n")
	sb.WriteString("def names : List String := " + leanStrList(names.list) + "\n\n")
	sb.WriteString("def namespaces : List String := " + leanStrList(nss.list) + "\n\n")
	sb.WriteString("def prefixes : List String := " + leanStrList(pfxs.list) + "\n\n")

	// facts through the ordinary mechanism (they also land in facts.json / the evidence)
	un := func(v string) string {
		if !ok {
			return ""
		}
		return v
	}
	add("C15", "xsiDeclared", "Bool", un(boolLit(xsiPfx != "" && declared[xsiPfx] == xsiNs)),
		"schema.PreMarshal declares, on the root element, the prefix AnExpression.MarshalXML uses for its type attribute, bound to the namespace AnExpression.UnmarshalXML requires")
	add("C15", "typeAttrAgrees", "Bool", un(boolLit(typeLocalM == typeLocalU && formalAcceptedOk && informalRejectedOk)),
		"AnExpression: the local name and values MarshalXML writes are the ones UnmarshalXML tests (formal accepted, informal rejected)")
	add("C15", "structCount", "Nat", un(strconv.Itoa(len(snames))), "number of structs in the schema table")
	nf := 0
	for _, n := range snames {
		nf += len(structs[n].fields)
	}
	add("C15", "fieldCount", "Nat", un(strconv.Itoa(nf)), "number of struct fields in the schema table")
	addRaw("C15", []string{"Bpmn.Model.Xml"}, sb.String())
}

// c15Fields reads the fields of a struct type with their xml tags.
func c15Fields(t *ast.StructType) []c15Field {
	var out []c15Field
	for _, f := range t.Fields.List {
		rep, ty := "val", ""
		e := f.Type
		switch x := e.(type) {
		case *ast.StarExpr:
			rep = "ptr"
			e = x.X
		case *ast.ArrayType:
			rep = "slice"
			e = x.Elt
			if s, isStar := e.(*ast.StarExpr); isStar {
				rep = "slicePtr"
				e = s.X
			}
		}
		ty = exprString(e)
		tag := ""
		if f.Tag != nil {
			if s, err := strconv.Unquote(f.Tag.Value); err == nil {
				tag = s
			}
		}
		xmlTag, hasXml := reflect.StructTag(tag).Lookup("xml")
		mk := func(goName string, embedded bool) c15Field {
			cf := c15Field{goName: goName, rep: rep, ty: ty}
			if !hasXml || xmlTag == "" {
				if embedded {
					cf.kind = "embed"
				} else {
					cf.kind = "elem"
				}
				cf.name = goName
				return cf
			}
			if xmlTag == "-" {
				cf.kind = "omit"
				cf.name = goName
				return cf
			}
			t := xmlTag
			if i := strings.Index(t, " "); i >= 0 {
				cf.ns, t = t[:i], t[i+1:]
			}
			toks := strings.Split(t, ",")
			cf.name = toks[0]
			cf.kind = "elem"
			isAny, isAttr := false, false
			for _, fl := range toks[1:] {
				switch fl {
				case "attr":
					isAttr = true
				case "chardata", "cdata":
					cf.kind = "chardata"
				case "innerxml":
					cf.kind = "innerxml"
				case "comment":
					cf.kind = "omit"
				case "any":
					isAny = true
				case "omitempty":
					cf.omitempty = true
				}
			}
			switch {
			case isAny && isAttr:
				cf.kind = "anyattr"
			case isAny:
				cf.kind = "any"
			case isAttr:
				cf.kind = "attr"
			}
			if cf.name == "" {
				cf.name = goName
			}
			return cf
		}
		if len(f.Names) == 0 {
			out = append(out, mk(ty, true))
			continue
		}
		for _, n := range f.Names {
			if !n.IsExported() {
				continue
			}
			out = append(out, mk(n.Name, false))
		}
	}
	return out
}

// c15RecvFields lists, in order of first appearance, the selectors `recv.X` of a method body.
func c15RecvFields(fd *ast.FuncDecl) []string {
	if fd.Recv == nil || len(fd.Recv.List) != 1 || len(fd.Recv.List[0].Names) != 1 || fd.Body == nil {
		return nil
	}
	recv := fd.Recv.List[0].Names[0].Name
	var out []string
	seen := map[string]bool{}
	ast.Inspect(fd.Body, func(x ast.Node) bool {
		if se, isSel := x.(*ast.SelectorExpr); isSel {
			if id, isId := se.X.(*ast.Ident); isId && id.Name == recv && !seen[se.Sel.Name] {
				seen[se.Sel.Name] = true
				out = append(out, se.Sel.Name)
			}
		}
		return true
	})
	return out
}

// c15Defaults finds `if out.F == "" { out.F = c }` statements: (Go field, value).
func c15Defaults(fd *ast.FuncDecl, consts map[string]string, names *c15Intern) string {
	var ds []string
	ast.Inspect(fd.Body, func(x ast.Node) bool {
		is, isIf := x.(*ast.IfStmt)
		if !isIf || is.Init != nil || len(is.Body.List) != 1 {
			return true
		}
		be, isBe := is.Cond.(*ast.BinaryExpr)
		if !isBe || be.Op != token.EQL {
			return true
		}
		sel, isSel := be.X.(*ast.SelectorExpr)
		if v, isStr := c15StrLit(be.Y, consts); !isSel || !isStr || v != "" {
			return true
		}
		as, isAs := is.Body.List[0].(*ast.AssignStmt)
		if !isAs || len(as.Lhs) != 1 || len(as.Rhs) != 1 || exprString(as.Lhs[0]) != exprString(sel) {
			return true
		}
		if v, isStr := c15StrLit(as.Rhs[0], consts); isStr {
			ds = append(ds, fmt.Sprintf("(%d,%s)", names.id(sel.Sel.Name), leanStr(v)))
		}
		return true
	})
	return "[" + strings.Join(ds, ",") + "]"
}

func c15HasCall(fd *ast.FuncDecl, suffix string) bool { return callPos(fd, suffix) != token.NoPos }

func c15MarshalKind(fd *ast.FuncDecl, consts map[string]string, names, pfxs *c15Intern, prefixOf func(string) string) string {
	if fd.Body == nil {
		return ".other"
	}
	hasTypeSwitch := false
	ast.Inspect(fd.Body, func(x ast.Node) bool {
		if _, isTs := x.(*ast.TypeSwitchStmt); isTs {
			hasTypeSwitch = true
		}
		return true
	})
	if hasTypeSwitch {
		if c15HasCall(fd, "EncodeElement") {
			return ".anExpr"
		}
		return ".other"
	}
	if !c15HasCall(fd, "EncodeElement") {
		return ".other"
	}
	if c15HasCall(fd, "PreMarshal") {
		if len(fd.Body.List) == 3 {
			return ".pre"
		}
		return ".other"
	}
	// start.Name = xml.Name{Local: P + start.Name.Local}
	res := ".other"
	ast.Inspect(fd.Body, func(x ast.Node) bool {
		as, isAs := x.(*ast.AssignStmt)
		if !isAs || len(as.Lhs) != 1 || len(as.Rhs) != 1 || exprString(as.Lhs[0]) != "start.Name" {
			return true
		}
		cl, isCl := as.Rhs[0].(*ast.CompositeLit)
		if !isCl || len(cl.Elts) != 1 {
			return true
		}
		kv, isKv := cl.Elts[0].(*ast.KeyValueExpr)
		if !isKv || exprString(kv.Key) != "Local" {
			return true
		}
		be, isBe := kv.Value.(*ast.BinaryExpr)
		if !isBe || be.Op != token.ADD || exprString(be.Y) != "start.Name.Local" {
			return true
		}
		if p, isStr := c15StrLit(be.X, consts); isStr && strings.HasSuffix(p, ":") {
			res = fmt.Sprintf("(.pfx %d %s)", pfxs.id(prefixOf(p)), c15Defaults(fd, consts, names))
		}
		return true
	})
	return res
}

func c15UnmarshalKind(fd *ast.FuncDecl, consts map[string]string, names *c15Intern) string {
	if fd.Body == nil {
		return ".other"
	}
	// AnExpression: chooses between two Default…() values
	if c15HasCall(fd, "DefaultFormalExpression") && c15HasCall(fd, "DefaultExpression") {
		return ".anExpr"
	}
	// alias pattern: a local type declaration + DecodeElement(&out, &start) + *t = T(out)
	hasLocalType := false
	ast.Inspect(fd.Body, func(x ast.Node) bool {
		if ds, isDs := x.(*ast.DeclStmt); isDs {
			if gd, isGd := ds.Decl.(*ast.GenDecl); isGd && gd.Tok == token.TYPE {
				hasLocalType = true
			}
		}
		return true
	})
	if hasLocalType && c15HasCall(fd, "DecodeElement") {
		return fmt.Sprintf("(.alias %s)", c15Defaults(fd, consts, names))
	}
	return ".other"
}
