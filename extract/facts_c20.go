package main

import (
	"go/ast"
	"go/token"
	"strings"
)

func init() { registry = append(registry, factsC20) }

// hasCall: does node n contain a call whose printed callee ends with suffix
func hasCall(n ast.Node, suffix string) bool { return n != nil && callPos(n, suffix) != token.NoPos }

func factsC20() {
	// 1. Is SnoGenerator.New serialised? true iff a `.Lock()` call precedes the call of the embedded
	//    sno generator's New inside (*SnoGenerator).New. Unknown when the draw call cannot be found.
	sf := load("pkg/id/sno.go")
	ser := ""
	if fd := funcDecl(sf, "SnoGenerator", "New"); fd != nil && fd.Body != nil {
		draw := callPos(fd.Body, "Generator.New")
		if draw != token.NoPos {
			lock := callPos(fd.Body, ".Lock")
			ser = boolLit(lock != token.NoPos && lock < draw)
		}
	}
	add("C20", "snoNewSerialised", "Bool", ser,
		"pkg/id/sno.go (*SnoGenerator).New: a Lock() call precedes g.Generator.New(...)")

	// 2. Does RestoreIdGenerator hand the decoded snapshot to sno.NewGenerator?
	rs := ""
	if fd := funcDecl(sf, "Sno", "RestoreIdGenerator"); fd != nil && fd.Body != nil {
		ast.Inspect(fd.Body, func(x ast.Node) bool {
			c, ok := x.(*ast.CallExpr)
			if !ok || !strings.HasSuffix(exprString(c.Fun), "sno.NewGenerator") || len(c.Args) < 1 {
				return true
			}
			id, isId := c.Args[0].(*ast.Ident)
			rs = boolLit(isId && id.Name != "nil" && hasCall(fd.Body, "Unmarshal"))
			return false
		})
	}
	add("C20", "snoRestoreAppliesSnapshot", "Bool", rs,
		"pkg/id/sno.go (*Sno).RestoreIdGenerator: the unmarshalled snapshot is the first argument of sno.NewGenerator")

	// 3. Fallback counter: incremented by one atomic fetch-and-add?
	ff := load("pkg/id/fallback.go")
	at := ""
	if fd := funcDecl(ff, "fallbackGenerator", "New"); fd != nil && fd.Body != nil {
		if hasCall(fd.Body, "atomic.AddUint64") {
			at = "true"
		} else {
			// a plain increment / assignment of the counter field
			ast.Inspect(fd.Body, func(x ast.Node) bool {
				switch v := x.(type) {
				case *ast.IncDecStmt:
					if strings.HasSuffix(exprString(v.X), ".counter") {
						at = "false"
					}
				case *ast.AssignStmt:
					for _, l := range v.Lhs {
						if strings.HasSuffix(exprString(l), ".counter") {
							at = "false"
						}
					}
				}
				return true
			})
		}
	}
	add("C20", "fallbackCounterAtomic", "Bool", at,
		"pkg/id/fallback.go (*fallbackGenerator).New: the counter is advanced by atomic.AddUint64")

	// 4. Fallback prefix: taken from the clock at creation? 5. Does it also carry a per-program serial number
	//    (a package-level counter advanced by an atomic add inside the prefix expression)?
	pf, ps := "", ""
	if fd := funcDecl(ff, "", "NewFallbackGenerator"); fd != nil && fd.Body != nil {
		ast.Inspect(fd.Body, func(x ast.Node) bool {
			kv, ok := x.(*ast.KeyValueExpr)
			if !ok {
				return true
			}
			if id, isId := kv.Key.(*ast.Ident); isId && id.Name == "prefix" {
				pf = boolLit(hasCall(kv.Value, "UnixNano"))
				serial := false
				for _, fn := range []string{"atomic.AddUint64", "atomic.AddUint32", "atomic.AddInt64", "atomic.AddInt32"} {
					serial = serial || hasCall(kv.Value, fn)
				}
				ps = boolLit(serial)
			}
			return true
		})
	}
	add("C20", "fallbackPrefixFromClock", "Bool", pf,
		"pkg/id/fallback.go NewFallbackGenerator: prefix is derived from time.Now().UnixNano()")
	add("C20", "fallbackPrefixSerial", "Bool", ps,
		"pkg/id/fallback.go NewFallbackGenerator: the prefix expression also contains an atomic add on a counter of generators")
}
