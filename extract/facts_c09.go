package main

import (
	"go/ast"
	"go/token"
	"strings"
)

func init() { registry = append(registry, factsC09) }

// factsC09: what the tracer model (lean/Bpmn/Model/Tracer.lean) takes from pkg/tracing/tracer.go.
func factsC09() {
	f := load("pkg/tracing/tracer.go")

	// 1. capacities of the three request channels made in NewTracer (the model: all unbuffered)
	nt := funcDecl(f, "", "NewTracer")
	for _, k := range [][2]string{{"traces", "tracesCap"}, {"subscription", "subscriptionCap"}, {"unSubscription", "unSubscriptionCap"}} {
		v := ""
		if nt != nil {
			v = natOrNone(makeChanCap(nt, k[0]))
		}
		add("C09", k[1], "Nat", v, "pkg/tracing/tracer.go NewTracer: capacity of the `"+k[0]+"` channel")
	}

	// 2. capacity of the channel Subscribe() makes: the make(chan …, n) that is the argument of SubscribeChannel
	{
		v := ""
		if fd := funcDecl(f, "tracer", "Subscribe"); fd != nil && fd.Body != nil {
			ast.Inspect(fd.Body, func(n ast.Node) bool {
				c, ok := n.(*ast.CallExpr)
				if !ok || !strings.HasSuffix(exprString(c.Fun), "SubscribeChannel") || len(c.Args) != 1 {
					return true
				}
				if m, ok := c.Args[0].(*ast.CallExpr); ok {
					if id, ok := m.Fun.(*ast.Ident); ok && id.Name == "make" && len(m.Args) >= 1 {
						if _, isChan := m.Args[0].(*ast.ChanType); isChan {
							if len(m.Args) == 1 {
								v = "0"
							} else {
								v = natOrNone(exprString(m.Args[1]), true)
							}
						}
					}
				}
				return false
			})
		}
		add("C09", "subscribeDefaultCap", "Nat", v, "pkg/tracing/tracer.go (*tracer).Subscribe: capacity of the subscriber channel it makes")
	}

	// 3. the acknowledgement channels: SubscribeChannel's okCh (model: capacity ≥ 1, the broadcaster does not wait
	//    for the client) and Unsubscribe's okChan (model: unbuffered, the broadcaster waits for the client's loop)
	{
		v := ""
		if fd := funcDecl(f, "tracer", "SubscribeChannel"); fd != nil {
			v = natOrNone(makeChanCap(fd, "okCh"))
		}
		add("C09", "subscribeOkCap", "Nat", v, "pkg/tracing/tracer.go (*tracer).SubscribeChannel: capacity of the acknowledgement channel okCh")
		v = ""
		if fd := funcDecl(f, "tracer", "Unsubscribe"); fd != nil {
			v = natOrNone(makeChanCap(fd, "okChan"))
		}
		add("C09", "unsubscribeOkCap", "Nat", v, "pkg/tracing/tracer.go (*tracer).Unsubscribe: capacity of the acknowledgement channel okChan")
	}

	// 4. does the Unsubscribe loop drain its own channel while it offers the request: a select in a for loop with
	//    a receive from the channel parameter next to the send of the request. Unknown when the select is not found.
	{
		v := ""
		if fd := funcDecl(f, "tracer", "Unsubscribe"); fd != nil && fd.Body != nil && len(fd.Type.Params.List) == 1 &&
			len(fd.Type.Params.List[0].Names) == 1 {
			param := fd.Type.Params.List[0].Names[0].Name
			ast.Inspect(fd.Body, func(n ast.Node) bool {
				fs, ok := n.(*ast.ForStmt)
				if !ok {
					return true
				}
				ast.Inspect(fs.Body, func(m ast.Node) bool {
					sel, ok := m.(*ast.SelectStmt)
					if !ok {
						return true
					}
					offers, drains := false, false
					for _, cl := range sel.Body.List {
						cc := cl.(*ast.CommClause)
						switch c := cc.Comm.(type) {
						case *ast.SendStmt:
							if strings.HasSuffix(exprString(c.Chan), "unSubscription") {
								offers = true
							}
						case *ast.ExprStmt:
							if u, ok := c.X.(*ast.UnaryExpr); ok && u.Op == token.ARROW && exprString(u.X) == param {
								drains = true
							}
						case *ast.AssignStmt:
							if len(c.Rhs) == 1 {
								if u, ok := c.Rhs[0].(*ast.UnaryExpr); ok && u.Op == token.ARROW && exprString(u.X) == param {
									drains = true
								}
							}
						}
					}
					if offers {
						v = boolLit(drains)
					}
					return false
				})
				return false
			})
		}
		add("C09", "unsubscribeDrains", "Bool", v,
			"pkg/tracing/tracer.go (*tracer).Unsubscribe: the select that offers the request also receives from the subscriber's own channel")
	}

	// 5. the broadcaster: the `traces` case ranges over t.subscribers and sends to each (in list order, before
	//    returning to the select); the removal copies the last element into the freed position.
	{
		run := funcDecl(f, "tracer", "run")
		bc, sw := "", ""
		if run != nil && run.Body != nil {
			bc, sw = "false", "false"
			ast.Inspect(run.Body, func(n ast.Node) bool {
				switch x := n.(type) {
				case *ast.CommClause:
					isTraces := false
					if a, ok := x.Comm.(*ast.AssignStmt); ok && len(a.Rhs) == 1 {
						if u, ok := a.Rhs[0].(*ast.UnaryExpr); ok && u.Op == token.ARROW && strings.HasSuffix(exprString(u.X), ".traces") {
							isTraces = true
						}
					}
					if isTraces {
						for _, st := range x.Body {
							if rs, ok := st.(*ast.RangeStmt); ok && strings.HasSuffix(exprString(rs.X), ".subscribers") && rs.Value != nil {
								val := exprString(rs.Value)
								all := len(rs.Body.List) > 0
								for _, b := range rs.Body.List {
									s, ok := b.(*ast.SendStmt)
									if !ok || exprString(s.Chan) != val {
										all = false
									}
								}
								if all {
									bc = "true"
								}
							}
						}
					}
				case *ast.AssignStmt:
					if len(x.Lhs) == 1 && len(x.Rhs) == 1 {
						l, lok := x.Lhs[0].(*ast.IndexExpr)
						r, rok := x.Rhs[0].(*ast.IndexExpr)
						if lok && rok && strings.HasSuffix(exprString(l.X), ".subscribers") && strings.HasSuffix(exprString(r.X), ".subscribers") &&
							exprString(l.Index) != exprString(r.Index) {
							sw = "true"
						}
					}
				}
				return true
			})
		}
		add("C09", "broadcastInListOrder", "Bool", bc,
			"pkg/tracing/tracer.go (*tracer).run: the case that receives from t.traces ranges over t.subscribers and sends the trace to each")
		add("C09", "removalSwapsWithLast", "Bool", sw,
			"pkg/tracing/tracer.go (*tracer).run: removal assigns t.subscribers[pos] = t.subscribers[l] before truncating")
	}

	// 6. the sub-process relay (subprocess.go run): is the inner tracer subscribed BEFORE the inner flows are started?
	//    Positions of the calls `….subTracer.Subscribe()` and `sp.startAll(…)` inside (*subProcess).run.
	{
		sf := load("subprocess.go")
		v := ""
		if fd := funcDecl(sf, "subProcess", "run"); fd != nil && fd.Body != nil {
			sub := callPos(fd.Body, "subTracer.Subscribe")
			st := callPos(fd.Body, ".startAll")
			if sub != token.NoPos && st != token.NoPos {
				v = boolLit(sub < st)
			}
		}
		add("C09", "relaySubscribesBeforeStart", "Bool", v,
			"subprocess.go (*subProcess).run: sp.subTracer.Subscribe() is called before sp.startAll(ctx)")
	}
}
