package main

import (
	"go/ast"
	"go/token"
	"strings"
)

func init() { registry = append(registry, factsC02) }

// factsC02: the four facts the completion model (lean/Bpmn/Model/Completion.lean `Params`) is parametric in.
//
//	subscribeBeforeTrigger  the completion monitor (Subscribe + complete.Lock, both done synchronously by the call
//	                        `ceaseFlowMonitor(...)`) is created before the start event is triggered
//	monitorPerStartWith     the monitor is created by every StartWith, so StartAll creates one monitor per start event
//	                        (monitorsPerStartAll = number of start events); false = once per instance (= 1)
//	waitSignalCap           capacity of `signal` in WaitUntilComplete
//	subscribeBufCap         capacity of the channel made by tracer.Subscribe()
func factsC02() {
	pf := load("process.go")
	sw := funcDecl(pf, "Process", "StartWith")
	sa := funcDecl(pf, "Process", "StartAll")

	// the `case *startEvent:` clause of StartWith (fall back to the whole body)
	var clause ast.Node
	if sw != nil && sw.Body != nil {
		ast.Inspect(sw.Body, func(n ast.Node) bool {
			cc, ok := n.(*ast.CaseClause)
			if !ok || clause != nil {
				return true
			}
			for _, e := range cc.List {
				if strings.HasSuffix(exprString(e), "startEvent") {
					clause = cc
				}
			}
			return true
		})
		if clause == nil {
			clause = sw.Body
		}
	}

	before, perStart := "", ""
	inStartWith := clause != nil && callPos(clause, "ceaseFlowMonitor") != token.NoPos
	inStartAll := sa != nil && sa.Body != nil && callPos(sa.Body, "ceaseFlowMonitor") != token.NoPos
	switch {
	case inStartWith && !inStartAll:
		mon := callPos(clause, "ceaseFlowMonitor")
		trig := callPos(clause, ".Trigger")
		if trig != token.NoPos {
			before = boolLit(mon < trig)
		}
		// once per instance when the call sits inside the function literal handed to a `….Do(` call (sync.Once)
		once := false
		ast.Inspect(clause, func(n ast.Node) bool {
			c, ok := n.(*ast.CallExpr)
			if !ok || !strings.HasSuffix(exprString(c.Fun), ".Do") {
				return true
			}
			for _, a := range c.Args {
				if fl, isLit := a.(*ast.FuncLit); isLit && callPos(fl, "ceaseFlowMonitor") != token.NoPos {
					once = true
				}
			}
			return true
		})
		perStart = boolLit(!once)
	case inStartAll && !inStartWith:
		mon := callPos(sa.Body, "ceaseFlowMonitor")
		// must not sit inside the loop over the start events
		inLoop := false
		ast.Inspect(sa.Body, func(n ast.Node) bool {
			switch l := n.(type) {
			case *ast.RangeStmt:
				if callPos(l.Body, "ceaseFlowMonitor") != token.NoPos {
					inLoop = true
				}
			case *ast.ForStmt:
				if callPos(l.Body, "ceaseFlowMonitor") != token.NoPos {
					inLoop = true
				}
			}
			return true
		})
		start := callPos(sa.Body, "StartWith")
		if start != token.NoPos {
			before = boolLit(mon < start)
			perStart = boolLit(inLoop)
		}
	}
	add("C02", "subscribeBeforeTrigger", "Bool", before,
		"process.go StartWith/StartAll: the call ceaseFlowMonitor(...) (Subscribe + complete.Lock) is positioned before eventNode.Trigger(ctx)")
	add("C02", "monitorPerStartWith", "Bool", perStart,
		"process.go: the monitor is created by every StartWith (monitorsPerStartAll = number of start events) / once per instance (= 1)")

	wc := ""
	if fd := funcDecl(pf, "Process", "WaitUntilComplete"); fd != nil {
		wc = natOrNone(makeChanCap(fd, "signal"))
	}
	add("C02", "waitSignalCap", "Nat", wc, "process.go WaitUntilComplete: capacity of `signal := make(chan bool[, n])`")

	sc := ""
	if fd := funcDecl(load("pkg/tracing/tracer.go"), "tracer", "Subscribe"); fd != nil && fd.Body != nil {
		found := 0
		ast.Inspect(fd.Body, func(n ast.Node) bool {
			c, ok := n.(*ast.CallExpr)
			if !ok {
				return true
			}
			if id, isId := c.Fun.(*ast.Ident); isId && id.Name == "make" && len(c.Args) >= 1 {
				if _, isChan := c.Args[0].(*ast.ChanType); isChan {
					found++
					if len(c.Args) == 1 {
						sc = "0"
					} else {
						sc = natOrNone(exprString(c.Args[1]), true)
					}
				}
			}
			return true
		})
		if found != 1 {
			sc = ""
		}
	}
	add("C02", "subscribeBufCap", "Nat", sc, "pkg/tracing/tracer.go (*tracer).Subscribe: capacity of the subscriber channel")

	// boundaryEndTraceDetached: in activity.go (*harness).run the goroutine that forwards the activity's answer to the
	// token (`out <- rsp`) sends ActiveBoundaryTrace{Start: false} AFTER the forward (true: the token may run ahead of
	// that trace, up to and beyond the cease-flow trace) or BEFORE it (false).
	det := ""
	if fd := funcDecl(load("activity.go"), "harness", "run"); fd != nil && fd.Body != nil {
		var fwd, tr token.Pos
		ast.Inspect(fd.Body, func(n ast.Node) bool {
			switch x := n.(type) {
			case *ast.SendStmt:
				if exprString(x.Chan) == "out" && fwd == token.NoPos {
					fwd = x.Pos()
				}
			case *ast.CallExpr:
				if !strings.HasSuffix(exprString(x.Fun), ".Send") || len(x.Args) != 1 {
					return true
				}
				cl, ok := x.Args[0].(*ast.CompositeLit)
				if !ok || !strings.HasSuffix(exprString(cl.Type), "ActiveBoundaryTrace") {
					return true
				}
				for _, el := range cl.Elts {
					if kv, isKV := el.(*ast.KeyValueExpr); isKV && exprString(kv.Key) == "Start" && exprString(kv.Value) == "false" {
						tr = x.Pos()
					}
				}
			}
			return true
		})
		if fwd != token.NoPos && tr != token.NoPos {
			det = boolLit(tr > fwd)
		}
	}
	add("C02", "boundaryEndTraceDetached", "Bool", det,
		"activity.go (*harness).run: ActiveBoundaryTrace{Start:false} is sent after the answer was forwarded to the token (`out <- rsp`)")
}
