package main

import (
	"go/ast"
	"go/token"
)

// extractAll lists every fact; each is documented where it is produced.
func extractAll() {
	for _, f := range registry {
		f()
	}
}

// registry: each facts_cXX.go appends its extractor in init()
var registry []func()

func init() { registry = append(registry, factsC14) }

// constIntValue finds `const name = <int literal or -literal>` at file level.
func constIntValue(f *ast.File, name string) (string, bool) {
	if f == nil {
		return "", false
	}
	for _, d := range f.Decls {
		gd, ok := d.(*ast.GenDecl)
		if !ok || gd.Tok != token.CONST {
			continue
		}
		for _, s := range gd.Specs {
			vs := s.(*ast.ValueSpec)
			for i, n := range vs.Names {
				if n.Name == name && i < len(vs.Values) {
					return exprString(vs.Values[i]), true
				}
			}
		}
	}
	return "", false
}

func factsC14() {
	f := load("pkg/logic/catch_event.go")
	v, ok := constIntValue(f, "EventDidNotMatch")
	if !ok {
		v = ""
	}
	add("C14", "eventDidNotMatch", "Int", v, "pkg/logic.EventDidNotMatch")
}
