package main

import (
	"go/ast"
	"go/token"
)

func init() { registry = append(registry, factsC12) }

// factsC12: how an activation of an embedded sub-process (subprocess.go (*subProcess).run, the goroutine started for a
// nextActionMessage) orders its three start-up steps. The inner instance runs the completion protocol of C02 on the
// inner tracer, so the same two orders matter as in Process.StartWith:
//
//	subMonitorBeforeStart   the call ceaseFlowMonitor(...) (Subscribe + complete.Lock, done synchronously) is positioned
//	                        before sp.startAll(ctx): the monitor cannot miss the inner start event's FlowTrace
//	subRelayBeforeStart     the relay's sp.subTracer.Subscribe() is positioned before sp.startAll(ctx): the parent sees
//	                        every inner trace (task requests included)
func factsC12() {
	f := load("subprocess.go")
	run := funcDecl(f, "subProcess", "run")
	mon, relay := "", ""
	if run != nil && run.Body != nil {
		// the innermost function literal that contains the startAll call is the activation goroutine
		var act ast.Node
		ast.Inspect(run.Body, func(n ast.Node) bool {
			if fl, ok := n.(*ast.FuncLit); ok && callPos(fl, ".startAll") != token.NoPos {
				act = fl
			}
			return true
		})
		if act == nil && callPos(run.Body, ".startAll") != token.NoPos {
			act = run.Body
		}
		if act != nil {
			start := callPos(act, ".startAll")
			if m := callPos(act, "ceaseFlowMonitor"); m != token.NoPos {
				mon = boolLit(m < start)
			}
			if s := callPos(act, "subTracer.Subscribe"); s != token.NoPos {
				relay = boolLit(s < start)
			}
		}
	}
	add("C12", "subMonitorBeforeStart", "Bool", mon,
		"subprocess.go run (activation goroutine): ceaseFlowMonitor(...) is positioned before sp.startAll(ctx)")
	add("C12", "subRelayBeforeStart", "Bool", relay,
		"subprocess.go run (activation goroutine): sp.subTracer.Subscribe() of the relay is positioned before sp.startAll(ctx)")
}
