package main

import (
	"go/ast"
	"go/token"
)

func init() { registry = append(registry, factsC12) }

// factsC12: how an activation of an embedded sub-process (subprocess.go (*subProcess).run, the goroutine started for a
// nextActionMessage) orders its three start-up steps. The inner instance runs the completion protocol of C02 on the
// inner tracer, so the same two orders matter as in Process.StartWith:
//
//	subMonitorBeforeStart   the call ceaseFlowMonitor(...) (Subscribe + complete.Lock, done synchronously) is positioned
//	                        before sp.startAll(ctx): the monitor cannot miss the inner start event's FlowTrace
//	subActivationsTakeTurns the activation goroutine locks a mutex of the node before its relay subscribes and unlocks it in a
//	                        deferred call: the inner nodes, tracer and wait group exist once per node, activations are
//	                        serialised (the engine model's `nextTurn`)
//	subRelayBeforeStart     the relay's sp.subTracer.Subscribe() is positioned before sp.startAll(ctx): the parent sees
//	                        every inner trace (task requests included)
func factsC12() {
	f := load("subprocess.go")
	run := funcDecl(f, "subProcess", "run")
	mon, relay, turns := "", "", ""
	if run != nil && run.Body != nil {
		// the innermost function literal that contains the startAll call is the activation goroutine
		var act ast.Node
		ast.Inspect(run.Body, func(n ast.Node) bool {
			if fl, ok := n.(*ast.FuncLit); ok && callPos(fl, ".startAll") != token.NoPos {
				act = fl
			}
			return true
		})
		if act == nil && callPos(run.Body, ".startAll") != token.NoPos {
			act = run.Body
		}
		if act != nil {
			start := callPos(act, ".startAll")
			if m := callPos(act, "ceaseFlowMonitor"); m != token.NoPos {
				mon = boolLit(m < start)
			}
			if s := callPos(act, "subTracer.Subscribe"); s != token.NoPos {
				relay = boolLit(s < start)
				// activations take turns: some sp.<mutex>.Lock() is positioned before the relay subscribes, and the same
				// mutex is unlocked by a deferred call of the activation goroutine
				turns = "false"
				ast.Inspect(act, func(n ast.Node) bool {
					c, ok := n.(*ast.CallExpr)
					if !ok || c.Pos() >= s {
						return true
					}
					fn := exprString(c.Fun)
					if len(fn) > 5 && fn[len(fn)-5:] == ".Lock" {
						mu := fn[:len(fn)-5]
						unlocked := false
						ast.Inspect(act, func(m ast.Node) bool {
							if d, ok := m.(*ast.DeferStmt); ok && exprString(d.Call.Fun) == mu+".Unlock" {
								unlocked = true
							}
							return true
						})
						if unlocked {
							turns = "true"
						}
					}
					return true
				})
			}
		}
	}
	add("C12", "subMonitorBeforeStart", "Bool", mon,
		"subprocess.go run (activation goroutine): ceaseFlowMonitor(...) is positioned before sp.startAll(ctx)")
	add("C12", "subActivationsTakeTurns", "Bool", turns,
		"subprocess.go run (activation goroutine): a mutex of the node is locked before the relay subscribes to the inner tracer and released by a deferred call — two tokens in one sub-process node never share an activation (D43)")
	add("C12", "subRelayBeforeStart", "Bool", relay,
		"subprocess.go run (activation goroutine): sp.subTracer.Subscribe() of the relay is positioned before sp.startAll(ctx)")
}
