package main

import (
	"fmt"
	"go/ast"
	"go/token"
	"strings"
)

func init() { registry = append(registry, factsC03) }

// factsC03 TRANSLATES gateway.go `distributeFlows` into a Lean definition (not a fact read off the source: the function
// itself, statement by statement). The function hands every waiting token `awaitingActions[i]` either `completeAction{}`
// or `flowAction{sequenceFlows: sequenceFlows[lo:hi], unconditionalFlows: indices[0:n]}`; the body of its `for i, action :=
// range awaitingActions` loop becomes
//
//	def replyGen (a s i : Nat) : Reply        -- a = len(awaitingActions), s = len(sequenceFlows)
//	def uncondGen (a s i : Nat) : Option Nat  -- the number of flows marked unconditional, when a flowAction is sent
//
// Supported Go (anything else makes the translation `none` and the Lean obligation `Props/C03Current.reply_is_source` fail):
// `x := e`, `x = e` inside `if c { … }` without else (a conditional re-assignment), `if c { …; continue }` followed by the
// rest, `if c { … } else { … }` whose branches
// end in one send `action <- completeAction{}` / `action <- flowAction{…}`; expressions over `i`, local variables, integer
// literals, `len(awaitingActions)`, `len(sequenceFlows)` with + - , the comparisons == != < <= > >= and ! && ||; slices `x[lo:hi]`.
func factsC03() {
	f := load("gateway.go")
	fd := funcDecl(f, "", "distributeFlows")
	reply, uncond := "", ""
	if fd != nil && fd.Body != nil {
		reply, uncond = translateDistribute(fd)
	}
	var sb strings.Builder
	sb.WriteString("\n/-- gateway.go `distributeFlows`, the body of its loop over the waiting tokens, translated statement by statement\n")
	sb.WriteString("(a = len(awaitingActions), s = len(sequenceFlows), i = the loop index) -/\n")
	if reply == "" {
		sb.WriteString("def replyGen : Option (Nat → Nat → Nat → Bpmn.Model.Gateway.Reply) := none\n")
		sb.WriteString("def uncondGen : Option (Nat → Nat → Nat → Option Nat) := none\n")
	} else {
		sb.WriteString("def replyGen : Option (Nat → Nat → Nat → Bpmn.Model.Gateway.Reply) := some (fun a s i =>\n" + reply + ")\n")
		sb.WriteString("def uncondGen : Option (Nat → Nat → Nat → Option Nat) := some (fun a s i =>\n" + uncond + ")\n")
	}
	addRaw("C03", []string{"Bpmn.Model.Gateway"}, sb.String())
	v := "false"
	if reply != "" {
		v = "true"
	}
	add("C03", "distributeTranslated", "Bool", v, "gateway.go distributeFlows could be translated")
}

type c03tr struct {
	ok     bool
	idxVar string // the loop index
	actVar string // the loop's channel variable
	slice  string // name of the flows parameter
	wait   string // name of the waiting-actions parameter
	idcs   string // name of the local index table (unconditionalFlows is a slice of it)
}

func (t *c03tr) expr(e ast.Expr) string {
	switch x := e.(type) {
	case *ast.Ident:
		if x.Name == t.idxVar {
			return "i"
		}
		return "v_" + x.Name
	case *ast.BasicLit:
		if x.Kind == token.INT {
			return x.Value
		}
	case *ast.ParenExpr:
		return "(" + t.expr(x.X) + ")"
	case *ast.CallExpr:
		if id, ok := x.Fun.(*ast.Ident); ok && id.Name == "len" && len(x.Args) == 1 {
			if a, ok := x.Args[0].(*ast.Ident); ok {
				if a.Name == t.wait {
					return "a"
				}
				if a.Name == t.slice {
					return "s"
				}
			}
		}
	case *ast.UnaryExpr:
		if x.Op == token.NOT {
			return "(!" + t.expr(x.X) + ")"
		}
	case *ast.BinaryExpr:
		l, r := t.expr(x.X), t.expr(x.Y)
		switch x.Op {
		case token.LOR:
			return "(" + l + " || " + r + ")"
		case token.LAND:
			return "(" + l + " && " + r + ")"
		case token.ADD:
			return "(" + l + " + " + r + ")"
		case token.SUB:
			return "(" + l + " - " + r + ")"
		case token.EQL:
			return "(" + l + " == " + r + ")"
		case token.NEQ:
			return "(" + l + " != " + r + ")"
		case token.LSS:
			return "decide (" + l + " < " + r + ")"
		case token.LEQ:
			return "decide (" + l + " ≤ " + r + ")"
		case token.GTR:
			return "decide (" + l + " > " + r + ")"
		case token.GEQ:
			return "decide (" + l + " ≥ " + r + ")"
		}
	}
	t.ok = false
	return "0"
}

// stmts translates a statement list into (reply term, unconditional-count term); `rest` is what follows.
func (t *c03tr) stmts(ss []ast.Stmt, ind string) (string, string) {
	if len(ss) == 0 {
		t.ok = false
		return ".complete", "none"
	}
	switch s := ss[0].(type) {
	case *ast.AssignStmt:
		if len(s.Lhs) == 1 && len(s.Rhs) == 1 {
			if id, ok := s.Lhs[0].(*ast.Ident); ok && (s.Tok == token.DEFINE || s.Tok == token.ASSIGN) {
				r1, r2 := t.stmts(ss[1:], ind)
				let := ind + "let v_" + id.Name + " := " + t.expr(s.Rhs[0]) + "\n"
				return let + r1, let + r2
			}
		}
	case *ast.SendStmt:
		// a send ends the iteration: it is the last statement, or it is followed by `continue` alone
		last := len(ss) == 1
		if len(ss) == 2 {
			if br, ok := ss[1].(*ast.BranchStmt); ok && br.Tok == token.CONTINUE && br.Label == nil {
				last = true
			}
		}
		if ch, ok := s.Chan.(*ast.Ident); ok && ch.Name == t.actVar && last {
			if cl, ok := s.Value.(*ast.CompositeLit); ok {
				if id, ok := cl.Type.(*ast.Ident); ok {
					if id.Name == "completeAction" && len(cl.Elts) == 0 {
						return ind + ".complete", ind + "none"
					}
					if id.Name == "flowAction" {
						lo, hi, n := "", "", ""
						for _, el := range cl.Elts {
							kv, ok := el.(*ast.KeyValueExpr)
							if !ok {
								t.ok = false
								continue
							}
							k, _ := kv.Key.(*ast.Ident)
							sl, isSlice := kv.Value.(*ast.SliceExpr)
							if k == nil || !isSlice || sl.Slice3 {
								t.ok = false
								continue
							}
							base, _ := sl.X.(*ast.Ident)
							low := "0"
							if sl.Low != nil {
								low = t.expr(sl.Low)
							}
							if sl.High == nil || base == nil {
								t.ok = false
								continue
							}
							high := t.expr(sl.High)
							switch {
							case k.Name == "sequenceFlows" && base.Name == t.slice:
								lo, hi = low, high
							case k.Name == "unconditionalFlows" && base.Name == t.idcs && low == "0":
								n = high
							default:
								t.ok = false
							}
						}
						if lo == "" || n == "" {
							t.ok = false
						}
						return ind + ".flows " + lo + " " + hi, ind + "some " + n
					}
				}
			}
		}
	case *ast.IfStmt:
		if s.Init == nil {
			c := t.expr(s.Cond)
			if s.Else == nil && len(s.Body.List) >= 2 {
				// `if c { …; send; continue }` followed by the rest of the iteration = if c { … send } else { rest }
				if br, ok := s.Body.List[len(s.Body.List)-1].(*ast.BranchStmt); ok && br.Tok == token.CONTINUE && br.Label == nil {
					a1, a2 := t.stmts(s.Body.List, ind+"  ")
					b1, b2 := t.stmts(ss[1:], ind+"  ")
					return ind + "if " + c + " then\n" + a1 + "\n" + ind + "else\n" + b1,
						ind + "if " + c + " then\n" + a2 + "\n" + ind + "else\n" + b2
				}
			}
			if s.Else == nil {
				// a conditional re-assignment of one variable, then the rest
				if len(s.Body.List) == 1 {
					if as, ok := s.Body.List[0].(*ast.AssignStmt); ok && as.Tok == token.ASSIGN && len(as.Lhs) == 1 && len(as.Rhs) == 1 {
						if id, ok := as.Lhs[0].(*ast.Ident); ok {
							r1, r2 := t.stmts(ss[1:], ind)
							let := ind + "let v_" + id.Name + " := if " + c + " then " + t.expr(as.Rhs[0]) + " else v_" + id.Name + "\n"
							return let + r1, let + r2
						}
					}
				}
			} else if eb, ok := s.Else.(*ast.BlockStmt); ok && len(ss) == 1 {
				a1, a2 := t.stmts(s.Body.List, ind+"  ")
				b1, b2 := t.stmts(eb.List, ind+"  ")
				return ind + "if " + c + " then\n" + a1 + "\n" + ind + "else\n" + b1,
					ind + "if " + c + " then\n" + a2 + "\n" + ind + "else\n" + b2
			}
		}
	}
	t.ok = false
	return ind + ".complete", ind + "none"
}

func translateDistribute(fd *ast.FuncDecl) (string, string) {
	t := &c03tr{ok: true}
	ps := fd.Type.Params.List
	var names []string
	for _, p := range ps {
		for _, n := range p.Names {
			names = append(names, n.Name)
		}
	}
	if len(names) != 2 {
		return "", ""
	}
	t.wait, t.slice = names[0], names[1]
	// the index table: `x := make([]int, len(flows))` followed by `for i := range x { x[i] = i }`
	var loop *ast.RangeStmt
	for _, s := range fd.Body.List {
		switch x := s.(type) {
		case *ast.AssignStmt:
			if len(x.Lhs) == 1 && len(x.Rhs) == 1 && exprString(x.Rhs[0]) == fmt.Sprintf("make([]int,len(%s))", t.slice) {
				if id, ok := x.Lhs[0].(*ast.Ident); ok {
					t.idcs = id.Name
				}
			}
		case *ast.RangeStmt:
			if exprString(x.X) == t.wait {
				loop = x
			} else if t.idcs != "" && exprString(x.X) == t.idcs {
				// must be the identity table
				k, _ := x.Key.(*ast.Ident)
				if k == nil || len(x.Body.List) != 1 || exprString(x.Body.List[0].(*ast.AssignStmt).Lhs[0]) != t.idcs+"["+k.Name+"]" ||
					exprString(x.Body.List[0].(*ast.AssignStmt).Rhs[0]) != k.Name {
					return "", ""
				}
			} else {
				return "", ""
			}
		default:
			return "", ""
		}
	}
	if loop == nil || t.idcs == "" {
		return "", ""
	}
	k, _ := loop.Key.(*ast.Ident)
	v, _ := loop.Value.(*ast.Ident)
	if k == nil || v == nil {
		return "", ""
	}
	t.idxVar, t.actVar = k.Name, v.Name
	r1, r2 := t.stmts(loop.Body.List, "  ")
	if !t.ok {
		return "", ""
	}
	return r1, r2
}
