package main

import (
	"go/ast"
	"go/token"
	"strconv"
	"strings"
)

func init() { registry = append(registry, factsC16) }

// reflect.Kind numbering (stable part of the reflect API)
var c16kindNum = map[string]int{"Invalid": 0, "Bool": 1, "Int": 2, "Int8": 3, "Int16": 4, "Int32": 5, "Int64": 6, "Uint": 7,
	"Uint8": 8, "Uint16": 9, "Uint32": 10, "Uint64": 11, "Uintptr": 12, "Float32": 13, "Float64": 14, "Complex64": 15,
	"Complex128": 16, "Array": 17, "Chan": 18, "Func": 19, "Interface": 20, "Map": 21, "Pointer": 22, "Ptr": 22, "Slice": 23,
	"String": 24, "Struct": 25, "UnsafePointer": 26}

var c16typeKind = map[string]int{"int": 2, "int8": 3, "int16": 4, "int32": 5, "int64": 6, "uint": 7, "uint8": 8, "uint16": 9,
	"uint32": 10, "uint64": 11, "uintptr": 12, "byte": 8, "rune": 5}

// accessor numbering shared with lean/Bpmn/Driver/C16.lean and Props/C16Current.lean
const (
	c16accInt = 1 + iota
	c16accUint
	c16accFloat
	c16accBool
	c16accString
	c16accMarshalArray
	c16accMarshalObject
)

// c16clause returns the case clause of `switch iv.ItemType` whose list contains name ("" = default).
func c16clause(sw *ast.SwitchStmt, name string) *ast.CaseClause {
	for _, s := range sw.Body.List {
		cc := s.(*ast.CaseClause)
		if name == "" && cc.List == nil {
			return cc
		}
		for _, e := range cc.List {
			if exprString(e) == name {
				return cc
			}
		}
	}
	return nil
}

func c16calls(n ast.Node, suffix string) (res []*ast.CallExpr) {
	ast.Inspect(n, func(x ast.Node) bool {
		if c, ok := x.(*ast.CallExpr); ok && strings.HasSuffix(exprString(c.Fun), suffix) {
			res = append(res, c)
		}
		return true
	})
	return
}

func c16terminates(b *ast.BlockStmt) bool {
	if b == nil || len(b.List) == 0 {
		return false
	}
	switch s := b.List[len(b.List)-1].(type) {
	case *ast.ReturnStmt:
		return true
	case *ast.BranchStmt:
		return s.Tok == token.BREAK
	}
	return false
}

// c16nilGuarded: is the first `.Kind()` call on reflect.TypeOf(value) inside clause protected against a nil
// `value` — by an earlier `if value == nil { return }` (in the clause or before the switch) or by an enclosing
// `if value != nil` / `if rt != nil`.
func c16nilGuarded(fn *ast.FuncDecl, sw *ast.SwitchStmt, cc *ast.CaseClause) (bool, bool) {
	kinds := c16calls(cc, ".Kind")
	if len(kinds) == 0 {
		return false, false
	}
	kp := kinds[0].Pos()
	guarded := false
	isNilTest := func(e ast.Expr, op string) bool {
		s := exprString(e)
		for _, id := range []string{"value", "rt"} {
			if strings.Contains(s, id+op+"nil") {
				return true
			}
		}
		return false
	}
	check := func(n ast.Node, limitTop bool) {
		ast.Inspect(n, func(x ast.Node) bool {
			if limitTop {
				if _, isSw := x.(*ast.SwitchStmt); isSw {
					return false
				}
			}
			ifs, ok := x.(*ast.IfStmt)
			if !ok {
				return true
			}
			if ifs.Pos() < kp && isNilTest(ifs.Cond, "==") && c16terminates(ifs.Body) && ifs.End() < kp {
				guarded = true
			}
			if isNilTest(ifs.Cond, "!=") && ifs.Body.Pos() < kp && kp < ifs.Body.End() {
				guarded = true
			}
			return true
		})
	}
	check(cc, false)
	// statements of the function body before the item-type switch
	for _, s := range fn.Body.List {
		if s.Pos() >= sw.Pos() {
			break
		}
		check(s, true)
	}
	return guarded, true
}

func factsC16() {
	f := load("schema/schema_item.go")
	fn := funcDecl(f, "Value", "ValueFrom")
	unknownAll := func() {
		add("C16", "inferredSwitch", "(List (Nat × Nat))", "", "kind switch of the inferred branch of ValueFrom: (reflect.Kind, accessor)")
		add("C16", "declaredIntKinds", "(List Nat)", "", "kinds listed in the type switch of the ItemTypeInteger branch")
		add("C16", "declaredFloatSixDecimals", "Bool", "", "ItemTypeFloat branch prints with %f")
		add("C16", "declaredFloatWidened", "Bool", "", "ItemTypeFloat branch prints the value widened to float64")
		add("C16", "nilGuardArray", "Bool", "", "ItemTypeArray branch protected against value == nil")
		add("C16", "nilGuardObject", "Bool", "", "ItemTypeObject branch protected against value == nil")
		add("C16", "nilGuardValuePtr", "Bool", "", "the *Value shortcut checks the pointer for nil")
	}
	if fn == nil || fn.Body == nil {
		unknownAll()
		return
	}
	var sw *ast.SwitchStmt
	for _, s := range fn.Body.List {
		if x, ok := s.(*ast.SwitchStmt); ok && x.Tag != nil && exprString(x.Tag) == "iv.ItemType" {
			sw = x
		}
	}
	if sw == nil {
		unknownAll()
		return
	}

	// --- inferred kind switch
	inferred := ""
	if def := c16clause(sw, ""); def != nil {
		var ks *ast.SwitchStmt
		ast.Inspect(def, func(x ast.Node) bool {
			if s, ok := x.(*ast.SwitchStmt); ok && s.Tag != nil && strings.HasSuffix(exprString(s.Tag), ".Kind()") && ks == nil {
				ks = s
			}
			return true
		})
		if ks != nil {
			var parts []string
			ok := true
			for _, s := range ks.Body.List {
				cc := s.(*ast.CaseClause)
				if cc.List == nil {
					if len(cc.Body) != 0 {
						ok = false // a non-empty default: the model does not follow it
					}
					continue
				}
				acc := 0
				n := 0
				for name, a := range map[string]int{".Int": c16accInt, ".Uint": c16accUint, ".Float": c16accFloat, ".Bool": c16accBool, ".String": c16accString} {
					for _, c := range c16calls(cc, name) {
						if len(c.Args) == 0 && strings.HasPrefix(exprString(c.Fun), "rv.") {
							acc = a
							n++
						}
					}
				}
				if len(c16calls(cc, "json.Marshal")) > 0 {
					body := ""
					for _, b := range cc.Body {
						if as, isAs := b.(*ast.AssignStmt); isAs && len(as.Lhs) == 1 && exprString(as.Lhs[0]) == "iv.ItemType" {
							body = exprString(as.Rhs[0])
						}
					}
					switch body {
					case "ItemTypeArray":
						acc = c16accMarshalArray
						n++
					case "ItemTypeObject":
						acc = c16accMarshalObject
						n++
					}
				}
				if n != 1 {
					ok = false
					continue
				}
				for _, e := range cc.List {
					name := strings.TrimPrefix(exprString(e), "reflect.")
					k, known := c16kindNum[name]
					if !known {
						ok = false
						continue
					}
					parts = append(parts, "("+strconv.Itoa(k)+", "+strconv.Itoa(acc)+")")
				}
			}
			if ok {
				inferred = "[" + strings.Join(parts, ", ") + "]"
			}
		}
	}
	add("C16", "inferredSwitch", "(List (Nat × Nat))", inferred, "kind switch of the inferred branch of ValueFrom: (reflect.Kind, accessor) with accessor 1=rv.Int 2=rv.Uint 3=rv.Float 4=rv.Bool 5=rv.String 6=json.Marshal as array 7=json.Marshal as object")

	// --- declared integer: kinds of the type switch
	declInt := ""
	if cc := c16clause(sw, "ItemTypeInteger"); cc != nil {
		ast.Inspect(cc, func(x ast.Node) bool {
			ts, ok := x.(*ast.TypeSwitchStmt)
			if !ok || declInt != "" {
				return true
			}
			for _, s := range ts.Body.List {
				tc := s.(*ast.CaseClause)
				var parts []string
				for _, e := range tc.List {
					if k, known := c16typeKind[exprString(e)]; known {
						parts = append(parts, strconv.Itoa(k))
					}
				}
				if len(parts) > 0 && len(c16calls(tc, "Sprintf")) > 0 {
					declInt = "[" + strings.Join(parts, ", ") + "]"
				}
			}
			return true
		})
	}
	add("C16", "declaredIntKinds", "(List Nat)", declInt, "kinds listed in the type switch of the ItemTypeInteger branch")

	// --- declared float: format verb and widening
	six, wide := "", ""
	if cc := c16clause(sw, "ItemTypeFloat"); cc != nil {
		ast.Inspect(cc, func(x ast.Node) bool {
			ts, ok := x.(*ast.TypeSwitchStmt)
			if !ok {
				return true
			}
			verb := map[string]string{}
			wid := map[string]bool{}
			for _, s := range ts.Body.List {
				tc := s.(*ast.CaseClause)
				var tys []string
				for _, e := range tc.List {
					if n := exprString(e); n == "float64" || n == "float32" {
						tys = append(tys, n)
					}
				}
				if len(tys) == 0 {
					continue
				}
				v, w := "?", false
				if cs := c16calls(tc, "Sprintf"); len(cs) == 1 && len(cs[0].Args) == 2 {
					if lit, isLit := cs[0].Args[0].(*ast.BasicLit); isLit {
						v, _ = strconv.Unquote(lit.Value)
					}
					arg := exprString(cs[0].Args[1])
					w = strings.HasPrefix(arg, "float64(") || strings.HasSuffix(arg, ".Float()")
				} else if cs := c16calls(tc, "FormatFloat"); len(cs) == 1 && len(cs[0].Args) == 4 {
					fm, pr, bs := exprString(cs[0].Args[1]), exprString(cs[0].Args[2]), exprString(cs[0].Args[3])
					arg := exprString(cs[0].Args[0])
					w = bs == "64" && (strings.HasPrefix(arg, "float64(") || strings.HasSuffix(arg, ".Float()"))
					switch {
					case fm == "'g'" && pr == "-1":
						v = "%v"
					case fm == "'f'" && pr == "6":
						v = "%f"
					}
				}
				for _, t := range tys {
					verb[t] = v
					wid[t] = w || (t == "float64" && len(tys) == 1)
				}
			}
			v64, has64 := verb["float64"]
			v32, has32 := verb["float32"]
			if has64 && has32 && v64 == v32 && (v64 == "%f" || v64 == "%v" || v64 == "%g") {
				six = boolLit(v64 == "%f")
				wide = boolLit(wid["float32"])
			}
			return true
		})
	}
	add("C16", "declaredFloatSixDecimals", "Bool", six, "ItemTypeFloat branch prints float32/float64 with %f (six decimals)")
	add("C16", "declaredFloatWidened", "Bool", wide, "ItemTypeFloat branch prints a float32 widened to float64 (rv.Float() / float64(v))")

	// --- nil guards
	for _, it := range []struct{ name, clause string }{{"nilGuardArray", "ItemTypeArray"}, {"nilGuardObject", "ItemTypeObject"}} {
		val := ""
		if cc := c16clause(sw, it.clause); cc != nil {
			if g, ok := c16nilGuarded(fn, sw, cc); ok {
				val = boolLit(g)
			}
		}
		add("C16", it.name, "Bool", val, it.clause+" branch: reflect.TypeOf(value).Kind() is protected against value == nil")
	}

	// --- the *Value shortcut
	vp := ""
	for _, s := range fn.Body.List {
		if s.Pos() >= sw.Pos() {
			break
		}
		ifs, ok := s.(*ast.IfStmt)
		if !ok || !strings.Contains(exprString(ifs.Cond), "ok") {
			continue
		}
		// only the shape `if vv == nil { return }` at the top of the shortcut is followed by the model
		guarded := false
		if len(ifs.Body.List) > 0 {
			if in, isIf := ifs.Body.List[0].(*ast.IfStmt); isIf && exprString(in.Cond) == "vv==nil" && c16terminates(in.Body) {
				if _, isRet := in.Body.List[len(in.Body.List)-1].(*ast.ReturnStmt); isRet {
					guarded = true
				}
			}
		}
		vp = boolLit(guarded)
	}
	add("C16", "nilGuardValuePtr", "Bool", vp, "the value.(*Value) shortcut of ValueFrom checks the pointer for nil before dereferencing it")
}
